package wit

// Witness: the bounding box of a font or of a set of metrics is accumulated over the glyphs; when
// a glyph's box contains NaN (the AFM reader accepts "NaN", and a charstring can compute 0/0)
// the result of rect.Extend depends on the order of the calls.  Accumulating in map iteration
// order made two writes of the same value differ within one process.

import (
	"bytes"
	"math"
	"strings"
	"testing"

	"seehuhn.de/go/postscript/afm"
	"seehuhn.de/go/postscript/type1"
)

const w17AFM = `StartFontMetrics 4.1
FontName Test
FullName Test Regular
StartCharMetrics 3
C 65 ; WX 500 ; N A ; B 10 0 400 700 ;
C 66 ; WX 500 ; N B ; B NaN 0 450 700 ;
C 67 ; WX 500 ; N C ; B 20 -10 420 710 ;
EndCharMetrics
EndFontMetrics
`

func TestNaNBoxMetricsWrittenTheSame(t *testing.T) {
	m, err := afm.Read(strings.NewReader(w17AFM))
	if err != nil {
		t.Skip("the reader rejects NaN:", err)
	}
	var first string
	for i := 0; i < 300; i++ {
		var buf bytes.Buffer
		if err := m.Write(&buf); err != nil {
			t.Fatal(err)
		}
		if i == 0 {
			first = buf.String()
		} else if buf.String() != first {
			t.Fatalf("two writes of the same metrics differ (write %d)", i)
		}
	}
}

func TestNaNOutlineFontBBoxTheSame(t *testing.T) {
	mk := func(x0 float64) *type1.Glyph {
		g := &type1.Glyph{WidthX: 500}
		g.MoveTo(x0, 0)
		g.LineTo(400, 0)
		g.LineTo(400, 700)
		g.ClosePath()
		return g
	}
	f := &type1.Font{Glyphs: map[string]*type1.Glyph{"A": mk(10), "B": mk(math.NaN()), "C": mk(20), "D": mk(30)}}
	same := func(a, b float64) bool { return a == b || (math.IsNaN(a) && math.IsNaN(b)) }
	b0 := f.FontBBox()
	for i := 0; i < 300; i++ {
		b := f.FontBBox()
		if !same(b.LLx, b0.LLx) || !same(b.URx, b0.URx) || !same(b.LLy, b0.LLy) || !same(b.URy, b0.URy) {
			t.Fatalf("FontBBox differs between two calls on the same font: %v vs %v", b0, b)
		}
	}
	f.FontInfo = &type1.FontInfo{FontMatrix: [6]float64{0.001, 0, 0, 0.001, 0, 0}}
	p0 := f.FontBBoxPDF()
	for i := 0; i < 300; i++ {
		p := f.FontBBoxPDF()
		if !same(p.LLx, p0.LLx) || !same(p.URx, p0.URx) || !same(p.LLy, p0.LLy) || !same(p.URy, p0.URy) {
			t.Fatalf("FontBBoxPDF differs between two calls on the same font: %v vs %v", p0, p)
		}
	}
}
