package wit

import (
	"bytes"
	"testing"

	"seehuhn.de/go/postscript/afm"
)

// White space inside the free-text header fields is part of their value.
func TestAFMTextFields(t *testing.T) {
	m := &afm.Metrics{
		Glyphs:   map[string]*afm.GlyphInfo{".notdef": {WidthX: 500}},
		Encoding: make([]string, 256),
		FontName: "Test",
		FullName: "Test  Sans Bold",
		Version:  "1.0  (beta)",
		Notice:   "(c) 2024  A.\tB.",
	}
	for i := range m.Encoding {
		m.Encoding[i] = ".notdef"
	}
	buf := &bytes.Buffer{}
	if err := m.Write(buf); err != nil {
		t.Fatal(err)
	}
	m2, err := afm.Read(bytes.NewReader(buf.Bytes()))
	if err != nil {
		t.Fatal(err)
	}
	if m2.FullName != m.FullName || m2.Version != m.Version || m2.Notice != m.Notice {
		t.Errorf("text fields changed: %q %q %q -> %q %q %q", m.FullName, m.Version, m.Notice, m2.FullName, m2.Version, m2.Notice)
	}
}
