package wit

import (
	"testing"

	"seehuhn.de/go/postscript"
)

// Tokens of regular characters that are not PostScript numbers are executable names, also when a
// general-purpose number parser would accept them (hexadecimal floats, digit separators).
func TestNumberLookalikeNames(t *testing.T) {
	for _, name := range []string{"0x1p4", "0X1P-2", "1_0", "1_000.5", "1e1_0"} {
		intp := postscript.NewInterpreter()
		err := intp.ExecuteString("/" + name + " {(called)} def " + name)
		if err != nil {
			t.Errorf("%s: %v", name, err)
			continue
		}
		if len(intp.Stack) != 1 {
			t.Errorf("%s: stack %v", name, intp.Stack)
			continue
		}
		if s, ok := intp.Stack[0].(postscript.String); !ok || string(s) != "called" {
			t.Errorf("%s was not read as an executable name: stack %v", name, intp.Stack)
		}
	}
}
