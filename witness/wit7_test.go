package wit

// Witnesses for the Type 1 reader fixes (flex, seac, lenIV, flex-end) and the nesting limit.

import (
	"bytes"
	"fmt"
	"strings"
	"testing"

	"seehuhn.de/go/postscript"
	"seehuhn.de/go/postscript/type1"
)

// ---- independent mini-writer ------------------------------------------

type w7cs struct {
	buf  []byte
	x, y int // current point
}

func (c *w7cs) num(x int) {
	switch {
	case x >= -107 && x <= 107:
		c.buf = append(c.buf, byte(x+139))
	case x >= 108 && x <= 1131:
		x -= 108
		c.buf = append(c.buf, byte(x/256+247), byte(x%256))
	case x >= -1131 && x <= -108:
		x = -x - 108
		c.buf = append(c.buf, byte(x/256+251), byte(x%256))
	default:
		c.buf = append(c.buf, 255, byte(x>>24), byte(x>>16), byte(x>>8), byte(x))
	}
}

func (c *w7cs) cmd(op []byte, args ...int) {
	for _, a := range args {
		c.num(a)
	}
	c.buf = append(c.buf, op...)
}

var (
	w7hsbw            = []byte{13}
	w7rmoveto         = []byte{21}
	w7rlineto         = []byte{5}
	w7rrcurveto       = []byte{8}
	w7closepath       = []byte{9}
	w7callsubr        = []byte{10}
	w7return          = []byte{11}
	w7endchar         = []byte{14}
	w7callothersubr   = []byte{12, 16}
	w7pop             = []byte{12, 17}
	w7setcurrentpoint = []byte{12, 33}
)

func (c *w7cs) hsbw(sbx, wx int) {
	c.cmd(w7hsbw, sbx, wx)
	c.x, c.y = sbx, 0
}
func (c *w7cs) moveTo(x, y int) {
	c.cmd(w7rmoveto, x-c.x, y-c.y)
	c.x, c.y = x, y
}
func (c *w7cs) lineTo(x, y int) {
	c.cmd(w7rlineto, x-c.x, y-c.y)
	c.x, c.y = x, y
}
func (c *w7cs) curveTo(x1, y1, x2, y2, x3, y3 int) {
	c.cmd(w7rrcurveto, x1-c.x, y1-c.y, x2-x1, y2-y1, x3-x2, y3-y2)
	c.x, c.y = x3, y3
}

// flex writes the two curves (current point)-p[0]-p[1]-p[2] and
// p[2]-p[3]-p[4]-p[5] as a flex sequence, see section 8.3 of the Type 1 book.
func (c *w7cs) flex(ref [2]int, p [6][2]int, depth int) {
	c.cmd(w7callsubr, 1)
	c.moveTo(ref[0], ref[1])
	c.cmd(w7callsubr, 2)
	for _, q := range p {
		c.moveTo(q[0], q[1])
		c.cmd(w7callsubr, 2)
	}
	c.cmd(w7callsubr, depth, p[5][0], p[5][1], 0)
}

func w7Encrypt(r uint16, iv, plain []byte) []byte {
	out := make([]byte, 0, len(iv)+len(plain))
	for _, p := range append(append([]byte{}, iv...), plain...) {
		c := p ^ byte(r>>8)
		r = (uint16(c)+r)*52845 + 22719
		out = append(out, c)
	}
	return out
}

func w7Font(glyphs map[string][]byte, order []string) []byte {
	return w7FontX(glyphs, order, "/Encoding StandardEncoding def", "")
}

func w7FontX(glyphs map[string][]byte, order []string, encoding, private string) []byte {
	// the four standard subroutines
	var subrs [4]w7cs
	subrs[0].cmd(w7callothersubr, 3, 0)
	subrs[0].cmd(w7pop)
	subrs[0].cmd(w7pop)
	subrs[0].cmd(w7setcurrentpoint)
	subrs[0].cmd(w7return)
	subrs[1].cmd(w7callothersubr, 0, 1)
	subrs[1].cmd(w7return)
	subrs[2].cmd(w7callothersubr, 0, 2)
	subrs[2].cmd(w7return)
	subrs[3].cmd(w7return)

	iv := []byte{0x51, 0x62, 0x73, 0x84}

	buf := &bytes.Buffer{}
	buf.WriteString(`%!PS-AdobeFont-1.0: Demo 001.000
10 dict begin
/FontInfo 8 dict dup begin
/version (001.000) def
/FullName (Demo) def
/FamilyName (Demo) def
/Weight (Regular) def
/ItalicAngle 0 def
/isFixedPitch false def
/UnderlinePosition -100 def
/UnderlineThickness 50 def
end def
/FontName /Demo def
`+encoding+`
/PaintType 0 def
/FontType 1 def
/FontMatrix [0.001 0 0 0.001 0 0] def
/FontBBox [0 0 1000 1000] def
currentdict end
dup /Private 10 dict dup begin
/RD {string currentfile exch readstring pop} executeonly def
/ND {noaccess def} executeonly def
/NP {noaccess put} executeonly def
/BlueValues [-10 0 700 710] def
/password 5839 def
/MinFeature {16 16} def
`+private+`
/Subrs 4 array
`)
	for i := range subrs {
		cipher := w7Encrypt(4330, iv, subrs[i].buf)
		fmt.Fprintf(buf, "dup %d %d RD ", i, len(cipher))
		buf.Write(cipher)
		buf.WriteString(" NP\n")
	}
	buf.WriteString("ND\n")
	fmt.Fprintf(buf, "2 index /CharStrings %d dict dup begin\n", len(glyphs))
	for _, name := range order {
		cipher := w7Encrypt(4330, iv, glyphs[name])
		fmt.Fprintf(buf, "/%s %d RD ", name, len(cipher))
		buf.Write(cipher)
		buf.WriteString(" ND\n")
	}
	buf.WriteString(`end
end
readonly put
put
dup /FontName get exch definefont pop
`)
	return buf.Bytes()
}


var w7seac = []byte{12, 6}

func w7count(g *type1.Glyph, op type1.GlyphOpType) int {
	n := 0
	for _, c := range g.Cmds {
		if c.Op == op {
			n++
		}
	}
	return n
}

func w7notdef() []byte {
	var c w7cs
	c.hsbw(0, 250)
	c.cmd(w7endchar)
	return c.buf
}

// add8ecd: flex inside an open contour must not leave a closepath behind
func TestFlexInsideContour(t *testing.T) {
	var one w7cs
	one.hsbw(0, 600)
	one.moveTo(100, 0)
	one.lineTo(200, 0)
	one.flex([2]int{300, 0}, [6][2]int{{240, 0}, {270, -10}, {300, -10}, {330, -10}, {360, 0}, {400, 0}}, 50)
	one.lineTo(400, 500)
	one.lineTo(100, 500)
	one.cmd(w7closepath)
	one.cmd(w7endchar)
	data := w7Font(map[string][]byte{".notdef": w7notdef(), "one": one.buf}, []string{".notdef", "one"})
	F, err := type1.Read(bytes.NewReader(data))
	if err != nil {
		t.Fatal(err)
	}
	g := F.Glyphs["one"]
	if n := w7count(g, type1.OpClosePath); n != 1 {
		t.Fatalf("%d closepath commands: %v", n, g.Cmds)
	}
	if n := w7count(g, type1.OpMoveTo); n != 1 {
		t.Fatalf("%d moveto commands: %v", n, g.Cmds)
	}
}

func w7seacFont(encoding string) []byte {
	var A w7cs
	A.hsbw(0, 600)
	A.moveTo(0, 0)
	A.lineTo(600, 0)
	A.lineTo(300, 700)
	A.cmd(w7closepath)
	A.cmd(w7endchar)
	var acute w7cs
	acute.hsbw(0, 300)
	acute.moveTo(100, 500)
	acute.lineTo(200, 600)
	acute.lineTo(100, 600)
	acute.cmd(w7closepath)
	acute.cmd(w7endchar)
	var comp w7cs
	comp.hsbw(0, 600)
	comp.cmd(w7seac, 0, 150, 200, 65, 194) // asb adx ady bchar achar: A and acute in StandardEncoding
	return w7FontX(map[string][]byte{".notdef": w7notdef(), "A": A.buf, "acute": acute.buf, "Aacute": comp.buf},
		[]string{".notdef", "A", "acute", "Aacute"}, encoding, "")
}

// aa53274: bchar/achar are StandardEncoding codes whatever the font's Encoding says
func TestSeacCustomEncoding(t *testing.T) {
	enc := "/Encoding 256 array 0 1 255 {1 index exch /.notdef put} for dup 65 /acute put dup 194 /A put def"
	F, err := type1.Read(bytes.NewReader(w7seacFont(enc)))
	if err != nil {
		t.Fatal(err)
	}
	g := F.Glyphs["Aacute"]
	if g == nil || len(g.Cmds) < 8 {
		t.Fatalf("composite glyph: %v", g)
	}
	// the base glyph comes first: A starts at (0,0), the accent is shifted by (150,200)
	if g.Cmds[0].Op != type1.OpMoveTo || g.Cmds[0].Args[0] != 0 || g.Cmds[0].Args[1] != 0 {
		t.Fatalf("base glyph is not A: %v", g.Cmds)
	}
	found := false
	for _, c := range g.Cmds {
		if c.Op == type1.OpMoveTo && c.Args[0] == 250 && c.Args[1] == 700 {
			found = true
		}
	}
	if !found {
		t.Fatalf("accent not translated by (adx - asb + sbx, ady): %v", g.Cmds)
	}
}

// 057d9c5: the contours of the accent stay closed
func TestSeacClosepath(t *testing.T) {
	F, err := type1.Read(bytes.NewReader(w7seacFont("/Encoding StandardEncoding def")))
	if err != nil {
		t.Fatal(err)
	}
	g := F.Glyphs["Aacute"]
	if g == nil || w7count(g, type1.OpClosePath) != 2 {
		t.Fatalf("composite glyph: %v", g)
	}
}

// e551656: a negative lenIV must not panic
func TestNegativeLenIV(t *testing.T) {
	data := w7FontX(map[string][]byte{".notdef": w7notdef()}, []string{".notdef"}, "/Encoding StandardEncoding def", "/lenIV -1000000000000000 def")
	_, err := type1.Read(bytes.NewReader(data))
	_ = err // an error is fine, a panic is not
}

// 97849d2: the flex-end othersubr without arguments must not panic
func TestFlexEndNoArgs(t *testing.T) {
	var g w7cs
	g.hsbw(0, 600)
	g.cmd(w7callothersubr, 0, 0)
	g.cmd(w7endchar)
	data := w7Font(map[string][]byte{".notdef": w7notdef(), "one": g.buf}, []string{".notdef", "one"})
	_, err := type1.Read(bytes.NewReader(data))
	_ = err
}

// e69297d: deeply nested procedure literals followed by bind
func TestDeepNesting(t *testing.T) {
	n := 3000000
	code := strings.Repeat("{", n) + strings.Repeat("}", n) + " bind pop"
	intp := postscript.NewInterpreter()
	intp.MaxOps = 1000
	err := intp.ExecuteString(code)
	if err == nil {
		t.Fatal("no error")
	}
	fmt.Fprintln(bytes.NewBuffer(nil), err)
}
