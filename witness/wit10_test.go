package wit

import (
	"fmt"
	"strings"
	"testing"
	"time"

	"seehuhn.de/go/postscript"
)

// A procedure that contains itself k times: bind must not take time that grows like k!.
func TestBindSelfReferences(t *testing.T) {
	const k = 11 // 11! = 39916800 orderings of the self-references
	var sb strings.Builder
	sb.WriteString("{")
	for i := 0; i < k; i++ {
		sb.WriteString(" 0")
	}
	sb.WriteString(" }")
	for i := 0; i < k; i++ {
		fmt.Fprintf(&sb, " dup dup %d exch put", i)
	}
	sb.WriteString(" bind pop")
	done := make(chan error, 1)
	go func() {
		intp := postscript.NewInterpreter()
		intp.MaxOps = 10000
		done <- intp.ExecuteString(sb.String())
	}()
	select {
	case err := <-done:
		if err != nil {
			t.Errorf("unexpected error %v", err)
		}
	case <-time.After(3 * time.Second):
		t.Errorf("bind of a procedure with %d references to itself did not finish within 3 s (the operation budget is 10000)", k)
	}
}
