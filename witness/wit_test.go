package wit

import (
	"bytes"
	"fmt"
	"reflect"
	"strings"
	"testing"

	"seehuhn.de/go/postscript"
	"seehuhn.de/go/postscript/afm"
	"seehuhn.de/go/postscript/type1"
	"seehuhn.de/go/postscript/type1/names"
)

func run(t *testing.T, code string) (*postscript.Interpreter, error) {
	t.Helper()
	intp := postscript.NewInterpreter()
	intp.MaxOps = 100000
	var err error
	func() {
		defer func() {
			if r := recover(); r != nil {
				err = fmt.Errorf("PANIC: %v", r)
			}
		}()
		err = intp.ExecuteString(code)
	}()
	return intp, err
}

func stackStr(intp *postscript.Interpreter) string {
	return fmt.Sprint(intp.Stack)
}

func TestCopyHuge(t *testing.T) {
	_, err := run(t, "1 2 9223372036854775807 copy")
	if err == nil || strings.HasPrefix(err.Error(), "PANIC") {
		t.Fatal(err)
	}
}
func TestPutintervalHuge(t *testing.T) {
	_, err := run(t, "(abc) 9223372036854775807 (x) putinterval")
	if err == nil || strings.HasPrefix(err.Error(), "PANIC") {
		t.Fatal(err)
	}
}
func TestTailLiteral(t *testing.T) {
	intp, err := run(t, "{ {1 2} } exec")
	if err != nil || len(intp.Stack) != 1 {
		t.Fatal(err, stackStr(intp))
	}
}
func TestRepeatExit(t *testing.T) {
	intp, err := run(t, "3 {1 exit} repeat")
	if err != nil || len(intp.Stack) != 1 {
		t.Fatal(err, stackStr(intp))
	}
}
func TestRepeatStop(t *testing.T) {
	intp, err := run(t, "3 {1 stop} repeat 7")
	if err != nil || len(intp.Stack) != 1 {
		t.Fatal(err, stackStr(intp))
	}
}
func TestSubOverflow(t *testing.T) {
	intp, err := run(t, "0 -9223372036854775808 sub")
	if err != nil {
		t.Fatal(err)
	}
	if _, ok := intp.Stack[0].(postscript.Real); !ok {
		t.Fatal(stackStr(intp))
	}
}
func TestGetintervalEnd(t *testing.T) {
	intp, err := run(t, "(abc) 3 0 getinterval")
	if err != nil {
		t.Fatal(err, stackStr(intp))
	}
}
func TestFindresourceType(t *testing.T) {
	_, err := run(t, "5 /Font findresource")
	if err == nil || !strings.HasPrefix(err.Error(), "typecheck") {
		t.Fatal(err)
	}
}
func TestAccessOpsArity(t *testing.T) {
	for _, op := range []string{"executeonly", "noaccess", "readonly"} {
		_, err := run(t, op)
		if err == nil || !strings.HasPrefix(err.Error(), "stackunderflow") {
			t.Error(op, err)
		}
	}
}
func TestType(t *testing.T) {
	intp, err := run(t, "1 type")
	if err != nil || len(intp.Stack) != 1 {
		t.Fatal(err, stackStr(intp))
	}
}
func TestPutStringRange(t *testing.T) {
	_, err := run(t, "(a) dup 0 300 put")
	if err == nil || !strings.HasPrefix(err.Error(), "rangecheck") {
		t.Fatal(err)
	}
}
func TestDepthGate(t *testing.T) {
	intp := postscript.NewInterpreter()
	intp.MaxOps = 3000000
	err := intp.ExecuteString("/f { f 1 } def f")
	if err == nil || !strings.HasPrefix(err.Error(), "execstackoverflow") {
		t.Fatal(err)
	}
}
func TestTailCallStillWorks(t *testing.T) {
	intp := postscript.NewInterpreter()
	intp.MaxOps = 3000000
	err := intp.ExecuteString("/n 0 def /f { /n n 1 add def n 1000 eq {stop} if f } def f")
	if err != nil {
		t.Fatal(err)
	}
}
func TestBudgetCount(t *testing.T) {
	intp := postscript.NewInterpreter()
	intp.MaxOps = 1000
	err := intp.ExecuteString("/f { {f} exec 1 pop } def f")
	if err != postscript.ErrExecutionLimitExceeded {
		t.Fatal(err)
	}
	if intp.NumOps > 1001 {
		t.Fatal(intp.NumOps)
	}
}
func TestForallDictOrder(t *testing.T) {
	var first string
	for i := 0; i < 20; i++ {
		intp, err := run(t, "<< /a 1 /b 2 /c 3 /d 4 /e 5 >> {pop} forall")
		if err != nil {
			t.Fatal(err)
		}
		s := stackStr(intp)
		if i == 0 {
			first = s
		} else if s != first {
			t.Fatal(first, s)
		}
	}
}
func TestGlyphlistMulti(t *testing.T) {
	rr := names.ToUnicode("dalethatafpatah", false)
	if !reflect.DeepEqual(rr, []rune{0x05D3, 0x05B2}) {
		t.Fatalf("%U", rr)
	}
}
func TestAfmVersionNotice(t *testing.T) {
	m := &afm.Metrics{Glyphs: map[string]*afm.GlyphInfo{"f": {WidthX: 100}}, Encoding: make([]string, 256), FontName: "X", FullName: "X Y", Version: "001.002", Notice: "Copyright (c) me"}
	for i := range m.Encoding {
		m.Encoding[i] = ".notdef"
	}
	var buf bytes.Buffer
	if err := m.Write(&buf); err != nil {
		t.Fatal(err)
	}
	m2, err := afm.Read(&buf)
	if err != nil {
		t.Fatal(err)
	}
	if m2.Version != m.Version || m2.Notice != m.Notice {
		t.Fatal(m2.Version, m2.Notice)
	}
}
func TestAfmLigOrder(t *testing.T) {
	m := &afm.Metrics{Glyphs: map[string]*afm.GlyphInfo{"f": {WidthX: 100, Ligatures: map[string]string{"a": "fa", "b": "fb", "c": "fc", "d": "fd", "e": "fe"}}}, Encoding: make([]string, 256), FontName: "X", FullName: "X Y"}
	var first string
	for i := 0; i < 30; i++ {
		var buf bytes.Buffer
		if err := m.Write(&buf); err != nil {
			t.Fatal(err)
		}
		if i == 0 {
			first = buf.String()
		} else if buf.String() != first {
			t.Fatal("nondeterministic")
		}
	}
}
func TestAfmGlyphList(t *testing.T) {
	m := &afm.Metrics{Glyphs: map[string]*afm.GlyphInfo{"f": {WidthX: 100}}}
	l := m.GlyphList()
	if len(l) != m.NumGlyphs() || l[0] != ".notdef" {
		t.Fatal(l, m.NumGlyphs())
	}
}

func mkFont() *type1.Font {
	f := &type1.Font{
		FontInfo: &type1.FontInfo{FontName: "Test", Version: "1.0", FontMatrix: [6]float64{0.001, 0, 0, 0.001, 0, 0}},
		Glyphs:   map[string]*type1.Glyph{},
		Private:  &type1.PrivateDict{BlueScale: 0.039625, BlueShift: 7, BlueFuzz: 1},
	}
	for _, n := range []string{".notdef", "A", "B"} {
		g := f.NewGlyph(n, 500)
		g.MoveTo(0, 0)
		g.LineTo(100, 0)
		g.LineTo(100, 100)
		g.ClosePath()
	}
	return f
}

func TestEncodingShortcut(t *testing.T) {
	f := mkFont()
	f.Encoding = make([]string, 256)
	for i := range f.Encoding {
		f.Encoding[i] = ".notdef"
	}
	f.Encoding[65] = "A" // B (66) deliberately unassigned
	var buf bytes.Buffer
	if err := f.Write(&buf, nil); err != nil {
		t.Fatal(err)
	}
	g, err := type1.Read(&buf)
	if err != nil {
		t.Fatal(err)
	}
	if g.Encoding[66] != ".notdef" || g.Encoding[65] != "A" {
		t.Fatal(g.Encoding[65], g.Encoding[66])
	}
}
func TestVersionInjection(t *testing.T) {
	f := mkFont()
	f.Version = "1.0\n/Injected 42 def"
	var buf bytes.Buffer
	if err := f.Write(&buf, &type1.WriterOptions{Format: type1.FormatNoEExec}); err != nil {
		t.Fatal(err)
	}
	intp := postscript.NewInterpreter()
	if err := intp.Execute(&buf); err != nil {
		t.Fatal(err)
	}
	if _, ok := intp.UserDict["Injected"]; ok {
		t.Fatal("injected")
	}
	f.Version = "1.0\n(unbalanced"
	buf.Reset()
	if err := f.Write(&buf, nil); err != nil {
		t.Fatal(err)
	}
	g, err := type1.Read(&buf)
	if err != nil {
		t.Fatal(err)
	}
	if g.Version != f.Version {
		t.Fatalf("%q", g.Version)
	}
}
