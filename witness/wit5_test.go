package wit

import (
	"testing"

	"seehuhn.de/go/postscript"
)

func TestMulOverflow(t *testing.T) {
	for _, code := range []string{"-1 -9223372036854775808 mul", "-9223372036854775808 -1 mul"} {
		intp, err := run(t, code)
		if err != nil {
			t.Fatal(err)
		}
		if r, ok := intp.Stack[0].(postscript.Real); !ok || r != 9223372036854775808.0 {
			t.Fatal(code, stackStr(intp))
		}
	}
}
