package wit

import (
	"testing"

	"seehuhn.de/go/postscript"
)

// cvx on an array: the executable array shares its value with the array (PLRM 3.3.1, 8.2 cvx).
func TestCvxShares(t *testing.T) {
	intp, err := run(t, "[1 2] dup cvx 0 9 put 0 get")
	if err != nil {
		t.Fatal(err)
	}
	if v, ok := intp.Stack[0].(postscript.Integer); !ok || v != 9 {
		t.Fatal(stackStr(intp))
	}
}
