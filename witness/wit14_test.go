package wit

import (
	"bytes"
	"testing"
	"time"

	"seehuhn.de/go/postscript/type1"
)

// The creation time survives writing and reading whatever its zone is called.
func TestCreationDateZones(t *testing.T) {
	zones := []*time.Location{
		time.UTC,
		time.FixedZone("CET", 3600),
		time.FixedZone("", 3600),         // no abbreviation
		time.FixedZone("", -5*3600-1800), // no abbreviation, half hour
		time.FixedZone("X", 7200),        // one letter
		time.FixedZone("LONGNAME", 7200), // more than five letters
		time.FixedZone("+03", 3*3600),    // numeric abbreviation, as in the tz database
	}
	data := w7Font(map[string][]byte{".notdef": w7notdef()}, []string{".notdef"})
	base, err := type1.Read(bytes.NewReader(data))
	if err != nil {
		t.Fatal(err)
	}
	for _, loc := range zones {
		f := *base
		f.CreationDate = time.Date(2021, 3, 4, 5, 6, 7, 0, loc)
		buf := &bytes.Buffer{}
		if err := f.Write(buf, nil); err != nil {
			t.Fatalf("%v: %v", loc, err)
		}
		g, err := type1.Read(bytes.NewReader(buf.Bytes()))
		if err != nil {
			t.Errorf("zone %q: read: %v", loc, err)
			continue
		}
		if !g.CreationDate.Equal(f.CreationDate) {
			t.Errorf("zone %q: creation time %v read back as %v", loc, f.CreationDate, g.CreationDate)
		}
	}
}
