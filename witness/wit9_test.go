package wit

import (
	"strings"
	"testing"

	"seehuhn.de/go/postscript"
)

func TestErrordictHandlerDirect(t *testing.T) {
	for _, src := range []string{
		"errordict /typecheck get exec",
		"errordict /stackunderflow get exec",
		"errordict /handleerror get exec",
		"errordict { exch pop exec } forall",
	} {
		func() {
			defer func() {
				if r := recover(); r != nil {
					t.Errorf("%q: panic %v", src, r)
				}
			}()
			intp := postscript.NewInterpreter()
			err := intp.Execute(strings.NewReader(src))
			t.Logf("%q: %v", src, err)
		}()
	}
}
