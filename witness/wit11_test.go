package wit

// Witness: the work done for one glyph must not grow like (calls per subroutine)^(nesting depth).

import (
	"bytes"
	"fmt"
	"testing"
	"time"

	"seehuhn.de/go/postscript/type1"
)

func w11Font(subrs [][]byte, glyphs map[string][]byte, order []string) []byte {
	iv := []byte{0x51, 0x62, 0x73, 0x84}
	buf := &bytes.Buffer{}
	buf.WriteString(`%!PS-AdobeFont-1.0: Demo 001.000
10 dict begin
/FontInfo 8 dict dup begin
/version (001.000) def
/FullName (Demo) def
/FamilyName (Demo) def
/Weight (Regular) def
/ItalicAngle 0 def
/isFixedPitch false def
/UnderlinePosition -100 def
/UnderlineThickness 50 def
end def
/FontName /Demo def
/Encoding StandardEncoding def
/PaintType 0 def
/FontType 1 def
/FontMatrix [0.001 0 0 0.001 0 0] def
/FontBBox [0 0 1000 1000] def
currentdict end
dup /Private 10 dict dup begin
/RD {string currentfile exch readstring pop} executeonly def
/ND {noaccess def} executeonly def
/NP {noaccess put} executeonly def
/BlueValues [-10 0 700 710] def
/password 5839 def
/MinFeature {16 16} def
`)
	fmt.Fprintf(buf, "/Subrs %d array\n", len(subrs))
	for i := range subrs {
		cipher := w7Encrypt(4330, iv, subrs[i])
		fmt.Fprintf(buf, "dup %d %d RD ", i, len(cipher))
		buf.Write(cipher)
		buf.WriteString(" NP\n")
	}
	buf.WriteString("ND\n")
	fmt.Fprintf(buf, "2 index /CharStrings %d dict dup begin\n", len(glyphs))
	for _, name := range order {
		cipher := w7Encrypt(4330, iv, glyphs[name])
		fmt.Fprintf(buf, "/%s %d RD ", name, len(cipher))
		buf.Write(cipher)
		buf.WriteString(" ND\n")
	}
	buf.WriteString(`end
end
readonly put
put
dup /FontName get exch definefont pop
`)
	return buf.Bytes()
}

// w11Bomb builds a font whose glyph A calls subroutine 4, which calls subroutine 5 fan times,
// which calls subroutine 6 fan times, … down to the given depth.
func w11Bomb(fan, depth int) []byte {
	var subrs [][]byte
	for i := 0; i < 4; i++ {
		var c w7cs
		c.cmd(w7return)
		subrs = append(subrs, c.buf)
	}
	for d := 0; d < depth; d++ {
		var c w7cs
		if d < depth-1 {
			for k := 0; k < fan; k++ {
				c.cmd(w7callsubr, 4+d+1)
			}
		}
		c.cmd(w7return)
		subrs = append(subrs, c.buf)
	}
	var a w7cs
	a.hsbw(0, 500)
	a.cmd(w7callsubr, 4)
	a.cmd(w7endchar)
	glyphs := map[string][]byte{".notdef": w7notdef(), "A": a.buf}
	return w11Font(subrs, glyphs, []string{".notdef", "A"})
}

func TestSubroutineFanOut(t *testing.T) {
	// calibration: a small instance must be read without complaint
	small := w11Bomb(2, 3)
	if _, err := type1.Read(bytes.NewReader(small)); err != nil {
		t.Fatalf("small font: %v", err)
	}
	// 12 calls per subroutine, 9 levels: 12^8 = 4.3e8 subroutine executions from a 1.3 kB font
	data := w11Bomb(12, 9)
	t.Logf("font size %d bytes", len(data))
	done := make(chan error, 1)
	go func() {
		_, err := type1.Read(bytes.NewReader(data))
		done <- err
	}()
	select {
	case err := <-done:
		t.Logf("result: %v", err)
	case <-time.After(4 * time.Second):
		t.Errorf("type1.Read of a %d byte font did not return within 4 s: the work for one glyph grows like fan^depth", len(data))
	}
}
