package wit

import (
	"strings"
	"testing"
	"testing/iotest"

	"seehuhn.de/go/postscript"
)

func TestLoneGreaterDataErr(t *testing.T) {
	for _, mk := range []func(string) error{
		func(s string) error { return postscript.NewInterpreter().Execute(strings.NewReader(s)) },
		func(s string) error {
			return postscript.NewInterpreter().Execute(iotest.DataErrReader(strings.NewReader(s)))
		},
	} {
		err := mk("1 > 2")
		if err == nil || !strings.HasPrefix(err.Error(), "syntaxerror") {
			t.Errorf("got %v", err)
		}
		err = mk("1 >")
		if err == nil || !strings.HasPrefix(err.Error(), "syntaxerror") {
			t.Errorf("lone > at end: got %v", err)
		}
	}
}
