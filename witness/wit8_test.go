package wit

import (
	"testing"

	"seehuhn.de/go/postscript"
)

// for: the control variable must not wrap around at the end of the integer range
func TestForNoWrap(t *testing.T) {
	for _, code := range []string{
		"0 9223372036854775806 1 9223372036854775807 {pop 1 add} for",
		"0 -9223372036854775807 -1 -9223372036854775808 {pop 1 add} for",
	} {
		intp := postscript.NewInterpreter()
		intp.MaxOps = 1000
		err := intp.ExecuteString(code)
		if err != nil {
			t.Fatal(code, err)
		}
		if v, ok := intp.Stack[0].(postscript.Integer); !ok || v != 2 {
			t.Fatal(code, stackStr(intp))
		}
	}
}
