package wit

import (
	"strings"
	"testing"

	"seehuhn.de/go/postscript"
)

// Found by worker A's concrete-cell evaluation of (*scanner).ReadString (rule LEX-RAWBYTES, known
// finding): after a CR inside a literal string the skip-LF flag is not cleared when the LF is
// skipped, so every LF that follows directly is dropped too.
func TestStringCRLFLF(t *testing.T) {
	for in, want := range map[string]string{
		"(a\r\n\nb)":   "a\n\nb",
		"(a\r\n\n\nb)": "a\n\n\nb",
		"(a\\\r\n\nb)": "a\nb",
	} {
		intp := postscript.NewInterpreter()
		if err := intp.Execute(strings.NewReader(in)); err != nil {
			t.Fatal(err)
		}
		if len(intp.Stack) != 1 {
			t.Fatalf("%q: stack %v", in, intp.Stack)
		}
		if got := string(intp.Stack[0].(postscript.String)); got != want {
			t.Errorf("%q read as %q, want %q", in, got, want)
		}
	}
}
