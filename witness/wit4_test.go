package wit

import (
	"strings"
	"testing"

	"seehuhn.de/go/postscript"
)

func TestReversedCodespace(t *testing.T) {
	src := `/CIDInit /ProcSet findresource begin 12 dict begin begincmap
/CMapName /X def
1 begincodespacerange <80> <00> endcodespacerange
endcmap CMapName currentdict /CMap defineresource pop end end`
	_, err := postscript.ReadCMap(strings.NewReader(src))
	if err == nil || !strings.HasPrefix(err.Error(), "rangecheck") {
		t.Fatal(err)
	}
}
