package wit

// Witness: a glyph whose charstring is shorter than four bytes is a glyph (with lenIV 0 or 1 a
// call of a subroutine that holds the whole outline takes two or three bytes).

import (
	"bytes"
	"fmt"
	"testing"

	"seehuhn.de/go/postscript/type1"
)

func w16Font(subrs [][]byte, glyphs map[string][]byte, order []string, lenIV int) []byte {
	iv := []byte{0x51, 0x62, 0x73, 0x84, 0x95, 0xa6}[:lenIV]
	buf := &bytes.Buffer{}
	buf.WriteString(`%!PS-AdobeFont-1.0: Demo 001.000
10 dict begin
/FontInfo 8 dict dup begin
/version (001.000) def
/FullName (Demo) def
/FamilyName (Demo) def
/Weight (Regular) def
/ItalicAngle 0 def
/isFixedPitch false def
/UnderlinePosition -100 def
/UnderlineThickness 50 def
end def
/FontName /Demo def
/Encoding StandardEncoding def
/PaintType 0 def
/FontType 1 def
/FontMatrix [0.001 0 0 0.001 0 0] def
/FontBBox [0 0 1000 1000] def
currentdict end
dup /Private 10 dict dup begin
/RD {string currentfile exch readstring pop} executeonly def
/ND {noaccess def} executeonly def
/NP {noaccess put} executeonly def
/BlueValues [-10 0 700 710] def
/password 5839 def
/MinFeature {16 16} def
`)
	fmt.Fprintf(buf, "/lenIV %d def\n", lenIV)
	fmt.Fprintf(buf, "/Subrs %d array\n", len(subrs))
	for i := range subrs {
		cipher := w7Encrypt(4330, iv, subrs[i])
		fmt.Fprintf(buf, "dup %d %d RD ", i, len(cipher))
		buf.Write(cipher)
		buf.WriteString(" NP\n")
	}
	buf.WriteString("ND\n")
	fmt.Fprintf(buf, "2 index /CharStrings %d dict dup begin\n", len(glyphs))
	for _, name := range order {
		cipher := w7Encrypt(4330, iv, glyphs[name])
		fmt.Fprintf(buf, "/%s %d RD ", name, len(cipher))
		buf.Write(cipher)
		buf.WriteString(" ND\n")
	}
	buf.WriteString(`end
end
readonly put
put
dup /FontName get exch definefont pop
`)
	return buf.Bytes()
}


func TestShortCharstrings(t *testing.T) {
	for _, lenIV := range []int{0, 1, 4} {
		var subrs [][]byte
		for i := 0; i < 4; i++ {
			var c w7cs
			c.cmd(w7return)
			subrs = append(subrs, c.buf)
		}
		var body w7cs
		body.hsbw(0, 500)
		body.moveTo(10, 10)
		body.lineTo(100, 10)
		body.lineTo(100, 100)
		body.cmd(w7closepath)
		body.cmd(w7endchar)
		subrs = append(subrs, body.buf)
		var a w7cs
		a.cmd(w7callsubr, 4) // two bytes
		glyphs := map[string][]byte{".notdef": w7notdef(), "A": a.buf}
		data := w16Font(subrs, glyphs, []string{".notdef", "A"}, lenIV)
		f, err := type1.Read(bytes.NewReader(data))
		if err != nil {
			t.Errorf("lenIV %d: %v", lenIV, err)
			continue
		}
		g := f.Glyphs["A"]
		if g == nil {
			t.Errorf("lenIV %d: the glyph A (charstring of %d bytes plus %d lead bytes) is missing from the font", lenIV, len(a.buf), lenIV)
			continue
		}
		if g.WidthX != 500 || len(g.Cmds) < 4 {
			t.Errorf("lenIV %d: glyph A read as %+v", lenIV, g)
		}
	}
}
