package wit

import (
	"bytes"
	"testing"

	"seehuhn.de/go/postscript/type1"
)

// A font that Write accepts can be read back: glyph names that would shadow the procedures and
// operators the font program uses inside the CharStrings dictionary must not slip through.
func TestGlyphNamesShadowingOperators(t *testing.T) {
	data := w7Font(map[string][]byte{".notdef": w7notdef()}, []string{".notdef"})
	base, err := type1.Read(bytes.NewReader(data))
	if err != nil {
		t.Fatal(err)
	}
	for _, name := range []string{"ND", "RD", "def", "pop", "exch", "end", "string", "currentfile", "readstring"} {
		f := *base
		f.Glyphs = map[string]*type1.Glyph{}
		for k, v := range base.Glyphs {
			f.Glyphs[k] = v
		}
		f.Glyphs[name] = base.Glyphs[".notdef"]
		f.Glyphs["zzz"] = base.Glyphs[".notdef"] // a glyph after the critical one
		buf := &bytes.Buffer{}
		if err := f.Write(buf, nil); err != nil {
			continue // refused: fine
		}
		g, err := type1.Read(bytes.NewReader(buf.Bytes()))
		if err != nil {
			t.Errorf("glyph %q: the written font cannot be read: %v", name, err)
			continue
		}
		if len(g.Glyphs) != len(f.Glyphs) {
			t.Errorf("glyph %q: %d glyphs written, %d read", name, len(f.Glyphs), len(g.Glyphs))
		}
	}
}
