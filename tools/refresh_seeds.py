#!/usr/bin/env python3
"""refresh_seeds.py -- re-runs all 20 checks against every stored seed (scratch copies) and
updates `reported_by` / `reported_by_own_property` in its meta.json.  Confirmation data is kept."""
import json, os, re, shutil, sys, tempfile, glob
from concurrent.futures import ThreadPoolExecutor
sys.path.insert(0, os.path.dirname(__file__))
from confirm_seed import sh, ENV, IDS

def one(meta_path):
    meta = json.load(open(meta_path))
    d = os.path.dirname(meta_path)
    tmp = tempfile.mkdtemp(prefix="rs-", dir="/tmp")
    try:
        sh("rsync -a --exclude .git /repo/ %s/" % tmp)
        rc, out = sh("git apply %s/patch.diff" % d, cwd=tmp, env=dict(ENV, GIT_CEILING_DIRECTORIES="/tmp"))
        if rc != 0:
            return meta["name"], None
        caught = {}
        env = dict(ENV, PSA_REPO=tmp)
        for pid in IDS:
            rc, out = sh(os.environ.get("PSA_BIN", "/verif/bin/psa") + " check %s --no-evidence" % pid, cwd="/verif", env=env)
            rules = sorted(set(re.findall(r"^\S*: ([A-Z0-9@-]+) \[", out, re.M)))
            if rc != 0 or rules:
                caught[pid] = rules or ["exit %d" % rc]
        meta["reported_by"] = caught
        meta["reported_by_own_property"] = meta["property"] in caught
        json.dump(meta, open(meta_path, "w"), indent=1, ensure_ascii=False)
        return meta["name"], caught
    finally:
        shutil.rmtree(tmp, ignore_errors=True)

if __name__ == "__main__":
    # optional arguments: names of stored changes (e.g. C02-z2) to refresh only those
    metas = sorted(glob.glob("/verif/seeded/*/meta.json"))
    if len(sys.argv) > 1:
        metas = [m for m in metas if os.path.basename(os.path.dirname(m)) in sys.argv[1:]]
    with ThreadPoolExecutor(max_workers=int(os.environ.get("JOBS","8"))) as ex:
        for name, caught in ex.map(one, metas):
            print(name, "DOES NOT APPLY" if caught is None else json.dumps(caught))
