#!/usr/bin/env python3
"""runon.py <name> [IDs...]  -- apply /verif/refactor/<name>/patch.diff or /verif/seeded/<name>/patch.diff
to a scratch copy of /repo's HEAD and run the given checks (default: the property in the name) on it.
Prints the violation lines of each check and its summary line.  Env: PSA_BIN (default /verif/bin/psa),
PSA_VERIF is passed through to the checker.  Use name HEAD to run on an unpatched copy."""
import os, re, shutil, sys, tempfile
sys.path.insert(0, os.path.dirname(os.path.abspath(__file__)))
from confirm_seed import sh, ENV, IDS

def main():
    name = sys.argv[1]
    ids = sys.argv[2:] or [name[:3]]
    if ids == ["all"]:
        ids = IDS
    patch = None
    for d in ("/verif/refactor/", "/verif/seeded/"):
        if os.path.exists(d + name + "/patch.diff"):
            patch = d + name + "/patch.diff"
    tmp = tempfile.mkdtemp(prefix="ro-", dir="/tmp")
    try:
        sh("rsync -a --exclude .git /repo/ %s/" % tmp)
        if name != "HEAD":
            if patch is None:
                print("no such patch", name); sys.exit(2)
            rc, out = sh("git apply %s" % patch, cwd=tmp, env=dict(ENV, GIT_CEILING_DIRECTORIES="/tmp"))
            if rc != 0:
                print("patch does not apply:", out); sys.exit(2)
        env = dict(ENV, PSA_REPO=tmp)
        for pid in ids:
            rc, out = sh(os.environ.get("PSA_BIN", "/verif/bin/psa") + " check %s --no-evidence" % pid, cwd=os.environ.get("PSA_VERIF", "/verif"), env=env)
            for l in out.splitlines():
                if re.match(r"^\S*: [A-Z0-9@-]+ \[", l) or l.startswith("psa:") or l.startswith("KNOWN"):
                    print(pid, l[:int(os.environ.get("WIDTH", "600"))])
    finally:
        shutil.rmtree(tmp, ignore_errors=True)
main()
