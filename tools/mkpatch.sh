#!/bin/bash
# usage: mkpatch.sh <out.diff> <file> <python-replace-old> <python-replace-new>
# creates a patch replacing exactly one occurrence of OLD by NEW in /repo/<file>
set -e
out=$1; file=$2; old=$3; new=$4
cd /repo
[ -z "$(git status --porcelain)" ] || { echo "repo not clean"; exit 2; }
python3 - "$file" "$old" "$new" <<'PY'
import sys
p,old,new=sys.argv[1:4]
old=old.encode().decode('unicode_escape'); new=new.encode().decode('unicode_escape')
s=open(p).read()
assert s.count(old)==1, "occurrences: %d"%s.count(old)
open(p,'w').write(s.replace(old,new))
PY
git diff > "$out"
git checkout -- .
echo "wrote $out"
