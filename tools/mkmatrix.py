#!/usr/bin/env python3
"""mkmatrix.py -- prints the detection matrix of DESIGN.md §12 from /verif/seeded/*/meta.json."""
import json, glob, os, re

def first_line(d):
    t = d.get("breaks") or ""
    if not t:
        p = os.path.join("/verif/seeded", d["name"], "notes.md")
        if os.path.exists(p):
            for l in open(p, errors="replace"):
                l = l.strip()
                if l and not l.startswith("#"):
                    t = l
                    break
    t = t.split("\n")[0].replace("|", "/")
    return t[:150]

def key(name):
    m = re.match(r"(C\d\d)-([a-z])(\d+)", name)
    if m:
        return (0, m.group(1), {"m": 0, "n": 1, "p": 2}.get(m.group(2), 3), int(m.group(3)))
    return (1, name, 0, 0)

rows = []
for m in glob.glob("/verif/seeded/*/meta.json"):
    d = json.load(open(m))
    if not d.get("confirmed"):
        continue
    rows.append(d)
rows.sort(key=lambda d: key(d["name"]))
print("| seed | property | own rules | also reported by | what it breaks |")
print("|---|---|---|---|---|")
for d in rows:
    rb = d.get("reported_by", {})
    own = "/".join(rb.get(d["property"], [])) or "**missed**"
    other = ", ".join("%s %s" % (p, "/".join(r)) for p, r in sorted(rb.items()) if p != d["property"]) or "—"
    print("| %s | %s | %s | %s | %s |" % (d["name"], d["property"], own, other, first_line(d)))
