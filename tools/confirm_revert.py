#!/usr/bin/env python3
"""confirm_revert.py <property> <commit> <witness-test-regexp>

Stores the reversal of a fix commit as a seeded change: /verif/seeded/fix-<commit>/patch.diff
re-introduces the defect.  Confirms in a scratch worktree that the suite passes with the reversal
and that the witness test (module /verif/witness) fails with it and passes without it, and records
which checks report it.
"""
import json, os, re, shutil, subprocess, sys, tempfile
sys.path.insert(0, os.path.dirname(__file__))
from confirm_seed import sh, ENV, IDS

def main():
    prop, commit, tests = sys.argv[1], sys.argv[2], sys.argv[3]
    repo = "/repo"
    name = "fix-" + commit
    wt = tempfile.mkdtemp(prefix="seed-", dir="/tmp"); os.rmdir(wt)
    wit = tempfile.mkdtemp(prefix="wit-", dir="/tmp")
    meta = {"name": name, "property": prop, "kind": "reverted fix", "fix_commit": commit,
            "base_commit": sh("git -C %s rev-parse --short HEAD" % repo)[1].strip(), "ran": []}
    try:
        rc, out = sh("git -C %s worktree add --detach %s HEAD" % (repo, wt)); assert rc == 0, out
        for f in os.listdir("/verif/witness"):
            shutil.copy(os.path.join("/verif/witness", f), wit)
        gm = open(os.path.join(wit, "go.mod")).read().replace("=> /repo", "=> " + wt)
        open(os.path.join(wit, "go.mod"), "w").write(gm)
        cmd = "go test -count=1 -timeout 300s -run '^(%s)$' ." % tests
        rc0, out0 = sh(cmd, cwd=wit, timeout=600)
        meta["ran"].append({"what": "witness %s on the unchanged tree" % tests, "expect": "pass", "exit": rc0})
        patch = sh("git -C %s diff %s %s^" % (repo, commit, commit))[1]
        os.makedirs("/verif/seeded/" + name, exist_ok=True)
        open("/verif/seeded/%s/patch.diff" % name, "w").write(patch)
        rc, out = sh("git apply /verif/seeded/%s/patch.diff" % name, cwd=wt)
        meta["applies"] = rc == 0
        assert rc == 0, out
        rcs, outs = sh("go build ./... && go test -vet=off -count=1 ./...", cwd=wt)
        meta["ran"].append({"what": "go build ./... && go test -vet=off -count=1 ./... with the reversal", "expect": "pass", "exit": rcs})
        rc1, out1 = sh(cmd, cwd=wit, timeout=900)
        meta["ran"].append({"what": "witness with the reversal", "expect": "fail", "exit": rc1, "tail": out1[-600:]})
        meta["confirmed"] = rc0 == 0 and rcs == 0 and rc1 != 0
        caught = {}
        env = dict(ENV, PSA_REPO=wt)
        for pid in IDS:
            rc, out = sh(os.environ.get("PSA_BIN", "/verif/bin/psa") + " check %s --no-evidence" % pid, cwd="/verif", env=env)
            rules = sorted(set(re.findall(r"^\S*: ([A-Z0-9@-]+) \[", out, re.M)))
            if rc != 0 or rules:
                caught[pid] = rules or ["exit %d" % rc]
        meta["reported_by"] = caught
        meta["reported_by_own_property"] = prop in caught
        meta["breaks"] = sh("git -C %s log -1 --format=%%s%%n%%b %s" % (repo, commit))[1].strip()
        meta["needs_to_manifest"] = "the witness test " + tests + " in /verif/witness"
        json.dump(meta, open("/verif/seeded/%s/meta.json" % name, "w"), indent=1, ensure_ascii=False)
        print(json.dumps({k: meta.get(k) for k in ("name", "confirmed", "reported_by")}))
    finally:
        sh("git -C %s worktree remove --force %s" % (repo, wt))
        shutil.rmtree(wt, ignore_errors=True); shutil.rmtree(wit, ignore_errors=True)

main()
