#!/usr/bin/env python3
"""Regenerates /verif/MANIFEST.json from the table below and validates it."""
import json, subprocess, sys, os

GOENV = "GOFLAGS=-mod=mod GOPROXY=off GOSUMDB=off GOTOOLCHAIN=local GOWORK=off"
NOTE_COMMON = ("Trusted base: go/packages + go/types + go/ssa of golang.org/x/tools v0.29.0, the Go 1.23.5 type checker, and the rule code in /verif/psa. "
               "Rules resolve functions, fields and constants through the type checker; an anchor that no longer resolves, a type error or an analyser panic makes the check fail (undecided => fail), "
               "so a large refactoring can raise an alarm although behaviour is preserved.")

claimed = {
 "C01": dict(
   text="Decides, for every function reachable (VTA call graph) from the reader entry points and every registered operator, that each instruction that can panic carries a discharged obligation: index/slice bounds (Go compiler prove pass, else the fact engine: dominating conditions, overflow-checked linear terms, memory epochs, induction variables, phi case splits, division and != facts, library contracts, Fourier-Motzkin over big rationals; else a reviewed entry whose required guard facts must still dominate the site), allocation sizes bounded, unchecked type assertions justified by content invariants, no nil-map write (boxed-Dict invariant), guarded nil dereferences, non-zero divisors, no explicit panic, no value-formatting of possibly cyclic operands; every call-graph cycle passes a checked gate and every loop is classified (range, counted, input-consuming, budgeted, or reviewed). Does not decide termination as such, total memory growth, nor standard-library internals.",
   technique="static analysis: per-instruction panic obligations over go/ssa discharged by the compiler's bounds-check log and a custom linear-arithmetic fact engine (Fourier-Motzkin), call-graph SCC gating, CFG loop classification",
   ref="DESIGN.md §5 C01",
   note=NOTE_COMMON + " Additional trusted base for C01: the Go compiler's prove pass, the library-contract table, and /verif/reviewed/C01.json (20 hand-reviewed obligations, each with its reason; an entry re-opens when a guard fact it requires no longer dominates the site). Assumes readers return 0 <= n <= len(p), make progress, and do not call back into the reader object that wraps them."),
 "C08": dict(
   text="Decides the framing, cipher and template-structure clauses of the Type 1 writer: PFB event sequence with little-endian lengths taken from the filled buffer; eexec and charstring encryption constants and ciphertext-feedback data flow; four lead bytes whose first cipher byte (evaluated as a constant) is neither white space nor hexadecimal; lead-byte search acceptance sets; no /lenIV; required dictionary keys; RD/ND/NP definitions before use; length-prefixed binary strings; eexec/closefile/trailer switching under one condition; explicit encoding lists every entry but .notdef; PDF lengths read from one byte counter at the right points; no narrowing below 32 bits on the way to the number encoder. Decodability by an independent implementation is not decided.",
   technique="static analysis: parsed font template (text/template/parse, not executed), AST event-sequence matching of the PFB branch, canonical symbolic terms for the ciphers, byte-domain evaluation, go/ssa dominance for the length counters",
   ref="DESIGN.md §5 C08"),
 "C09": dict(
   text="Decides key/field symmetry of the write→read round trip: template table (key → field → escape → condition) against reader table (key → accepted types → destination field); same font field on both sides; elision windows = reader defaults (BlueScale ±1e-6); date layout accepted by the reader with seconds and zone; writer string escaping ⊆ reader scanning over all 512 cases; decision table of the StandardEncoding shortcut; explicit encoding; escaping of every string in the template; position tracking of the path encoder. Equality of the fonts is not decided.",
   technique="static analysis: parsed template vs AST-extracted reader tables, decision-table extraction, byte-domain evaluation, AST def-use rule",
   ref="DESIGN.md §5 C09"),
 "C10": dict(
   text="Decides structural clauses of read→write→read closure: provenance of every data→Name conversion in the interpreter (regular characters or look-up only), exhaustive path-command switches and GlyphOp arities, escaping of every string field of the template, the complete list of rounding calls and of explicit panics reachable from the writers, default-elision windows, position tracking. Equality under tolerance and second-cycle idempotence are not decided.",
   technique="static analysis: go/ssa def-use classification of conversions, call-graph reachability for rounding/panic sites, parsed template",
   ref="DESIGN.md §5 C10"),
 "C15": dict(
   text="Decides the field- and keyword-symmetry clauses of the AFM round trip: fields stored by the reader = fields loaded by the writer and the query methods it calls; every data keyword the writer emits is handled by the reader, connected to the same field, with a numeric verb the reader's parser accepts; all format strings are constants; glyph lines are parsed key by key without layout filters and header lines by their first word. Equality of metrics and second-cycle idempotence are not decided.",
   technique="static analysis: go/ssa field store/load sets over the call graph, AST extraction of the writer's (keyword, verb, field) and the reader's (keyword, field, parser) tables and their comparison",
   ref="DESIGN.md §5 C15"),
 "C19": dict(
   text="Decides structural clauses of the query methods for both font and metrics types: NumGlyphs/GlyphList .notdef mirror, list names = keys of the glyph map (+ .notdef) only, order keys −1/code/256 with .notdef entries skipped; bounding boxes: guarded min/max updates on the right axis from the right end-point operands, per-point FontMatrix×1000 mapping in the PDF variant, zero rectangle for unknown glyphs; font boxes skip zero boxes and unite; the two PDF width computations use the same scale statements, ×1000 once, product with the advance width, fallbacks. Numerical agreement with an independent recomputation is not decided.",
   technique="static analysis: AST/type-info structural matching of sibling methods and of guarded-update idioms",
   ref="DESIGN.md §5 C19"),
 "C14": dict(
   text="Decides the state-machine and table clauses of the PFB decoder: the header guard evaluated for all 65,536 first-two-byte values accepts exactly 0x80 with type 1/2/3 and returns ErrInvalidPFB by identity otherwise; every value the state can take is a label of the state switch; little-endian length; read errors in text/binary states returned unconditionally, binary data via io.ReadFull, only the two-byte end marker tolerated as a short header; lower-case nibble encoder; in-place expansion from the back with the right nibble per parity; leftover state reads nothing; nil error only after the buffer-filling loop. Index bounds of the expansion are C01's obligations. Byte-exact output for every buffer pattern is not decided.",
   technique="static analysis: exhaustive evaluation of the header guard over its 2^16 domain, who-may-store on the state field vs switch labels, canonical symbolic terms, go/ssa def-use for error returns",
   ref="DESIGN.md §5 C14"),
 "C16": dict(
   text="Decides parser-shape-versus-data, table and grammar clauses of the glyph-name mapping: the embedded tables are parsed by the checker from /repo and must be takable by the repository's parsers as written (multi-code entries need a splitting parser; discarded errors only where the data proves them impossible); AGLFN ↔ glyph list agreement after the coded swaps, uniqueness, no table name of the algorithmic forms, injective compatibility expansions, fallback format; IsValid and the uni/u grammar guards (lengths, classes, surrogates, range) evaluated from the source over all bytes and boundary values; explicit upper-case hex classifiers; per-component scratch; dingbats table only on request. The exhaustive per-code-point statements themselves are not decided.",
   technique="static analysis: data files checked against parser shape extracted from the AST, byte/boundary-value evaluation of comparison-only predicates, AST scope rules",
   ref="DESIGN.md §5 C16"),
 "C07": dict(
   text="Decides the guard-table and sibling-agreement clauses of the CMap reader: the 17 CIDInit operators exist; every begin* demands an open block, one integer operand in [0,100] with the prescribed error names and sizes its scratch buffer with it; every end* takes 2 or 3 operands per entry below a computed base (stackunderflow if missing), asserts string sources, equal-length non-reversed bounds for all four range kinds, the destination class of its kind, all before the first store; appends copies into the table of its own kind after the loop, pops its operands and resets the scratch buffer; sibling operators are identical up to name/table/destination test; endcmap sorts all seven tables with the right comparator and stores them under CodeMap; usecmap records its operand. Does not decide equality of the tables with the file's entries as values.",
   technique="static analysis: go/ssa dominating-condition bounds and error-name classification per registered operator, sibling comparison of normalised operator bodies, comparator structure check",
   ref="DESIGN.md §5 C07"),
 "C06": dict(
   text="Decides the specification-table and shape clauses of the Type 1 reader: opcode constants, handler exhaustiveness with error default, per-command operand counts demanded before operands are read, stack clearing, operand→relative move/line/curve mapping of the eight path commands, flex protocol (reset, record, seven points, two curves from points 1..6, moves only record), callothersubr/pop argument transfer, callsubr index check and unconditional depth-limited frame push, charstring decryption key/data flow/lenIV skip and guard, defaults (BlueScale, BlueShift, BlueFuzz, lenIV, FontMatrix), seac through StandardEncoding with range checks, own copy of base commands, translation of every accent coordinate, exhaustive GlyphOp switches and literal arities, .notdef substitution, 0x80 container test. Does not decide equality of outlines/values with the described font nor the side-bearing points where readings of the book differ.",
   technique="static analysis: AST/type-info table extraction compared with Adobe Type 1 tables carried in the checker, canonical symbolic terms for the cipher, go/ssa dominance for range checks and aliasing",
   ref="DESIGN.md §5 C06"),
 "C20": dict(
   text="Decides the structural clauses of number fidelity: the integer encoder is evaluated from the source for every integer in [-70000,70000], all format boundaries, powers of two ±3 and the int32 extremes, and each output is decoded both by the Type 1 number grammar and by the repository's own decoder branches to the same integer, in the proper 1/2/2/5-byte format; decoder ranges 32–246/247–250/251–254/255 equal the book for all first bytes; fraction encoder: integer path, denominators exactly 1..107, int32 clamp, `p q div` order, returned p/q of the same p,q; decoder div operand order; no narrowing below 32 bits on the way to the encoder; position tracking adds exactly the returned deltas once per axis. The 1/214 bound and absence of drift as numbers are not decided.",
   technique="static analysis: abstract integer evaluation of encoder and decoder formulas extracted from the type-checked AST (sibling round trip + specification grammar), canonical symbolic terms, AST def-use rule for position tracking, SSA backward slice for narrowing",
   ref="DESIGN.md §5 C20"),
 "C04": dict(
   text="Decides table agreement of the tokenizer for all inputs: regular-character and white-space classes, the literal-string escape table, octal escapes, CR/LF normalisation flags, nesting of parentheses, hexadecimal and ASCII85 digit classes/values/radix/padding are evaluated for every byte value from the type-checked source and compared with the PLRM; writer ⊆ reader⁻¹ for String.PS over all 512 (byte, balance) cases; Name.PS uses the scanner's own classifier; number-capable tokens reach the number parser; CR LF is one line end in comments; DSC comments are appended only after an error-free run. Token-boundary behaviour and number syntax themselves are not decided.",
   technique="static analysis: exhaustive byte-domain evaluation of pure classifier code extracted from the type-checked AST, compared with specification tables and between reader and writer",
   ref="DESIGN.md §5 C04"),
 "C05": dict(
   text="Decides the table and shape clauses of eexec transparency for all inputs: cipher constants equal the Adobe values in both packages; the decryption step has the specified data flow with ciphertext feedback (canonical term comparison); the pre-ciphertext white-space set, the hex/binary detection set and the two hex de-armouring classifiers are evaluated over all 256 byte values and equal the specification; four lead bytes are discarded; the eexec operator pushes systemdict, refuses nesting, ends decryption and restores the dictionary stack to the captured length on every normal completion, maps exactly io.EOF to completion; readstring skips exactly one byte and reads from the current scanner. Does not decide equality of effects with the plaintext run nor peek/replay across refills.",
   technique="static analysis: go/types constants, canonical symbolic terms of straight-line cipher code, exhaustive byte-domain evaluation of comparison-only classifiers, go/ssa dominance rules for the operator",
   ref="DESIGN.md §5 C05"),
 "C12": dict(
   text="Decides only necessary conditions of delivery independence at the places where the library touches an io.Reader: byte counts of direct Reads are accounted before the error is acted on; refill reports no error while it delivered data and the first error is sticky; fixed-size reads use io.ReadFull; the seekable branch of the first-byte sniffer seeks back to the saved offset before every successful return and the buffered branch replays its bytes once; the per-run scanner is popped by a deferred function. Equality of results across delivery schedules and across split Execute calls is NOT decided (run-time state sequences).",
   technique="static analysis: go/ssa def-use and dominance rules at every io.Reader call site",
   ref="DESIGN.md §5 C12"),
 "C13": dict(
   text="Decides a structural necessary condition for every call site that can yield an I/O-derived error (direct io calls and, transitively, module functions returning such errors): the error is not discarded, has a propagating use, and after `err != nil` no path rejoins normal flow without returning it except on an io.EOF/ErrUnexpectedEOF edge; discarded scanner errors are admitted only under the sticky-error rule, which is checked; bufio.Scanner loops are followed by Err(); the token loop ends normally only on io.EOF; fonts/CMaps are registered only by definefont/defineresource/endcmap, last. Does not run fault injection.",
   technique="static analysis: interprocedural I/O-error taint over go/ssa (fixpoint on return values), per-call-site flow rule with EOF-edge exemption, who-may-write rules for the registration sites, parsed font template",
   ref="DESIGN.md §5 C13"),
 "C02": dict(
   text="Decides the table clauses of the data operators from the system-dictionary registry: all 63 operators bound, data entries typed, the 28 error names; PLRM operand count in the first stack-depth guard; every error exit named after the class of its controlling condition (stack depth, type test, operand range, size limit, failed look-up, dictionary-stack depth, missing mark); accepted-operand regions of get/put/getinterval/putinterval/index/copy equivalent to the PLRM region by mutual Fourier–Motzkin entailment with overflow side conditions, byte range of string put, non-negativity of sizes/counts; overflow predicates of add/sub/mul/abs true exactly on non-representable results over all boundary operand pairs; net stack effect on every normal return; composite operands moved not copied; dictionary eq/ne by identity with a checked probe protocol. The computed values themselves (sums, equality normalisation, contents) are not decided.",
   technique="static analysis: registry extraction from the type-checked AST, go/ssa dominance rules per operator, linear-arithmetic fact engine (Fourier–Motzkin) for operand regions and stack heights, abstract evaluation of comparison-only overflow predicates in wrapped 64-bit arithmetic, value-provenance tracing for sharing",
   ref="DESIGN.md §5 C02"),
 "C03": dict(
   text="Decides structural necessary conditions of the control-flow clauses on the SSA form: loop operators compare the body's result with the exit signal, leave the loop and return nil, propagate other errors; exit/stop are intercepted nowhere else and Execute maps them to invalidexit/nil; body elements (nested call and tail jump) are dispatched with execute=false and looked-up values with true; dispatch happens only outside an open procedure body; load/where scan the dictionary stack top-down, first hit wins; bind resolves through the same lookup; if/ifelse run exactly the prescribed operand on opposite edges of the boolean test; per-iteration pushes of for/forall/loop/repeat, repeat's trip count, for's termination predicate (decision table) and control-variable update. Does not decide values or iteration counts of nested programs.",
   technique="static analysis: go/ssa def-use and dominance rules per registered operator, phi-edge inspection of the dispatch loop, decision-table extraction of comparison-only predicates",
   ref="DESIGN.md §5 C03"),
 "C11": dict(
   text="Decides structural necessary conditions of the budget, limit and start-check clauses on the SSA form of the interpreter core: single-writer operation counter whose block every dispatch iteration passes; budget test equivalent to MaxOps>0 && NumOps>MaxOps returning the sentinel (decision table); MaxOps read nowhere else (non-interference); sentinel excluded from the error-handler dispatch (never past N+1); no path to a nested executeOne call avoids the execution-depth gate (path-sensitive CFG search); operand-stack, dict-stack, procedure-nesting and handler-nesting growth dominated by constant bounds; array/string/dict sizes bounded with limitcheck; the %! comparison dominates the token loop under CheckStart and the flag is cleared. Does not decide equality of the final state with an unbudgeted run nor exact counts.",
   technique="static analysis: go/ssa dominance and who-may-write rules, decision-table extraction of comparison-only guards, path-sensitive CFG reachability with branch/type-switch facts",
   ref="DESIGN.md §5 C11"),
 "C18": dict(
   text="Decides structural necessary conditions of isolation and race freedom: inventory of package-level variables; none assigned outside package initialisers; memory owned by package-level maps/slices/arrays never written through any alias and never escaping un-cloned into interfaces, instance state or exported results (interprocedural SSA value flow); shared struct types immutable after construction; every access to mutex-guarded fields under the lock (or all call sites hold it); maps published from the critical section complete before publication; no go/unsafe/atomic. Does not decide 'same results as sequential use'.",
   technique="static analysis: SSA value-flow (escape/write) tracking of package-level storage, lockset by dominance, who-may-write",
   ref="DESIGN.md §5 C18"),
 "C17": dict(
   text="Decides a structural necessary condition of determinism for all inputs: every range over a map in library code has an order-independent body or is guarded by len==1, every slice collected from a map is totally sorted before an order-dependent use, and no clock/random/pid/address source is called. Does not decide byte-equality of outputs as such.",
   technique="static analysis: AST+type-info classification of every map range and maps.Keys/Values use, SSA effect summaries of callees, positive/negative control package",
   ref="DESIGN.md §5 C17"),
}

# As-built supplements (rounds 2 and 3): what was added to each check and how it decides.
EVAL = "; decision-table evaluation of the go/ssa form (module helpers inlined, symbolic values and finite cells of the specification's partition; nothing of /repo is built or executed)"
SUPP = {
 "C01": " As built (rounds 2-3): lower bounds on the interpreter's stacks are established, not assumed (SLOT-INV: inductive over all writers; extent of a run by push/deferred-pop discipline and call-graph reachability), the scanner buffer's class invariant 0<=pos<=used<=len(buf) is verified at every return and call of its writers (CLASS-INV), the one reviewed field assumption has its stores checked (FIELD-INV), constant ranges of counters (loop-carried and unexported fields) are derived inductively; a self-recursion over objects the input builds needs a visited set and a bound on free nesting, a loop driven by a stack of pending work needs a step budget or a visited set (LOOP-BUDGET) - bounded depth alone leaves fan-out^depth work. Facts cross calls: results of helpers (bounded by the constants, parameters and receiver fields the helper compares with), what an error-returning validator has checked when its error is nil, entry facts of helpers that are only called directly.",
 "C02": " As built: operand counts decided by evaluating each operator with 0..k operands (stackunderflow below k, none at k, no panic); overflow of add/sub/mul/abs by evaluation on all boundary operand pairs; every error exit classified per incoming condition; every composite bound into the system dictionary freshly allocated per interpreter. Creating operators (matrix, array, string, dict, ], >>) place a composite allocated during the call; findresource decided over category x instance x key kind; where and the size operands of array/string/dict decided by evaluation.",
 "C03": " As built: the loop operators, the deferred-dispatch rule, name look-up over dictionary stacks of depth 1-4 and bind on a model procedure (operator name, operator token, shadowed name, undefined, nested and self-containing procedure) are decided by evaluation; the dictionary stack is written only by begin/end/eexec and eexec restores it however the section ends. if/ifelse decided by evaluation for both values of the operand and both outcomes of the run; bind also on shadowed, userdict-only and undefined operator tokens.",
 "C04": " As built: the scanner is evaluated on the SSA form over the PLRM's cells (all bytes, every escape, CR/LF/backslash sequences up to length 3, number spellings and number look-alikes, ASCII85 groups, DSC prologues under LF/CR/CRLF) with only the input source modelled; outcomes are compared with a reference reading carried in the checker.",
 "C05": " As built: the eexec operator is a decision table (start succeeds/fails x section ends with nil/EOF/error x dictionary stack left +1/0/-1); the cipher steps are compared as normal forms over Z/2^16 wherever the state field is updated; the key is reset to 55665 at every section start.",
 "C06": " As built: callsubr on the decoder machine with distinct subroutines (index range, return frames by induction over the depth, both representations of the frame stack); every Subrs entry becomes subroutine i = its decryption with the font's lenIV (T1-SUBRS); the lenIV look-up is among the value sources of every decryption call (T1-LENIV); no decryption behind a fixed length threshold (T1-LENGUARD). Stem commands append edges that are the sum of one side-bearing component of their own direction and their operands (T1-STEMS); the eexec section-start table (white space, hex detection, lead bytes) is a C06 obligation too.",
 "C07": " As built: error names resolved through constants or variables; comparators evaluated (cmp.Compare/cmp.Or inlined) as total orders. Only the key field of the two entries stands for the codes compared by a table's sort.",
 "C08": " As built: eexec writer stream (every byte of a Write reaches the output once, in order, for sizes around the buffer size), template data = font fields for generic and zero values (W-DATAFIELDS), every printed float parses back to itself (W-NUMEXACT), glyph names that the template executes inside CharStrings are refused by both writers (W-SHADOW), position tracking of the path encoder.",
 "C09": " As built: every element of the written date layout reads back what it prints (no zone abbreviation); template functions classified by evaluation on line ends, parentheses, % and blanks; closepath appends exactly one ClosePath under every decoder state; reader key table also from SSA value flow; exact number printing.",
 "C10": " As built: every string field written under a key the reader accepts is evaluated write->read over all bytes in five contexts (CL-STRINGS); no float32 or reduced-precision formatting on the write path (CL-ROUNDING); the fraction encoder is a projection (NUM-FRAC). The name serialiser is evaluated on multi-byte names: regularity is a property of bytes (LEX-NAME).",
 "C11": " As built: rules range over the interpreter core (executeOne and the functions on a static call cycle through it), so the counter, gate and stack test may live in any member; a successful step is counted and limited or only collects into an open procedure body (path rules L1-COUNTED, L4). Size bounds and their error names are followed through validators whose result is tested (L6-SIZE).",
 "C12": " As built: a module Read that is called once and trusted to fill the buffer must fill it whenever its error may be nil (DLV-FULLREAD); the sticky read error is consulted only after a short look-ahead.",
 "C13": " As built: no path on which an I/O error is never consulted reaches a nil return; every access to a scanner look-ahead result is covered by a length test (IO-SHORTPEEK); range-over-func bodies followed through their lowering.",
 "C14": " As built: control states found by role and derived by evaluation (header state, segment states, pending states); header/read-error/leftover/fill rules stated on those states and on evaluated cells; nibble encoder is whatever the binary state uses, checked on 0..15.",
 "C15": " As built: every writer line instantiated with representative values (three sign cells, symbolic numbers, free text with inner blanks and tabs, layout variants) must leave the value in the field it came from; nothing the writer emits is filtered by a condition on other data (AFM-COMPLETE); Write has no write effect on its receiver (AFM-READONLY). Tables of (label, destination) pairs in the reader are evaluated as values.",
 "C16": " As built: table parsers found by role and evaluated on every line of the files they open; IsValid/ToUnicode/FromUnicode grammar cells by evaluation; the two deliberate glyph-list fix-ups (Tcommaaccent, tcommaaccent) are recorded as known findings.",
 "C17": " As built: a sort is recognised by what is called and its comparison evaluated as a total order on the elements themselves; slices derived from an unordered slice inherit its obligation; no serialiser or query writes memory reachable from its receiver (DET-INPUT). Comparators bound to local names are resolved; `if c { A; continue }; B` is read as if/else.",
 "C18": " As built: sync.OnceValue/Once publication disciplines; no value of a mutex-carrying struct outside the memory it was constructed in; shallow clones of shared containers do not escape.",
 "C19": " As built: GlyphList/NumGlyphs evaluated on five model fonts x two map delivery orders; font bounding box stated as accumulator value after one iteration for the four cells (accumulator empty x glyph box zero), boxes from the variant's own function. Unknown glyph gives the zero rectangle in two worlds (no glyph present; only the asked one missing).",
 "C20": " As built: encoder and decoder evaluated on the SSA form (helpers inlined) against the number grammar; the tracked position is whatever state the encoder loop carries from one pass to the next (header values or cells), chosen once for all command kinds.",
}
for k in claimed:
    claimed[k]["text"] += SUPP.get(k, "")
    if "evaluation of the go/ssa form" not in claimed[k]["technique"]:
        claimed[k]["technique"] += EVAL
# Round 5 supplements.
R5 = {
 "C01": " Round 5: no == / != (or map key) on two interface values both of which can hold the same uncomparable dynamic type (PANIC-COMPARE: dynamic-type sets derived from where each operand is made); (value, ok) results as made maps; assertions established by a search predicate; budget and depth gates through helpers.",
 "C02": " Round 5: the operator registry is the set of bindings the dictionary holds when its construction is finished (read from the SSA form, open updates must be zero); putinterval, eq/ne by evaluation over cell tables.",
 "C03": " Round 5: the look-up table has three states per dictionary (absent, value, the nil Object): a look-up must test presence, not the value.",
 "C05": " Round 5: the scanner's buffer invariant 0<=pos<=used<=len(buf) at every function boundary (CLASS-INV) is verified under this property too: the replay of peeked bytes needs it across refills; readstring/eexec evaluated with two scanners on the stack.",
 "C06": " Round 5: closepath appends one ClosePath under every decoder state; a glyph copied from another glyph gets fresh storage for every slice field (T1-SHARECOPY); container detection evaluated for every first byte, seekable or not; look-ups in read-only tables are values.",
 "C07": " Round 5: nothing read from a candidate dictionary except CMapName reaches a branch in ReadCMap and its helpers: the first dictionary of the directory is returned whatever it contains (CMAP-CHOICE); the comparator's entries must belong to the list being sorted.",
 "C08": " Round 5: WritePDF evaluated with writers as objects (destination receives SectionA iv enc(SectionB) flush; result 1 counts SectionA, result 2 the rest); the eexec writer's four lead bytes and start state by evaluation; constant tables are values.",
 "C09": " Round 5: the StandardEncoding shortcut is decided by evaluating writeEncoding on the standard encoding changed at one code (24 cells).",
 "C11": " Round 5: no caller of a function whose error can be the budget error turns that error into success (L2-NOSWALLOW: the error value is followed over the caller's CFG, killed only where a branch shows it nil or another value; error filters and flags implied by the error are summarised from the callee); the counter may live in a helper every return of which has counted.",
 "C12": " Round 5: the start check is made once (flag cleared when it passed), same decision table as C11 L7-START: consecutive Execute calls then behave like one call on the concatenation.",
 "C13": " Round 5: results that announce an error (done, err) count as tests of it; errors handed to a helper that returns them are followed.",
 "C15": " Round 5: the values on a glyph's C line do not depend on state carried from one glyph to the next other than a plain counter (AFM-PERGLYPH); no string constant with a line end takes part in a value the reader stores into a text field (AFM-ONELINE).",
 "C17": " Round 5: memory owned by a package-level variable (or the value of a memoising function) is not written after initialisation and no un-cloned reference to it reaches a PostScript program (ISO-SHARED / ISO-GLOBALSTORE, same analysis as C18): reading the same bytes twice gives equal results only then; calls through an accumulator are order-free only if they commute.",
 "C18": " Round 5: nothing derived from an object taken from a sync.Pool is returned or stored outside the function that took it (ISO-POOL); closures over once-assigned reference-free variables are immutable values.",
 "C20": " Round 5: narrowing obligations are the places where an integer enters the encoder, through wrappers; a number decoder extracted into a helper is the same decoder.",
}
for k in claimed:
    claimed[k]["text"] += R5.get(k, "")
# Round 7 supplements.
R7 = {
 "C02": " Round 7: array/string `copy` pushes the initial part of the destination that was overwritten (dst[:n], n the result of the copy or len(src)), never the whole destination (OP-COPYEXTENT, on the SSA form of the registered operator).",
 "C20": " Round 7: the candidates of the fraction search are ranked by the error of the value written, |p/q - x|: the term handed to math.Abs is evaluated at sample points for every denominator and compared with |round(x*q)/q - x| (NUM-FRAC); a ranking by the error of the numerator prefers small denominators and breaks the 1/214 bound.",
 "C10": " Round 7: the ranking clause of NUM-FRAC (see C20) is checked under this property too.",
}
for k in claimed:
    claimed[k]["text"] += R7.get(k, "")
# Round 6: limits of the approach, stated where a reader of the manifest sees them.
R6 = " Limits: the check is silent on the unchanged tree and on the 680 stored behaviour-preserving patches (three documented exceptions, DESIGN §12); on a previously unseen combined restructuring of the anchored code about half of the commits raised a (diagnosable) false alarm when first run (rounds 5 and 6), on a single-step clean-up about 8% (round 4)."
for k in claimed:
    claimed[k]["note"] = claimed[k].get("note", NOTE_COMMON) + R6
claimed["C01"]["note"] = claimed["C01"]["note"].replace("(20 hand-reviewed obligations,", "(9 hand-reviewed obligations,") + " Reviewed assumptions (instance separation of a reader and its source; pfbReader.len >= 0 with its stores checked) are in /verif/reviewed/assumptions.json and listed in the evidence when used. Unexported anchors that were renamed are resolved by shape against /verif/anchors.json (evidence: anchors_resolved_by_shape)."

NA = {}
na_reason = "not yet claimed: the rule family for this property is designed in DESIGN.md §5 but not built; static analysis decides only structural clauses of it"

props = [json.loads(l) for l in open('/verif/properties.jsonl')]
checks = []
na = []
for p in props:
    pid = p['id']
    if pid in claimed:
        c = claimed[pid]
        checks.append({
            "property_id": pid,
            "quick_cmd": "bin/psa check %s --tier quick" % pid,
            "thorough_cmd": "bin/psa check %s --tier thorough" % pid,
            "evidence_file": "/verif/evidence/%s.json" % pid,
            "replay_cmd_template": "bin/psa replay {path}",
            "engine": "psa",
            "level_claimed": {"category": "other", "text": c['text'], "design_ref": c['ref']},
            "level_note": c.get('note', NOTE_COMMON),
            "technique": c['technique'],
        })
    else:
        na.append({"property_id": pid, "reason": NA.get(pid, na_reason) if 'NA' in globals() else na_reason})

m = {
 "version": 1,
 "setup_cmd": "cd /verif/psa && env %s go build -o /verif/bin/psa ." % GOENV,
 "hooks": {
   "guard": "verif",
   "enable": "none needed: the checks are static analyses of the source as it is; no hook or instrumentation is compiled into /repo",
   "baseline_off_cmd": "cd /repo && env %s go build ./... && env %s go test -vet=off -count=1 ./..." % (GOENV, GOENV),
   "source_commits": [],
   "add_only": True,
 },
 "engines": [{"name": "psa", "path": "/verif/psa", "serves_properties": sorted(claimed), "kind_free_text": "custom static analyser (go/packages, go/types, go/ssa, go/cfg-style dominance) specific to seehuhn/go-postscript"}],
 "checks": checks,
 "not_applicable": na,
 "notes": "All claims are at level `other`: each check decides a structural necessary condition of its property from the source of /repo's working tree (no repository code is executed) and says which clause it decides and which it does not. Genuine defects found while building were repaired by `fix:` commits in /repo; they are listed under `fixed` in /verif/known_findings.json (39 entries). Two deliberate deviations of the glyph-name table from the Adobe glyph list are recorded there as known findings of C16 (the check prints KNOWN-FINDING lines and exits 0). Stored corpora: /verif/seeded (property-breaking changes, run by the thorough tier's self-test) and /verif/refactor (behaviour-preserving changes, run by tools/corpus.py).",
}
json.dump(m, open('/verif/MANIFEST.json', 'w'), indent=1)
print("claimed:", sorted(claimed), "n/a:", len(na))
