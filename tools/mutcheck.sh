#!/bin/bash
# usage: mutcheck.sh <patch-file | -R:<commit>> <ID> [more IDs...]
# applies the change to /repo's working tree, runs the quick checks, restores the tree.
set -u
what=$1; shift
cd /repo || exit 2
if [ -n "$(git status --porcelain)" ]; then echo "repo not clean"; exit 2; fi
case "$what" in
  -R:*) git show "${what#-R:}" | git apply -R - || { echo "cannot revert"; exit 2; } ;;
  *) git apply "$what" || { echo "cannot apply"; exit 2; } ;;
esac
export GOFLAGS=-mod=mod GOPROXY=off GOSUMDB=off GOTOOLCHAIN=local
go build ./... || echo "BUILD FAILS"
for id in "$@"; do
  (cd /verif && ./bin/psa check $id --no-evidence 2>&1 | grep -v "^VIOLATION" | tail -6)
done
git checkout -- . && git clean -fdq
