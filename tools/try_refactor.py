#!/usr/bin/env python3
"""try_refactor.py <dir-with-patch.diff> <name>

Applies a behaviour-preserving patch to a scratch copy of /repo's HEAD, confirms that it builds
and passes the suite, runs all 20 quick checks on the copy and prints which of them raise an
alarm (each one is a false alarm to be corrected, unless the patch turns out not to be
behaviour-preserving)."""
import json, os, re, shutil, subprocess, sys, tempfile
sys.path.insert(0, os.path.dirname(__file__))
from confirm_seed import sh, ENV, IDS

def main():
    src, name = sys.argv[1], sys.argv[2]
    ids = sys.argv[3:] or IDS
    tmp = tempfile.mkdtemp(prefix="rf-", dir="/tmp")
    try:
        rc, out = sh("rsync -a --exclude .git /repo/ %s/" % tmp); assert rc == 0, out
        rc, out = sh("git apply %s" % os.path.join(os.path.abspath(src), "patch.diff"), cwd=tmp, env=dict(ENV, GIT_CEILING_DIRECTORIES="/tmp"))
        if rc != 0:
            print(json.dumps({"name": name, "applies": False, "why": out[-200:]})); return
        rc, out = sh("go build ./... && go test -vet=off -count=1 ./...", cwd=tmp)
        if rc != 0:
            print(json.dumps({"name": name, "applies": True, "suite": "FAIL", "why": out[-300:]})); return
        alarms = {}
        env = dict(ENV, PSA_REPO=tmp)
        for pid in ids:
            rc, out = sh(os.environ.get("PSA_BIN", "/verif/bin/psa") + " check %s --no-evidence" % pid, cwd="/verif", env=env)
            if rc != 0:
                lines = [l[:300] for l in out.splitlines() if re.match(r"^\S*: [A-Z0-9@-]+ \[", l)]
                alarms[pid] = lines or ["exit %d: %s" % (rc, out[-300:])]
        print(json.dumps({"name": name, "applies": True, "suite": "ok", "alarms": alarms}, ensure_ascii=False))
    finally:
        shutil.rmtree(tmp, ignore_errors=True)

main()
