#!/usr/bin/env python3
"""confirm_seed.py <src-dir> <property-id> <name> [--repo /repo]

Confirms one seeded change (patch.diff + demo *_test.go + notes.md in <src-dir>) in a scratch git
worktree of the repository's HEAD and stores it under /verif/seeded/<name>/ with a meta.json that
records what was run and which checks report it.  Nothing is written to /repo's working tree.
"""
import json, os, re, shutil, subprocess, sys, tempfile

ENV = dict(os.environ, GOFLAGS="-mod=mod", GOPROXY="off", GOSUMDB="off", GOTOOLCHAIN="local", GOWORK="off")
PKGDIR = {"postscript": ".", "type1": "type1", "names": "type1/names", "afm": "afm", "pfb": "pfb", "psenc": "psenc", "funit": "funit", "cid": "cid"}
IDS = ["C%02d" % i for i in range(1, 21)]


def sh(cmd, cwd=None, timeout=900, env=ENV):
    try:
        p = subprocess.run(cmd, shell=True, cwd=cwd, env=env, stdout=subprocess.PIPE, stderr=subprocess.STDOUT, timeout=timeout, text=True, errors="replace")
        return p.returncode, p.stdout
    except subprocess.TimeoutExpired as e:
        return 124, (e.stdout or "") + "\nTIMEOUT"


def main():
    src, prop, name = sys.argv[1], sys.argv[2], sys.argv[3]
    repo = "/repo"
    wt = tempfile.mkdtemp(prefix="seed-", dir="/tmp")
    os.rmdir(wt)
    meta = {"demo_flags": "-race" if "--race" in sys.argv else "", "name": name, "property": prop, "base_commit": sh("git -C %s rev-parse --short HEAD" % repo)[1].strip(), "ran": []}
    try:
        rc, out = sh("git -C %s worktree add --detach %s HEAD" % (repo, wt))
        assert rc == 0, out
        demos = []
        for f in sorted(os.listdir(src)):
            if f.endswith("_test.go"):
                txt = open(os.path.join(src, f)).read()
                pkg = re.search(r"^package (\w+)", txt, re.M).group(1)
                d = PKGDIR[pkg[:-5] if pkg.endswith("_test") else pkg]
                tests = re.findall(r"^func (Test\w+)\(", txt, re.M)
                demos.append((f, d, tests))
        assert demos, "no demo"

        def run_demo():
            res = []
            for f, d, tests in demos:
                dst = os.path.join(wt, d, "zz_seed_" + f)
                shutil.copy(os.path.join(src, f), dst)
                rc, out = sh("go test -vet=off -count=1 " + ("-race " if "--race" in sys.argv else "") + "-timeout 120s -run '^(%s)$' ." % "|".join(tests), cwd=os.path.join(wt, d), timeout=400)
                os.remove(dst)
                res.append((f, d, rc, out[-1500:]))
            return res

        # 1. demo without the change
        r0 = run_demo()
        meta["ran"].append({"what": "demo on the unchanged tree", "expect": "pass", "results": [{"file": f, "dir": d, "exit": rc} for f, d, rc, _ in r0]})
        ok_without = all(rc == 0 for _, _, rc, _ in r0)
        # 2. apply
        rc, out = sh("git apply %s" % os.path.join(os.path.abspath(src), "patch.diff"), cwd=wt)
        meta["applies"] = rc == 0
        if rc != 0:
            meta["confirmed"] = False
            meta["why"] = "patch does not apply to HEAD: " + out[-300:]
            return finish(meta, src, name, False)
        rc, out = sh("go build ./... && go test -vet=off -count=1 ./...", cwd=wt)
        meta["ran"].append({"what": "go build ./... && go test -vet=off -count=1 ./... with the change", "expect": "pass", "exit": rc})
        ok_suite = rc == 0
        r1 = run_demo()
        meta["ran"].append({"what": "demo with the change", "expect": "fail", "results": [{"file": f, "dir": d, "exit": rc, "tail": out[-600:]} for f, d, rc, out in r1]})
        ok_with = any(rc != 0 for _, _, rc, _ in r1)
        meta["confirmed"] = bool(ok_without and ok_suite and ok_with)
        # 3. which checks report it
        caught = {}
        env = dict(ENV, PSA_REPO=wt)
        for pid in IDS:
            rc, out = sh(os.environ.get("PSA_BIN", "/verif/bin/psa") + " check %s --no-evidence" % pid, cwd="/verif", env=env)
            rules = sorted(set(re.findall(r"^\S*: ([A-Z0-9@-]+) \[", out, re.M)))
            if rc != 0 or rules:
                caught[pid] = rules or ["exit %d" % rc]
        meta["reported_by"] = caught
        meta["reported_by_own_property"] = prop in caught
        return finish(meta, src, name, meta["confirmed"])
    finally:
        sh("git -C %s worktree remove --force %s" % (repo, wt))
        shutil.rmtree(wt, ignore_errors=True)


def finish(meta, src, name, keep):
    notes = os.path.join(src, "notes.md")
    if os.path.exists(notes):
        txt = open(notes).read()
        m = re.search(r"^##[^\n]*(?:needed|needs|manifest)[^\n]*\n(.*?)(?=^## |\Z)", txt, re.M | re.S | re.I)
        meta["needs_to_manifest"] = (m.group(1).strip() if m else "")[:1500]
        m = re.search(r"^##[^\n]*(?:clause|broken)[^\n]*\n(.*?)(?=^## |\Z)", txt, re.M | re.S | re.I)
        meta["breaks"] = (m.group(1).strip() if m else "")[:1500]
    dst = os.path.join("/verif/seeded", name)
    if keep:
        os.makedirs(dst, exist_ok=True)
        for f in os.listdir(src):
            if f == "patch.diff" or f == "notes.md" or f.endswith(".go"):
                shutil.copy(os.path.join(src, f), os.path.join(dst, f + (".txt" if f.endswith(".go") else "")))
        json.dump(meta, open(os.path.join(dst, "meta.json"), "w"), indent=1, ensure_ascii=False)
    print(json.dumps({k: meta.get(k) for k in ("name", "confirmed", "applies", "reported_by", "why")}, ensure_ascii=False))
    return 0


if __name__ == "__main__":
    sys.exit(main())
