#!/bin/bash
# usage: mutviol.sh <patch | -R:commit> <ID>  -- prints only the violation lines (no VIOLATION lines) and summary
set -u
what=$1; id=$2
cd /repo || exit 2
if [ -n "$(git status --porcelain)" ]; then echo "repo not clean"; exit 2; fi
case "$what" in
  -R:*) git show "${what#-R:}" | git apply -R - || { echo "cannot revert"; exit 2; } ;;
  *) git apply "$what" || { echo "cannot apply"; exit 2; } ;;
esac
export GOFLAGS=-mod=mod GOPROXY=off GOSUMDB=off GOTOOLCHAIN=local
go build ./... || echo "BUILD FAILS"
(cd /verif && ./bin/psa check $id --no-evidence 2>&1 | grep -v "^VIOLATION" | cut -c1-${CUT:-260})
git checkout -- . && git clean -fdq
