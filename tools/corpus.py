#!/usr/bin/env python3
"""corpus.py [IDs...]  -- regression harness for the checker itself.

For the given property IDs (default all): every behaviour-preserving patch in /verif/refactor must
leave the check silent, every confirmed seed in /verif/seeded recorded for the ID must be reported.
Scratch copies are made under /tmp and removed.  Prints one line per deviation and a summary."""
import json, os, re, shutil, subprocess, sys, tempfile, glob
from concurrent.futures import ThreadPoolExecutor
sys.path.insert(0, os.path.dirname(__file__))
from confirm_seed import sh, ENV, IDS

def prepare(patch):
    tmp = tempfile.mkdtemp(prefix="corp-", dir="/tmp")
    rc, out = sh("rsync -a --exclude .git /repo/ %s/" % tmp)
    rc, out = sh("git apply %s" % patch, cwd=tmp, env=dict(ENV, GIT_CEILING_DIRECTORIES="/tmp"))
    if rc != 0:
        shutil.rmtree(tmp, ignore_errors=True)
        return None
    return tmp

def run(kind, name, patch, ids, expect):
    tmp = prepare(patch)
    if tmp is None:
        return [(kind, name, "-", "SKIP (does not apply)")]
    res = []
    try:
        env = dict(ENV, PSA_REPO=tmp)
        for pid in ids:
            rc, out = sh(os.environ.get("PSA_BIN", "/verif/bin/psa") + " check %s --no-evidence" % pid, cwd="/verif", env=env)
            rules = sorted(set(re.findall(r"^\S*: ([A-Z0-9@-]+) \[", out, re.M)))
            if kind == "refactor" and rc != 0:
                lines = [l[:260] for l in out.splitlines() if re.match(r"^\S*: [A-Z0-9@-]+ \[", l)]
                res.append((kind, name, pid, "FALSE ALARM " + " || ".join(lines[:4])))
            if kind == "seed":
                want = expect.get(pid, [])
                if rc == 0:
                    res.append((kind, name, pid, "MISSED (expected %s)" % want))
    finally:
        shutil.rmtree(tmp, ignore_errors=True)
    return res

def main():
    ids = [a for a in sys.argv[1:] if re.match(r"C\d\d$", a)] or IDS
    only = [a for a in sys.argv[1:] if not re.match(r"C\d\d$", a)]
    jobs = []
    for d in sorted(glob.glob("/verif/refactor/*")):
        n = os.path.basename(d)
        if only and not any(o in n for o in only):
            continue
        jobs.append(("refactor", n, d + "/patch.diff", ids, {}))
    for m in sorted(glob.glob("/verif/seeded/*/meta.json")):
        meta = json.load(open(m))
        if not meta.get("confirmed"):
            continue
        n = meta["name"]
        if only and not any(o in n for o in only):
            continue
        mine = [p for p in ids if p in meta.get("reported_by", {})]
        if mine:
            jobs.append(("seed", n, os.path.dirname(m) + "/patch.diff", mine, meta["reported_by"]))
    bad = 0
    with ThreadPoolExecutor(max_workers=int(os.environ.get("JOBS","8"))) as ex:
        for res in ex.map(lambda j: run(*j), jobs):
            for r in res:
                bad += 1
                print(*r)
    print("corpus: %d jobs, %d deviations" % (len(jobs), bad))

main()
