package main

import (
	"fmt"
	"go/constant"
	"go/token"
	"go/types"
	"sort"
	"strconv"
	"strings"
	"text/template/parse"

	"golang.org/x/tools/go/ssa"
)

// Additions to the SSA evaluator that several writer-side rules (C08/C09) share: library
// equivalents of hand-written byte shuffling, zeroed `make` storage, and a model of string
// building (strings.Builder / bytes.Buffer / fmt / strconv) over known pieces.

// zeroMakeslice: `make([]T, k)` with constant k is `new [k]T (makeslice)` + slice in go/ssa; the
// storage is zeroed, which nothing stores explicitly.
func (e *ssaEval) zeroMakeslice(x *ssa.Alloc, key string) {
	if x.Comment != "makeslice" && !e.arrays {
		return
	}
	zero, n, ok := zeroOfArray(x)
	if !ok || n > 64 {
		return // small scratch storage only (lead bytes, headers); big buffers stay symbolic
	}
	if e.mem == nil {
		e.mem = map[string]sv{}
	}
	for i := int64(0); i < n; i++ {
		e.mem[fmt.Sprintf("%s[%d]", key, i)] = zero
	}
}

// loadArray (arrays mode): the load of a whole small array whose elements are modelled cells is
// the list of their values (a copy: an array is a value).
func (e *ssaEval) loadArray(ld *ssa.UnOp, a sv) (sv, bool) {
	if !e.arrays {
		return sv{}, false
	}
	at, ok := ld.Type().Underlying().(*types.Array)
	if !ok || at.Len() > 64 {
		return sv{}, false
	}
	el := make([]sv, at.Len())
	for i := range el {
		v, ok := e.mem[fmt.Sprintf("%s[%d]", a.s, i)]
		if !ok {
			// an element that is a struct whose fields were stored one by one (ext_w2.go)
			v, ok = e.structValueW2(fmt.Sprintf("%s[%d]", a.s, i), at.Elem())
		}
		if !ok {
			return sv{}, false
		}
		el[i] = v
	}
	return e.newList(el), true
}

// storeArray (arrays mode): storing an array value with known elements sets the element cells.
func (e *ssaEval) storeArray(st *ssa.Store, a, v sv) bool {
	if !e.arrays || v.k != svList {
		return false
	}
	pt, ok := st.Addr.Type().Underlying().(*types.Pointer)
	if !ok {
		return false
	}
	at, ok := pt.Elem().Underlying().(*types.Array)
	el, known := e.elems(v)
	if !ok || !known || int64(len(el)) != at.Len() {
		return false
	}
	if e.mem == nil {
		e.mem = map[string]sv{}
	}
	for i, x := range el {
		e.mem[fmt.Sprintf("%s[%d]", a.s, i)] = x
	}
	e.effects = append(e.effects, ssaEffect{ins: st, what: "store", args: []sv{v}, addr: a.s})
	return true
}

func zeroOfArray(x *ssa.Alloc) (sv, int64, bool) {
	p, ok := x.Type().Underlying().(*types.Pointer)
	if !ok {
		return sv{}, 0, false
	}
	arr, ok := p.Elem().Underlying().(*types.Array)
	if !ok {
		return sv{}, 0, false
	}
	bt, ok := arr.Elem().Underlying().(*types.Basic)
	if !ok {
		return sv{}, 0, false
	}
	switch {
	case bt.Info()&types.IsInteger != 0:
		return intV(0), arr.Len(), true
	case bt.Info()&types.IsFloat != 0:
		return sv{k: svFloat}, arr.Len(), true
	case bt.Info()&types.IsString != 0:
		return sv{k: svString}, arr.Len(), true
	case bt.Info()&types.IsBoolean != 0:
		return boolV(false), arr.Len(), true
	}
	return sv{}, 0, false
}

// sliceBase resolves a (possibly nested) slice of a modelled array cell to the cell and the
// offset of its first element.
func (e *ssaEval) sliceBase(v sv) (string, int64, bool) {
	off := int64(0)
	for v.op == "slice" && len(v.args) == 3 {
		switch {
		case v.args[1].k == svInt:
			off += v.args[1].i
		case v.args[1].s != "_":
			return "", 0, false
		}
		if v.args[0].k == svAddr {
			return v.args[0].s, off, true
		}
		v = v.args[0]
	}
	return "", 0, false
}

// setElem stores into element k of a slice value (list or slice of an array cell).
func (e *ssaEval) setElem(sl sv, k int64, v sv) bool {
	if sl.k == svList {
		st := e.lists[sl.s]
		if k < 0 || k >= sl.n || sl.i+k >= int64(len(st)) {
			return false
		}
		st[sl.i+k] = v
		return true
	}
	if base, off, ok := e.sliceBase(sl); ok {
		key := fmt.Sprintf("%s[%d]", base, off+k)
		if _, have := e.mem[key]; !have {
			return false
		}
		e.mem[key] = v
		return true
	}
	return false
}

// stdlibModel: calls of library functions whose meaning is a fixed, documented data movement.
//   - (binary.littleEndian|bigEndian).PutUint16/32/64(b, v): b[k] = byte(v >> 8k) (resp. reversed)
func (e *ssaEval) stdlibModel(call ssa.CallInstruction, args []sv) (sv, bool) {
	n := callName(call)
	switch {
	case strings.HasPrefix(n, "(encoding/binary.littleEndian).PutUint") || strings.HasPrefix(n, "(encoding/binary.bigEndian).PutUint"):
		if len(args) != 3 || !args[2].known() {
			return sv{}, false
		}
		bits, err := strconv.Atoi(n[strings.LastIndex(n, "PutUint")+len("PutUint"):])
		if err != nil || bits%8 != 0 {
			return sv{}, false
		}
		tag := ""
		if bits < 64 {
			tag = fmt.Sprintf("u%d", bits)
		}
		nb := int64(bits / 8)
		for k := int64(0); k < nb; k++ {
			var b sv
			sh := 8 * k
			v := args[2]
			switch {
			case v.k == svInt:
				b = intV((v.i >> uint(sh)) & 0xff)
			case sh == 0:
				b = term("u8", v)
			default:
				b = term("u8", term(">>"+tag, v, intV(sh)))
			}
			pos := k
			if strings.Contains(n, "bigEndian") {
				pos = nb - 1 - k
			}
			if !e.setElem(args[1], pos, b) {
				return sv{}, false
			}
		}
		return sv{}, true
	}
	return sv{}, false
}

// copyModel: copy(dst, src) between slices with known elements (for rules that model a buffer).
func (e *ssaEval) copyModel(call ssa.CallInstruction, args []sv) (sv, bool) {
	n := callName(call)
	switch {
	case n == "builtin copy" && len(args) == 2:
		if args[0].k != svList {
			return sv{}, false
		}
		src, ok := e.elems(args[1])
		if !ok && args[1].k == svString {
			for i := 0; i < len(args[1].s); i++ {
				src = append(src, intV(int64(args[1].s[i])))
			}
			ok = true
		}
		if !ok {
			return sv{}, false
		}
		k := int64(len(src))
		if args[0].n < k {
			k = args[0].n
		}
		src = append([]sv{}, src[:k]...)
		for i := int64(0); i < k; i++ {
			e.setElem(args[0], i, src[i])
		}
		return intV(k), true
	}
	return sv{}, false
}

// strModel models string building over known pieces: strings.Builder / bytes.Buffer writes,
// fmt.Fprintf / fmt.Sprintf with a constant format and %d %s %v %c verbs, strconv.Itoa /
// FormatInt.  The text written to a builder is kept per builder cell; a piece that is not known
// makes the model give up (bad is set), it never guesses.
type strModel struct {
	e    *ssaEval
	text map[string]string
	bad  string
}

func (m *strModel) giveUp(why string) {
	if m.bad == "" {
		m.bad = why
	}
}

func (m *strModel) str(v sv) (string, bool) {
	switch v.k {
	case svString:
		return v.s, true
	}
	return "", false
}

func (m *strModel) format(f string, vals []sv) (string, bool) {
	var sb strings.Builder
	k := 0
	for i := 0; i < len(f); i++ {
		if f[i] != '%' {
			sb.WriteByte(f[i])
			continue
		}
		i++
		if i >= len(f) {
			return "", false
		}
		if f[i] == '%' {
			sb.WriteByte('%')
			continue
		}
		if k >= len(vals) {
			return "", false
		}
		v := vals[k]
		k++
		switch f[i] {
		case 'd':
			if v.k != svInt {
				return "", false
			}
			sb.WriteString(strconv.FormatInt(v.i, 10))
		case 's':
			if v.k != svString {
				return "", false
			}
			sb.WriteString(v.s)
		case 'v':
			switch v.k {
			case svInt:
				sb.WriteString(strconv.FormatInt(v.i, 10))
			case svString:
				sb.WriteString(v.s)
			default:
				return "", false
			}
		case 'c':
			if v.k != svInt {
				return "", false
			}
			sb.WriteRune(rune(v.i))
		default:
			return "", false
		}
	}
	if k != len(vals) {
		return "", false
	}
	return sb.String(), true
}

func (m *strModel) call(call ssa.CallInstruction, args []sv) (sv, bool) {
	if call == nil {
		return sv{}, false
	}
	n := callName(call)
	isB := func(v sv) bool { return v.k == svAddr }
	wrote := func(k int) sv { return sv{k: svTuple, tup: []sv{intV(int64(k)), {k: svNil}}} }
	for _, recv := range []string{"(*strings.Builder).", "(*bytes.Buffer)."} {
		if !strings.HasPrefix(n, recv) || len(args) == 0 || !isB(args[0]) {
			continue
		}
		b := args[0].s
		switch strings.TrimPrefix(n, recv) {
		case "WriteString":
			if s, ok := m.str(args[1]); ok {
				m.text[b] += s
				return wrote(len(s)), true
			}
			m.giveUp("a piece of text that is written is not known: " + args[1].String())
			return wrote(0), true
		case "WriteByte":
			if args[1].k == svInt {
				m.text[b] += string([]byte{byte(args[1].i)})
			} else {
				m.giveUp("a byte that is written is not known: " + args[1].String())
			}
			return sv{k: svNil}, true
		case "WriteRune":
			if args[1].k == svInt {
				m.text[b] += string(rune(args[1].i))
			} else {
				m.giveUp("a character that is written is not known: " + args[1].String())
			}
			return wrote(1), true
		case "Write":
			if args[1].k == svString { // []byte(s) of a known string
				m.text[b] += args[1].s
				return wrote(len(args[1].s)), true
			}
			if el, ok := m.e.elems(args[1]); ok {
				for _, x := range el {
					if x.k != svInt {
						m.giveUp("a byte that is written is not known: " + x.String())
						break
					}
					m.text[b] += string([]byte{byte(x.i)})
				}
				return wrote(len(el)), true
			}
			m.giveUp("the bytes that are written are not known: " + args[1].String())
			return wrote(0), true
		case "String":
			return sv{k: svString, s: m.text[b]}, true
		case "Len":
			return intV(int64(len(m.text[b]))), true
		case "Reset":
			m.text[b] = ""
			return sv{}, true
		case "Grow":
			return sv{}, true
		}
	}
	switch n {
	case "fmt.Fprintf", "fmt.Sprintf":
		a := args
		dst := ""
		if n == "fmt.Fprintf" {
			if len(a) < 1 || !isB(a[0]) {
				return sv{}, false
			}
			dst = a[0].s
			a = a[1:]
		}
		if len(a) != 2 || a[0].k != svString {
			return sv{}, false
		}
		vals, ok := m.e.elems(a[1])
		if !ok {
			return sv{}, false
		}
		s, ok := m.format(a[0].s, vals)
		if !ok {
			m.giveUp(fmt.Sprintf("format %q with operands that are not known", a[0].s))
			s = ""
		}
		if n == "fmt.Sprintf" {
			if !ok {
				return sv{}, false
			}
			return sv{k: svString, s: s}, true
		}
		m.text[dst] += s
		return wrote(len(s)), true
	case "strconv.Itoa":
		if len(args) == 1 && args[0].k == svInt {
			return sv{k: svString, s: strconv.FormatInt(args[0].i, 10)}, true
		}
	case "strconv.FormatInt", "strconv.FormatUint":
		if len(args) == 2 && args[0].k == svInt && args[1].k == svInt && args[1].i >= 2 && args[1].i <= 36 {
			return sv{k: svString, s: strconv.FormatInt(args[0].i, int(args[1].i))}, true
		}
	}
	return sv{}, false
}

// ---- the data the font template is executed with

// tmplExec is one execution of the font template seen while a writer is evaluated.
type tmplExec struct {
	section string
	data    sv
	fields  map[string]sv   // the fields of the data object at that moment
	elems   map[string][]sv // elements of slice-valued fields, where known
}

// evalWriterData evaluates a writer (Font.Write, Font.WritePDF) on the SSA form for one file
// format and returns the template executions it performs with a snapshot of the template data.
// The font's fields are symbols `f.<path>`; a comparison of such a symbol with a constant is
// answered by the cell: generic (the value differs from every constant) or zero (the value is the
// zero value of its type).  Helpers that take or return the template data, and helpers over
// scalars, are evaluated in place; everything else is opaque and succeeds.
func (c *Ctx) evalWriterData(fn *ssa.Function, format int64, zero bool) ([]tmplExec, string) {
	fiT := c.typeObj("type1", "fontInfo")
	ev := &ssaEval{c: c, bind: map[ssa.Value]sv{}, mem: map[string]sv{}}
	var execs []tmplExec
	mentions := func(t types.Type) bool {
		if p, ok := t.Underlying().(*types.Pointer); ok {
			t = p.Elem()
		}
		n, ok := t.(*types.Named)
		return ok && n.Obj() == fiT
	}
	scalar := func(t types.Type) bool {
		_, ok := t.Underlying().(*types.Basic)
		// a point in time is a value like a number (helpers that format it are evaluated in place)
		return ok || t.String() == "time.Time"
	}
	ev.noInline = func(f *ssa.Function) bool {
		sig := f.Signature
		hasData, allScalar := false, sig.Recv() == nil
		for _, tup := range []*types.Tuple{sig.Params(), sig.Results()} {
			for i := 0; i < tup.Len(); i++ {
				if mentions(tup.At(i).Type()) {
					hasData = true
				}
				if !scalar(tup.At(i).Type()) {
					allScalar = false
				}
			}
		}
		return !(hasData || allScalar)
	}
	isFont := func(v sv) bool { return v.k == svSym && strings.HasPrefix(v.s, "f.") }
	ev.load = func(ld *ssa.UnOp, addr sv) (sv, bool) {
		s := addr.s
		switch {
		case s == "opt.Format":
			return intV(format), true
		case strings.HasPrefix(s, "f."):
			if _, isPtr := ld.Type().Underlying().(*types.Pointer); isPtr {
				return sv{k: svAddr, s: s}, true
			}
			return symV(s), true
		}
		// a table of the package that only ever holds its initialiser (ext_x9.go)
		return c.constTableValueX9(ev, ld, addr)
	}
	ev.oracle = func(op token.Token, x, y sv) (bool, bool) {
		if x.k == svNil || y.k == svNil {
			o := x
			if x.k == svNil {
				o = y
			}
			if isFont(o) {
				if zero {
					return op == token.EQL, true
				}
				return op == token.NEQ, true
			}
			switch o.k {
			case svAddr, svList:
				return op == token.NEQ, true
			case svSym:
				return op == token.EQL, true // an opaque call succeeded
			}
			return false, false
		}
		fv, cv := x, y
		if isFont(y) {
			fv, cv = y, x
			switch op {
			case token.LSS:
				op = token.GTR
			case token.GTR:
				op = token.LSS
			case token.LEQ:
				op = token.GEQ
			case token.GEQ:
				op = token.LEQ
			}
		}
		if !isFont(fv) || !cv.isConst() {
			return false, false
		}
		if !zero {
			switch op {
			case token.EQL:
				return false, true
			case token.NEQ:
				return true, true
			}
			return false, false
		}
		r := 0 // zero value compared with the constant
		switch cv.k {
		case svInt:
			r = cmpInt(0, cv.i)
		case svFloat:
			switch {
			case 0 < cv.f:
				r = -1
			case 0 > cv.f:
				r = 1
			}
		case svString:
			r = strings.Compare("", cv.s)
		case svBool:
			if cv.b {
				r = 1
			}
			if op != token.EQL && op != token.NEQ {
				return false, false
			}
		}
		switch op {
		case token.EQL:
			return r == 0, true
		case token.NEQ:
			return r != 0, true
		case token.LSS:
			return r < 0, true
		case token.LEQ:
			return r <= 0, true
		case token.GTR:
			return r > 0, true
		case token.GEQ:
			return r >= 0, true
		}
		return false, false
	}
	ev.call = func(call ssa.CallInstruction, args []sv) (sv, bool) {
		n := callName(call)
		if n == "(*text/template.Template).ExecuteTemplate" || n == "(*text/template.Template).Execute" {
			ex := tmplExec{data: args[len(args)-1], fields: map[string]sv{}, elems: map[string][]sv{}}
			if n == "(*text/template.Template).ExecuteTemplate" && len(args) == 4 {
				ex.section = args[2].s
			}
			if ex.data.k == svAddr {
				for k, v := range ev.mem {
					if strings.HasPrefix(k, ex.data.s+".") && !strings.Contains(k[len(ex.data.s)+1:], ".") {
						name := k[len(ex.data.s)+1:]
						ex.fields[name] = v
						if el, ok := ev.elems(v); ok && (v.k == svList || v.op == "slice") {
							ex.elems[name] = append([]sv{}, el...)
						}
					}
				}
			}
			execs = append(execs, ex)
			return sv{k: svNil}, true
		}
		if n == "(time.Time).IsZero" && len(args) == 1 && isFont(args[0]) {
			// the cell says whether the font's value is the zero value
			return boolV(zero), true
		}
		return sv{}, false
	}
	args := make([]sv, len(fn.Params))
	for i, p := range fn.Params {
		t := p.Type()
		if ptr, ok := t.Underlying().(*types.Pointer); ok {
			t = ptr.Elem()
		}
		args[i] = symV("w")
		if n, ok := t.(*types.Named); ok {
			switch n.Obj().Name() {
			case "Font":
				args[i] = sv{k: svAddr, s: "f"}
			case "WriterOptions":
				args[i] = sv{k: svAddr, s: "opt"}
			}
		}
	}
	ret := ev.runFunc(fn, args)
	if ret == nil {
		return execs, "the writer could not be evaluated to its end: " + ev.why
	}
	return execs, ""
}

// fontFieldPaths: lower-cased name of every exported data field of Font, FontInfo, PrivateDict
// → its path from the font (`f.Encoding`, `f.FontInfo.Weight`, `f.Private.BlueShift`).
func (c *Ctx) fontFieldPaths() (map[string][]string, map[string]types.Type) {
	paths := map[string][]string{}
	typs := map[string]types.Type{}
	st := c.typeObj("type1", "Font").Type().Underlying().(*types.Struct)
	for i := 0; i < st.NumFields(); i++ {
		f := st.Field(i)
		if !f.Exported() {
			continue
		}
		p := "f." + f.Name()
		paths[strings.ToLower(f.Name())] = append(paths[strings.ToLower(f.Name())], p)
		typs[p] = f.Type()
		if ptr, ok := f.Type().Underlying().(*types.Pointer); ok {
			if sub, ok := ptr.Elem().Underlying().(*types.Struct); ok {
				for j := 0; j < sub.NumFields(); j++ {
					g := sub.Field(j)
					if g.Exported() {
						q := p + "." + g.Name()
						paths[strings.ToLower(g.Name())] = append(paths[strings.ToLower(g.Name())], q)
						typs[q] = g.Type()
					}
				}
			}
		}
	}
	return paths, typs
}

// templateDataFields (rule W-DATAFIELDS): what the template prints for a key is the font's value
// of that key — the template data is filled from the font field of the same name, unchanged, for
// a generic value and for the zero value (no value is replaced by a default on the way).
func (c *Ctx) templateDataFields() {
	const rule = "W-DATAFIELDS"
	const where = "type1 template data"
	write := c.method("type1", "Font", "Write")
	pfa := c.constInt("type1", "FormatPFA")
	paths, typs := c.fontFieldPaths()
	fi := c.typeObj("type1", "fontInfo").Type().Underlying().(*types.Struct)
	fiType := map[string]types.Type{}
	for i := 0; i < fi.NumFields(); i++ {
		fiType[fi.Field(i).Name()] = fi.Field(i).Type()
	}
	type pair struct{ key, field, path string }
	var pairs []pair
	seen := map[string]bool{}
	for _, k := range c.templateKeys() {
		if p := paths[strings.ToLower(k.key)]; len(p) == 1 && !seen[k.field] {
			seen[k.field] = true
			pairs = append(pairs, pair{"/" + k.key, k.field, p[0]})
		}
	}
	// data that is not a dictionary entry (encoding vector, creation date): same name on both sides
	for i := 0; i < fi.NumFields(); i++ {
		n := fi.Field(i).Name()
		if p := paths[strings.ToLower(n)]; len(p) == 1 && !seen[n] && p[0] == "f."+n {
			seen[n] = true
			pairs = append(pairs, pair{"." + n, n, p[0]})
		}
	}
	type cellRes struct {
		ex  *tmplExec
		why string
	}
	res := map[bool]cellRes{}
	for _, zero := range []bool{false, true} {
		execs, why := c.evalWriterData(write, pfa, zero)
		r := cellRes{why: why}
		if why == "" && len(execs) == 0 {
			r.why = "the writer executes no template"
		}
		for i := range execs {
			if execs[i].data.k != svAddr || execs[i].data.s != execs[0].data.s {
				r.why = "the sections are not executed with one and the same template data"
			}
		}
		if len(execs) > 0 {
			r.ex = &execs[0]
		}
		res[zero] = r
	}
	for _, p := range pairs {
		bad := ""
		// a scalar of the font that the template holds as a one-element array (`/StdHW [x]`)
		_, tmplSlice := fiType[p.field].Underlying().(*types.Slice)
		_, fontSlice := typs[p.path].Underlying().(*types.Slice)
		wrapped := tmplSlice && !fontSlice
		for _, zero := range []bool{false, true} {
			r := res[zero]
			cell := map[bool]string{false: "a generic value", true: "the zero value"}[zero]
			if r.why != "" || r.ex == nil {
				bad = r.why
				break
			}
			v, have := r.ex.fields[p.field]
			ok := have && v.k == svSym && v.s == p.path
			if !ok && have && typs[p.path].String() == "time.Time" {
				// a point in time may be handed over as its text in a constant layout (the
				// formatting the template would do, done beforehand); nothing for the zero time
				_, ok = timeFormatOf(v, p.path)
				if zero && v.k == svString && v.s == "" {
					ok = true
				}
			}
			if wrapped {
				el, known := r.ex.elems[p.field]
				ok = known && len(el) == 1 && el[0].k == svSym && el[0].s == p.path
				if zero && (!have || v.k == svNil || known && len(el) == 0) {
					ok = true // nothing to write for zero
				}
			}
			if !ok {
				got := "nothing"
				if have {
					got = ev0render(v, r.ex.elems[p.field])
				}
				bad = fmt.Sprintf("for %s of %s the template is given %s", cell, strings.TrimPrefix(p.path, "f."), got)
				break
			}
		}
		c.check(bad == "", rule, where, fmt.Sprintf("%s is written from %s, unchanged", p.key, strings.TrimPrefix(p.path, "f.")), write.Pos(), "template data evaluated for a generic and for the zero value",
			fmt.Sprintf("%s: %s — the file does not say what the font says", p.key, bad))
	}
	c.floor(rule, 20)
}

// timeFormatOf: v is the text of the font's time value `path` in a constant layout —
// `(time.Time).Format(path, "layout")` as the evaluator records it.
func timeFormatOf(v sv, path string) (string, bool) {
	if v.k == svSym && v.op == "(time.Time).Format" && len(v.args) == 2 && v.args[0].k == svSym && v.args[0].s == path && v.args[1].k == svString {
		return v.args[1].s, true
	}
	return "", false
}

// dateDataField: the field of the template data that carries the font's creation date (the font's
// field of type time.Time), and the layout if the date is handed over already formatted.
func (c *Ctx) dateDataField() (field, layout string, found bool) {
	_, typs := c.fontFieldPaths()
	execs, why := c.evalWriterData(c.method("type1", "Font", "Write"), c.constInt("type1", "FormatPFA"), false)
	if why != "" || len(execs) == 0 {
		return "", "", false
	}
	var names []string
	for name := range execs[0].fields {
		names = append(names, name)
	}
	sort.Strings(names)
	for _, name := range names {
		v := execs[0].fields[name]
		for path, t := range typs {
			if t.String() != "time.Time" {
				continue
			}
			if v.k == svSym && v.s == path {
				return name, "", true
			}
			if l, ok := timeFormatOf(v, path); ok {
				return name, l, true
			}
		}
	}
	return "", "", false
}

func ev0render(v sv, el []sv) string {
	if el != nil {
		var p []string
		for _, x := range el {
			p = append(p, x.String())
		}
		return "[" + strings.Join(p, " ") + "]"
	}
	return v.String()
}

// eexecFlag (rule W-TEMPLATE): every execution of the template by Write and WritePDF gets the
// encryption flag `format != FormatNoEExec` (format 0 meaning PFA).
func (c *Ctx) eexecFlag() (bool, string) {
	write := c.method("type1", "Font", "Write")
	pdf := c.method("type1", "Font", "WritePDF")
	noE := c.constInt("type1", "FormatNoEExec")
	type job struct {
		fn     *ssa.Function
		format int64
		want   bool
		what   string
	}
	jobs := []job{{pdf, 0, true, "WritePDF"}}
	for _, n := range []string{"FormatPFA", "FormatPFB", "FormatBinary", "FormatNoEExec"} {
		f := c.constInt("type1", n)
		jobs = append(jobs, job{write, f, f != noE, "Write with " + n})
	}
	jobs = append(jobs, job{write, 0, true, "Write with format 0 (default)"})
	for _, j := range jobs {
		execs, why := c.evalWriterData(j.fn, j.format, false)
		if why != "" {
			return false, j.what + ": " + why
		}
		if len(execs) == 0 {
			return false, j.what + " executes no template"
		}
		for _, ex := range execs {
			v, ok := ex.fields["EExec"]
			if !ok || v.k != svBool {
				return false, fmt.Sprintf("%s: the EExec flag of the template data is %s when section %q is executed", j.what, v.String(), ex.section)
			}
			if v.b != j.want {
				return false, fmt.Sprintf("%s: section %q is executed with EExec = %v", j.what, ex.section, v.b)
			}
		}
	}
	return true, ""
}

// eexecStream (rule W-EEXECSTREAM): the cipher stream writer passes on every byte it accepts, in
// order, whatever the size of a single Write — the template engine hands a whole charstring to
// it in one call.  (*eexecWriter).Write is evaluated on the SSA form for a table of (bytes
// already buffered, size of the write) around the buffer size; flushing moves the buffered
// bytes to the output.  Afterwards output + buffer must be the old buffer content followed by
// all bytes of the write, the result must be (len(p), nil), and Close must leave nothing behind.
func (c *Ctx) eexecStream() {
	const rule = "W-EEXECSTREAM"
	const construct = "every byte of a Write reaches the output, in order, for any size of the write"
	wr := c.method("type1", "eexecWriter", "Write")
	fname := "type1.(*eexecWriter).Write"
	flush := c.methodOpt("type1", "eexecWriter", "flush")
	closeFn := c.methodOpt("type1", "eexecWriter", "Close")
	newW := c.fn("type1", "newEExecWriter")
	bufF, posF := c.fld("eexecWriter.buf"), c.fld("eexecWriter.pos")

	// the buffer size is what the constructor allocates, or the length of the array if the buffer
	// is part of the writer itself
	B := int64(-1)
	weT := c.typeObj("type1", "eexecWriter")
	bufIsArray := false
	if st, ok := weT.Type().Underlying().(*types.Struct); ok {
		for i := 0; i < st.NumFields(); i++ {
			if at, ok := st.Field(i).Type().Underlying().(*types.Array); ok && st.Field(i).Name() == bufF {
				B, bufIsArray = at.Len(), true
			}
		}
	}
	if !bufIsArray {
		ev := &ssaEval{c: c, bind: map[ssa.Value]sv{}, mem: map[string]sv{}}
		ev.call = func(call ssa.CallInstruction, args []sv) (sv, bool) {
			if call != nil && call.Common().StaticCallee() == wr {
				return sv{k: svTuple, tup: []sv{symV("n"), {k: svNil}}}, true
			}
			return sv{}, false
		}
		ret := ev.runFunc(newW, []sv{symV("dst")})
		if len(ret) >= 1 && ret[0].k == svAddr {
			v := ev.mem[ret[0].s+"."+bufF]
			switch {
			case v.k == svList:
				B = v.n
			case v.op == "slice" && len(v.args) == 3 && v.args[0].k == svAddr && v.args[1].s == "_" && v.args[2].k == svInt:
				B = v.args[2].i // make([]byte, B): the whole of a fresh array
			}
		}
	}
	if B < 1 || B > 1<<16 {
		c.undecided(rule, fname, construct, wr.Pos(), "the size of the cipher writer's buffer could not be read off its constructor")
		return
	}
	type outcome struct {
		seq      []string // what reached the output or is still buffered, in order
		plain    bool     // elements are the plain symbols (flush is modelled), else only counted
		n, err   sv
		afterPos sv
		why      string
	}
	run := func(p0, n int64) outcome {
		ev := &ssaEval{c: c, bind: map[ssa.Value]sv{}, mem: map[string]sv{}}
		var out []string
		res := outcome{plain: true}
		el := make([]sv, B)
		for i := range el {
			el[i] = intV(0)
			if int64(i) < p0 {
				el[i] = symV(fmt.Sprintf("b%d", i))
			}
		}
		ev.mem["we."+bufF] = ev.newList(el)
		ev.mem["we."+posF] = intV(p0)
		if bufIsArray {
			// the array in the writer is the storage itself: its address stands for the elements
			for _, fn := range c.modFuncs {
				eachInstr(fn, func(ins ssa.Instruction) {
					if fa, ok := ins.(*ssa.FieldAddr); ok && isFieldAddr(fa, weT, bufF) {
						ev.bind[fa] = ev.mem["we."+bufF]
					}
				})
			}
		}
		buffered := func() ([]sv, bool) {
			pos, buf := ev.mem["we."+posF], ev.mem["we."+bufF]
			all, ok := ev.elems(buf)
			if pos.k != svInt || !ok || pos.i < 0 || pos.i > int64(len(all)) {
				return nil, false
			}
			return all[:pos.i], true
		}
		ev.load = func(ld *ssa.UnOp, addr sv) (sv, bool) {
			if strings.HasPrefix(addr.s, "we.") {
				return symV(addr.s), true
			}
			return sv{}, false
		}
		ev.oracle = func(op token.Token, x, y sv) (bool, bool) {
			if (x.k == svNil) != (y.k == svNil) && (op == token.EQL || op == token.NEQ) {
				return op == token.NEQ, true
			}
			return false, false
		}
		ev.call = func(call ssa.CallInstruction, args []sv) (sv, bool) {
			if call == nil {
				return sv{}, false
			}
			if sc := call.Common().StaticCallee(); sc != nil && sc == flush {
				cur, ok := buffered()
				if !ok {
					res.why = "the buffer position is not a known number within the buffer when it is flushed"
					return sv{k: svNil}, true
				}
				for _, x := range cur {
					out = append(out, x.String())
				}
				ev.mem["we."+posF] = intV(0)
				return sv{k: svNil}, true
			}
			if call.Common().IsInvoke() && call.Common().Method.Name() == "Write" && len(args) == 2 {
				// the flush is part of the evaluated code: the bytes arrive enciphered, count them
				res.plain = false
				el, ok := ev.elems(args[1])
				if !ok {
					res.why = "what is written to the underlying writer is not known"
				}
				for range el {
					out = append(out, "?")
				}
				return sv{k: svTuple, tup: []sv{intV(int64(len(el))), {k: svNil}}}, true
			}
			return ev.copyModel(call, args)
		}
		data := make([]sv, n)
		for i := range data {
			data[i] = symV(fmt.Sprintf("d%d", i))
		}
		ret := ev.runFunc(wr, []sv{{k: svAddr, s: "we"}, ev.newList(data)})
		if len(ret) != 2 {
			res.why = "not evaluable: " + ev.why
			return res
		}
		res.n, res.err = ret[0], ret[1]
		if closeFn != nil {
			ev.why = ""
			if r := ev.runFunc(closeFn, []sv{{k: svAddr, s: "we"}}); len(r) != 1 || r[0].k != svNil {
				res.why = "Close not evaluable: " + ev.why
				return res
			}
		}
		cur, ok := buffered()
		if !ok {
			res.why = "the buffer position is not a known number within the buffer after the write"
			return res
		}
		res.afterPos = ev.mem["we."+posF]
		for _, x := range cur {
			out = append(out, x.String())
		}
		res.seq = out
		return res
	}
	bad := ""
	cells := 0
	for _, p0 := range []int64{0, 1, B / 2, B - 1} {
		seenN := map[int64]bool{}
		for _, n := range []int64{0, 1, B - p0 - 1, B - p0, B - p0 + 1, B, B + 1, 2*B + 3} {
			if n < 0 || seenN[n] || p0 < 0 {
				continue
			}
			seenN[n] = true
			cells++
			r := run(p0, n)
			what := fmt.Sprintf("a write of %d bytes with %d of %d bytes buffered", n, p0, B)
			switch {
			case r.why != "":
				bad = what + ": " + r.why
			case r.n.k != svInt || r.n.i != n || r.err.k != svNil:
				bad = fmt.Sprintf("%s reports (%s, %s)", what, r.n, r.err)
			case int64(len(r.seq)) != p0+n:
				bad = fmt.Sprintf("%s: %d of the %d bytes reach the output", what, int64(len(r.seq))-p0, n)
			case closeFn != nil && (r.afterPos.k != svInt || r.afterPos.i != 0):
				bad = what + ": Close leaves bytes in the buffer"
			case r.plain:
				for i, s := range r.seq {
					want := fmt.Sprintf("d%d", int64(i)-p0)
					if int64(i) < p0 {
						want = fmt.Sprintf("b%d", i)
					}
					if s != want && bad == "" {
						bad = fmt.Sprintf("%s: byte %d of the output is %s, expected %s", what, i, s, want)
					}
				}
			}
			if bad != "" {
				break
			}
		}
		if bad != "" {
			break
		}
	}
	c.check(bad == "", rule, fname, construct, wr.Pos(), fmt.Sprintf("%d cells of (buffered, size of the write) around the buffer size %d evaluated", cells, B),
		"the eexec stream writer loses or reorders data: "+bad+" — a charstring longer than the buffer is handed over in one call and would be cut, its announced length no longer matching")
}

// ---------------------------------------------------------------------------------------------
// Reader side of the key ↔ field tables, on the SSA form (RT-KEYS, RT-FIELDS, RT-DEFAULTS).
//
// keyFlows follows the VALUE of every dictionary entry that the reader looks up under a constant
// key — the key written at the lookup or handed to a helper that performs it (generic or not) —
// forwards through conversions, type assertions, phis, local cells, element and field stores,
// ranges, helper calls (context-sensitive: a helper's result goes back to the call it was entered
// from) until it is stored into a field of one of the exported font structures.  The table
// `key → asserted types → font field` is read off this flow, so it does not depend on whether the
// lookup, the assertion and the default are written inline, in a helper, or in a generic helper.

type keyFlow struct {
	types  map[string]bool // names of the asserted types on the way
	fields map[string]bool // "FontInfo.X", "PrivateDict.X", "Font.X"
}

type keyFlower struct {
	c     *Ctx
	funcs map[*ssa.Function]bool
	seen  map[string]bool
	cur   *keyFlow
}

// reachFuncs: the module functions reachable from root through static calls and closures.
func (c *Ctx) reachFuncs(root *ssa.Function, depth int) map[*ssa.Function]bool {
	out := map[*ssa.Function]bool{}
	var visit func(f *ssa.Function, d int)
	visit = func(f *ssa.Function, d int) {
		if f == nil || f.Blocks == nil || out[f] || d > depth || !c.inModule(f) {
			return
		}
		out[f] = true
		eachInstr(f, func(ins ssa.Instruction) {
			switch x := ins.(type) {
			case ssa.CallInstruction:
				visit(x.Common().StaticCallee(), d+1)
			case *ssa.MakeClosure:
				if g, ok := x.Fn.(*ssa.Function); ok {
					visit(g, d)
				}
			}
		})
	}
	visit(root, 0)
	return out
}

func isDictLookup(l *ssa.Lookup) bool {
	m, ok := l.X.Type().Underlying().(*types.Map)
	if !ok {
		return false
	}
	if b, ok := m.Key().Underlying().(*types.Basic); !ok || b.Info()&types.IsString == 0 {
		return false
	}
	_, isIface := m.Elem().Underlying().(*types.Interface)
	return isIface
}

func shortTypeName(t types.Type) string {
	if n, ok := t.(*types.Named); ok {
		return n.Obj().Name()
	}
	if p, ok := t.(*types.Pointer); ok {
		return "*" + shortTypeName(p.Elem())
	}
	return t.String()
}

func paramIndex(p *ssa.Parameter) int {
	for i, q := range p.Parent().Params {
		if q == p {
			return i
		}
	}
	return -1
}

// readerKeyFlows: key → flow, for type1.Read and everything of the module it calls.
func (c *Ctx) readerKeyFlows() map[string]*keyFlow {
	read := c.fn("type1", "Read")
	kf := &keyFlower{c: c, funcs: c.reachFuncs(read, 3)}
	out := map[string]*keyFlow{}
	type site struct {
		key   string
		stack []ssa.CallInstruction
	}
	// the constant keys a value stands for: a constant, or a parameter with its call sites
	var keysOf func(v ssa.Value, stack []ssa.CallInstruction, depth int) []site
	keysOf = func(v ssa.Value, stack []ssa.CallInstruction, depth int) []site {
		v = origin(v)
		switch x := v.(type) {
		case *ssa.Const:
			if x.Value != nil && x.Value.Kind() == constant.String {
				return []site{{constant.StringVal(x.Value), stack}}
			}
		case *ssa.Convert:
			return keysOf(x.X, stack, depth)
		case *ssa.Parameter:
			if depth > 3 {
				return nil
			}
			idx := paramIndex(x)
			var res []site
			for g := range kf.funcs {
				for _, call := range staticCalls(g, x.Parent()) {
					if idx >= 0 && idx < len(call.Common().Args) {
						st := append([]ssa.CallInstruction{call}, stack...)
						res = append(res, keysOf(call.Common().Args[idx], st, depth+1)...)
					}
				}
			}
			return res
		}
		return nil
	}
	var fns []*ssa.Function
	for f := range kf.funcs {
		fns = append(fns, f)
	}
	sort.Slice(fns, func(i, j int) bool { return fns[i].String() < fns[j].String() })
	for _, f := range fns {
		eachInstr(f, func(ins ssa.Instruction) {
			l, ok := ins.(*ssa.Lookup)
			if !ok || !isDictLookup(l) {
				return
			}
			for _, s := range keysOf(l.Index, nil, 0) {
				fl := out[s.key]
				if fl == nil {
					fl = &keyFlow{types: map[string]bool{}, fields: map[string]bool{}}
					out[s.key] = fl
				}
				kf.cur = fl
				kf.seen = map[string]bool{}
				// the stack built by keysOf is innermost call first
				if l.CommaOk {
					kf.tupleElem(l, 0, s.stack)
				} else {
					kf.flow(l, s.stack)
				}
			}
		})
	}
	return out
}

func (kf *keyFlower) tupleElem(t ssa.Value, idx int, stack []ssa.CallInstruction) {
	for _, r := range *t.Referrers() {
		if ex, ok := r.(*ssa.Extract); ok && ex.Index == idx {
			kf.flow(ex, stack)
		}
	}
}

// addrPath: root and field path of an address built by FieldAddr steps.
func addrPath(a ssa.Value) (ssa.Value, string) {
	path := ""
	for {
		fa, ok := a.(*ssa.FieldAddr)
		if !ok {
			return a, path
		}
		path = fmt.Sprintf(".%d%s", fa.Field, path)
		a = fa.X
	}
}

// cell: the value was stored at addr; it flows to every load of that place.
func (kf *keyFlower) cell(addr ssa.Value, stack []ssa.CallInstruction) {
	refs := addr.Referrers()
	if refs == nil {
		return
	}
	for _, r := range *refs {
		switch x := r.(type) {
		case *ssa.UnOp:
			if x.Op == token.MUL {
				kf.flow(x, stack)
			}
		case *ssa.MakeClosure:
			if g, ok := x.Fn.(*ssa.Function); ok {
				for i, b := range x.Bindings {
					if b == addr && i < len(g.FreeVars) {
						kf.cell(g.FreeVars[i], stack)
					}
				}
			}
		case *ssa.IndexAddr:
			if x.X == addr {
				kf.cell(x, stack)
			}
		case *ssa.Slice:
			if x.X == addr {
				kf.flow(x, stack)
			}
		}
	}
}

func (kf *keyFlower) flow(v ssa.Value, stack []ssa.CallInstruction) {
	var top ssa.CallInstruction
	if len(stack) > 0 {
		top = stack[0]
	}
	id := fmt.Sprintf("%p/%p/%d", v, top, len(stack))
	if kf.seen[id] || len(stack) > 6 {
		return
	}
	kf.seen[id] = true
	refs := v.Referrers()
	if refs == nil {
		return
	}
	for _, r := range *refs {
		switch x := r.(type) {
		case *ssa.TypeAssert:
			kf.cur.types[shortTypeName(x.AssertedType)] = true
			if x.CommaOk {
				kf.tupleElem(x, 0, stack)
			} else {
				kf.flow(x, stack)
			}
		case *ssa.Phi, *ssa.Convert, *ssa.ChangeType, *ssa.ChangeInterface, *ssa.MakeInterface, *ssa.Field, *ssa.Range:
			kf.flow(x.(ssa.Value), stack)
		case *ssa.Next:
			kf.tupleElem(x, 2, stack)
		case *ssa.BinOp:
			switch x.Op {
			case token.ADD, token.SUB, token.MUL, token.QUO:
				kf.flow(x, stack)
			}
		case *ssa.UnOp:
			if x.Op == token.SUB || x.Op == token.MUL {
				kf.flow(x, stack)
			}
		case *ssa.Slice:
			if x.X == v {
				kf.flow(x, stack)
			}
		case *ssa.Index:
			if x.X == v {
				kf.flow(x, stack)
			}
		case *ssa.IndexAddr:
			if x.X == v {
				kf.flow(x, stack) // the element's address: its loads follow
			}
		case *ssa.MapUpdate:
			if x.Value == v {
				kf.flow(x.Map, stack)
			}
		case *ssa.Store:
			if x.Val != v {
				continue
			}
			kf.stored(x, stack)
		case *ssa.Return:
			for j, res := range x.Results {
				if res != v {
					continue
				}
				var sites []ssa.CallInstruction
				var rest []ssa.CallInstruction
				if len(stack) > 0 {
					if stack[0].Common().StaticCallee() != x.Parent() {
						continue
					}
					sites, rest = stack[:1], stack[1:]
				} else {
					for g := range kf.funcs {
						sites = append(sites, staticCalls(g, x.Parent())...)
					}
				}
				for _, call := range sites {
					cv := call.Value()
					if cv == nil {
						continue
					}
					if len(x.Results) == 1 {
						kf.flow(cv, rest)
					} else {
						kf.tupleElem(cv, j, rest)
					}
				}
			}
		case ssa.CallInstruction:
			com := x.Common()
			if b, ok := com.Value.(*ssa.Builtin); ok {
				if b.Name() == "append" && x.Value() != nil {
					kf.flow(x.Value(), stack)
				}
				continue
			}
			callee := com.StaticCallee()
			if callee != nil && callee.Blocks != nil && kf.c.inModule(callee) {
				for i, a := range com.Args {
					if a == v && i < len(callee.Params) {
						kf.flow(callee.Params[i], append([]ssa.CallInstruction{x}, stack...))
					}
				}
				continue
			}
			// a library function: its result derives from its arguments
			if cv := x.Value(); cv != nil && !com.IsInvoke() {
				if _, isTuple := cv.Type().(*types.Tuple); isTuple {
					kf.tupleElem(cv, 0, stack)
				} else {
					kf.flow(cv, stack)
				}
			}
		}
	}
}

// stored: where a Store puts the value, and who reads that place.
func (kf *keyFlower) stored(st *ssa.Store, stack []ssa.CallInstruction) {
	switch a := st.Addr.(type) {
	case *ssa.Alloc, *ssa.FreeVar:
		kf.cell(a, stack)
	case *ssa.IndexAddr:
		// an element of a container: the container carries the value
		switch base := a.X.(type) {
		case *ssa.Alloc, *ssa.FreeVar:
			kf.cell(base, stack)
		default:
			kf.flow(base, stack)
			if ld, ok := base.(*ssa.UnOp); ok && ld.Op == token.MUL {
				kf.cell(ld.X, stack)
			}
			if sl, ok := base.(*ssa.Slice); ok {
				if al, ok := sl.X.(*ssa.Alloc); ok {
					kf.cell(al, stack)
				}
			}
		}
	case *ssa.FieldAddr:
		pt, _ := a.X.Type().Underlying().(*types.Pointer)
		if pt == nil {
			return
		}
		stT, _ := pt.Elem().Underlying().(*types.Struct)
		if stT == nil {
			return
		}
		fld := stT.Field(a.Field)
		if n, ok := pt.Elem().(*types.Named); ok && n.Obj().Exported() && fld.Exported() && n.Obj().Pkg() != nil && strings.HasSuffix(n.Obj().Pkg().Path(), "/type1") {
			kf.cur.fields[n.Obj().Name()+"."+fld.Name()] = true
			return
		}
		// a local aggregate (a struct instead of parallel locals): the same place is read elsewhere
		root, path := addrPath(a)
		fn := st.Parent()
		scan := func(g *ssa.Function) {
			eachInstr(g, func(ins ssa.Instruction) {
				if fa, ok := ins.(*ssa.FieldAddr); ok && fa != a {
					if r2, p2 := addrPath(fa); r2 == root && p2 == path {
						kf.cell(fa, stack)
					}
				}
			})
		}
		scan(fn)
		// the whole aggregate loaded as a value and taken apart
		if refs := root.Referrers(); refs != nil && strings.Count(path, ".") == 1 {
			for _, r := range *refs {
				if ld, ok := r.(*ssa.UnOp); ok && ld.Op == token.MUL {
					for _, r2 := range *ld.Referrers() {
						if f, ok := r2.(*ssa.Field); ok && f.Field == a.Field {
							kf.flow(f, stack)
						}
					}
				}
			}
		}
	}
}

// readerDefaultEval: the value the reader stores into field `key` of the private dictionary
// structure when the font's dictionaries hold no entry at all.  The function that stores the field
// is evaluated on the SSA form from the block that first mentions the key (from its entry if the
// key is looked up elsewhere): every dictionary lookup answers "absent", every type assertion on
// an absent entry fails, helpers are evaluated in place; the value that reaches the store is the
// default.  The form of the lookup (inline assertion, helper, generic helper) does not matter.
func (c *Ctx) readerDefaultEval(key string) (float64, bool) {
	read := c.fn("type1", "Read")
	privT := c.typeObj("type1", "PrivateDict")
	funcs := c.reachFuncs(read, 3)
	asserted := map[string]types.Type{}
	var target *ssa.Store
	nTargets := 0
	var fns []*ssa.Function
	for f := range funcs {
		fns = append(fns, f)
	}
	sort.Slice(fns, func(i, j int) bool { return fns[i].Pos() < fns[j].Pos() })
	for _, f := range fns {
		eachInstr(f, func(ins ssa.Instruction) {
			switch x := ins.(type) {
			case *ssa.TypeAssert:
				asserted[x.AssertedType.String()] = x.AssertedType
			case *ssa.Store:
				if isFieldAddr(x.Addr, privT, key) {
					nTargets++
					if target == nil {
						target = x
					}
				}
			}
		})
	}
	if target == nil || nTargets != 1 {
		return 0, false
	}
	fn := target.Parent()
	// where the key is first mentioned in fn
	start := fn.Blocks[0]
	found := false
	isKey := func(v ssa.Value) bool {
		k, ok := origin(v).(*ssa.Const)
		if cv, isConv := origin(v).(*ssa.Convert); isConv && !ok {
			k, ok = cv.X.(*ssa.Const)
		}
		return ok && k.Value != nil && k.Value.Kind() == constant.String && constant.StringVal(k.Value) == key
	}
	for _, b := range fn.Blocks {
		for _, ins := range b.Instrs {
			if found {
				break
			}
			switch x := ins.(type) {
			case *ssa.Lookup:
				if isKey(x.Index) {
					start, found = b, true
				}
			case ssa.CallInstruction:
				for _, a := range x.Common().Args {
					if isKey(a) {
						start, found = b, true
					}
				}
			}
		}
	}
	ev := &ssaEval{c: c, bind: map[ssa.Value]sv{}, mem: map[string]sv{}, maxDepth: 3}
	ev.lookup = func(x *ssa.Lookup, m, k sv) (sv, bool) {
		if !isDictLookup(x) {
			return sv{}, false
		}
		if x.CommaOk {
			return sv{k: svTuple, tup: []sv{{k: svNil}, boolV(false)}}, true
		}
		return sv{k: svNil}, true
	}
	ev.call = func(call ssa.CallInstruction, args []sv) (sv, bool) {
		if call == nil && len(args) == 2 && strings.HasPrefix(args[0].s, "typeassert:") && args[1].k == svNil {
			z := sv{}
			if t := asserted[strings.TrimPrefix(args[0].s, "typeassert:")]; t != nil {
				z, _ = aZeroSV(t)
			}
			return sv{k: svTuple, tup: []sv{z, boolV(false)}}, true
		}
		return sv{}, false
	}
	ev.load = func(ld *ssa.UnOp, addr sv) (sv, bool) { return symV("v:" + addr.s), true }
	ev.guide = guideTo(target.Block())
	fr := &frame{vals: map[ssa.Value]sv{}}
	for i, p := range fn.Params {
		fr.vals[p] = symV(fmt.Sprintf("p%d", i))
	}
	ev.runBlocks(fr, start, nil, func(next, from *ssa.BasicBlock) bool { return from == target.Block() })
	for _, ef := range ev.effects {
		if ef.ins == ssa.Instruction(target) && len(ef.args) == 1 {
			switch ef.args[0].k {
			case svInt:
				return float64(ef.args[0].i), true
			case svFloat:
				return ef.args[0].f, true
			}
		}
	}
	return 0, false
}

// numbersExact (rule W-NUMEXACT): a real number of the font reaches the file as a text that reads
// back as the same number.  Every action of the template that prints a floating-point value (a
// field, an element of a collection that is ranged over, a whole array or slice) is decided by
// how it prints: text/template's own printing and `print` use the shortest text that identifies
// the float64; a `printf` format is applied (by the analyser, the format is a constant of the
// template) to numbers that need up to 17 digits and must give them back; a function of the
// FuncMap is evaluated on the same numbers.
func (c *Ctx) numbersExact() {
	const rule = "W-NUMEXACT"
	const where = "type1 font program template"
	t := c.fontTemplate()
	prints := c.tmplPrints()
	isF := func(t types.Type) bool {
		b, ok := t.Underlying().(*types.Basic)
		return ok && b.Info()&types.IsFloat != 0
	}
	table := []float64{0, 1, -1, 0.5, -11.5, 0.001, 0.039625, 0.1, -9.46232221, -75.123456789, 16777217, 0.00048828125, 0.0002125565617, 0.0454545455, 1e-5, 123456.789012345, 1.0 / 3, 2.5e-7, 1e21, 4503599627370497}
	readsBack := func(s string, want []float64) bool {
		toks := strings.Fields(strings.NewReplacer("[", " ", "]", " ", "{", " ", "}", " ").Replace(s))
		if len(toks) != len(want) {
			return false
		}
		for i, tok := range toks {
			if y, err := strconv.ParseFloat(tok, 64); err != nil || y != want[i] {
				return false
			}
		}
		return true
	}
	n := 0
	for _, it := range t.allItems() {
		p, ok := prints[it.node]
		if _, isAct := it.node.(*parse.ActionNode); !ok || !isAct || p.typ == nil {
			continue
		}
		list := false
		elemT := p.typ
		switch x := p.typ.Underlying().(type) {
		case *types.Slice:
			list, elemT = true, x.Elem()
		case *types.Array:
			list, elemT = true, x.Elem()
		}
		if !isF(elemT) || len(p.funcs) > 0 && (p.funcs[0] == "len" || p.funcs[0] == "not") {
			continue
		}
		n++
		construct := "`" + it.action + "` prints the number in a form that reads back as the same number"
		if named, ok := elemT.(*types.Named); ok {
			custom := false
			for _, m := range []string{"String", "Format", "Error"} {
				if obj, _, _ := types.LookupFieldOrMethod(named, true, named.Obj().Pkg(), m); obj != nil {
					custom = true
				}
			}
			if custom {
				c.undecided(rule, where, construct, token.NoPos, "the value prints itself through a method of "+named.Obj().Name()+", which is not evaluated")
				continue
			}
		}
		var bad []string
		switch {
		case len(p.funcs) == 0, len(p.funcs) == 1 && (p.funcs[0] == "print" || p.funcs[0] == "println"):
			// fmt's %v of a float64: strconv's shortest text that identifies the number
		case len(p.funcs) == 1 && p.funcs[0] == "printf" && p.fmt != "" && !list:
			for _, x := range table {
				if s := fmt.Sprintf(p.fmt, x); !readsBack(s, []float64{x}) {
					bad = append(bad, fmt.Sprintf("%v is written as %q", x, s))
				}
			}
		case len(p.funcs) == 1 && c.tmplFuncSSA(p.funcs[0]) != nil:
			f := c.tmplFuncSSA(p.funcs[0])
			st := c.aInit("type1")
			for _, x := range table {
				ev := st.newEval()
				arg, want := sv{k: svFloat, f: x}, []float64{x}
				if list {
					arg, want = ev.newList([]sv{{k: svFloat, f: x}, {k: svFloat, f: -x}}), []float64{x, -x}
				}
				ret := ev.runFunc(f, []sv{arg})
				if len(ret) < 1 || ret[0].k != svString {
					bad = append(bad, fmt.Sprintf("%s could not be evaluated for %v (%s)", p.funcs[0], x, ev.why))
					break
				}
				if !readsBack(ret[0].s, want) {
					bad = append(bad, fmt.Sprintf("%v is written as %q", x, ret[0].s))
				}
			}
		default:
			bad = append(bad, "the number goes through "+strings.Join(p.funcs, " | ")+", whose text is not decided")
		}
		c.check(len(bad) == 0, rule, where, construct, token.NoPos, fmt.Sprintf("%d values, up to 17 significant digits", len(table)),
			"the number "+p.expr+" does not survive being written: "+joinMax(bad, 4)+" — a decoder gets another value than the font has")
	}
	c.floor(rule, 6)
}
