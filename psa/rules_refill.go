package main

import (
	"fmt"
	"go/token"
	"strings"

	"golang.org/x/tools/go/ssa"
)

// refillTable evaluates scanner.refill over the cells (stored error present?, bytes delivered?,
// read error?) on the SSA form (ssaeval.go) and returns, per cell, what the function does.
type refillCell struct {
	stored, data, rerr bool
	read               bool   // the source was read
	ret                string // "nil", "stored", "readerr", or something else
	storedErr          string // value the sticky field holds afterwards if it differs from the one it held before: "", "readerr", other
	why                string
}

func (c *Ctx) refillTable() []refillCell {
	refill, whole := c.refillAnchor() // whole: the refill step is written out in the function that reads a byte (ext_y1.go)
	errF := c.fld("scanner.err")
	var out []refillCell
	for _, stored := range []bool{true, false} {
		for _, data := range []bool{true, false} {
			for _, rerr := range []bool{true, false} {
				cell := refillCell{stored: stored, data: data, rerr: rerr}
				ev := &ssaEval{c: c, bind: map[ssa.Value]sv{}, mem: map[string]sv{}}
				ev.load = func(ld *ssa.UnOp, addr sv) (sv, bool) {
					if strings.HasSuffix(addr.s, "."+errF) {
						if stored {
							return symV("storedErr"), true
						}
						return sv{k: svNil}, true
					}
					if v, ok := refillWholeLoad(whole, ld); ok {
						return v, true
					}
					return symV("v:" + addr.s), true
				}
				ev.oracle = func(op token.Token, x, y sv) (bool, bool) {
					// errors against nil
					for _, p := range [][2]sv{{x, y}, {y, x}} {
						if p[1].k == svNil && p[0].k == svSym && (p[0].s == "storedErr" || p[0].s == "readErr") {
							return op == token.NEQ, true
						}
					}
					// the byte count against 0
					r := 0
					if data {
						r = 1
					}
					if x.s == "n" && y.k == svInt && y.i == 0 {
					} else if y.s == "n" && x.k == svInt && x.i == 0 {
						r = -r
					} else {
						return false, false
					}
					switch op {
					case token.GTR:
						return r > 0, true
					case token.GEQ:
						return r >= 0, true
					case token.LSS:
						return r < 0, true
					case token.LEQ:
						return r <= 0, true
					case token.EQL:
						return r == 0, true
					case token.NEQ:
						return r != 0, true
					}
					return false, false
				}
				ev.call = func(call ssa.CallInstruction, args []sv) (sv, bool) {
					n := callName(call)
					if strings.HasPrefix(n, "invoke ") && strings.HasSuffix(n, ".Read") {
						if whole {
							// an empty buffer, a source that delivers one byte or none; when it is asked a second
							// time (nothing delivered, no error) it delivers a byte without error: the first pass
							// has then reported nothing
							nb, e := int64(0), sv{k: svNil}
							if data || cell.read {
								nb = 1
							}
							if rerr && !cell.read {
								e = symV("readErr")
							}
							cell.read = true
							return sv{k: svTuple, tup: []sv{intV(nb), e}}, true
						}
						cell.read = true
						e := sv{k: svNil}
						if rerr {
							e = symV("readErr")
						}
						return sv{k: svTuple, tup: []sv{symV("n"), e}}, true
					}
					if n == "builtin copy" {
						if whole {
							return intV(0), true
						}
						return symV("copied"), true
					}
					return sv{}, false
				}
				ret := ev.runFunc(refill, []sv{{k: svAddr, s: "s"}})
				cell.why = ev.why
				if whole && len(ret) == 2 {
					ret = ret[1:] // (byte, error): the error is what the step reports
				}
				if len(ret) == 1 {
					switch {
					case ret[0].k == svNil:
						cell.ret = "nil"
					case ret[0].s == "storedErr":
						cell.ret = "stored"
					case ret[0].s == "readErr":
						cell.ret = "readerr"
					default:
						cell.ret = ret[0].String()
					}
				}
				// the value of the sticky field when refill returns: the last store wins; a store of the
				// value the field holds already (nil over nil, the stored error over itself) changes nothing
				before := "nil"
				if stored {
					before = "storedErr"
				}
				for _, ef := range ev.effects {
					if ef.what == "store" && strings.HasSuffix(ef.addr, "."+errF) {
						switch {
						case ef.args[0].s == "readErr":
							cell.storedErr = "readerr"
						case ef.args[0].String() == before:
							cell.storedErr = ""
						default:
							cell.storedErr = ef.args[0].String()
						}
					}
				}
				out = append(out, cell)
			}
		}
	}
	return out
}

// refillRules: the delivery and stickiness clauses that concern refill, from its decision table.
func (c *Ctx) refillRules(ruleData, ruleSticky string) {
	refill, _ := c.refillAnchor()
	fname := c.fname(refill)
	var dataBad, stickyBad, storeBad []string
	for _, cl := range c.refillTable() {
		desc := fmt.Sprintf("(stored error: %v, bytes delivered: %v, read error: %v)", cl.stored, cl.data, cl.rerr)
		if cl.ret == "" {
			dataBad = append(dataBad, "refill could not be evaluated for "+desc+": "+cl.why)
			continue
		}
		if cl.stored {
			if cl.read || cl.ret != "stored" {
				stickyBad = append(stickyBad, fmt.Sprintf("with a stored error refill reads again: %v and returns %s", cl.read, cl.ret))
			}
			if cl.storedErr != "" {
				stickyBad = append(stickyBad, fmt.Sprintf("with a stored error refill overwrites the sticky error field with %q", cl.storedErr))
			}
			continue
		}
		if !cl.read {
			dataBad = append(dataBad, "refill does not read the source for "+desc)
		}
		want := "nil"
		if !cl.data && cl.rerr {
			want = "readerr"
		}
		if cl.ret != want {
			dataBad = append(dataBad, fmt.Sprintf("for %s refill returns %s, expected %s", desc, cl.ret, want))
		}
		wantStore := ""
		if cl.rerr {
			wantStore = "readerr"
		}
		if cl.storedErr != wantStore {
			storeBad = append(storeBad, fmt.Sprintf("for %s the sticky error field receives %q, expected %q", desc, cl.storedErr, wantStore))
		}
	}
	if ruleData != "" {
		c.check(len(dataBad) == 0, ruleData, fname, "n > 0 ⇒ no error reported yet", refill.Pos(), "decision table over (stored error, bytes delivered, read error)",
			"refill reports the read error even when the same Read delivered data (bytes returned together with EOF are dropped), or hides an error: "+joinMax(dedup(dataBad), 2))
	}
	if ruleSticky != "" {
		c.check(len(stickyBad) == 0, ruleSticky, fname, "refill returns the stored error before reading", refill.Pos(), "stored error ⇒ no read, the stored error is returned", "refill does not begin by returning the stored read error: a fault could be followed by further reads that hide it ("+joinMax(dedup(stickyBad), 2)+")")
		c.check(len(storeBad) == 0 && len(dataBad) == 0, ruleSticky, fname, "every read error is stored, never cleared", refill.Pos(), "read error ⇒ stored; no error ⇒ field untouched", "sticky error: "+joinMax(dedup(append(storeBad, dataBad...)), 2))
	}
}
