package main

import (
	"fmt"
	"go/token"
	"go/types"
	"sort"
	"strings"

	"golang.org/x/tools/go/ssa"
)

// Helpers of worker Y3 (round 6 of hardening): C02 operator rules, C11 interpreter rules.

// ---- getinterval: accepted operands and the interval that is pushed

// getintervalByEvaluation evaluates `getinterval` on the operand stack [keep obj index count] for
// an object of three elements and every index and count around the ends of the object and of the
// integer range, for arrays and for strings.  Prescribed (PLRM): rangecheck iff index < 0 or
// count < 0 or index + count > length(obj) (the sum taken in the integers, not in the machine
// word); otherwise nil, the three operands replaced by the elements index .. index+count-1 of the
// object.  Where the tests and the slicing stand — in the operator, in a helper that returns the
// bounds, in closures — does not matter.  decided=false: an evaluation stopped.
func (c *Ctx) getintervalByEvaluation(f *ssa.Function, kind string) (bad []string, cells int, decided bool, why string) {
	bits := uint(8 * c.pkg("postscript").TypesSizes.Sizeof(c.typeObj("postscript", "Integer").Type()))
	minI := int64(-1) << (bits - 1)
	maxI := -(minI + 1)
	const nd = 3
	elem := func(i int) sv {
		if kind == "String" {
			return intV(10 + int64(i))
		}
		return symV(fmt.Sprintf("Name:d%d", i))
	}
	vals := []int64{minI, -1, 0, 1, 2, 3, 4, maxI - 1, maxI}
	for _, idx := range vals {
		for _, cnt := range vals {
			o := c.opEval(f, true, func(ev *ssaEval) []sv {
				var de []sv
				for i := 0; i < nd; i++ {
					de = append(de, elem(i))
				}
				src := ev.newList(de)
				src.op = kind
				return []sv{obj("Integer", "keep"), src, intV(idx), intV(cnt)}
			}, nil, nil)
			name := fmt.Sprintf("index %d, count %d of a %s of %d elements", idx, cnt, strings.ToLower(kind), nd)
			if o.why != "" {
				return nil, cells, false, name + ": " + o.why
			}
			cells++
			accept := idx >= 0 && idx <= nd && cnt >= 0 && cnt <= nd-idx
			switch {
			case !accept && o.ret != "error:rangecheck":
				bad = append(bad, fmt.Sprintf("%s gives %s (operand stack %s), the PLRM prescribes rangecheck", name, o.ret, o.final))
			case accept && o.ret != "nil":
				bad = append(bad, fmt.Sprintf("%s gives %s, the PLRM accepts these operands", name, o.ret))
			case accept:
				var want []string
				for i := int(idx); i < int(idx+cnt); i++ {
					want = append(want, o.ev.render(elem(i)))
				}
				if exp := "[Integer:keep [" + strings.Join(want, " ") + "]]"; o.final != exp {
					bad = append(bad, fmt.Sprintf("%s leaves the operand stack %s, expected %s", name, o.final, exp))
				}
			}
		}
	}
	return bad, cells, true, ""
}

// ---- OP-STACKEFFECT: a return that hands on the result of a call

// tailCallOf: v, a value returned by r, is the result (index i) of a call that stands in the block
// of r: `return helper(intp)`, `return op.apply(intp)`.
func tailCallOf(v ssa.Value, r *ssa.Return) (*ssa.Call, int, bool) {
	v = origin(v)
	i := 0
	if ex, ok := v.(*ssa.Extract); ok {
		v, i = ex.Tuple, ex.Index
	}
	call, ok := v.(*ssa.Call)
	if !ok || call.Block() != r.Block() {
		return nil, 0, false
	}
	return call, i, true
}

// untracked: the possible heights of the operand stack (relative to the entry of fn) right before
// instruction number `upto` of block b, for a function that never reads or writes the Stack field
// itself (the fact engine tracks no epochs for it): the height changes only in calls, and only in
// those whose callees may write the field (mod sets of the call graph).  Such a call must be a
// static call of a module function that receives the interpreter (composed by throughCall);
// anything else, or such a call inside a loop, leaves the question open.
func (sx *stackFx) untracked(b *ssa.BasicBlock, upto int, ctx *ssa.BasicBlock, depth int, onPath map[*ssa.BasicBlock]bool) ([]int64, bool) {
	if depth > 8 {
		return nil, false
	}
	field := ""
	if pt, ok := sx.basev.Type().Underlying().(*types.Pointer); ok {
		field = types.TypeString(pt.Elem(), nil) + ".Stack"
	}
	if field == "" {
		return nil, false
	}
	relevant := func(ins ssa.Instruction) bool {
		call, ok := ins.(ssa.CallInstruction)
		return ok && callMayModify(call, field)
	}
	for i := upto - 1; i >= 0; i-- {
		if i >= len(b.Instrs) || !relevant(b.Instrs[i]) {
			continue
		}
		call, ok := b.Instrs[i].(*ssa.Call)
		if !ok || blockInLoop(b) {
			return nil, false
		}
		return sx.throughCall(call, ctx, depth)
	}
	if len(b.Preds) == 0 {
		return []int64{0}, true
	}
	if onPath[b] {
		return nil, true // around a loop without such calls: nothing new
	}
	onPath[b] = true
	defer delete(onPath, b)
	var all []int64
	for _, p := range b.Preds {
		es, ok := sx.untracked(p, len(p.Instrs), ctx, depth, onPath)
		if !ok {
			return nil, false
		}
		all = unionInts(all, es)
	}
	return all, true
}

// blockInLoop: b can reach itself.
func blockInLoop(b *ssa.BasicBlock) bool {
	seen := map[*ssa.BasicBlock]bool{}
	var walk func(x *ssa.BasicBlock) bool
	walk = func(x *ssa.BasicBlock) bool {
		for _, s := range x.Succs {
			if s == b {
				return true
			}
			if !seen[s] {
				seen[s] = true
				if walk(s) {
					return true
				}
			}
		}
		return false
	}
	return walk(b)
}

// mayCall: some instruction of g calls target, directly or through a static callee for which the
// same holds (depth levels down).
func mayCall(g, target *ssa.Function, depth int) bool {
	if g == nil || len(g.Blocks) == 0 || depth < 0 || g == target {
		return false
	}
	found := false
	eachInstr(g, func(ins ssa.Instruction) {
		if call, ok := ins.(ssa.CallInstruction); ok && !found {
			if sc := call.Common().StaticCallee(); sc == target || (sc != nil && sc != g && mayCall(sc, target, depth-1)) {
				found = true
			}
		}
	})
	return found
}

// ---- OP-SHARE: a value fetched by a helper that only reads

// accessorResultSource: result idx of a static call of a module function that leaves the operand
// stack as it is (no store to the Stack field, no calls other than builtins: it only reads) and
// receives the interpreter of the caller: the value is what the helper returns, described in the
// helper (an operand fetched by `topAs[T](intp)` is the operand); a parameter handed back is the
// argument of the call.
func (c *Ctx) accessorResultSource(ia *interpAnchors, call *ssa.Call, idx int, depth int) (string, bool) {
	g := call.Call.StaticCallee()
	if g == nil || call.Call.IsInvoke() || !c.inModule(g) || len(g.Blocks) == 0 || g == ia.load || depth > 8 {
		return "", false
	}
	if g.Signature.Results().Len() <= idx {
		return "", false
	}
	// the interpreter it receives is the caller's own
	for _, a := range call.Call.Args {
		if pt, ok := a.Type().Underlying().(*types.Pointer); ok {
			if nt, ok := pt.Elem().(*types.Named); ok && nt.Obj() == ia.T {
				if _, isParam := origin(a).(*ssa.Parameter); !isParam {
					return "", false
				}
			}
		}
	}
	pure := true
	eachInstr(g, func(ins ssa.Instruction) {
		switch x := ins.(type) {
		case *ssa.Store:
			if _, isAlloc := x.Addr.(*ssa.Alloc); !isAlloc {
				pure = false
			}
		case *ssa.MapUpdate, *ssa.Go, *ssa.Defer, *ssa.Send:
			pure = false
		case ssa.CallInstruction:
			if _, isB := x.Common().Value.(*ssa.Builtin); !isB {
				pure = false
			}
		}
	})
	if !pure {
		return "", false
	}
	set := map[string]bool{}
	for _, r := range returns(g) {
		if idx >= len(r.Results) {
			return "", false
		}
		for _, rv := range retValues(r, idx) {
			v := rv
			for {
				v = origin(v)
				switch y := v.(type) {
				case *ssa.MakeInterface:
					v = y.X
					continue
				case *ssa.ChangeInterface:
					v = y.X
					continue
				case *ssa.TypeAssert:
					v = y.X
					continue
				case *ssa.Extract:
					if ta, ok := y.Tuple.(*ssa.TypeAssert); ok && y.Index == 0 {
						v = ta.X
						continue
					}
				}
				break
			}
			if p, ok := v.(*ssa.Parameter); ok {
				hit := false
				for i, gp := range g.Params {
					if gp == p && i < len(call.Call.Args) {
						set[c.valueSource(ia, call.Call.Args[i], depth+1)] = true
						hit = true
					}
				}
				if !hit {
					return "", false
				}
				continue
			}
			set[c.valueSource(ia, rv, depth+1)] = true
		}
	}
	var l []string
	for s := range set {
		if s == "?" || strings.Contains(s, "param") {
			return "", false
		}
		l = append(l, s)
	}
	if len(l) == 0 {
		return "", false
	}
	sort.Strings(l)
	return strings.Join(l, "|"), true
}

// ---- OP-STACKEFFECT: a pop made by a helper that receives the address of the stack

// popThroughPointer: g shortens the slice its parameter number pi points to by exactly K elements
// on every path and does nothing else to it: the only store through the parameter is
// `*p = (*p)[:len(*p)-K]`, it stands in a block that dominates every return, and the parameter is
// otherwise only loaded.  (`popLast(&intp.Stack)` is `intp.Stack = intp.Stack[:len(intp.Stack)-1]`.)
func popThroughPointer(g *ssa.Function, pi int) (int64, bool) {
	if g == nil || len(g.Blocks) == 0 || pi >= len(g.Params) || g.Params[pi].Referrers() == nil {
		return 0, false
	}
	p := g.Params[pi]
	isLoad := func(v ssa.Value) bool {
		u, ok := origin(v).(*ssa.UnOp)
		return ok && u.Op == token.MUL && u.X == ssa.Value(p)
	}
	var st *ssa.Store
	for _, r := range *p.Referrers() {
		switch x := r.(type) {
		case *ssa.UnOp:
			if x.Op != token.MUL {
				return 0, false
			}
		case *ssa.Store:
			if x.Addr != ssa.Value(p) || st != nil {
				return 0, false
			}
			st = x
		case *ssa.DebugRef:
		default:
			return 0, false
		}
	}
	if st == nil {
		return 0, false
	}
	sl, ok := st.Val.(*ssa.Slice)
	if !ok || sl.Low != nil || sl.High == nil || sl.Max != nil || !isLoad(sl.X) {
		return 0, false
	}
	bo, ok := origin(sl.High).(*ssa.BinOp)
	if !ok || bo.Op != token.SUB {
		return 0, false
	}
	k, isC := constInt(bo.Y)
	ln, isCall := origin(bo.X).(*ssa.Call)
	if !isC || k <= 0 || !isCall {
		return 0, false
	}
	if b, isB := ln.Call.Value.(*ssa.Builtin); !isB || b.Name() != "len" || len(ln.Call.Args) != 1 || !isLoad(ln.Call.Args[0]) {
		return 0, false
	}
	for _, r := range returns(g) {
		if r.Block() != st.Block() && !st.Block().Dominates(r.Block()) {
			return 0, false
		}
	}
	return k, true
}

// ---- C11: an error value hoisted into a package-level variable

// globalOnlyValue: the one value package-level variable g ever holds: stored once, by the package
// initialiser, and g is otherwise only loaded (no other store, its address goes nowhere).
func (c *Ctx) globalOnlyValue(g *ssa.Global) ssa.Value {
	var val ssa.Value
	n, bad := 0, false
	visit := func(f *ssa.Function) {
		eachInstr(f, func(ins ssa.Instruction) {
			if st, ok := ins.(*ssa.Store); ok && st.Addr == ssa.Value(g) {
				n++
				val = st.Val
				if f != g.Pkg.Func("init") {
					bad = true
				}
				return
			}
			if u, ok := ins.(*ssa.UnOp); ok && u.Op == token.MUL && u.X == ssa.Value(g) {
				return
			}
			if _, isDbg := ins.(*ssa.DebugRef); isDbg {
				return
			}
			for _, op := range ins.Operands(nil) {
				if op != nil && *op == ssa.Value(g) {
					bad = true
				}
			}
		})
	}
	if init := g.Pkg.Func("init"); init != nil {
		visit(init)
	}
	for _, f := range c.modFuncs {
		if f != g.Pkg.Func("init") {
			visit(f)
		}
	}
	if bad || n != 1 {
		return nil
	}
	return val
}

// ---- L2-SENTINEL: the exclusion test stands at the call of the helper that holds the dispatch

// sentinelExcludedAt: block b of function f is entered only after a value was found different from
// the sentinel: a comparison `x != sentinel` dominates b, or f is a helper that is only ever
// called (never used as a value) from sites for which the same holds with one of the arguments
// of the call as x (`if psErr != ErrExecutionLimitExceeded { return intp.handleError(psErr) }`).
func (c *Ctx) sentinelExcludedAt(b *ssa.BasicBlock, sentinel *ssa.Global, args []ssa.Value, depth int) (bool, string) {
	strip := func(v ssa.Value) ssa.Value {
		for i := 0; i < 6; i++ {
			v = origin(v)
			switch x := v.(type) {
			case *ssa.MakeInterface:
				v = x.X
				continue
			case *ssa.ChangeInterface:
				v = x.X
				continue
			case *ssa.TypeAssert:
				v = x.X
				continue
			case *ssa.Extract:
				if ta, ok := x.Tuple.(*ssa.TypeAssert); ok && x.Index == 0 {
					v = ta.X
					continue
				}
			}
			break
		}
		return v
	}
	for _, cd := range domConds(b) {
		m, ok := asCmp(cd)
		if !ok || m.op != token.NEQ {
			continue
		}
		other := m.x
		switch {
		case globalLoad(m.x) == sentinel:
			other = m.y
		case globalLoad(m.y) == sentinel:
		default:
			continue
		}
		if args == nil {
			return true, "dominated by `err != ErrExecutionLimitExceeded`"
		}
		for _, a := range args {
			if strip(a) == strip(other) {
				return true, "the helper that holds the dispatch is only called under `err != ErrExecutionLimitExceeded`, with that error"
			}
		}
	}
	if depth >= 3 {
		return false, ""
	}
	f := b.Parent()
	if f == nil || f.Parent() != nil || len(f.Blocks) == 0 {
		return false, ""
	}
	// every use of f in the module is a static call
	n, all := 0, true
	why := ""
	for _, h := range c.modFuncs {
		eachInstr(h, func(ins ssa.Instruction) {
			if call, ok := ins.(ssa.CallInstruction); ok && call.Common().StaticCallee() == f && !call.Common().IsInvoke() {
				if _, isCall := ins.(*ssa.Call); !isCall {
					all = false // go / defer
					return
				}
				for _, a := range call.Common().Args {
					if a == ssa.Value(f) {
						all = false
					}
				}
				n++
				okc, w := c.sentinelExcludedAt(ins.Block(), sentinel, call.Common().Args, depth+1)
				if !okc {
					all = false
				}
				why = w
				return
			}
			for _, op := range ins.Operands(nil) {
				if op != nil && *op == ssa.Value(f) {
					all = false
				}
			}
		})
	}
	if n == 0 || !all {
		return false, ""
	}
	return true, why
}
