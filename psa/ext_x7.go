package main

import (
	"fmt"
	"go/token"
	"go/types"
	"strings"

	"golang.org/x/tools/go/ssa"
)

// Helpers of worker X7 (round 5 of hardening): C02 operator semantics, C13 error flow.

// ---- C13: a boolean result that tells whether the error result is set

// errFlagResults: the boolean results of module function g that announce its error result: result
// j qualifies with polarity p when at every return of g the error result is the constant nil, or
// result j is the constant p, or result j is the comparison `err != nil` (p = true) / `err == nil`
// (p = false) of the very value returned as the error.  Then `flag == !p` at a call site implies
// that the error of that call is nil, and a branch on the flag is a consultation of the error:
// `done, err := run(); if done { return err }` and `err := run(); if err != nil { return err }`
// are the same thing.  Results that live in a cell (named results with a deferred call) do not
// qualify.
func errFlagResults(g *ssa.Function) map[int]bool {
	ei := errIndex(g.Signature)
	if ei < 0 || len(g.Blocks) == 0 {
		return nil
	}
	res := g.Signature.Results()
	out := map[int]bool{}
	for j := 0; j < res.Len(); j++ {
		bt, ok := res.At(j).Type().Underlying().(*types.Basic)
		if !ok || bt.Kind() != types.Bool || j == ei {
			continue
		}
		for _, pol := range []bool{true, false} {
			good, n := true, 0
			for _, r := range returns(g) {
				if len(r.Results) != res.Len() {
					good = false
					break
				}
				n++
				ev, fv := r.Results[ei], r.Results[j]
				if isNilConst(ev) {
					continue
				}
				if k, isC := constBool(fv); isC && k == pol {
					continue
				}
				if bo, ok := fv.(*ssa.BinOp); ok && (bo.Op == token.NEQ && pol || bo.Op == token.EQL && !pol) {
					if bo.X == ev && isNilConst(bo.Y) || bo.Y == ev && isNilConst(bo.X) {
						continue
					}
				}
				good = false
				break
			}
			if good && n > 0 {
				out[j] = pol
				break
			}
		}
	}
	return out
}

// errFlagsOf: the flag values of a call (see errFlagResults): the extracted boolean results of the
// call, mapped to the polarity with which they announce an error.
func (a *ioAnalysis) errFlagsOf(call ssa.CallInstruction) map[ssa.Value]bool {
	cv, ok := call.(*ssa.Call)
	if !ok || cv.Referrers() == nil {
		return nil
	}
	g := call.Common().StaticCallee()
	if g == nil || !a.c.inModule(g) {
		return nil
	}
	fl := errFlagResults(g)
	if len(fl) == 0 {
		return nil
	}
	out := map[ssa.Value]bool{}
	for _, r := range *cv.Referrers() {
		if ex, ok := r.(*ssa.Extract); ok {
			if pol, ok := fl[ex.Index]; ok {
				out[ex] = pol
			}
		}
	}
	return out
}

// flagBranches: the branches on a flag value (directly or negated), each with the index of the
// successor on which the flag announces an error.
func flagBranches(f ssa.Value, pol bool) (ifs []*ssa.If, errEdge []int) {
	var walk func(v ssa.Value, pol bool, depth int)
	walk = func(v ssa.Value, pol bool, depth int) {
		if v.Referrers() == nil || depth > 3 {
			return
		}
		for _, r := range *v.Referrers() {
			switch x := r.(type) {
			case *ssa.If:
				ifs = append(ifs, x)
				if pol {
					errEdge = append(errEdge, 0)
				} else {
					errEdge = append(errEdge, 1)
				}
			case *ssa.UnOp:
				if x.Op == token.NOT {
					walk(x, !pol, depth+1)
				}
			}
		}
	}
	walk(f, pol, 0)
	return
}

// errPassThrough: the indices of the parameters of g (receiver included) that g may return as its
// error result, directly or through a choice (φ).
func errPassThrough(g *ssa.Function) []int {
	if g == nil || len(g.Blocks) == 0 {
		return nil
	}
	ei := errIndex(g.Signature)
	if ei < 0 {
		return nil
	}
	var out []int
	seen := map[ssa.Value]bool{}
	var walk func(v ssa.Value)
	walk = func(v ssa.Value) {
		if seen[v] {
			return
		}
		seen[v] = true
		switch x := v.(type) {
		case *ssa.Phi:
			for _, ed := range x.Edges {
				walk(ed)
			}
		case *ssa.Parameter:
			for i, p := range g.Params {
				if p == x {
					out = append(out, i)
				}
			}
		}
	}
	for _, r := range returns(g) {
		if ei < len(r.Results) {
			for _, v := range retValues(r, ei) {
				walk(v)
			}
		}
	}
	return out
}

// ---- C02 / C13: one registered operator evaluated on a prepared operand stack

// opRun is one evaluation of a registered operator on the SSA form.
type opRun struct {
	ev      *ssaEval
	ret     string // "nil", "error:<name>", or the rendering of what is returned
	final   string // the operand stack afterwards
	why     string // why the evaluation stopped ("" if a return was reached)
	updates []ssaEffect
}

// opTypeOf: the PostScript type of an operand value of the evaluator.
func opTypeOf(v sv) string {
	switch v.k {
	case svList, svString:
		return v.op
	case svInt:
		return "Integer"
	case svBool:
		return "Boolean"
	case svFloat:
		return "Real"
	case svSym:
		if i := strings.Index(v.s, ":"); i > 0 {
			return v.s[:i]
		}
	}
	return ""
}

// opEval evaluates operator f with the operand stack built by build (which may create lists on
// the evaluator).  lookup models map look-ups (val, present, handled); call is consulted before the
// generic model of calls.  Helpers of the module are evaluated in place; running an object
// (executeOne) is opaque.
func (c *Ctx) opEval(f *ssa.Function, concrete bool, build func(ev *ssaEval) []sv,
	lookup func(m, k sv) (sv, bool, bool),
	call func(ev *ssaEval, call ssa.CallInstruction, args []sv) (sv, bool)) opRun {
	ia := c.interp()
	ev := &ssaEval{c: c, bind: map[ssa.Value]sv{}, mem: map[string]sv{}, maxDepth: 6, makeLists: concrete}
	ev.mem["intp.Stack"] = ev.newList(build(ev))
	ev.noInline = func(g *ssa.Function) bool { return g == ia.executeOne }
	ev.load = func(ld *ssa.UnOp, addr sv) (sv, bool) {
		if addr.k == svAddr && strings.HasPrefix(addr.s, "cell") && !strings.ContainsAny(addr.s, ".[") {
			return aZeroSV(ld.Type())
		}
		return sv{}, false
	}
	if lookup != nil {
		ev.lookup = func(x *ssa.Lookup, m, k sv) (sv, bool) {
			val, present, ok := lookup(m, k)
			if !ok {
				return sv{}, false
			}
			if !present {
				val = sv{k: svNil}
			}
			if !x.CommaOk {
				return val, true
			}
			return sv{k: svTuple, tup: []sv{val, boolV(present)}}, true
		}
	}
	ev.call = func(ci ssa.CallInstruction, args []sv) (sv, bool) {
		if ci == nil {
			if len(args) == 2 && strings.HasPrefix(args[0].s, "typeassert:") && (opTypeOf(args[1]) != "" || args[1].k == svNil) {
				want := args[0].s[len("typeassert:"):]
				want = want[strings.LastIndex(want, ".")+1:]
				if opTypeOf(args[1]) == want {
					return sv{k: svTuple, tup: []sv{args[1], boolV(true)}}, true
				}
				zero := sv{k: svNil}
				switch want {
				case "Name", "Operator":
					zero = sv{k: svString}
				case "Integer":
					zero = intV(0)
				case "Boolean":
					zero = boolV(false)
				case "Real":
					zero = sv{k: svFloat}
				}
				return sv{k: svTuple, tup: []sv{zero, boolV(false)}}, true
			}
			return sv{}, false
		}
		if call != nil {
			if r, ok := call(ev, ci, args); ok {
				return r, true
			}
		}
		if cc := ci.Common(); cc.StaticCallee() == ia.e && len(cc.Args) > 1 {
			return symV("error:" + c.errNameOfArg(cc.Args[1])), true
		}
		return sv{}, false
	}
	ev.oracle = func(op token.Token, x, y sv) (bool, bool) {
		if (x.k == svSym || x.k == svNil) && (y.k == svSym || y.k == svNil) {
			eq := x.String() == y.String()
			switch op {
			case token.EQL:
				return eq, true
			case token.NEQ:
				return !eq, true
			}
		}
		return false, false
	}
	res := ev.runFunc(f, []sv{{k: svAddr, s: "intp"}})
	out := opRun{ev: ev, why: ev.why, final: ev.render(ev.mem["intp.Stack"])}
	if out.why == "" && len(res) != 1 {
		out.why = "no return reached"
	}
	if len(res) == 1 {
		out.ret = res[0].String()
	}
	for _, ef := range ev.effects {
		if ef.what == "mapupdate" {
			out.updates = append(out.updates, ef)
		}
	}
	return out
}

// ---- putinterval: accepted operands and the write into the operand's storage

// putintervalByEvaluation evaluates `putinterval` on the operand stack [keep dst index src] for a
// destination of three elements, sources of 0..4 elements and every index around the ends of the
// destination and of the integer range, for arrays and for strings.  Prescribed (PLRM): rangecheck
// iff index < 0 or index + length(src) > length(dst), with the operands left in place; otherwise
// nil, the three operands removed, and the elements index .. index+length(src)-1 of the very
// object that was the operand replaced by those of the source (other references to the object see
// the change).  Where the tests and the copy stand — in the operator, in a helper, in a generic
// helper — does not matter.  decided=false: an evaluation stopped.
func (c *Ctx) putintervalByEvaluation(f *ssa.Function, kind string) (badRegion, badWrite []string, cells int, decided bool, why string) {
	bits := uint(8 * c.pkg("postscript").TypesSizes.Sizeof(c.typeObj("postscript", "Integer").Type()))
	minI := int64(-1) << (bits - 1)
	maxI := -(minI + 1)
	const nd = 3
	{
		elem := func(tag string, i int) sv {
			if kind == "String" {
				base := int64(10)
				if tag == "s" {
					base = 20
				}
				return intV(base + int64(i))
			}
			return symV(fmt.Sprintf("Name:%s%d", tag, i))
		}
		for ns := 0; ns <= nd+1; ns++ {
			for _, idx := range []int64{minI, -1, 0, 1, 2, 3, 4, maxI - 1, maxI} {
				var dst sv
				o := c.opEval(f, true, func(ev *ssaEval) []sv {
					var de, se []sv
					for i := 0; i < nd; i++ {
						de = append(de, elem("d", i))
					}
					for i := 0; i < ns; i++ {
						se = append(se, elem("s", i))
					}
					dst = ev.newList(de)
					dst.op = kind
					src := ev.newList(se)
					src.op = kind
					return []sv{obj("Integer", "keep"), dst, intV(idx), src}
				}, nil, nil)
				name := fmt.Sprintf("a %s of %d elements at index %d into a %s of %d", strings.ToLower(kind), ns, idx, strings.ToLower(kind), nd)
				if o.why != "" {
					return nil, nil, cells, false, name + ": " + o.why
				}
				cells++
				accept := idx >= 0 && idx <= nd && idx+int64(ns) <= nd
				var want []string
				for i := 0; i < nd; i++ {
					if accept && int64(i) >= idx && int64(i) < idx+int64(ns) {
						want = append(want, o.ev.render(elem("s", i-int(idx))))
					} else {
						want = append(want, o.ev.render(elem("d", i)))
					}
				}
				got := o.ev.render(dst)
				switch {
				case !accept && o.ret != "error:rangecheck":
					badRegion = append(badRegion, fmt.Sprintf("putting %s gives %s, the PLRM prescribes rangecheck", name, o.ret))
				case accept && o.ret != "nil":
					badRegion = append(badRegion, fmt.Sprintf("putting %s gives %s, the PLRM accepts these operands", name, o.ret))
				case accept && o.final != "[Integer:keep]":
					badRegion = append(badRegion, fmt.Sprintf("putting %s leaves the operand stack %s, expected [Integer:keep]", name, o.final))
				}
				if got != "["+strings.Join(want, " ")+"]" {
					badWrite = append(badWrite, fmt.Sprintf("putting %s (result %s): the destination object holds %s afterwards, expected [%s]", name, o.ret, got, strings.Join(want, " ")))
				}
			}
		}
	}
	return badRegion, badWrite, cells, true, ""
}

// ---- eq / ne: the two operands are compared, the result is pushed with the right polarity

// eqneByEvaluation evaluates the registered operator eq / ne on the operand stack [keep A B]; the
// comparison function of the package (`equal`, whose dictionary dispatch and probe protocol have
// their own obligations) is opaque and answers true, false or an error.  Prescribed: the
// comparison is made exactly once, on the two topmost operands; both are removed and one boolean
// is pushed — the answer for eq, its negation for ne; an error of the comparison is what the
// operator returns.  Whether the operands are fetched in the operator or in a helper that pops
// and compares does not matter.
func (c *Ctx) eqneByEvaluation(f, equal *ssa.Function, negate bool) (badCmp, badPol []string, decided bool, why string) {
	for _, cell := range []string{"true", "false", "error"} {
		var seen [][]sv
		o := c.opEval(f, false, func(ev *ssaEval) []sv {
			return []sv{obj("Integer", "keep"), obj("Dict", "A"), obj("Dict", "B")}
		}, nil, func(ev *ssaEval, ci ssa.CallInstruction, args []sv) (sv, bool) {
			if ci.Common().StaticCallee() != equal {
				return sv{}, false
			}
			seen = append(seen, args)
			switch cell {
			case "error":
				return sv{k: svTuple, tup: []sv{boolV(false), symV("error:typecheck")}}, true
			}
			return sv{k: svTuple, tup: []sv{boolV(cell == "true"), {k: svNil}}}, true
		})
		if o.why != "" {
			return nil, nil, false, "the comparison answering " + cell + ": " + o.why
		}
		okArgs := len(seen) == 1 && len(seen[0]) == 2
		if okArgs {
			a, b := seen[0][0].String(), seen[0][1].String()
			okArgs = a == "Dict:A" && b == "Dict:B" || a == "Dict:B" && b == "Dict:A"
		}
		if !okArgs {
			var p []string
			for _, s := range seen {
				var q []string
				for _, a := range s {
					q = append(q, a.String())
				}
				p = append(p, "("+strings.Join(q, ", ")+")")
			}
			badCmp = append(badCmp, fmt.Sprintf("with the comparison answering %s: %d comparison(s) made, on %s; expected one, on the two topmost operands (Dict:A, Dict:B)", cell, len(seen), strings.Join(p, " ")))
			continue
		}
		if cell == "error" {
			if o.ret != "error:typecheck" {
				badCmp = append(badCmp, "an error of the comparison is not returned: the operator returns "+o.ret)
			}
			continue
		}
		want := cell == "true"
		if negate {
			want = !want
		}
		if o.ret != "nil" || o.final != fmt.Sprintf("[Integer:keep %v]", want) {
			badPol = append(badPol, fmt.Sprintf("with the comparison answering %s: result %s, operand stack %s afterwards; expected nil and [Integer:keep %v]", cell, o.ret, o.final, want))
		}
	}
	return badCmp, badPol, true, ""
}

// ---- defineresource: only a complete CMap is registered in category CMap (IO-REGISTER)

// defineCMapByEvaluation evaluates the registered operator `defineresource` on the operand stack
// [keep /inst instance /CMap]; the resource directory is opaque and has the category.  A CMap read
// from a file that was cut off before `endcmap` has no finished code map: the instance is
// registered (stored into the category, result nil) only if it is a dictionary whose CodeMap entry
// is a *CMapInfo; an instance that is no dictionary, has no CodeMap entry, or has one of another
// type is a typecheck and nothing is stored.  The test may stand in the operator or in a helper.
func (c *Ctx) defineCMapByEvaluation(f *ssa.Function) (bad []string, decided bool, why string) {
	resources, category := obj("Dict", "resources"), obj("Dict", "category")
	str := func(tp, s string) sv { return sv{k: svString, s: s, op: tp} }
	for _, t := range []struct {
		what     string
		instance sv
		codeMap  sv
		accept   bool
	}{
		{"the instance is not a dictionary", obj("Integer", "5"), sv{}, false},
		{"the instance has no CodeMap entry", obj("Dict", "instance"), sv{}, false},
		{"the CodeMap entry of the instance is not a *CMapInfo", obj("Dict", "instance"), obj("Integer", "7"), false},
		{"the CodeMap entry of the instance is a *CMapInfo", obj("Dict", "instance"), obj("CMapInfo", "cm"), true},
	} {
		o := c.opEval(f, false, func(ev *ssaEval) []sv {
			ev.mem["intp.Resources"] = resources
			return []sv{obj("Integer", "keep"), str("Name", "inst"), t.instance, str("Name", "CMap")}
		}, func(m, k sv) (sv, bool, bool) {
			switch {
			case m.k == svNil:
				return sv{}, false, true
			case m.k == svSym && m.s == resources.s && k.k == svString:
				return category, k.s == "CMap", true
			case m.k == svSym && m.s == "Dict:instance" && k.k == svString:
				if k.s == "CodeMap" && t.codeMap.known() {
					return t.codeMap, true, true
				}
				return sv{}, false, true
			}
			return sv{}, false, false
		}, nil)
		if o.why != "" {
			return nil, false, "when " + t.what + ": " + o.why
		}
		stored := 0
		for _, u := range o.updates {
			if u.addr == category.String() && len(u.args) == 2 && u.args[1].String() == t.instance.String() {
				stored++
			} else {
				stored += 100
			}
		}
		switch {
		case t.accept && (o.ret != "nil" || stored != 1):
			bad = append(bad, fmt.Sprintf("when %s: result %s, %d store(s) into the category; expected nil and the instance stored", t.what, o.ret, len(o.updates)))
		case !t.accept && (o.ret != "error:typecheck" || len(o.updates) != 0):
			bad = append(bad, fmt.Sprintf("when %s: result %s, %d store(s) into a dictionary; expected typecheck and nothing registered", t.what, o.ret, len(o.updates)))
		}
	}
	return bad, true, ""
}

// nilTestDominates: block b is entered only after e has been compared with nil (whatever the outcome).
func nilTestDominates(e ssa.Value, b *ssa.BasicBlock) bool {
	for _, cd := range domConds(b) {
		if m, ok := asCmp(cd); ok && (m.op == token.EQL || m.op == token.NEQ) && (m.x == e && isNilConst(m.y) || m.y == e && isNilConst(m.x)) {
			return true
		}
	}
	return false
}
