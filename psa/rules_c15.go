package main

import (
	"fmt"
	"go/ast"
	"go/token"
	"go/types"
	"regexp"
	"sort"
	"strings"

	"golang.org/x/tools/go/ssa"
)

// C15 — AFM round trip.  Rule family A11 FIELDSYM (AFM part).

func init() {
	register(&propCheck{
		id:    "C15",
		title: "AFM metrics survive writing and reading",
		explanation: "Decides the field- and keyword-symmetry clauses of C15: the set of Metrics, GlyphInfo and KernPair fields the reader stores equals the set the writer (with the query methods it calls) loads; every keyword the writer emits for a data field is a keyword the reader handles and both sides connect it to the same field; the numeric verb the writer uses for a field produces text the reader's parser for that field accepts; every format string handed to the writer's formatting helper is a constant (data never takes the format position); " +
			"the character-metrics section is parsed key by key from `;`-separated fields without any filter on the layout of the line, so that an independent writer's spacing and field order are understood; header keywords are matched on the first white-space separated field. Ligature order and determinism are C17's. " +
			"It does NOT decide equality of metrics nor idempotence of a second cycle.",
		trusted:     []string{"go/ssa field accesses, fmt verb semantics table in the checker"},
		assumptions: []string{"numbers are finite"},
		run:         runC15,
	})
}

func runC15(c *Ctx) {
	info := c.info("afm")
	read := c.fn("afm", "Read")
	write := c.method("afm", "Metrics", "Write")
	c.historyIndependence("AFM-HISTORY", 10, read, write)
	types3 := map[string]*types.TypeName{"Metrics": c.typeObj("afm", "Metrics"), "GlyphInfo": c.typeObj("afm", "GlyphInfo"), "KernPair": c.typeObj("afm", "KernPair")}

	// ---- field coverage
	stored := map[string]bool{}
	loaded := map[string]bool{}
	collect := func(f *ssa.Function, stores, loads map[string]bool, seen map[*ssa.Function]bool) {}
	var walk func(f *ssa.Function, stores, loads map[string]bool, seen map[*ssa.Function]bool)
	walk = func(f *ssa.Function, stores, loads map[string]bool, seen map[*ssa.Function]bool) {
		if seen[f] || !c.inModule(f) {
			return
		}
		seen[f] = true
		eachInstr(f, func(ins ssa.Instruction) {
			switch x := ins.(type) {
			case *ssa.Store:
				if base, fld, ok := fieldAddrOf(x.Addr); ok {
					for tn, T := range types3 {
						if pointsTo(base.Type(), T) {
							stores[tn+"."+fld.Name()] = true
						}
					}
				}
			case *ssa.UnOp:
				if x.Op == token.MUL {
					if base, fld, ok := fieldAddrOf(x.X); ok {
						for tn, T := range types3 {
							if pointsTo(base.Type(), T) {
								loads[tn+"."+fld.Name()] = true
							}
						}
					}
				}
			case *ssa.FieldAddr:
				// address taken for a method call (g.BBox.LLx …): counts as a load of the outer field
				for tn, T := range types3 {
					if pointsTo(x.X.Type(), T) {
						st := x.X.Type().Underlying().(*types.Pointer).Elem().Underlying().(*types.Struct)
						// only if used for reading sub-fields
						reads := false
						for _, r := range *x.Referrers() {
							switch r.(type) {
							case *ssa.FieldAddr, *ssa.UnOp, ssa.CallInstruction:
								reads = true
							}
						}
						if reads {
							loads[tn+"."+st.Field(x.Field).Name()] = true
						}
					}
				}
			case *ssa.Field:
				if n, ok := x.X.Type().(*types.Named); ok {
					for tn, T := range types3 {
						if n.Obj() == T {
							loads[tn+"."+T.Type().Underlying().(*types.Struct).Field(x.Field).Name()] = true
						}
					}
				}
			case ssa.CallInstruction:
				if sc := x.Common().StaticCallee(); sc != nil {
					walk(sc, stores, loads, seen)
				}
				for _, cl := range closuresOf(x.Common().Value) {
					walk(cl, stores, loads, seen)
				}
			case *ssa.MakeClosure:
				walk(x.Fn.(*ssa.Function), stores, loads, seen)
			}
		})
	}
	_ = collect
	tmp := map[string]bool{}
	walk(read, stored, tmp, map[*ssa.Function]bool{})
	tmp2 := map[string]bool{}
	walk(write, tmp2, loaded, map[*ssa.Function]bool{})
	var onlyRead, onlyWritten []string
	for f := range stored {
		if !loaded[f] {
			onlyRead = append(onlyRead, f)
		}
	}
	for f := range loaded {
		if !stored[f] {
			onlyWritten = append(onlyWritten, f)
		}
	}
	sort.Strings(onlyRead)
	sort.Strings(onlyWritten)
	c.rep.Extra["fields_stored_by_reader"] = sortedKeys(stored)
	c.rep.Extra["fields_loaded_by_writer"] = sortedKeys(loaded)
	c.check(len(onlyRead) == 0, "AFM-FIELDS", "afm.Read / afm.(*Metrics).Write", "every field the reader fills is written", token.NoPos, fmt.Sprintf("%d fields", len(stored)), "the reader stores "+strings.Join(onlyRead, ", ")+" but the writer never loads them: they are lost in a write/read cycle")
	c.check(len(onlyWritten) == 0, "AFM-FIELDS", "afm.Read / afm.(*Metrics).Write", "every field the writer uses is filled by the reader", token.NoPos, fmt.Sprintf("%d fields", len(loaded)), "the writer loads "+strings.Join(onlyWritten, ", ")+" which the reader never stores")
	c.check(len(stored) >= 18, "AFM-FIELDS", "afm.Read", "field inventory", token.NoPos, fmt.Sprint(len(stored)), "fewer fields than expected are stored by the reader; the rule has lost its anchor")

	// ---- writer: format strings and (keyword → field, verb)
	wfd := c.funcDecl("afm", "Metrics", "Write")
	type wrec struct {
		kw, verb, field string
		pos             token.Pos
	}
	var wrecs []wrec
	var nonConst []string
	var helper types.Object
	ast.Inspect(wfd.Body, func(n ast.Node) bool {
		if as, ok := n.(*ast.AssignStmt); ok && as.Tok == token.DEFINE && len(as.Rhs) == 1 {
			if _, ok := as.Rhs[0].(*ast.FuncLit); ok && helper == nil {
				helper = info.Defs[as.Lhs[0].(*ast.Ident)]
			}
		}
		return true
	})
	verbRe := regexp.MustCompile(`%[-+# 0]*[0-9]*(\.[0-9]+)?[a-zA-Z]`)
	fieldOfArg := func(e ast.Expr) string {
		// m.X, g.X, k.X → X ; strconv.FormatFloat(m.X,…) → X (float text)
		if call, ok := e.(*ast.CallExpr); ok && len(call.Args) > 0 {
			if types.ExprString(call.Fun) == "strconv.FormatFloat" {
				if sel, ok := call.Args[0].(*ast.SelectorExpr); ok {
					return sel.Sel.Name + "@FormatFloat"
				}
			}
		}
		if sel, ok := e.(*ast.SelectorExpr); ok {
			return sel.Sel.Name
		}
		return ""
	}
	handleFormat := func(format string, args []ast.Expr, pos token.Pos) {
		// split into `;`-separated groups for the char metrics line, else one group
		groups := []string{format}
		if strings.Contains(format, ";") {
			groups = strings.Split(format, ";")
		}
		ai := 0
		for _, g := range groups {
			g = strings.TrimSpace(g)
			if g == "" {
				continue
			}
			kw := strings.Fields(g)[0]
			verbs := verbRe.FindAllString(g, -1)
			for _, v := range verbs {
				field := ""
				if ai < len(args) {
					field = fieldOfArg(args[ai])
				}
				ai++
				wrecs = append(wrecs, wrec{kw, v, field, pos})
			}
			if len(verbs) == 0 {
				wrecs = append(wrecs, wrec{kw, "", "", pos})
			}
		}
	}
	// a formatting helper: any function value of the shape func(format string, args ...any) …
	isFormatFunc := func(e ast.Expr) bool {
		sig, ok := info.TypeOf(e).Underlying().(*types.Signature)
		if !ok || !sig.Variadic() || sig.Params().Len() != 2 {
			return false
		}
		b, ok := sig.Params().At(0).Type().Underlying().(*types.Basic)
		return ok && b.Kind() == types.String
	}
	var wbodies []ast.Node
	for _, d := range c.declsFrom("afm", wfd, 2) {
		wbodies = append(wbodies, d.Body)
	}
	inspectAll := func(f func(n ast.Node) bool) {
		for _, b := range wbodies {
			ast.Inspect(b, f)
		}
	}
	inspectAll(func(n ast.Node) bool {
		call, ok := n.(*ast.CallExpr)
		if !ok || len(call.Args) == 0 {
			return true
		}
		isHelper := false
		if id, ok := call.Fun.(*ast.Ident); ok && helper != nil && info.ObjectOf(id) == helper {
			isHelper = true
		}
		if _, isSel := call.Fun.(*ast.SelectorExpr); !isSel && isFormatFunc(call.Fun) {
			isHelper = true
		}
		name := types.ExprString(call.Fun)
		if !isHelper && name != "fmt.Sprintf" && name != "fmt.Fprintf" {
			return true
		}
		fa := call.Args[0]
		if name == "fmt.Fprintf" {
			// inside the helper: format+"\n" with format the helper's parameter
			if len(call.Args) < 2 {
				return true
			}
			fa = call.Args[1]
			if be, ok := fa.(*ast.BinaryExpr); ok && be.Op == token.ADD {
				if id, ok := be.X.(*ast.Ident); ok {
					if _, isParam := info.ObjectOf(id).(*types.Var); isParam {
						if _, ok := constStrOf(info, be.Y); ok {
							return true // the helper itself
						}
					}
				}
			}
		}
		s, isConst := constStrOf(info, fa)
		if !isConst {
			nonConst = append(nonConst, types.ExprString(fa)+" at "+c.pos(call.Pos()))
			return true
		}
		if s == "%s" {
			return true // pre-formatted line
		}
		rest := call.Args[1:]
		if name == "fmt.Fprintf" {
			rest = call.Args[2:]
		}
		handleFormat(s, rest, call.Pos())
		return true
	})
	c.check(len(nonConst) == 0, "AFM-FORMAT", "afm.(*Metrics).Write", "every format string is a constant", wfd.Pos(), fmt.Sprintf("%d formatted writes", len(wrecs)), "data is used in the format position ("+joinMax(nonConst, 3)+"): a `%` in a name, version or notice is then interpreted as a verb and garbles the output")

	// ---- reader: keyword → field, parser
	rfd := c.funcDecl("afm", "", "Read")
	type rrec struct{ field, parser string }
	reader := map[string]rrec{}
	afmDecls := map[types.Object]*ast.FuncDecl{}
	for _, f := range c.pkg("afm").Syntax {
		for _, d := range f.Decls {
			if x, ok := d.(*ast.FuncDecl); ok && x.Body != nil {
				afmDecls[info.Defs[x.Name]] = x
			}
		}
	}
	var parserOf func(n ast.Node) string
	parserOf = func(n ast.Node) string {
		p := ""
		ast.Inspect(n, func(m ast.Node) bool {
			if call, ok := m.(*ast.CallExpr); ok {
				// a helper of the package: what it parses with is what the clause parses with
				if id, ok := call.Fun.(*ast.Ident); ok {
					if d := afmDecls[info.Uses[id]]; d != nil && p == "" {
						if q := parserOf(d.Body); q != "word" {
							p = q
						}
					}
				}
				switch types.ExprString(call.Fun) {
				case "strconv.Atoi":
					p = "Atoi"
				case "strconv.ParseFloat", "conv":
					if p == "" {
						p = "ParseFloat"
					}
				case "strings.Join":
					if p == "" {
						p = "words"
					}
				}
			}
			if be, ok := m.(*ast.BinaryExpr); ok && be.Op == token.EQL {
				if s, ok := constStrOf(info, be.Y); ok && s == "true" && p == "" {
					p = "bool"
				}
			}
			return true
		})
		if p == "" {
			p = "word"
		}
		return p
	}
	isMetricsLike := func(e ast.Expr) bool {
		t := info.TypeOf(e)
		if t == nil {
			return false
		}
		if pt, ok := t.Underlying().(*types.Pointer); ok {
			t = pt.Elem()
		}
		nt, ok := t.(*types.Named)
		if !ok {
			return false
		}
		switch nt.Obj().Name() {
		case "Metrics", "GlyphInfo", "KernPair", "Rect16", "Rect":
			return true
		}
		return false
	}
	fieldStored := func(n ast.Node) string {
		f := ""
		ast.Inspect(n, func(m ast.Node) bool {
			if as, ok := m.(*ast.AssignStmt); ok {
				for _, l := range as.Lhs {
					if sel, ok := l.(*ast.SelectorExpr); ok {
						if isMetricsLike(sel.X) {
							if f == "" {
								f = sel.Sel.Name
							}
						}
					}
					if id, ok := l.(*ast.Ident); ok && f == "" {
						switch id.Name {
						case "code":
							f = "Encoding"
						case "width":
							f = "WidthX"
						case "name":
							f = "name"
						}
					}
					if ix, ok := l.(*ast.IndexExpr); ok && types.ExprString(ix.X) == "ligTmp" && f == "" {
						f = "Ligatures"
					}
				}
			}
			return true
		})
		return f
	}
	ast.Inspect(rfd.Body, func(n ast.Node) bool {
		sw, ok := n.(*ast.SwitchStmt)
		if !ok || sw.Tag == nil {
			return true
		}
		for _, cc := range sw.Body.List {
			cl := cc.(*ast.CaseClause)
			for _, e := range cl.List {
				if kw, ok := constStrOf(info, e); ok {
					reader[kw] = rrec{fieldStored(cl), parserOf(cl)}
				}
			}
		}
		return true
	})
	// KPX and the section markers
	rtxt := nodeString(c, rfd.Body)
	if strings.Contains(rtxt, `fields[0] == "KPX"`) {
		reader["KPX"] = rrec{"Kern", "Atoi"}
	}
	for _, m := range []string{"EndCharMetrics", "EndKernPairs"} {
		if strings.Contains(rtxt, `"`+m+`"`) {
			reader[m] = rrec{"", "marker"}
		}
	}
	c.rep.Extra["reader_keywords"] = len(reader)

	// data keywords of the writer must be handled by the reader with a compatible parser and the same field
	ignorable := map[string]bool{"StartFontMetrics": true, "FamilyName": true, "Weight": true, "FontBBox": true, "StartKernData": true, "EndKernData": true, "EndFontMetrics": true}
	verbOK := func(verb, parser string, field string) bool {
		switch parser {
		case "Atoi":
			return verb == "%d" || verb == "%.0f"
		case "ParseFloat":
			return verb == "%d" || verb == "%.0f" || (verb == "%s" && strings.HasSuffix(field, "@FormatFloat")) || verb == "%g" || verb == "%v"
		case "bool":
			return verb == "%t"
		case "word", "words":
			return verb == "%s"
		case "marker":
			return true
		}
		return false
	}
	alias := map[string]string{"Ascent": "Ascender", "Descent": "Descender"}
	nkw := 0
	for _, w := range wrecs {
		if ignorable[w.kw] {
			continue
		}
		nkw++
		r, ok := reader[w.kw]
		if !ok {
			c.fail("AFM-KEYWORDS", "afm.(*Metrics).Write", "keyword "+w.kw+" is understood by the reader", w.pos, "the writer emits keyword `"+w.kw+"`, which the reader does not handle: the field is lost when the file is read back")
			continue
		}
		if w.verb == "" {
			c.ok("AFM-KEYWORDS", "afm.(*Metrics).Write", "keyword "+w.kw+" is understood by the reader", w.pos, "section marker", "")
			continue
		}
		field := strings.TrimSuffix(w.field, "@FormatFloat")
		okField := true
		okVerb := verbOK(w.verb, r.parser, w.field)
		switch w.kw {
		case "StartCharMetrics", "StartKernPairs":
			okVerb = true // the count is informative; the reader does not use it
		case "C", "WX", "N", "B", "L":
			// per-glyph keys: field mapping is checked by AFM-FIELDS, the verb against the reader's parser for the key
		case "KPX":
			// KPX left right adjust: two words and a number parsed with Atoi
			okVerb = (w.verb == "%s" && (field == "Left" || field == "Right")) || (w.verb == "%d" && field == "Adjust")
		default:
			rf := r.field
			okField = rf == field && (field == w.kw || alias[field] == w.kw)
		}
		c.check(okField && okVerb, "AFM-KEYWORDS", "afm.(*Metrics).Write", fmt.Sprintf("keyword %s: written from %s with %s, read into %s with %s", w.kw, field, w.verb, r.field, r.parser), w.pos, "same field, compatible number format",
			fmt.Sprintf("keyword %s: the writer formats field %s with %s, the reader stores field %s using %s — the value does not survive the round trip", w.kw, field, w.verb, r.field, r.parser))
	}
	c.floor("AFM-KEYWORDS", 18)

	// ---- layout independence of the char metrics section
	{
		var cm *ast.IfStmt
		ast.Inspect(rfd.Body, func(n ast.Node) bool {
			if ifs, ok := n.(*ast.IfStmt); ok && types.ExprString(ifs.Cond) == "charMetrics" && cm == nil {
				cm = ifs
			}
			return true
		})
		okLayout := false
		why := "the char-metrics branch was not found"
		if cm != nil {
			why = ""
			seenSplit := false
			for _, st := range cm.Body.List {
				s := nodeString(c, st)
				if strings.Contains(s, `strings.Split(line, ";")`) {
					seenSplit = true
					break
				}
				if _, isIf := st.(*ast.IfStmt); isIf {
					why = "glyph lines are filtered (`" + firstN(s, 60) + "…`) before they are split into key/value pairs: lines laid out differently by another writer are dropped"
				}
			}
			if !seenSplit && why == "" {
				why = "glyph lines are not split at `;`"
			}
			t := nodeString(c, cm.Body)
			if why == "" && !(strings.Contains(t, "strings.Fields(keyVal)") && strings.Contains(t, "switch ff[0]")) {
				why = "key/value pairs are not taken as white-space separated fields keyed by their first word"
			}
			okLayout = why == ""
		}
		c.check(okLayout, "AFM-LAYOUT", "afm.Read", "glyph lines are parsed key by key from `;`-separated fields, whatever their order and spacing", rfd.Pos(), "Split(line, \";\") → Fields → switch on the first word; no filter before", "AFM reader: "+why)
		okHdr := strings.Contains(rtxt, "fields := strings.Fields(line)") && strings.Contains(rtxt, "switch fields[0]")
		c.check(okHdr, "AFM-LAYOUT", "afm.Read", "header lines are keyed by their first white-space separated word", rfd.Pos(), "", "header keywords are not matched on the first field of the line")
	}
}

func sortedKeys(m map[string]bool) []string {
	var out []string
	for k := range m {
		out = append(out, k)
	}
	sort.Strings(out)
	return out
}

func firstN(s string, n int) string {
	if len(s) > n {
		return s[:n]
	}
	return s
}

// historyIndependence: the functions reachable from the given API entry points use no
// package-level state that can change after initialisation (caches, memo tables, counters): the
// result of a write/read cycle is a function of the value alone, and a second cycle sees what
// the first one saw.
func (c *Ctx) historyIndependence(rule string, floor int, roots ...*ssa.Function) {
	eff := c.effects()
	written := map[string]string{}
	for _, f := range c.modFuncs {
		if f.Name() == "init" || strings.HasPrefix(f.Name(), "init#") {
			continue
		}
		for g := range eff.of(f).Globals {
			if _, ok := written[g]; !ok {
				written[g] = c.fname(f)
			}
		}
	}
	reach := c.reachable(roots)
	type use struct {
		g  *ssa.Global
		fn *ssa.Function
		at ssa.Instruction
	}
	seen := map[string]bool{}
	var fns []*ssa.Function
	for f := range reach {
		if c.inModule(f) {
			fns = append(fns, f)
		}
	}
	sort.Slice(fns, func(i, j int) bool { return c.fname(fns[i]) < c.fname(fns[j]) })
	n := 0
	for _, f := range fns {
		eachInstr(f, func(ins ssa.Instruction) {
			for _, op := range ins.Operands(nil) {
				g, ok := (*op).(*ssa.Global)
				if !ok || g.Pkg == nil || !strings.HasPrefix(g.Pkg.Pkg.Path(), modPath) {
					continue
				}
				name := globalName(g)
				if seen[name+"|"+c.fname(f)] {
					continue
				}
				seen[name+"|"+c.fname(f)] = true
				n++
				construct := "package-level " + name + " is fixed after initialisation"
				elem := g.Type().(*types.Pointer).Elem()
				switch {
				case containsSync(elem, 0):
					c.fail(rule, c.fname(f), construct, ins.Pos(), "the result depends on "+name+", a package-level "+elem.String()+" that changes while the program runs (a cache or lock-protected table): what a call returns then depends on earlier calls, not only on the value it is given")
				case written[name] != "":
					c.fail(rule, c.fname(f), construct, ins.Pos(), "the result depends on package-level "+name+", which "+written[name]+" writes after initialisation: what a call returns then depends on earlier calls")
				default:
					c.ok(rule, c.fname(f), construct, ins.Pos(), "only read; written by no function outside init", "")
				}
			}
		})
	}
	c.rep.Extra[rule+"_functions"] = len(fns)
	if n < floor {
		c.note("%s: %d uses of package-level variables in %d reachable functions", rule, n, len(fns))
	}
	if len(fns) < floor {
		c.fail(rule, "-", "reachable functions", token.NoPos, fmt.Sprintf("only %d functions reachable from the entry points", len(fns)))
	}
}

func containsSync(t types.Type, d int) bool {
	if d > 4 {
		return false
	}
	if nt, ok := t.(*types.Named); ok {
		if p := nt.Obj().Pkg(); p != nil && (p.Path() == "sync" || p.Path() == "sync/atomic") {
			return true
		}
	}
	switch u := t.Underlying().(type) {
	case *types.Struct:
		for i := 0; i < u.NumFields(); i++ {
			if containsSync(u.Field(i).Type(), d+1) {
				return true
			}
		}
	case *types.Pointer:
		return containsSync(u.Elem(), d+1)
	}
	return false
}
