package main

import (
	"fmt"
	"go/token"
	"go/types"
	"sort"
	"strings"

	"golang.org/x/tools/go/ssa"
)

// C15 — AFM round trip.  Rule family A11 FIELDSYM (AFM part).

func init() {
	register(&propCheck{
		id:    "C15",
		title: "AFM metrics survive writing and reading",
		explanation: "Decides the field- and keyword-symmetry clauses of C15: the set of Metrics, GlyphInfo and KernPair fields the reader stores equals the set the writer (with the query methods it calls) loads; every keyword the writer emits for a data field is a keyword the reader handles and both sides connect it to the same field; the numeric verb the writer uses for a field produces text the reader's parser for that field accepts; every format string handed to the writer's formatting helper is a constant (data never takes the format position); " +
			"the character-metrics section is parsed key by key from `;`-separated fields without any filter on the layout of the line, so that an independent writer's spacing and field order are understood; header and section keywords are recognised whatever white space surrounds them (each line the writer can produce, and its layout variants, is evaluated through one iteration of the reader's line loop); whether a line is written depends on the data only through the absence of what the line carries, and glyph and kerning loops range over the whole lists. Ligature order and determinism are C17's. " +
			"It does NOT decide equality of metrics nor idempotence of a second cycle.",
		trusted:     []string{"go/ssa field accesses, fmt verb semantics table in the checker"},
		assumptions: []string{"numbers are finite"},
		run:         runC15,
	})
}

func runC15(c *Ctx) {
	read := c.fn("afm", "Read")
	write := c.method("afm", "Metrics", "Write")
	c.historyIndependence("AFM-HISTORY", 10, read, write)
	c.afmReadOnlyRule(write)
	c.afmPerGlyphRule()
	c.afmOneLineRule()
	types3 := map[string]*types.TypeName{"Metrics": c.typeObj("afm", "Metrics"), "GlyphInfo": c.typeObj("afm", "GlyphInfo"), "KernPair": c.typeObj("afm", "KernPair")}

	// ---- field coverage
	stored := map[string]bool{}
	loaded := map[string]bool{}
	collect := func(f *ssa.Function, stores, loads map[string]bool, seen map[*ssa.Function]bool) {}
	var walk func(f *ssa.Function, stores, loads map[string]bool, seen map[*ssa.Function]bool)
	walk = func(f *ssa.Function, stores, loads map[string]bool, seen map[*ssa.Function]bool) {
		if seen[f] || !c.inModule(f) {
			return
		}
		seen[f] = true
		eachInstr(f, func(ins ssa.Instruction) {
			switch x := ins.(type) {
			case *ssa.Store:
				if base, fld, ok := fieldAddrOf(x.Addr); ok {
					for tn, T := range types3 {
						if pointsTo(base.Type(), T) {
							stores[tn+"."+fld.Name()] = true
						}
					}
				}
			case *ssa.UnOp:
				if x.Op == token.MUL {
					if base, fld, ok := fieldAddrOf(x.X); ok {
						for tn, T := range types3 {
							if pointsTo(base.Type(), T) {
								loads[tn+"."+fld.Name()] = true
							}
						}
					}
				}
			case *ssa.FieldAddr:
				// address taken for a method call (g.BBox.LLx …): counts as a load of the outer field
				for tn, T := range types3 {
					if pointsTo(x.X.Type(), T) {
						st := x.X.Type().Underlying().(*types.Pointer).Elem().Underlying().(*types.Struct)
						// the address is kept (in a table, a variable, an argument): the field is
						// filled through it
						for _, r := range *x.Referrers() {
							switch r := r.(type) {
							case *ssa.MapUpdate:
								if r.Value == x {
									stores[tn+"."+st.Field(x.Field).Name()] = true
								}
							case *ssa.Store:
								if r.Val == x {
									stores[tn+"."+st.Field(x.Field).Name()] = true
								}
							case *ssa.MakeInterface, *ssa.Phi:
								stores[tn+"."+st.Field(x.Field).Name()] = true
							case ssa.CallInstruction:
								// handed to a function that fills it (Sscan, a parsing helper …)
								for _, a := range r.Common().Args {
									if a == x {
										stores[tn+"."+st.Field(x.Field).Name()] = true
									}
								}
							}
						}
						// only if used for reading sub-fields
						reads := false
						for _, r := range *x.Referrers() {
							switch r.(type) {
							case *ssa.FieldAddr, *ssa.UnOp, ssa.CallInstruction:
								reads = true
							}
						}
						if reads {
							loads[tn+"."+st.Field(x.Field).Name()] = true
						}
					}
				}
			case *ssa.Field:
				if n, ok := x.X.Type().(*types.Named); ok {
					for tn, T := range types3 {
						if n.Obj() == T {
							loads[tn+"."+T.Type().Underlying().(*types.Struct).Field(x.Field).Name()] = true
						}
					}
				}
			case ssa.CallInstruction:
				if sc := x.Common().StaticCallee(); sc != nil {
					walk(sc, stores, loads, seen)
				}
				for _, cl := range closuresOf(x.Common().Value) {
					walk(cl, stores, loads, seen)
				}
			case *ssa.MakeClosure:
				walk(x.Fn.(*ssa.Function), stores, loads, seen)
			}
		})
	}
	_ = collect
	tmp := map[string]bool{}
	walk(read, stored, tmp, map[*ssa.Function]bool{})
	tmp2 := map[string]bool{}
	walk(write, tmp2, loaded, map[*ssa.Function]bool{})
	var onlyRead, onlyWritten []string
	for f := range stored {
		if !loaded[f] {
			onlyRead = append(onlyRead, f)
		}
	}
	for f := range loaded {
		if !stored[f] {
			onlyWritten = append(onlyWritten, f)
		}
	}
	sort.Strings(onlyRead)
	sort.Strings(onlyWritten)
	c.rep.Extra["fields_stored_by_reader"] = sortedKeys(stored)
	c.rep.Extra["fields_loaded_by_writer"] = sortedKeys(loaded)
	c.check(len(onlyRead) == 0, "AFM-FIELDS", "afm.Read / afm.(*Metrics).Write", "every field the reader fills is written", token.NoPos, fmt.Sprintf("%d fields", len(stored)), "the reader stores "+strings.Join(onlyRead, ", ")+" but the writer never loads them: they are lost in a write/read cycle")
	c.check(len(onlyWritten) == 0, "AFM-FIELDS", "afm.Read / afm.(*Metrics).Write", "every field the writer uses is filled by the reader", token.NoPos, fmt.Sprintf("%d fields", len(loaded)), "the writer loads "+strings.Join(onlyWritten, ", ")+" which the reader never stores")
	c.check(len(stored) >= 18, "AFM-FIELDS", "afm.Read", "field inventory", token.NoPos, fmt.Sprint(len(stored)), "fewer fields than expected are stored by the reader; the rule has lost its anchor")

	// ---- writer: formatted writes (format constant, operands traced to their fields)
	events, nonConst := c.afmWriterEvents(write)
	wname := c.fname(write)
	c.check(len(nonConst) == 0, "AFM-FORMAT", wname, "every format string is a constant", write.Pos(), fmt.Sprintf("%d formatted writes", len(events)), "data is used in the format position ("+joinMax(nonConst, 3)+"): a `%` in a name, version or notice is then interpreted as a verb and garbles the output")

	c.afmTableRules(read, write, events)
	c.afmCompleteRule(write, events)
}

func sortedKeys(m map[string]bool) []string {
	var out []string
	for k := range m {
		out = append(out, k)
	}
	sort.Strings(out)
	return out
}

func firstN(s string, n int) string {
	if len(s) > n {
		return s[:n]
	}
	return s
}

// historyIndependence: the functions reachable from the given API entry points use no
// package-level state that can change after initialisation (caches, memo tables, counters): the
// result of a write/read cycle is a function of the value alone, and a second cycle sees what
// the first one saw.
func (c *Ctx) historyIndependence(rule string, floor int, roots ...*ssa.Function) {
	eff := c.effects()
	written := map[string]string{}
	for _, f := range c.modFuncs {
		if f.Name() == "init" || strings.HasPrefix(f.Name(), "init#") {
			continue
		}
		for g := range eff.of(f).Globals {
			if _, ok := written[g]; !ok {
				written[g] = c.fname(f)
			}
		}
	}
	reach := c.reachable(roots)
	type use struct {
		g  *ssa.Global
		fn *ssa.Function
		at ssa.Instruction
	}
	seen := map[string]bool{}
	var fns []*ssa.Function
	for f := range reach {
		if c.inModule(f) {
			fns = append(fns, f)
		}
	}
	sort.Slice(fns, func(i, j int) bool { return c.fname(fns[i]) < c.fname(fns[j]) })
	n := 0
	for _, f := range fns {
		eachInstr(f, func(ins ssa.Instruction) {
			for _, op := range ins.Operands(nil) {
				g, ok := (*op).(*ssa.Global)
				if !ok || g.Pkg == nil || !strings.HasPrefix(g.Pkg.Pkg.Path(), modPath) {
					continue
				}
				name := globalName(g)
				if seen[name+"|"+c.fname(f)] {
					continue
				}
				seen[name+"|"+c.fname(f)] = true
				n++
				construct := "package-level " + name + " is fixed after initialisation"
				elem := g.Type().(*types.Pointer).Elem()
				switch {
				case containsSync(elem, 0):
					c.fail(rule, c.fname(f), construct, ins.Pos(), "the result depends on "+name+", a package-level "+elem.String()+" that changes while the program runs (a cache or lock-protected table): what a call returns then depends on earlier calls, not only on the value it is given")
				case written[name] != "":
					c.fail(rule, c.fname(f), construct, ins.Pos(), "the result depends on package-level "+name+", which "+written[name]+" writes after initialisation: what a call returns then depends on earlier calls")
				default:
					c.ok(rule, c.fname(f), construct, ins.Pos(), "only read; written by no function outside init", "")
				}
			}
		})
	}
	c.rep.Extra[rule+"_functions"] = len(fns)
	if n < floor {
		c.note("%s: %d uses of package-level variables in %d reachable functions", rule, n, len(fns))
	}
	if len(fns) < floor {
		c.fail(rule, "-", "reachable functions", token.NoPos, fmt.Sprintf("only %d functions reachable from the entry points", len(fns)))
	}
}

func containsSync(t types.Type, d int) bool {
	if d > 4 {
		return false
	}
	if nt, ok := t.(*types.Named); ok {
		if p := nt.Obj().Pkg(); p != nil && (p.Path() == "sync" || p.Path() == "sync/atomic") {
			return true
		}
	}
	switch u := t.Underlying().(type) {
	case *types.Struct:
		for i := 0; i < u.NumFields(); i++ {
			if containsSync(u.Field(i).Type(), d+1) {
				return true
			}
		}
	case *types.Pointer:
		return containsSync(u.Elem(), d+1)
	}
	return false
}

// AFM keywords that carry derived or structural information the reader need not keep.
var afmIgnorable = map[string]bool{"StartFontMetrics": true, "FamilyName": true, "Weight": true, "FontBBox": true, "StartKernData": true, "EndKernData": true, "EndFontMetrics": true}

// keys of a character-metrics line and the fields their operands come from (AFM 4.1, section 8)
var afmGlyphKeys = map[string][]string{
	"C":  {""},
	"CH": {""},
	"WX": {"GlyphInfo.WidthX"},
	"N":  {""},
	"B":  {"GlyphInfo.BBox.LLx", "GlyphInfo.BBox.LLy", "GlyphInfo.BBox.URx", "GlyphInfo.BBox.URy"},
	"L":  {"GlyphInfo.Ligatures", "GlyphInfo.Ligatures"},
}

func afmKeyword(format string) string {
	ff := strings.Fields(format)
	if len(ff) == 0 {
		return ""
	}
	return ff[0]
}

// afmTableRules: AFM-KEYWORDS and AFM-LAYOUT.  Every line the writer produces for a data field
// is instantiated with representative values and handed to one evaluated iteration of the
// reader's line loop (ext_g_afm.go); the reader has to end up with the value in the field the
// writer took it from.  The same for the layouts an independent writer may choose.
func (c *Ctx) afmTableRules(read, write *ssa.Function, events []afmEvent) {
	wname, rname := c.fname(write), c.fname(read)
	m := c.newAfmReaderModel(read)
	if m.H == nil {
		c.undecided("AFM-KEYWORDS", rname, "line loop", read.Pos(), m.why)
		return
	}
	// ---- the reader's modes
	startCM, startKP := "StartCharMetrics 2", "StartKernPairs 2"
	for _, e := range events {
		if l, _, ok := afmSamples(e, 0); ok {
			switch afmKeyword(e.format) {
			case "StartCharMetrics":
				startCM = l
			case "StartKernPairs":
				startKP = l
			}
		}
	}
	rc, rk := m.run(nil, startCM), m.run(nil, startKP)
	okCM := rc.ok && !m.sameMode(rc.mode, nil) && len(rc.fields) == 0
	okKP := rk.ok && !m.sameMode(rk.mode, nil) && !m.sameMode(rk.mode, rc.mode) && len(rk.fields) == 0
	c.check(okCM, "AFM-KEYWORDS", wname, "keyword StartCharMetrics is understood by the reader", read.Pos(), "the line switches the reader to the character-metrics section", "after the line `"+startCM+"` the reader is not in its character-metrics section ("+rc.why+")")
	c.check(okKP, "AFM-KEYWORDS", wname, "keyword StartKernPairs is understood by the reader", read.Pos(), "the line switches the reader to the kerning-pairs section", "after the line `"+startKP+"` the reader is not in its kerning-pairs section ("+rk.why+")")
	if !okCM || !okKP {
		return
	}
	cm, km := rc.mode, rk.mode
	endOK := func(mode *afmMode, line string) string {
		r := m.run(mode, line)
		switch {
		case !r.ok:
			return r.why
		case !m.sameMode(r.mode, nil):
			return "the reader stays in the section"
		case len(r.fields)+len(r.glyphs)+len(r.kern) != 0:
			return "the line is taken as data"
		}
		return ""
	}

	// ---- every data line of the writer
	var layoutHdr, layoutSec []string
	var glyphEvents []afmEvent
	nHdrVariants := 0
	for _, e := range events {
		kw := afmKeyword(e.format)
		pos := e.pos()
		switch {
		case kw == "" || afmIgnorable[kw] || e.format == "%s":
			continue
		case kw == "StartCharMetrics" || kw == "StartKernPairs":
			continue // above
		case kw == "EndCharMetrics" || kw == "EndKernPairs":
			mode := cm
			if kw == "EndKernPairs" {
				mode = km
			}
			line, _, ok := afmSamples(e, 0)
			why := "the line could not be instantiated"
			if ok {
				why = endOK(mode, line)
				for _, v := range afmLayoutVariants(line, false) {
					if w := endOK(mode, v); w != "" && why == "" {
						layoutSec = append(layoutSec, fmt.Sprintf("%q: %s", v, w))
					}
				}
			}
			c.check(why == "", "AFM-KEYWORDS", wname, "keyword "+kw+" is understood by the reader", pos, "the line ends the section", "the writer's line `"+line+"` does not end the reader's section: "+why)
		case kw == "KPX":
			line, vals, ok := afmSamples(e, 0)
			if !ok {
				c.undecided("AFM-KEYWORDS", wname, "keyword KPX", pos, "the operands of the formatted write could not be enumerated")
				continue
			}
			want := []string{"KernPair.Left", "KernPair.Right", "KernPair.Adjust"}
			why := ""
			for i, a := range e.args {
				if i < len(want) && a.field != "" && a.field != want[i] {
					why = fmt.Sprintf("operand %d of the KPX line is taken from %s, the format prescribes %s there", i+1, a.field, want[i])
				}
			}
			check := func(l string) string {
				r := m.run(km, l)
				if !r.ok {
					return r.why
				}
				if len(r.kern) != 1 || len(r.fields) > 1 || len(r.glyphs) != 0 {
					return fmt.Sprintf("%d kerning pairs are appended, expected one", len(r.kern))
				}
				for i, w := range want {
					if i < len(vals) && !svEqual(r.kern[0][w[len("KernPair."):]], vals[i].expect) {
						return fmt.Sprintf("the pair read back has %s = %s, expected %s", w, r.kern[0][w[len("KernPair."):]], vals[i].expect)
					}
				}
				if !m.sameMode(r.mode, km) {
					return "the reader leaves the kerning-pairs section"
				}
				return ""
			}
			if why == "" {
				why = check(line)
				for _, v := range afmLayoutVariants(line, false) {
					if w := check(v); w != "" && why == "" {
						layoutSec = append(layoutSec, fmt.Sprintf("%q: %s", v, w))
					}
				}
				if why == "" {
					// the adjustment goes into the pair as it stands (see the header lines)
					m.symNums = afmNumberTokens(line)
					r := m.run(km, line)
					m.symNums = nil
					if !r.ok || len(r.kern) != 1 {
						why = "what the reader does with the line `" + line + "` depends on the value of the adjustment: " + r.why
					} else if got := r.kern[0]["Adjust"]; len(vals) == 3 && !afmIsNumberOf(got, vals[2].expect) {
						why = fmt.Sprintf("the line `%s` gives the pair the adjustment %s, expected the number of the line as it stands", line, got)
					}
				}
				// the other sign cells: a positive and a zero adjustment
				line0 := line
				for variant := 1; variant <= 2 && why == ""; variant++ {
					if l, vs, ok := afmSamples(e, variant); ok && l != line0 {
						vals = vs
						if w := check(l); w != "" {
							why = "the line `" + l + "`: " + w
						}
					}
				}
			}
			c.check(why == "", "AFM-KEYWORDS", wname, "keyword KPX: the pair written is the pair read back", pos, "line `"+line+"` (and its positive and zero variants) evaluated in the reader's kerning-pairs section", "kerning pairs do not survive the round trip: "+why)
		case afmGlyphKeys[kw] != nil && strings.Contains(e.format, ";"):
			glyphEvents = append(glyphEvents, e)
		default:
			// a header line: keyword and the field(s) it is written from
			var flds []string
			for _, a := range e.args {
				if strings.HasPrefix(a.field, "Metrics.") && !strings.Contains(a.field[len("Metrics."):], ".") {
					flds = append(flds, a.field[len("Metrics."):])
				} else {
					flds = append(flds, "")
				}
			}
			construct := fmt.Sprintf("keyword %s: written from %s, read back into the same field", kw, strings.Join(flds, ","))
			why := ""
			nv := 0
			prev := ""
			for variant := 0; variant < 3 && why == ""; variant++ {
				line, vals, ok := afmSamples(e, variant)
				if !ok {
					why = "the operands of the formatted write could not be related to representative values"
					break
				}
				if line == prev {
					continue
				}
				prev = line
				nv++
				check := func(l string) string {
					r := m.run(nil, l)
					if !r.ok {
						return "on the line `" + l + "` " + r.why
					}
					n := 0
					for i, f := range flds {
						if f == "" {
							continue
						}
						n++
						got, ok := r.fields[f]
						if !ok {
							return fmt.Sprintf("the line `%s` does not fill the field %s it was written from (fields filled: %v)", l, f, sortedSvKeys(r.fields))
						}
						if !svEqual(got, vals[i].expect) {
							return fmt.Sprintf("the line `%s` leaves %s in field %s, expected %s", l, got, f, vals[i].expect)
						}
					}
					if n == 0 {
						return "none of the operands could be traced to a field of Metrics"
					}
					if len(r.fields) != n || len(r.glyphs)+len(r.kern) != 0 {
						return fmt.Sprintf("the line `%s` also changes %v", l, sortedSvKeys(r.fields))
					}
					if !m.sameMode(r.mode, nil) {
						return "the line `" + l + "` switches the reader to another section"
					}
					return ""
				}
				why = check(line)
				if why == "" && variant == 0 {
					// the number the line carries goes into the field as it stands: with the text
					// → number conversion left symbolic, the field receives that very symbol and
					// nothing in the iteration branches on it (no clamp, no sign fix-up, no scaling)
					m.symNums = afmNumberTokens(line)
					r := m.run(nil, line)
					m.symNums = nil
					for i, f := range flds {
						if f == "" || !(vals[i].expect.k == svInt || vals[i].expect.k == svFloat) {
							continue
						}
						if !r.ok {
							why = "what the reader does with the line `" + line + "` depends on the value of the number it carries: " + r.why
						} else if got := r.fields[f]; !afmIsNumberOf(got, vals[i].expect) {
							why = fmt.Sprintf("the line `%s` leaves %s in field %s, expected the number of the line as it stands", line, got, f)
						}
					}
				}
				if why == "" {
					nHdrVariants++
					free := false
					for _, a := range e.args {
						switch a.field {
						case "Metrics.FullName", "Metrics.Version", "Metrics.Notice":
							free = true
						}
					}
					for _, v := range afmLayoutVariants(line, false, free) {
						if w := check(v); w != "" {
							layoutHdr = append(layoutHdr, w)
						}
					}
				}
			}
			c.check(why == "", "AFM-KEYWORDS", wname, construct, pos, fmt.Sprintf("%d representative line(s) evaluated in the reader", nv), "keyword "+kw+": the value does not survive the round trip: "+why)
		}
	}

	// ---- character-metrics lines
	specLine := "C 65 ; WX 500 ; N Abc ; B 1 2 3 4 ; L f ff ; L i fi ;"
	glyphCheck := func(l string) string {
		return afmGlyphMismatch(m.run(cm, l), afmParseGlyphLine(l))
	}
	if len(glyphEvents) > 0 {
		line := ""
		why := ""
		for _, e := range glyphEvents {
			l, _, ok := afmSamples(e, 0)
			if !ok {
				why = "the operands of the formatted write `" + e.format + "` could not be related to representative values"
				break
			}
			line += l
			// the operands under each key come from the fields the format prescribes
			ai := 0
			for _, grp := range strings.Split(e.format, ";") {
				ff := strings.Fields(grp)
				if len(ff) == 0 {
					continue
				}
				nverb := len(afmVerbRe.FindAllString(grp, -1))
				want := afmGlyphKeys[ff[0]]
				for k := 0; k < nverb; k++ {
					if ai < len(e.args) && want != nil && k < len(want) && want[k] != "" && e.args[ai].field != "" && e.args[ai].field != want[k] {
						why = fmt.Sprintf("operand %d under key %s is taken from %s, the format prescribes %s", k+1, ff[0], e.args[ai].field, want[k])
					}
					ai++
				}
			}
		}
		if why == "" {
			if w := glyphCheck(line); w != "" {
				why = "the line `" + line + "`: " + w
			}
		}
		if why == "" {
			// width and bounding box go into the glyph as they stand (see the header lines); the
			// character code selects the encoding slot and stays a value
			m.symNums = afmNumberTokens(line, "C")
			r := m.run(cm, line)
			m.symNums = nil
			want := afmParseGlyphLine(line)
			g, has := r.glyphs[want.name]
			switch {
			case !r.ok || !has:
				why = "what the reader does with the line `" + line + "` depends on the values of the numbers it carries: " + r.why
			default:
				for _, f := range []string{"WidthX", "BBox.LLx", "BBox.LLy", "BBox.URx", "BBox.URy"} {
					if !afmIsNumberOf(g.fields[f], sv{k: svFloat, f: want.fields[f]}) {
						why = fmt.Sprintf("the line `%s` leaves %s in glyph field %s, expected the number of the line as it stands", line, g.fields[f], f)
					}
				}
			}
		}
		// the other sign cells: positive and zero numbers
		for variant := 1; variant <= 2 && why == ""; variant++ {
			l2 := ""
			for _, e := range glyphEvents {
				l, _, ok := afmSamples(e, variant)
				if !ok {
					l2 = ""
					break
				}
				l2 += l
			}
			if l2 != "" && l2 != line {
				if w := glyphCheck(l2); w != "" {
					why = "the line `" + l2 + "`: " + w
				}
			}
		}
		for _, e := range glyphEvents {
			var keys []string
			for _, grp := range strings.Split(e.format, ";") {
				if ff := strings.Fields(grp); len(ff) > 0 {
					keys = append(keys, ff[0])
				}
			}
			c.check(why == "", "AFM-KEYWORDS", wname, "glyph keys "+strings.Join(keys, " ")+": what is written is what is read back", e.pos(), "line `"+line+"` evaluated in the reader's character-metrics section", "character metrics do not survive the round trip: "+why)
		}
		specLine2 := line
		if why == "" {
			var bad []string
			for _, v := range afmLayoutVariants(specLine2, true) {
				if w := glyphCheck(v); w != "" {
					bad = append(bad, fmt.Sprintf("%q: %s", v, w))
				}
			}
			if len(bad) > 0 {
				layoutSec = append(layoutSec, bad...)
			}
		}
	}
	c.floor("AFM-KEYWORDS", 16)

	// ---- layout independence
	{
		var bad []string
		if w := glyphCheck(specLine); w != "" {
			bad = append(bad, fmt.Sprintf("%q: %s", specLine, w))
		} else {
			for _, v := range afmLayoutVariants(specLine, true) {
				if w := glyphCheck(v); w != "" {
					bad = append(bad, fmt.Sprintf("%q: %s", v, w))
				}
			}
			// a line without a name defines nothing; a second line for the same glyph is ignored
			if r := m.run(cm, "C 65 ; WX 500 ;"); !r.ok || len(r.glyphs) != 0 {
				bad = append(bad, "a character-metrics line without a name adds a glyph")
			}
		}
		c.check(len(bad) == 0, "AFM-LAYOUT", rname, "glyph lines are parsed key by key from `;`-separated fields, whatever their order and spacing", read.Pos(), "the line `"+specLine+"` and 7 other layouts of it evaluated in the reader: same glyph, same encoding slot", "AFM reader: a character-metrics line laid out differently is not understood: "+joinMax(bad, 2))
		c.check(len(layoutHdr) == 0 && nHdrVariants > 0, "AFM-LAYOUT", rname, "header lines are keyed by their first white-space separated word", read.Pos(), fmt.Sprintf("%d header lines evaluated with tabs, runs of blanks and trailing white space", nHdrVariants), "header keywords are not recognised independently of the white space around them: "+joinMax(layoutHdr, 2))
		// section keywords in the layouts of an independent writer
		for _, sec := range []struct {
			mode *afmMode
			line string
		}{{cm, "EndCharMetrics"}, {km, "EndKernPairs"}} {
			if w := endOK(sec.mode, sec.line); w != "" {
				layoutSec = append(layoutSec, fmt.Sprintf("%q: %s", sec.line, w))
				continue
			}
			for _, v := range afmLayoutVariants(sec.line, false) {
				if w := endOK(sec.mode, v); w != "" {
					layoutSec = append(layoutSec, fmt.Sprintf("%q: %s", v, w))
				}
			}
		}
		for _, v := range append(afmLayoutVariants(startCM, false), afmLayoutVariants(startKP, false)...) {
			r := m.run(nil, v)
			want := cm
			if strings.HasPrefix(v, "StartKern") {
				want = km
			}
			if !r.ok || !m.sameMode(r.mode, want) {
				layoutSec = append(layoutSec, fmt.Sprintf("%q does not start the section", v))
			}
		}
		c.check(len(layoutSec) == 0, "AFM-LAYOUT", rname, "section keywords and data lines are recognised whatever white space surrounds their fields", read.Pos(), "Start…/End… lines, KPX and glyph lines evaluated with tabs, runs of blanks and trailing white space", "AFM reader: a line laid out differently by another writer is not understood, the data after it is lost: "+joinMax(layoutSec, 2))
	}
}

// afmCompleteRule: AFM-COMPLETE.  Whether a line is written must not depend on the data, other
// than through the absence of the very thing the line carries (an empty string or zero field
// that the line alone would carry, a glyph that does not exist, an empty list, an error of an
// earlier write).  In particular the loops that write glyphs and kerning pairs range over the
// whole lists: over the field itself, the result of a query method, or a local list to which
// every element was appended unconditionally.  A filter on the data (pairs whose adjustment is
// zero, glyphs without a width, …) silently drops elements that the reader can never restore.
func (c *Ctx) afmCompleteRule(write *ssa.Function, events []afmEvent) {
	wname := c.fname(write)
	funcs := c.afmWriterFuncs(write)
	isWriterFn := map[*ssa.Function]bool{}
	for _, f := range funcs {
		isWriterFn[f] = true
	}
	callSites := func(f *ssa.Function) []ssa.CallInstruction {
		var out []ssa.CallInstruction
		for _, g := range funcs {
			eachInstr(g, func(ins ssa.Instruction) {
				if call, ok := ins.(ssa.CallInstruction); ok {
					if call.Common().StaticCallee() == f {
						out = append(out, call)
					}
				}
			})
		}
		return out
	}
	isNilC := func(v ssa.Value) bool { return isNilConst(v) }
	isErr := func(v ssa.Value) bool { return v.Type().String() == "error" }
	nilable := func(v ssa.Value) bool {
		switch v.Type().Underlying().(type) {
		case *types.Pointer, *types.Map, *types.Slice, *types.Interface, *types.Signature:
			return true
		}
		return false
	}
	lenArg := func(v ssa.Value) (ssa.Value, bool) {
		v = origin(v)
		if cv, ok := v.(*ssa.Convert); ok {
			v = origin(cv.X)
		}
		call, ok := v.(*ssa.Call)
		if !ok {
			return nil, false
		}
		if b, ok := call.Call.Value.(*ssa.Builtin); ok && b.Name() == "len" && len(call.Call.Args) == 1 {
			return call.Call.Args[0], true
		}
		return nil, false
	}
	var benign func(blk *ssa.BasicBlock, fields map[string]bool, seen map[any]bool) string
	isDriver := map[*ssa.Function]bool{}
	var complete func(s ssa.Value, seen map[any]bool) string
	complete = func(s ssa.Value, seen map[any]bool) string {
		s = origin(s)
		if seen[s] {
			return ""
		}
		seen[s] = true
		switch x := s.(type) {
		case *ssa.Const, *ssa.MakeSlice, *ssa.MakeMap, *ssa.Alloc, *ssa.Global:
			return ""
		case *ssa.Convert:
			return complete(x.X, seen)
		case *ssa.ChangeType:
			return complete(x.X, seen)
		case *ssa.Phi:
			for _, e := range x.Edges {
				if w := complete(e, seen); w != "" {
					return w
				}
			}
			return ""
		case *ssa.Slice:
			if _, isAl := x.X.(*ssa.Alloc); isAl {
				return "" // a literal or a make
			}
			if x.Low == nil && x.High == nil {
				return complete(x.X, seen)
			}
			if k, ok := constInt(x.High); x.Low == nil && ok && k == 0 {
				return "" // s[:0]: an empty list to append to
			}
			return "only a part (" + c.valShape(x) + ") of the list is written"
		case *ssa.UnOp:
			if x.Op == token.MUL {
				if _, _, ok := fieldPath(x.X); ok {
					return ""
				}
				if al, ok := x.X.(*ssa.Alloc); ok {
					// a local variable assigned several times
					for _, r := range *al.Referrers() {
						if st, ok := r.(*ssa.Store); ok && st.Addr == al {
							if w := complete(st.Val, seen); w != "" {
								return w
							}
						}
					}
					return ""
				}
				if _, ok := x.X.(*ssa.IndexAddr); ok {
					return ""
				}
				if _, ok := x.X.(*ssa.FreeVar); ok {
					return ""
				}
			}
			return ""
		case *ssa.Parameter:
			fn := x.Parent()
			idx := -1
			for i, p := range fn.Params {
				if p == x {
					idx = i
				}
			}
			for _, call := range callSites(fn) {
				args := call.Common().Args
				if idx >= 0 && idx < len(args) {
					if w := complete(args[idx], seen); w != "" {
						return w
					}
				}
			}
			return ""
		case *ssa.Call:
			if b, ok := x.Call.Value.(*ssa.Builtin); ok && b.Name() == "append" {
				// every append that builds the list happens unconditionally
				if w := benign(x.Block(), nil, seen); w != "" {
					return "an element is only appended to the list written if " + w
				}
				return complete(x.Call.Args[0], seen)
			}
			return "" // the result of a query (GlyphList, maps.Keys, a sort helper …)
		}
		return ""
	}
	benign = func(blk *ssa.BasicBlock, fields map[string]bool, seen map[any]bool) string {
		if seen[blk] {
			return ""
		}
		seen[blk] = true
		for _, cd := range domCondsOpt(blk, true) {
			v := cd.v
			shape := c.valShape(v)
			if !cd.truth {
				shape = "!(" + shape + ")"
			}
			onlyField := func(a afmArg) bool {
				if a.field == "" {
					return false
				}
				for f := range fields {
					if f != a.field && !strings.HasPrefix(f, a.field+".") {
						return false
					}
				}
				return fields != nil
			}
			if m, ok := asCmp(cd); ok {
				x, y := m.x, m.y
				switch {
				case (isErr(x) && isNilC(y)) || (isErr(y) && isNilC(x)):
					continue
				case (nilable(x) && isNilC(y)) || (nilable(y) && isNilC(x)):
					continue
				case rangeFuncStateG(x) || rangeFuncStateG(y):
					// how the body of a range-over-func loop was left (normally, by break, by
					// return): the counterpart of the exit edges of a plain loop
					continue
				}
				if s, ok := lenArg(x); ok {
					if w := complete(s, seen); w != "" {
						return w
					}
					continue
				}
				if s, ok := lenArg(y); ok {
					if w := complete(s, seen); w != "" {
						return w
					}
					continue
				}
				var other ssa.Value
				var a afmArg
				if _, isC := origin(y).(*ssa.Const); isC {
					a, other = c.afmOrigin(x), y
				} else if _, isC := origin(x).(*ssa.Const); isC {
					a, other = c.afmOrigin(y), x
				}
				if other != nil && onlyField(a) {
					continue
				}
				if other != nil && a.field != "" {
					return "`" + shape + "` holds: a condition on the value of " + a.field
				}
				// index comparisons of counted loops: for i := 0; i < n; i++ with n = len(list)
				return "`" + shape + "` holds: a condition the rule cannot relate to the absence of the data written"
			}
			// a boolean that is not a comparison
			o := origin(v)
			for {
				u, ok := o.(*ssa.UnOp)
				if !ok || u.Op != token.NOT {
					break
				}
				o = origin(u.X)
			}
			if ex, ok := o.(*ssa.Extract); ok {
				switch t := ex.Tuple.(type) {
				case *ssa.Next:
					if rg, ok := t.Iter.(*ssa.Range); ok {
						if w := complete(rg.X, seen); w != "" {
							return w
						}
					}
					continue
				case *ssa.Lookup, *ssa.TypeAssert:
					continue
				}
			}
			if a := c.afmOrigin(o); onlyField(a) {
				continue
			} else if a.field != "" {
				return "`" + shape + "` holds: a condition on the value of " + a.field
			}
			return "`" + shape + "` holds: a condition the rule cannot relate to the absence of the data written"
		}
		// the function is itself called under conditions
		fn := blk.Parent()
		if fn != write {
			for _, call := range callSites(fn) {
				if w := benign(call.Block(), fields, seen); w != "" {
					return w
				}
			}
			// a loop body that is a function (range-over-func, a closure handed to an `each`
			// helper) runs where the iterator calls it, and the iterator runs where the body was
			// handed to it
			if isDriver[fn] {
				return "" // an iterator: where it runs was examined together with the body handed to it
			}
			sites, ok := c.bodySitesG(fn)
			if !ok {
				return "the enclosing function literal is handed to code the rule cannot follow: it cannot be shown to run for every element"
			}
			for _, bs := range sites {
				if bs.site != nil {
					isDriver[bs.driver] = true
					if w := benign(bs.site.Block(), fields, seen); w != "" {
						return w
					}
				} else {
					// an iterator of the standard library over a list: the whole list is visited
					switch bs.lib {
					case "slices.Values", "slices.All", "slices.Backward", "maps.Keys", "maps.Values", "maps.All":
						for _, a := range bs.libArg {
							if w := complete(a, seen); w != "" {
								return w
							}
						}
					default:
						return "the loop ranges over the iterator " + bs.lib + ", which the rule cannot follow"
					}
				}
				if w := benign(bs.invoke.Block(), fields, seen); w != "" {
					return w
				}
			}
		}
		return ""
	}
	n := 0
	for _, e := range events {
		kw := afmKeyword(e.format)
		if kw == "" || afmIgnorable[kw] {
			continue
		}
		n++
		fields := map[string]bool{}
		for _, a := range e.args {
			if a.field != "" {
				fields[a.field] = true
			}
		}
		what := "keyword " + kw
		if e.format == "%s" {
			what = "pre-formatted line"
		}
		why := benign(e.call.Block(), fields, map[any]bool{})
		c.check(why == "", "AFM-COMPLETE", wname, what+" is written whatever the data is", e.pos(), "guarded only by earlier write errors, by the absence of what it carries, and by loops over whole lists", "the line `"+e.format+"` is only written if "+why+": data the reader cannot restore is left out of the file")
	}
	c.floor("AFM-COMPLETE", 14)
}

// afmReadOnlyRule: AFM-READONLY.  The round trip compares what is read back with the metrics as
// they were handed to the writer, so the writer — with every query method and helper it calls —
// must leave them as they are: no store, map update or append through memory reachable from the
// receiver (write effects, effects.go).  A writer that completes or normalises the value it is
// given writes a file for a different value than the caller's, and hides the difference from a
// comparison with the same object.
func (c *Ctx) afmReadOnlyRule(write *ssa.Function) {
	eff := c.effects().of(write)
	var bad []string
	if eff.Params[0] {
		bad = append(bad, "writes memory reachable from the metrics it is called on")
	}
	if len(eff.Heap) > 0 {
		bad = append(bad, dedup(eff.Heap)...)
	}
	c.check(len(bad) == 0, "AFM-READONLY", c.fname(write), "the writer leaves the metrics it writes unchanged", write.Pos(), "no store reachable from the receiver in the writer and the functions it calls",
		"the AFM writer "+strings.Join(bad, "; ")+": the file describes other metrics than the caller's, and the metrics read back are compared with a value the writer has changed")
	c.floor("AFM-READONLY", 1)
}
