package main

import (
	"fmt"
	"go/ast"
	"go/token"
	"go/types"
	"sort"
	"strings"

	"golang.org/x/tools/go/ssa"
)

// C20 — charstring numbers.  Rule family A18 NUMFMT.

func init() {
	register(&propCheck{
		id:    "C20",
		title: "Charstring numbers are exact for integers and drift-free for fractions",
		explanation: "Decides the structural clauses of C20: the integer encoder's case analysis and byte formulas are evaluated (abstractly, from the type-checked AST) for every integer in [-70000, 70000] and for all format boundaries, powers of two ±3 and the int32 extremes; the bytes are decoded by the Type 1 book's number grammar carried in the checker AND by the repository's own decoder branches (evaluated the same way): both give back the integer, and the format used is the one-byte, the two two-byte or the five-byte form exactly in its proper range; " +
			"the fraction encoder takes the integer path for integral values, searches denominators exactly 1..107, clamps the numerator to int32, emits `p q div` in that order and returns p/q of the same p,q; the decoder's div divides the second-from-top by the top; " +
			"position tracking: in the path encoder every update of the current point adds only values returned by appendNumber for numbers emitted in the same command, each delta is requested relative to the tracked position on its own axis, and every emitted delta is added exactly once. " +
			"It does NOT decide the 1/214 bound as a number, nor absence of drift as a numerical statement — only that the structure which makes them true is in place.",
		trusted:     []string{"integer evaluation of the encoder/decoder formulas (asteval.go)", "Type 1 number grammar (Adobe Type 1 Font Format §6.2) carried in the checker"},
		assumptions: []string{"float64 conversions of the small integers involved are exact"},
		run:         runC20,
	})
}

// t1DecodeNumber decodes one number by the Type 1 book; returns value and length.
func t1DecodeNumber(b []int64) (int64, int, bool) {
	if len(b) == 0 {
		return 0, 0, false
	}
	v := b[0]
	switch {
	case v >= 32 && v <= 246:
		return v - 139, 1, true
	case v >= 247 && v <= 250:
		if len(b) < 2 {
			return 0, 0, false
		}
		return (v-247)*256 + b[1] + 108, 2, true
	case v >= 251 && v <= 254:
		if len(b) < 2 {
			return 0, 0, false
		}
		return -(v-251)*256 - b[1] - 108, 2, true
	case v == 255:
		if len(b) < 5 {
			return 0, 0, false
		}
		x := int64(int32(uint32(b[1])<<24 | uint32(b[2])<<16 | uint32(b[3])<<8 | uint32(b[4])))
		return x, 5, true
	}
	return 0, 0, false
}

func c20Samples() []int64 {
	seen := map[int64]bool{}
	var out []int64
	add := func(x int64) {
		if x < -(1<<31) || x > (1<<31)-1 || seen[x] {
			return
		}
		seen[x] = true
		out = append(out, x)
	}
	for x := int64(-70000); x <= 70000; x++ {
		add(x)
	}
	for k := uint(0); k <= 31; k++ {
		for d := int64(-3); d <= 3; d++ {
			add((int64(1) << k) + d)
			add(-(int64(1) << k) + d)
		}
	}
	add(-(1 << 31))
	add((1 << 31) - 1)
	sort.Slice(out, func(i, j int) bool { return out[i] < out[j] })
	return out
}

func runC20(c *Ctx) {
	info := c.info("type1")

	// ---------- encoder
	encFD := c.funcDecl("type1", "", "appendInt")
	xParam := info.Defs[encFD.Type.Params.List[1].Names[0]]
	encode := func(x int64) (bytes []int64, err error) {
		defer func() {
			if r := recover(); r != nil {
				if e, ok := r.(evalErr); ok {
					err = e
					return
				}
				panic(r)
			}
		}()
		env := &aenv{info: info, vars: map[types.Object]aval{xParam: {i: x}}}
		env.hook = func(e ast.Expr) (aval, bool) {
			// return append(buf, …): evaluate as a statement-less append
			return aval{}, false
		}
		var out outcome
		// returns are `return append(buf, b1, b2…)`: collect the args of the returned call
		left := env.run(encFD.Body.List, false, &out)
		if !left || out.kind != "return" {
			return nil, evalErr{"appendInt does not return"}
		}
		ret := out.stmts[len(out.stmts)-1].(*ast.ReturnStmt)
		call, ok := ret.Results[0].(*ast.CallExpr)
		if !ok || len(call.Args) < 2 {
			return nil, evalErr{"appendInt does not return append(buf, …)"}
		}
		for _, a := range call.Args[1:] {
			v := env.eval(a)
			bytes = append(bytes, v.i)
		}
		return bytes, nil
	}

	// ---------- decoder: the number branches at the head of the command loop
	decFD := c.funcDecl("type1", "decodeInfo", "decodeCharString")
	// the statement that decodes numbers: the first if chain or tagless switch in the command
	// loop whose conditions compare the operator byte (a value of type t1op) with constants
	var numIf ast.Stmt
	var opVar types.Object
	isOpVar := func(e ast.Expr) types.Object {
		for _, id := range identsOf(e) {
			if v, ok := info.ObjectOf(id).(*types.Var); ok && v.Type().String() == "seehuhn.de/go/postscript/type1.t1op" {
				return v
			}
		}
		return nil
	}
	ast.Inspect(decFD.Body, func(n ast.Node) bool {
		if numIf != nil {
			return false
		}
		switch st := n.(type) {
		case *ast.IfStmt:
			if be, ok := ast.Unparen(st.Cond).(*ast.BinaryExpr); ok && (be.Op == token.LAND || be.Op == token.LEQ || be.Op == token.GEQ || be.Op == token.LSS || be.Op == token.GTR) {
				if v := isOpVar(st.Cond); v != nil {
					numIf, opVar = st, v
				}
			}
		case *ast.SwitchStmt:
			if st.Tag == nil && len(st.Body.List) > 0 {
				if cl := st.Body.List[0].(*ast.CaseClause); len(cl.List) > 0 {
					if v := isOpVar(cl.List[0]); v != nil {
						numIf, opVar = st, v
					}
				}
			}
		}
		return true
	})
	// the charstring bytes: the []byte parameter of the decoder
	var codeObj types.Object
	for _, fl := range decFD.Type.Params.List {
		if sl, ok := info.TypeOf(fl.Type).Underlying().(*types.Slice); ok {
			if b, ok := sl.Elem().Underlying().(*types.Basic); ok && b.Kind() == types.Uint8 && len(fl.Names) > 0 {
				codeObj = info.Defs[fl.Names[0]]
			}
		}
	}
	decode := func(b []int64) (val int64, used int, isNum bool, err error) {
		defer func() {
			if r := recover(); r != nil {
				if e, ok := r.(evalErr); ok {
					err = e
					return
				}
				panic(r)
			}
		}()
		env := &aenv{info: info, vars: map[types.Object]aval{opVar: {i: b[0]}}}
		env.hook = func(e ast.Expr) (aval, bool) {
			switch e := e.(type) {
			case *ast.IndexExpr:
				if id, ok := e.X.(*ast.Ident); ok && info.ObjectOf(id) == codeObj {
					k, ok := constIntOf(info, e.Index)
					if ok && int(k) < len(b) {
						return aval{i: b[k]}, true
					}
				}
			case *ast.CallExpr:
				if id, ok := e.Fun.(*ast.Ident); ok && id.Name == "len" && len(e.Args) == 1 {
					if a, ok := e.Args[0].(*ast.Ident); ok && info.ObjectOf(a) == codeObj {
						return aval{i: int64(len(b))}, true
					}
				}
			}
			return aval{}, false
		}
		var out outcome
		left := env.stmt(numIf, true, &out)
		if !left || out.kind != "continue" {
			return 0, 0, false, nil
		}
		if len(out.appends) != 1 {
			return 0, 0, false, evalErr{"number branch does not push exactly one value"}
		}
		// bytes consumed: code = code[k:]
		for _, st := range out.stmts {
			if as, ok := st.(*ast.AssignStmt); ok && len(as.Rhs) == 1 {
				if sl, ok := as.Rhs[0].(*ast.SliceExpr); ok && sl.Low != nil {
					if k, ok := constIntOf(info, sl.Low); ok {
						used = int(k)
					}
				}
			}
		}
		return out.appends[0], used, true, nil
	}
	if numIf == nil {
		c.fail("NUM-DEC", "type1.(*decodeInfo).decodeCharString", "number branches", decFD.Pos(), "the number-decoding if-chain was not found at the head of the command loop")
		return
	}

	// ---------- all samples
	samples := c20Samples()
	var encBad, decBad, fmtBad string
	nOK := 0
	for _, x := range samples {
		b, err := encode(x)
		if err != nil {
			encBad = fmt.Sprintf("x=%d: %v", x, err)
			break
		}
		v, n, ok := t1DecodeNumber(b)
		if !ok || n != len(b) || v != x {
			if encBad == "" {
				encBad = fmt.Sprintf("%d is written as bytes %v, which the Type 1 number grammar reads as %d (length %d)", x, b, v, n)
			}
			continue
		}
		wantLen := 5
		ax := x
		if ax < 0 {
			ax = -ax
		}
		switch {
		case ax <= 107:
			wantLen = 1
		case ax <= 1131:
			wantLen = 2
		}
		if len(b) != wantLen && fmtBad == "" {
			fmtBad = fmt.Sprintf("%d is written in %d byte(s), its proper format has %d", x, len(b), wantLen)
		}
		dv, dn, isNum, derr := decode(b)
		if derr != nil || !isNum || dv != x || dn != len(b) {
			if decBad == "" {
				decBad = fmt.Sprintf("the decoder reads the encoding %v of %d as %d using %d byte(s) (%v)", b, x, dv, dn, derr)
			}
			continue
		}
		nOK++
	}
	c.rep.Extra["integers_evaluated"] = len(samples)
	c.check(encBad == "", "NUM-ENC", "type1.appendInt", "every integer is written in a form the Type 1 number grammar reads back as itself", encFD.Pos(), fmt.Sprintf("%d integers evaluated", len(samples)), "integer encoder: "+encBad)
	c.check(fmtBad == "", "NUM-ENC", "type1.appendInt", "one-byte, two-byte and five-byte formats each used exactly in its range", encFD.Pos(), "[-107,107] 1 byte; ±[108,1131] 2 bytes; else 5 bytes", "integer encoder: "+fmtBad)
	c.check(decBad == "" && encBad == "", "NUM-DEC", "type1.(*decodeInfo).decodeCharString", "the decoder's number branches read every encoder output back as the same integer", numIf.Pos(), fmt.Sprintf("%d round trips through both evaluators", nOK), "number decoder: "+decBad)
	// decoder against the grammar for all first bytes
	{
		bad := ""
		for v0 := int64(0); v0 < 256; v0++ {
			for _, w := range []int64{0, 1, 107, 108, 255} {
				b := []int64{v0, w, 0x12, 0x34, 0x56}
				if v0 == 255 {
					b = []int64{255, w, 0xff - w, 3, w}
				}
				dv, dn, isNum, derr := decode(b)
				sv, sn, sIsNum := t1DecodeNumber(b)
				if derr != nil || isNum != sIsNum || (isNum && (dv != sv || dn != sn)) {
					if bad == "" {
						bad = fmt.Sprintf("first byte %d, following %v: decoder gives (%d, %d bytes, number=%v), the book says (%d, %d, %v) %v", v0, b[1:], dv, dn, isNum, sv, sn, sIsNum, derr)
					}
				}
			}
		}
		c.check(bad == "", "NUM-DEC", "type1.(*decodeInfo).decodeCharString", "number ranges 32–246 / 247–250 / 251–254 / 255 with the book's formulas; 0–31 are commands", numIf.Pos(), "256 first bytes × 5 continuations evaluated", "number decoder: "+bad)
	}

	c.fractionEncoder(info)
	c.noNarrowing()
	c.positionTracking(info)
	c.decoderDiv(info, decFD)
}

func (c *Ctx) fractionEncoder(info *types.Info) {
	fd := c.funcDecl("type1", "", "appendNumber")
	fname := "type1.appendNumber"
	// integer path
	okInt := false
	if len(fd.Body.List) >= 2 {
		if ifs, ok := fd.Body.List[1].(*ast.IfStmt); ok {
			env := &symEnv{info: info, vars: map[string]string{}}
			x := fd.Type.Params.List[1].Names[0]
			env.bind(x, "x")
			env.exec(fd.Body.List[:1])
			t := ""
			if be, ok := ifs.Cond.(*ast.BinaryExpr); ok && be.Op == token.EQL {
				t = env.term(be.X) + "==" + env.term(be.Y)
			}
			if t == "f64(i32(x))==x" || t == "x==f64(i32(x))" {
				if ret, ok := ifs.Body.List[len(ifs.Body.List)-1].(*ast.ReturnStmt); ok && len(ret.Results) == 2 {
					if call, ok := ret.Results[0].(*ast.CallExpr); ok {
						if id, ok := call.Fun.(*ast.Ident); ok && id.Name == "appendInt" && env.term(ret.Results[1]) == "x" {
							okInt = true
						}
					}
				}
			}
		}
	}
	c.check(okInt, "NUM-FRAC", fname, "integral values take the integer path and are returned unchanged", fd.Pos(), "if float64(int32(x)) == x { return appendInt(buf, int32(x)), x }", "appendNumber does not start by sending integral values through appendInt unchanged")
	// denominator loop 1..107
	var loop *ast.ForStmt
	ast.Inspect(fd.Body, func(n ast.Node) bool {
		if f, ok := n.(*ast.ForStmt); ok && loop == nil {
			loop = f
		}
		return true
	})
	okLoop := false
	why := "no denominator loop"
	var qObj types.Object
	if loop != nil {
		why = ""
		if as, ok := loop.Init.(*ast.AssignStmt); ok && len(as.Rhs) == 1 {
			if k, ok := constIntOf(info, as.Rhs[0]); !ok || k != 1 {
				why = "the search does not start at denominator 1"
			}
			if id, ok := as.Lhs[0].(*ast.Ident); ok {
				qObj = info.ObjectOf(id)
			}
		} else {
			why = "unexpected loop initialisation"
		}
		if be, ok := loop.Cond.(*ast.BinaryExpr); ok {
			k, isC := constIntOf(info, be.Y)
			last := int64(-1)
			if isC && be.Op == token.LEQ {
				last = k
			} else if isC && be.Op == token.LSS {
				last = k - 1
			}
			if last != 107 {
				why = fmt.Sprintf("the largest denominator tried is %d, expected 107 (a one-byte number; error bound 1/(2·107))", last)
			}
		} else {
			why = "unexpected loop condition"
		}
		if inc, ok := loop.Post.(*ast.IncDecStmt); !ok || inc.Tok != token.INC {
			why = "the denominator does not advance by one"
		}
		okLoop = why == ""
	}
	c.check(okLoop, "NUM-FRAC", fname, "denominators 1..107 are searched", fd.Pos(), "for q := 1; q <= 107; q++", "fraction encoder: "+why)
	// best p,q chosen together, numerator clamped to int32, emitted p q div, returned p/q
	okEmit := false
	whyE := ""
	{
		var calls []string
		var ret *ast.ReturnStmt
		for _, st := range fd.Body.List {
			switch st := st.(type) {
			case *ast.AssignStmt:
				if len(st.Rhs) == 1 {
					if call, ok := st.Rhs[0].(*ast.CallExpr); ok {
						if id, ok := call.Fun.(*ast.Ident); ok && (id.Name == "appendInt" || id.Name == "appendOp") && len(call.Args) == 2 {
							calls = append(calls, id.Name+"("+types.ExprString(call.Args[1])+")")
						}
					}
				}
			case *ast.ReturnStmt:
				ret = st
			}
		}
		var bestP, bestQ string
		if loop != nil {
			ast.Inspect(loop, func(n ast.Node) bool {
				if ifs, ok := n.(*ast.IfStmt); ok {
					var names []string
					var srcs []string
					for _, st := range ifs.Body.List {
						if as, ok := st.(*ast.AssignStmt); ok && len(as.Lhs) == 1 {
							names = append(names, types.ExprString(as.Lhs[0]))
							srcs = append(srcs, types.ExprString(as.Rhs[0]))
						}
					}
					if len(names) == 3 {
						for i, s := range srcs {
							if qObj != nil && s == qObj.Name() {
								bestQ = names[i]
							}
							if s == "p" {
								bestP = names[i]
							}
						}
					}
				}
				return true
			})
		}
		want := []string{"appendInt(" + bestP + ")", "appendInt(" + bestQ + ")", "appendOp(t1div)"}
		if bestP == "" || bestQ == "" {
			whyE = "numerator and denominator of the best approximation are not recorded together"
		} else if strings.Join(calls, ",") != strings.Join(want, ",") {
			whyE = "the emitted sequence is " + strings.Join(calls, ", ") + ", expected " + strings.Join(want, ", ")
		} else if ret == nil || len(ret.Results) != 2 {
			whyE = "unexpected return"
		} else {
			env := &symEnv{info: info, vars: map[string]string{}}
			t := env.term(ret.Results[1])
			if t != "div(f64(?"+bestP+"),f64(?"+bestQ+"))" {
				whyE = "the returned value is " + t + ", expected the quotient of the emitted numerator and denominator"
			}
		}
		okEmit = whyE == ""
	}
	c.check(okEmit, "NUM-FRAC", fname, "`p q div` is emitted and p/q of the same p,q is returned", fd.Pos(), "appendInt(bestP), appendInt(bestQ), appendOp(t1div); return float64(bestP)/float64(bestQ)", "fraction encoder: "+whyE)
	// clamp to int32
	clampHi, clampLo := false, false
	ast.Inspect(fd.Body, func(n ast.Node) bool {
		if be, ok := n.(*ast.BinaryExpr); ok {
			if v, ok := constIntOf(info, be.Y); ok {
				if v == (1<<31)-1 && be.Op == token.GTR {
					clampHi = true
				}
				if v == -(1<<31) && be.Op == token.LSS {
					clampLo = true
				}
			}
		}
		return true
	})
	c.check(clampHi && clampLo, "NUM-FRAC", fname, "numerator clamped to the int32 range before conversion", fd.Pos(), "pf > MaxInt32 / pf < MinInt32", "the numerator is converted to int32 without being clamped")
}

// positionTracking: rule NUM-POS.
func (c *Ctx) positionTracking(info *types.Info) {
	fd := c.funcDecl("type1", "Glyph", "encodeCharString")
	fname := "type1.(*Glyph).encodeCharString"
	// the switch over cmd.Op
	var sw *ast.SwitchStmt
	ast.Inspect(fd.Body, func(n ast.Node) bool {
		if s, ok := n.(*ast.SwitchStmt); ok && s.Tag != nil && sw == nil {
			if t := info.TypeOf(s.Tag); t != nil && strings.HasSuffix(t.String(), "GlyphOpType") {
				sw = s
			}
		}
		return true
	})
	if sw == nil {
		c.fail("NUM-POS", fname, "path command switch", fd.Pos(), "switch over the glyph command type not found")
		return
	}
	// position variables: float64 locals initialised with 0 before the loop, updated with +=
	posVars := map[types.Object]string{}
	ast.Inspect(fd.Body, func(n ast.Node) bool {
		if as, ok := n.(*ast.AssignStmt); ok && as.Tok == token.DEFINE && len(as.Lhs) == 1 && as.Pos() < sw.Pos() {
			if id, ok := as.Lhs[0].(*ast.Ident); ok {
				if bt, ok := info.TypeOf(id).Underlying().(*types.Basic); ok && bt.Kind() == types.Float64 {
					if v, ok := constOf(info, as.Rhs[0]); ok && v.String() == "0" {
						posVars[info.ObjectOf(id)] = ""
					}
				}
			}
		}
		return true
	})
	if len(posVars) != 2 {
		c.fail("NUM-POS", fname, "tracked position", fd.Pos(), fmt.Sprintf("expected two tracked position variables initialised with 0, found %d", len(posVars)))
		return
	}
	// assign axes by order of declaration: first x, second y
	var objs []types.Object
	for o := range posVars {
		objs = append(objs, o)
	}
	sort.Slice(objs, func(i, j int) bool { return objs[i].Pos() < objs[j].Pos() })
	posVars[objs[0]], posVars[objs[1]] = "x", "y"

	nBranches := 0
	// every straight-line branch inside the switch: a BlockStmt whose statements contain appendNumber calls
	var visit func(list []ast.Stmt)
	visit = func(list []ast.Stmt) {
		type delta struct {
			v    types.Object
			axis string
			expr string
		}
		var deltas []delta
		added := map[types.Object]int{}
		var problems []string
		has := false
		for _, st := range list {
			switch st := st.(type) {
			case *ast.IfStmt:
				// descend into all arms
				var arms func(s ast.Stmt)
				arms = func(s ast.Stmt) {
					switch s := s.(type) {
					case *ast.IfStmt:
						visit(s.Body.List)
						if s.Else != nil {
							arms(s.Else)
						}
					case *ast.BlockStmt:
						visit(s.List)
					}
				}
				arms(st)
			case *ast.AssignStmt:
				// buf, V = appendNumber(buf, E)
				if len(st.Rhs) == 1 && len(st.Lhs) == 2 {
					if call, ok := st.Rhs[0].(*ast.CallExpr); ok {
						if id, ok := call.Fun.(*ast.Ident); ok && id.Name == "appendNumber" && len(call.Args) == 2 {
							has = true
							vid, _ := st.Lhs[1].(*ast.Ident)
							if vid == nil || vid.Name == "_" {
								problems = append(problems, "the value actually encoded for `"+types.ExprString(call.Args[1])+"` is discarded ("+c.pos(st.Pos())+")")
								continue
							}
							// axis: which position variable and which argument parity
							axis := ""
							e := call.Args[1]
							usesPos := map[string]bool{}
							parity := map[int64]bool{}
							ast.Inspect(e, func(n ast.Node) bool {
								switch n := n.(type) {
								case *ast.Ident:
									if a, ok := posVars[info.ObjectOf(n)]; ok {
										usesPos[a] = true
									}
								case *ast.IndexExpr:
									if k, ok := constIntOf(info, n.Index); ok {
										parity[k%2] = true
									}
								}
								return true
							})
							switch {
							case usesPos["x"] && !usesPos["y"] && parity[0] && !parity[1]:
								axis = "x"
							case usesPos["y"] && !usesPos["x"] && parity[1] && !parity[0]:
								axis = "y"
							default:
								problems = append(problems, "the delta `"+types.ExprString(e)+"` is not requested relative to the tracked position on one axis ("+c.pos(st.Pos())+")")
							}
							// must subtract the tracked position plus the earlier deltas of the same axis in this command
							be, isSub := e.(*ast.BinaryExpr)
							if !isSub || be.Op != token.SUB {
								problems = append(problems, "the delta `"+types.ExprString(e)+"` is not a difference to the tracked position")
							}
							deltas = append(deltas, delta{info.ObjectOf(vid), axis, types.ExprString(e)})
						}
					}
				}
				// position updates
				if len(st.Lhs) == 1 || st.Tok == token.ASSIGN && len(st.Lhs) == len(st.Rhs) {
					for i, l := range st.Lhs {
						lid, ok := l.(*ast.Ident)
						if !ok {
							continue
						}
						axis, isPos := posVars[info.ObjectOf(lid)]
						if !isPos {
							continue
						}
						has = true
						if st.Tok != token.ADD_ASSIGN {
							problems = append(problems, "the tracked position `"+lid.Name+"` is assigned (`"+types.ExprString(st.Rhs[i])+"`) instead of being advanced by the encoded deltas ("+c.pos(st.Pos())+"): rounding errors of fractional coordinates then accumulate along the path")
							continue
						}
						// RHS: sum of delta variables of this axis
						okSum := true
						ast.Inspect(st.Rhs[i], func(n ast.Node) bool {
							switch n := n.(type) {
							case *ast.BinaryExpr:
								if n.Op != token.ADD {
									okSum = false
								}
							case *ast.Ident:
								o := info.ObjectOf(n)
								found := false
								for _, d := range deltas {
									if d.v == o {
										found = true
										if d.axis != axis {
											problems = append(problems, "`"+lid.Name+"` is advanced by `"+n.Name+"`, a delta of the other axis ("+c.pos(st.Pos())+")")
										}
										added[o]++
									}
								}
								if !found {
									okSum = false
								}
							case *ast.ParenExpr, nil:
							default:
								okSum = false
							}
							return true
						})
						if !okSum {
							problems = append(problems, "`"+lid.Name+" += "+types.ExprString(st.Rhs[i])+"` adds something other than values returned by appendNumber in this command ("+c.pos(st.Pos())+")")
						}
					}
				}
			}
		}
		if !has {
			return
		}
		for _, d := range deltas {
			if d.axis != "" && added[d.v] != 1 {
				problems = append(problems, fmt.Sprintf("the encoded delta `%s` (for %s) is added to the tracked position %d times, expected once", d.v.Name(), d.expr, added[d.v]))
			}
		}
		if len(deltas) == 0 && len(problems) == 0 {
			return
		}
		nBranches++
		construct := "command branch emitting " + fmt.Sprint(len(deltas)) + " number(s)"
		if len(problems) > 0 {
			c.fail("NUM-POS", fname, construct, list[0].Pos(), "position tracking: "+strings.Join(problems, "; "))
		} else {
			c.ok("NUM-POS", fname, construct, list[0].Pos(), "every delta relative to the tracked position; position advanced by exactly the returned values", "")
		}
	}
	for _, cc := range sw.Body.List {
		visit(cc.(*ast.CaseClause).Body)
	}
	c.rep.Floors["NUM-POS"] = 8
	// exhaustiveness of the command switch: every GlyphOpType constant has a case (or default panics)
	c.glyphOpSwitches()
}

func (c *Ctx) decoderDiv(info *types.Info, decFD *ast.FuncDecl) {
	c.t1DivRule()
}

// glyphOpSwitches: every switch over a GlyphOpType lists all four constants or has a default.
func (c *Ctx) glyphOpSwitches() {
	info := c.info("type1")
	p := c.pkg("type1")
	want := []string{"OpMoveTo", "OpLineTo", "OpCurveTo", "OpClosePath"}
	for _, f := range p.Syntax {
		if strings.HasSuffix(c.fset.Position(f.Pos()).Filename, "_test.go") {
			continue
		}
		for _, d := range f.Decls {
			fd, ok := d.(*ast.FuncDecl)
			if !ok || fd.Body == nil {
				continue
			}
			ast.Inspect(fd.Body, func(n ast.Node) bool {
				sw, ok := n.(*ast.SwitchStmt)
				if !ok || sw.Tag == nil {
					return true
				}
				t := info.TypeOf(sw.Tag)
				if t == nil || !strings.HasSuffix(t.String(), "type1.GlyphOpType") {
					return true
				}
				have := map[string]bool{}
				hasDefault := false
				for _, cc := range sw.Body.List {
					cl := cc.(*ast.CaseClause)
					if cl.List == nil {
						hasDefault = true
					}
					for _, e := range cl.List {
						if id, ok := e.(*ast.Ident); ok {
							have[id.Name] = true
						}
					}
				}
				var missing []string
				for _, w := range want {
					if !have[w] {
						missing = append(missing, w)
					}
				}
				name := funcDisplayName("type1", fd)
				c.check(len(missing) == 0 || hasDefault, "T1-GLYPHOPS", name, "switch over the path command type is exhaustive", sw.Pos(), "all four commands or a default",
					"the switch over GlyphOpType in "+name+" has no case for "+strings.Join(missing, ", ")+" and no default: those path commands are silently dropped")
				return true
			})
		}
	}
}

// noNarrowing: a value handed to the integer encoder is never squeezed
// through fewer than 32 bits on its way there (no narrowing conversion, no
// 16-bit arithmetic), within the encoder package and across its callers.
func (c *Ctx) noNarrowing() {
	appendInt := c.fn("type1", "appendInt")
	sizes := c.pkg("type1").TypesSizes
	narrow := func(t types.Type) bool {
		b, ok := t.Underlying().(*types.Basic)
		return ok && b.Info()&types.IsInteger != 0 && sizes.Sizeof(t) < 4
	}
	n := 0
	for _, f := range c.modFuncs {
		for _, call := range staticCalls(f, appendInt) {
			n++
			arg := call.Common().Args[1]
			var problems []string
			seen := map[ssa.Value]bool{}
			var walk func(v ssa.Value, depth int)
			walk = func(v ssa.Value, depth int) {
				if seen[v] || depth > 12 {
					return
				}
				seen[v] = true
				switch x := v.(type) {
				case *ssa.Convert:
					if narrow(x.Type()) && !narrow(x.X.Type()) {
						problems = append(problems, fmt.Sprintf("converted from %s to the %d-bit type %s at %s", x.X.Type(), 8*sizes.Sizeof(x.Type()), x.Type(), c.pos(x.Pos())))
					}
					walk(x.X, depth+1)
				case *ssa.ChangeType:
					walk(x.X, depth+1)
				case *ssa.BinOp:
					switch x.Op {
					case token.ADD, token.SUB, token.MUL:
						if narrow(x.Type()) {
							problems = append(problems, fmt.Sprintf("computed in %d-bit arithmetic (%s) at %s", 8*sizes.Sizeof(x.Type()), x.Type(), c.pos(x.Pos())))
						}
					}
					walk(x.X, depth+1)
					walk(x.Y, depth+1)
				case *ssa.UnOp:
					if x.Op == token.SUB {
						walk(x.X, depth+1)
					}
				case *ssa.Phi:
					for _, e := range x.Edges {
						walk(e, depth+1)
					}
				case *ssa.Parameter:
					if narrow(x.Type()) {
						problems = append(problems, fmt.Sprintf("passed through parameter %s of the %d-bit type %s", x.Name(), 8*sizes.Sizeof(x.Type()), x.Type()))
					}
					fn := x.Parent()
					idx := -1
					for i, p := range fn.Params {
						if p == x {
							idx = i
						}
					}
					for _, g := range c.modFuncs {
						for _, cc := range staticCalls(g, fn) {
							if idx < len(cc.Common().Args) {
								walk(cc.Common().Args[idx], depth+1)
							}
						}
					}
				}
			}
			walk(arg, 0)
			c.check(len(problems) == 0, "NUM-NARROW", c.fname(f), "value reaches the integer encoder without passing through fewer than 32 bits", call.Pos(), "no narrowing conversion or 16-bit arithmetic on the way",
				"an integer handed to the charstring number encoder is "+joinMax(problems, 3)+": values beyond ±32767 wrap silently")
		}
	}
	c.floor("NUM-NARROW", 10)
}
