package main

import (
	"fmt"
	"go/ast"
	"go/token"
	"go/types"
	"math"
	"os"
	"runtime/debug"
	"sort"
	"strings"

	"golang.org/x/tools/go/ssa"
)

// C20 — charstring numbers.  Rule family A18 NUMFMT.

func init() {
	register(&propCheck{
		id:    "C20",
		title: "Charstring numbers are exact for integers and drift-free for fractions",
		explanation: "Decides the structural clauses of C20: the integer encoder's case analysis and byte formulas are evaluated (abstractly, from the type-checked AST) for every integer in [-70000, 70000] and for all format boundaries, powers of two ±3 and the int32 extremes; the bytes are decoded by the Type 1 book's number grammar carried in the checker AND by the repository's own decoder branches (evaluated the same way): both give back the integer, and the format used is the one-byte, the two two-byte or the five-byte form exactly in its proper range; " +
			"the fraction encoder takes the integer path for integral values, searches denominators exactly 1..107, clamps the numerator to int32, emits `p q div` in that order and returns p/q of the same p,q; the decoder's div divides the second-from-top by the top; " +
			"position tracking: in the path encoder every update of the current point adds only values returned by appendNumber for numbers emitted in the same command, each delta is requested relative to the tracked position on its own axis, and every emitted delta is added exactly once. " +
			"It does NOT decide the 1/214 bound as a number, nor absence of drift as a numerical statement — only that the structure which makes them true is in place.",
		trusted:     []string{"integer evaluation of the encoder/decoder formulas (asteval.go)", "Type 1 number grammar (Adobe Type 1 Font Format §6.2) carried in the checker"},
		assumptions: []string{"float64 conversions of the small integers involved are exact"},
		run:         runC20,
	})
}

// t1DecodeNumber decodes one number by the Type 1 book; returns value and length.
func t1DecodeNumber(b []int64) (int64, int, bool) {
	if len(b) == 0 {
		return 0, 0, false
	}
	v := b[0]
	switch {
	case v >= 32 && v <= 246:
		return v - 139, 1, true
	case v >= 247 && v <= 250:
		if len(b) < 2 {
			return 0, 0, false
		}
		return (v-247)*256 + b[1] + 108, 2, true
	case v >= 251 && v <= 254:
		if len(b) < 2 {
			return 0, 0, false
		}
		return -(v-251)*256 - b[1] - 108, 2, true
	case v == 255:
		if len(b) < 5 {
			return 0, 0, false
		}
		x := int64(int32(uint32(b[1])<<24 | uint32(b[2])<<16 | uint32(b[3])<<8 | uint32(b[4])))
		return x, 5, true
	}
	return 0, 0, false
}

// c20Samples: the integers the encoder is evaluated on, and among them the boundary values
// (powers of two ± 3, the extremes) whose five-byte encodings are also put through the decoder.
func c20Samples() ([]int64, map[int64]bool) {
	seen := map[int64]bool{}
	boundary := map[int64]bool{}
	var out []int64
	add := func(x int64) {
		if x < -(1<<31) || x > (1<<31)-1 || seen[x] {
			return
		}
		seen[x] = true
		out = append(out, x)
	}
	for x := int64(-70000); x <= 70000; x++ {
		add(x)
	}
	for k := uint(0); k <= 31; k++ {
		for d := int64(-3); d <= 3; d++ {
			boundary[(int64(1)<<k)+d] = true
			boundary[-(int64(1)<<k)+d] = true
		}
	}
	boundary[-(1 << 31)] = true
	boundary[(1<<31)-1] = true
	for k := uint(0); k <= 31; k++ {
		for d := int64(-3); d <= 3; d++ {
			add((int64(1) << k) + d)
			add(-(int64(1) << k) + d)
		}
	}
	add(-(1 << 31))
	add((1 << 31) - 1)
	sort.Slice(out, func(i, j int) bool { return out[i] < out[j] })
	return out, boundary
}

func runC20(c *Ctx) {
	// many small evaluations next to a large live heap (the SSA program): collect less often
	defer debug.SetGCPercent(debug.SetGCPercent(300))
	info := c.info("type1")

	// ---------- encoder: appendInt evaluated on the SSA form with a concrete integer; the result
	// is the list of bytes appended to an empty buffer (variadic append, append of a slice literal
	// and the encoding/binary appenders are all the same thing to the evaluator)
	encFn := c.fn("type1", "appendInt")
	encode := func(x int64) (bytes []int64, err error) {
		ev := &ssaEval{c: c, bind: map[ssa.Value]sv{}, mem: map[string]sv{}}
		ret := ev.runFunc(encFn, []sv{{k: svNil}, intV(x)})
		if len(ret) != 1 || ev.why != "" {
			return nil, evalErr{"appendInt could not be evaluated: " + ev.why}
		}
		el, ok := ev.elems(ret[0])
		if !ok {
			return nil, evalErr{"appendInt does not return the buffer with known bytes appended: " + ret[0].String()}
		}
		for _, v := range el {
			if v.k != svInt {
				return nil, evalErr{"appendInt appends something that is not a known byte: " + v.String()}
			}
			bytes = append(bytes, v.i)
		}
		return bytes, nil
	}

	// ---------- decoder: one pass of the command loop of decodeCharString (the machine of the
	// C06 command table) on the bytes of one number and an empty operand stack.  A number is
	// recognised by what the pass does: it goes on to the next command with exactly one constant
	// on the operand stack; the bytes used are those missing from the code that is left.
	m := c.t1Machine()
	decPos := m.fn.Pos()
	type decRes struct {
		val   int64
		used  int
		isNum bool
		err   error
	}
	decCache := map[string]decRes{}
	nDec := 0
	var decode1 func(code []byte) (val int64, used int, isNum bool, err error)
	decode := func(b []int64) (val int64, used int, isNum bool, err error) {
		code := make([]byte, len(b))
		for i, v := range b {
			code[i] = byte(v)
		}
		if r, ok := decCache[string(code)]; ok {
			return r.val, r.used, r.isNum, r.err
		}
		val, used, isNum, err = decode1(code)
		decCache[string(code)] = decRes{val, used, isNum, err}
		nDec++
		return
	}
	decode1 = func(code []byte) (val int64, used int, isNum bool, err error) {
		o := m.runX(code, nil, nil, nil, nil)
		if o.panics {
			return 0, 0, false, evalErr{"the decoder panics: " + o.why}
		}
		if o.err || o.ret {
			return 0, 0, false, nil
		}
		if !o.back {
			return 0, 0, false, evalErr{"the pass could not be evaluated: " + o.why}
		}
		if len(o.stackVals) != 1 {
			return 0, 0, false, nil
		}
		if o.code.k != svString || !strings.HasSuffix(string(code), o.code.s) {
			return 0, 0, false, evalErr{"after the number the decoder does not continue with the rest of the charstring: " + o.code.String()}
		}
		used = len(code) - len(o.code.s)
		switch v := o.stackVals[0]; {
		case v.k == svFloat && v.f == float64(int64(v.f)):
			return int64(v.f), used, true, nil
		case v.k == svInt:
			return v.i, used, true, nil
		default:
			return 0, used, false, evalErr{"the value pushed is not a known integer: " + v.String()}
		}
	}

	// ---------- all samples
	// The encoder is evaluated on every sample.  The decoder is evaluated on every one- and
	// two-byte encoding the encoder produces and on the five-byte encodings of the boundary
	// values; its five-byte branch is compared with the grammar byte position by byte position
	// below.
	samples, boundary := c20Samples()
	var encBad, decBad, fmtBad string
	nOK := 0
	for _, x := range samples {
		b, err := encode(x)
		if err != nil {
			encBad = fmt.Sprintf("x=%d: %v", x, err)
			break
		}
		v, n, ok := t1DecodeNumber(b)
		if !ok || n != len(b) || v != x {
			if encBad == "" {
				encBad = fmt.Sprintf("%d is written as bytes %v, which the Type 1 number grammar reads as %d (length %d)", x, b, v, n)
			}
			continue
		}
		wantLen := 5
		ax := x
		if ax < 0 {
			ax = -ax
		}
		switch {
		case ax <= 107:
			wantLen = 1
		case ax <= 1131:
			wantLen = 2
		}
		if len(b) != wantLen && fmtBad == "" {
			fmtBad = fmt.Sprintf("%d is written in %d byte(s), its proper format has %d", x, len(b), wantLen)
		}
		if len(b) > 2 && !boundary[x] {
			continue
		}
		dv, dn, isNum, derr := decode(b)
		if derr != nil || !isNum || dv != x || dn != len(b) {
			if decBad == "" {
				decBad = fmt.Sprintf("the decoder reads the encoding %v of %d as %d using %d byte(s) (%v)", b, x, dv, dn, derr)
			}
			continue
		}
		nOK++
	}
	c.rep.Extra["integers_evaluated"] = len(samples)
	c.check(encBad == "", "NUM-ENC", "type1.appendInt", "every integer is written in a form the Type 1 number grammar reads back as itself", encFn.Pos(), fmt.Sprintf("%d integers evaluated", len(samples)), "integer encoder: "+encBad)
	c.check(fmtBad == "", "NUM-ENC", "type1.appendInt", "one-byte, two-byte and five-byte formats each used exactly in its range", encFn.Pos(), "[-107,107] 1 byte; ±[108,1131] 2 bytes; else 5 bytes", "integer encoder: "+fmtBad)
	if decBad == "" && encBad != "" {
		decBad = "the round trip is not established, the encoder's output is not the number (see NUM-ENC)"
	}
	c.check(decBad == "" && encBad == "", "NUM-DEC", "type1.(*decodeInfo).decodeCharString", "the decoder's number branches read every encoder output back as the same integer", decPos, fmt.Sprintf("%d round trips through both evaluators", nOK), "number decoder: "+decBad)
	// decoder against the grammar: every first byte with five continuations; every two-byte
	// number; the five-byte form with every value in every byte position on three backgrounds;
	// truncated numbers are refused
	{
		bad := ""
		n := 0
		try := func(b []int64) {
			n++
			dv, dn, isNum, derr := decode(b)
			sv, sn, sIsNum := t1DecodeNumber(b)
			if derr != nil || isNum != sIsNum || (isNum && (dv != sv || dn != sn)) {
				if bad == "" {
					bad = fmt.Sprintf("first byte %d, following %v: decoder gives (%d, %d bytes, number=%v), the book says (%d, %d, %v) %v", b[0], b[1:], dv, dn, isNum, sv, sn, sIsNum, derr)
				}
			}
		}
		for v0 := int64(0); v0 < 256; v0++ {
			for _, w := range []int64{0, 1, 107, 108, 255} {
				b := []int64{v0, w, 0x12, 0x34, 0x56}
				if v0 == 255 {
					b = []int64{255, w, 0xff - w, 3, w}
				}
				try(b)
			}
		}
		for v0 := int64(247); v0 <= 254; v0++ {
			for w := int64(0); w < 256; w++ {
				try([]int64{v0, w})
			}
		}
		for pos := 1; pos <= 4; pos++ {
			for _, bg := range []int64{0x00, 0xff, 0x55} {
				for v := int64(0); v < 256; v++ {
					b := []int64{255, bg, bg, bg, bg}
					b[pos] = v
					try(b)
				}
			}
		}
		for _, b := range [][]int64{{247}, {250}, {251}, {254}, {255}, {255, 1}, {255, 1, 2}, {255, 1, 2, 3}} {
			// the grammar has no reading of a truncated number: the decoder must refuse it (an
			// evaluation that ends in an index out of range is reported by decode)
			try(b)
		}
		c.check(bad == "", "NUM-DEC", "type1.(*decodeInfo).decodeCharString", "number ranges 32–246 / 247–250 / 251–254 / 255 with the book's formulas; 0–31 are commands", decPos, fmt.Sprintf("%d byte sequences evaluated", n), "number decoder: "+bad)
	}
	c.rep.Extra["decoder_passes_evaluated"] = nDec

	c.fractionEncoder(info)
	c.noNarrowing()
	c.positionTracking(info)
	c.decoderDiv(info, nil)
}

func (c *Ctx) fractionEncoder(info *types.Info) {
	// appendNumber is evaluated on the SSA form with a symbolic value x.  The cells of the table:
	// is x integral; at which denominator is the approximation the best so far; does the rounded
	// numerator exceed the int32 range.  Helpers are evaluated in place.
	fn := c.fn("type1", "appendNumber")
	fname := "type1.appendNumber"
	div := c.constInt("type1", "t1div")
	type result struct {
		emitted []string
		ret     string
		qs      map[int64]bool
		why     string
		deltas  map[int64]sv // argument of math.Abs per denominator: the error that is minimised
	}
	run := func(integral bool, bestAt int64, clamp int) result {
		res := result{qs: map[int64]bool{}, deltas: map[int64]sv{}}
		ev := &ssaEval{c: c, bind: map[ssa.Value]sv{}, mem: map[string]sv{}, orderMinMax: true}
		ev.noInline = func(f *ssa.Function) bool {
			// the integer and command encoders are opaque: func([]byte, T) []byte
			sig := f.Signature
			return sig.Params().Len() == 2 && sig.Results().Len() == 1 && sig.Recv() == nil && sig.Params().At(0).Type().String() == "[]byte" && sig.Params().At(1).Type().String() != "float64"
		}
		qOf := func(s string) int64 {
			// the denominator a symbol belongs to: R<q>, D<q> or a term containing them
			for _, pre := range []string{"R", "D"} {
				if i := strings.Index(s, pre); i >= 0 {
					var q int64
					if _, err := fmt.Sscanf(s[i+1:], "%d", &q); err == nil {
						return q
					}
				}
			}
			return -1
		}
		curQ := int64(-1)
		ev.call = func(call ssa.CallInstruction, args []sv) (sv, bool) {
			if call == nil {
				return sv{}, false
			}
			n := callName(call)
			switch n {
			case "math.Round":
				q := int64(-1)
				if len(args) == 1 && args[0].op == "*" {
					for _, a := range args[0].args {
						if a.k == svFloat {
							q = int64(a.f)
						}
						if a.k == svInt {
							q = a.i
						}
					}
				}
				res.qs[q] = true
				curQ = q
				return symV(fmt.Sprintf("R%d", q)), true
			case "math.Abs":
				if len(args) == 1 {
					res.deltas[curQ] = args[0]
				}
				return symV(fmt.Sprintf("D%d", curQ)), true
			case "math.Inf":
				return symV("inf"), true
			}
			if sc := call.Common().StaticCallee(); sc != nil && ev.noInline(sc) && c.inModule(sc) {
				kind := "int"
				if strings.HasSuffix(sc.Signature.Params().At(1).Type().String(), "t1op") {
					kind = "op"
				}
				res.emitted = append(res.emitted, kind+"("+args[1].String()+")")
				return symV("buf"), true
			}
			return sv{}, false
		}
		ev.oracle = func(op token.Token, x, y sv) (bool, bool) {
			xs, ys := x.String(), y.String()
			// is x integral: float64(int32(x)) == x
			if xs == "x" && ys == "x" {
				return integral == (op == token.EQL), true
			}
			// clamping: the rounded numerator R<q> against the int32 limits, whichever side it is
			// on and whichever comparison (or min/max) is used
			{
				r, lim, rop := x, y, op
				if strings.HasPrefix(ys, "R") && y.op == "" {
					r, lim = y, x
					switch op {
					case token.LSS:
						rop = token.GTR
					case token.LEQ:
						rop = token.GEQ
					case token.GTR:
						rop = token.LSS
					case token.GEQ:
						rop = token.LEQ
					}
				}
				limit, isLim := 0.0, false
				switch lim.k {
				case svFloat:
					limit, isLim = lim.f, true
				case svInt:
					limit, isLim = float64(lim.i), true
				}
				if strings.HasPrefix(r.s, "R") && r.k == svSym && r.op == "" && isLim && limit != 0 {
					above := rop == token.GTR || rop == token.GEQ
					below := rop == token.LSS || rop == token.LEQ
					switch {
					case limit > 0 && above:
						return clamp > 0, true
					case limit > 0 && below:
						return !(clamp > 0), true
					case limit < 0 && below:
						return clamp < 0, true
					case limit < 0 && above:
						return !(clamp < 0), true
					}
				}
			}
			// is this denominator the best so far
			if strings.HasPrefix(xs, "D") {
				q := qOf(xs)
				switch op {
				case token.LEQ, token.LSS:
					return q == bestAt, true
				case token.GTR, token.GEQ:
					return q != bestAt, true
				}
			}
			if strings.HasPrefix(ys, "D") {
				q := qOf(ys)
				switch op {
				case token.GEQ, token.GTR:
					return q == bestAt, true
				case token.LSS, token.LEQ:
					return q != bestAt, true
				}
			}
			return false, false
		}
		ret := ev.runFunc(fn, []sv{symV("buf0"), symV("x")})
		res.why = ev.why
		if len(ret) == 2 {
			res.ret = ret[1].String()
		}
		return res
	}
	ri := run(true, 0, 0)
	c.check(ri.why == "" && strings.Join(ri.emitted, " ") == "int(x)" && ri.ret == "x", "NUM-FRAC", fname, "integral values take the integer path and are returned unchanged", fn.Pos(), "emits the integer, returns x", fmt.Sprintf("for an integral value appendNumber emits %v and returns %s %s", ri.emitted, ri.ret, ri.why))
	rs := run(false, 1, 0)
	var missing []int64
	for q := int64(1); q <= 107; q++ {
		if !rs.qs[q] {
			missing = append(missing, q)
		}
	}
	extra := len(rs.qs) - (107 - len(missing))
	c.check(rs.why == "" && len(missing) == 0 && extra == 0, "NUM-FRAC", fname, "denominators 1..107 are searched", fn.Pos(), fmt.Sprintf("%d denominators", len(rs.qs)), fmt.Sprintf("fraction encoder: denominators not tried: %v, others tried: %d %s (the denominator must fit the one-byte number format)", missing, extra, rs.why))
	var bad []string
	for _, q0 := range []int64{1, 50, 107} {
		r := run(false, q0, 0)
		wantE := fmt.Sprintf("int(R%d) int(%d) op(%d)", q0, q0, div)
		wantR := fmt.Sprintf("/(R%d,%d)", q0, q0)
		if strings.Join(r.emitted, " ") != wantE || r.ret != wantR {
			bad = append(bad, fmt.Sprintf("with the best approximation at denominator %d it emits %v and returns %s, expected %s and %s %s", q0, r.emitted, r.ret, wantE, wantR, r.why))
		}
	}
	c.check(len(bad) == 0, "NUM-FRAC", fname, "`p q div` is emitted and p/q of the same p,q is returned", fn.Pos(), "best approximation at q = 1, 50, 107 evaluated", "fraction encoder: "+joinMax(bad, 2))
	// the error that is minimised is that of the value written, |p/q - x|, in glyph units: the term
	// handed to math.Abs is evaluated numerically at sample points (R<q> = round(x*q)) and compared
	// with |round(x*q)/q - x|; a term the evaluation cannot follow is left undecided by this clause
	// (note), a term that evaluates to something else (e.g. the error of the numerator, |p - x*q|,
	// which prefers small denominators) is a violation.
	{
		var badD []string
		nD, skipped := 0, 0
		for q := int64(2); q <= 107; q++ {
			t, ok := rs.deltas[q]
			if !ok {
				continue
			}
			for _, x := range []float64{0.3, 5 + 1.0/213, -7.77, 1234.5678} {
				got, okE := numEvalFrac(t, x, q)
				if !okE {
					skipped++
					break
				}
				nD++
				want := math.Abs(math.Round(x*float64(q))/float64(q) - x)
				if math.Abs(math.Abs(got)-want) > 1e-9*(1+want) {
					badD = append(badD, fmt.Sprintf("at denominator %d the candidates are ranked by |%s|, which for x=%g is %g; the error of the value written is %g", q, t.String(), x, math.Abs(got), want))
					break
				}
			}
		}
		if skipped > 0 || nD == 0 {
			c.note("NUM-FRAC: the ranking term of %d denominators could not be evaluated numerically (%d evaluated)", skipped, nD)
		}
		if nD > 0 || len(badD) > 0 {
			c.check(len(badD) == 0, "NUM-FRAC", fname, "candidates are ranked by the error of the value written, |p/q - x|", fn.Pos(), fmt.Sprintf("%d sample evaluations of the ranking term", nD), "fraction encoder: "+joinMax(badD, 2))
		}
	}
	hi := run(false, 7, 1)
	lo := run(false, 7, -1)
	okClamp := len(hi.emitted) == 3 && hi.emitted[0] == "int(2147483647)" && len(lo.emitted) == 3 && lo.emitted[0] == "int(-2147483648)"
	c.check(okClamp, "NUM-FRAC", fname, "numerator clamped to the int32 range before conversion", fn.Pos(), "±2^31 limits", fmt.Sprintf("the numerator is converted to int32 without being clamped: beyond the range it emits %v / %v", hi.emitted, lo.emitted))
}

func (c *Ctx) positionTracking(info *types.Info) {
	// One pass of the command loop of encodeCharString is evaluated on the SSA form for every
	// command kind and every choice of its short forms (horizontal, vertical, general).  The
	// fraction encoder is opaque: it is asked for a delta and answers with the value it really
	// wrote (e1, e2, …).  Every delta must be "target − (tracked position + what was written
	// before for that axis)", and the tracked position must advance by exactly what was written.
	fn := c.method("type1", "Glyph", "encodeCharString")
	fname := c.fname(fn)
	H := cmdLoopHeader(fn)
	if H == nil {
		c.undecided("NUM-POS", fname, "loop over the path commands", fn.Pos(), "no loop over g.Cmds found")
		return
	}
	numFn := c.fn("type1", "appendNumber")
	ops := map[string]int64{"OpMoveTo": c.constInt("type1", "OpMoveTo"), "OpLineTo": c.constInt("type1", "OpLineTo"), "OpCurveTo": c.constInt("type1", "OpCurveTo"), "OpClosePath": c.constInt("type1", "OpClosePath")}
	type cell struct {
		op    string
		shape string   // general | horizontal | vertical | hv | vh
		small []string // linear forms whose absolute value is below the threshold
	}
	cells := []cell{
		{"OpMoveTo", "general", nil}, {"OpMoveTo", "horizontal", []string{"A1-PY"}}, {"OpMoveTo", "vertical", []string{"A0-PX"}},
		{"OpLineTo", "general", nil}, {"OpLineTo", "horizontal", []string{"A1-PY"}}, {"OpLineTo", "vertical", []string{"A0-PX"}},
		{"OpCurveTo", "general", nil}, {"OpCurveTo", "hv", []string{"A1-PY", "A4-A2"}}, {"OpCurveTo", "vh", []string{"A0-PX", "A5-A3"}},
		{"OpClosePath", "general", nil},
	}
	// The tracked position is *state carried from one pass to the next*: a value of the loop header
	// (two locals) or a memory cell allocated before the loop whose content is read in a pass before
	// the pass writes it (a field of a local struct, an array element, a local captured by a closure
	// that the loop body calls).  Both kinds are candidates; the pair (x, y) is chosen once for all
	// command kinds.
	type posCand struct {
		phi *ssa.Phi
		key string // memory cell (evaluator address)
	}
	type req struct {
		delta sv
		e     string
	}
	type cellRes struct {
		ok       bool
		problems []string
		nreq     int
	}
	// runCell evaluates one pass of the loop for one cell of the table with the two candidates px, py
	// as the tracked position (nil, nil: discovery pass — every float cell read before it is
	// written is handed to seen).
	runCell := func(cl cell, px, py *posCand, seen func(key string)) cellRes {
		ev := &ssaEval{c: c, bind: map[ssa.Value]sv{}, mem: map[string]sv{}}
		var reqs []req
		ev.noInline = func(f *ssa.Function) bool {
			// opaque: the number encoder, and whatever else appends to the buffer (a function that
			// takes the buffer and returns it, e.g. the operator writer); a predicate or an
			// arithmetic helper is part of the pass and is evaluated in place
			if f == numFn {
				return true
			}
			if f.Signature.Recv() != nil || f.Signature.Params().Len() != 2 || f.Signature.Results().Len() != 1 {
				return false
			}
			isBytes := func(t types.Type) bool {
				sl, ok := t.Underlying().(*types.Slice)
				if !ok {
					return false
				}
				bt, ok := sl.Elem().Underlying().(*types.Basic)
				return ok && bt.Kind() == types.Uint8
			}
			return isBytes(f.Signature.Results().At(0).Type())
		}
		ev.load = func(ld *ssa.UnOp, addr sv) (sv, bool) {
			a := addr.s
			switch {
			case strings.HasSuffix(a, ".Op"):
				return intV(ops[cl.op]), true
			case strings.Contains(a, ".Args["):
				i := strings.LastIndex(a, "[")
				return symV("A" + strings.TrimSuffix(a[i+1:], "]")), true
			case strings.HasSuffix(a, ".Args"):
				return sv{k: svAddr, s: "cmd.Args"}, true
			}
			if bt, ok := ld.Type().Underlying().(*types.Basic); ok && bt.Info()&types.IsFloat != 0 && strings.HasPrefix(a, "cell") && seen != nil {
				seen(a)
			}
			return symV("v:" + a), true
		}
		ev.call = func(call ssa.CallInstruction, args []sv) (sv, bool) {
			if call == nil {
				return sv{}, false
			}
			switch {
			case call.Common().StaticCallee() == numFn && len(args) == 2:
				e := fmt.Sprintf("e%d", len(reqs)+1)
				reqs = append(reqs, req{args[1], e})
				return sv{k: svTuple, tup: []sv{symV("buf"), symV(e)}}, true
			case callName(call) == "math.Abs" && len(args) == 1:
				return symV("abs:" + linString(linOf(args[0]))), true
			}
			if sc := call.Common().StaticCallee(); sc != nil && c.inModule(sc) && ev.noInline(sc) {
				return symV("buf"), true
			}
			return sv{}, false
		}
		ev.oracle = func(op token.Token, x, y sv) (bool, bool) {
			if strings.HasPrefix(x.s, "abs:") && y.k == svFloat {
				small := false
				for _, s := range cl.small {
					if x.s == "abs:"+s {
						small = true
					}
				}
				switch op {
				case token.LSS, token.LEQ:
					return small, true
				case token.GTR, token.GEQ:
					return !small, true
				}
			}
			if strings.Contains(x.String(), "idx") || strings.Contains(y.String(), "idx") {
				return true, true
			}
			return false, false
		}
		fr := &frame{vals: map[ssa.Value]sv{}}
		// what exists before the loop: local cells, addresses inside them, closures over them
		for _, b := range fn.DomPreorder() {
			if b == H || !b.Dominates(H) {
				continue
			}
			for _, ins := range b.Instrs {
				switch x := ins.(type) {
				case *ssa.Alloc, *ssa.MakeClosure:
					ev.instr(fr, ins)
				case *ssa.FieldAddr:
					if ev.val(fr, x.X).k == svAddr {
						ev.instr(fr, ins)
					}
				case *ssa.IndexAddr:
					if ev.val(fr, x.X).k == svAddr {
						ev.instr(fr, ins)
					}
				}
			}
		}
		// the loop goes on: its condition is fixed to the value that enters the body
		if ifi, ok := H.Instrs[len(H.Instrs)-1].(*ssa.If); ok {
			ev.bind[ifi.Cond] = boolV(reachesBlock(H.Succs[0], H))
		}
		// header phis: floats are scratch unless chosen below, the buffer, the range index
		for _, ins := range H.Instrs {
			if phi, ok := ins.(*ssa.Phi); ok {
				switch t := phi.Type().Underlying().(type) {
				case *types.Basic:
					switch {
					case t.Info()&types.IsFloat != 0:
						fr.vals[phi] = symV("scratch")
					case t.Info()&types.IsInteger != 0:
						fr.vals[phi] = symV("idx")
					}
				default:
					fr.vals[phi] = symV("buf")
				}
			}
		}
		for i, cand := range []*posCand{px, py} {
			name := []string{"PX", "PY"}[i]
			switch {
			case cand == nil:
			case cand.phi != nil:
				fr.vals[cand.phi] = symV(name)
			default:
				ev.mem[cand.key] = symV(name)
			}
		}
		var from *ssa.BasicBlock
		back := false
		_, from, _ = ev.runBlocks(fr, H, nil, func(next, f *ssa.BasicBlock) bool {
			if next == H {
				back = true
			}
			return next == H
		})
		if !back {
			return cellRes{problems: []string{"the pass does not come back to the loop: " + ev.why}, nreq: len(reqs)}
		}
		if px == nil || py == nil {
			return cellRes{nreq: len(reqs)}
		}
		newOf := func(cand *posCand) sv {
			if cand.phi == nil {
				return ev.mem[cand.key]
			}
			for i, p := range H.Preds {
				if p == from {
					return ev.val(fr, cand.phi.Edges[i])
				}
			}
			return sv{}
		}
		var problems []string
		axisSum := map[string][]string{}
		for i, r := range reqs {
			l := linOf(r.delta)
			axis := ""
			if l["PX"] == -1 && l["PY"] == 0 {
				axis = "PX"
			}
			if l["PY"] == -1 && l["PX"] == 0 {
				axis = "PY"
			}
			if axis == "" {
				problems = append(problems, fmt.Sprintf("delta %d (%s) is not relative to one tracked coordinate", i+1, linString(l)))
				continue
			}
			targets := 0
			for k, v := range l {
				switch {
				case strings.HasPrefix(k, "A") && v == 1:
					targets++
					// the coordinates of a path command alternate x, y: a delta on the x axis aims
					// at an even entry of Args, a delta on the y axis at an odd one (this also ties
					// the two tracked values to their axes, so that the trial assignment of the
					// other order cannot pass by running through the general form)
					var idx int
					if _, err := fmt.Sscanf(k, "A%d", &idx); err != nil || (idx%2 == 0) != (axis == "PX") {
						problems = append(problems, fmt.Sprintf("delta %d (%s) measures coordinate %s of the command against the tracked position of the other axis", i+1, linString(l), k))
					}
				case k == axis:
				case strings.HasPrefix(k, "e") && v == -1:
				default:
					problems = append(problems, fmt.Sprintf("delta %d (%s) contains the stray term %s", i+1, linString(l), k))
				}
			}
			if targets != 1 {
				problems = append(problems, fmt.Sprintf("delta %d (%s) does not aim at one coordinate of the command", i+1, linString(l)))
			}
			for _, e := range axisSum[axis] {
				if l[e] != -1 {
					problems = append(problems, fmt.Sprintf("delta %d (%s) ignores the value %s already written for the same axis: rounding errors accumulate", i+1, linString(l), e))
				}
			}
			axisSum[axis] = append(axisSum[axis], r.e)
		}
		for _, ax := range []struct {
			name string
			cand *posCand
		}{{"PX", px}, {"PY", py}} {
			l := linOf(newOf(ax.cand))
			want := map[string]float64{ax.name: 1}
			for _, e := range axisSum[ax.name] {
				want[e] = 1
			}
			if linString(l) != linString(want) {
				problems = append(problems, fmt.Sprintf("the tracked %s becomes %s, expected %s (the position must advance by what was written, not by what was asked for)", ax.name, linString(l), linString(want)))
			}
		}
		if os.Getenv("PSA_DEBUG_POS") != "" {
			fmt.Printf("NUM-POS %s/%s px=%v py=%v why=%s\n", cl.op, cl.shape, *px, *py, ev.why)
			for _, r := range reqs {
				fmt.Printf("    %s = number(%s)\n", r.e, linString(linOf(r.delta)))
			}
			fmt.Printf("    problems: %v\n", problems)
		}
		return cellRes{ok: len(problems) == 0, problems: problems, nreq: len(reqs)}
	}
	var cands []*posCand
	for _, ins := range H.Instrs {
		if phi, ok := ins.(*ssa.Phi); ok {
			if t, ok := phi.Type().Underlying().(*types.Basic); ok && t.Info()&types.IsFloat != 0 {
				cands = append(cands, &posCand{phi: phi})
			}
		}
	}
	seenKey := map[string]bool{}
	for _, cl := range cells {
		if cl.shape == "general" {
			runCell(cl, nil, nil, func(key string) {
				if !seenKey[key] {
					seenKey[key] = true
					cands = append(cands, &posCand{key: key})
				}
			})
		}
	}
	construct := func(cl cell) string {
		return fmt.Sprintf("%s (%s): deltas relative to the tracked position, position advanced by what was written", cl.op, cl.shape)
	}
	if len(cands) < 2 {
		for _, cl := range cells {
			c.undecided("NUM-POS", fname, construct(cl), fn.Pos(), "the two tracked coordinates were not found among the state carried from one pass of the loop to the next")
		}
	} else {
		if len(cands) > 6 {
			cands = cands[:6]
		}
		var best []cellRes
		bestOK := -1
		for i, px := range cands {
			for j, py := range cands {
				if i == j {
					continue
				}
				var res []cellRes
				nok := 0
				for _, cl := range cells {
					r := runCell(cl, px, py, nil)
					if r.ok {
						nok++
					}
					res = append(res, r)
				}
				if nok > bestOK {
					best, bestOK = res, nok
				}
			}
		}
		for k, cl := range cells {
			c.check(best[k].ok, "NUM-POS", fname, construct(cl), fn.Pos(), fmt.Sprintf("%d numbers written", best[k].nreq), "position tracking: "+joinMax(best[k].problems, 3))
		}
	}
	c.rep.Floors["NUM-POS"] = 8
	// exhaustiveness of the command switch: every GlyphOpType constant has a case (or default panics)
	c.glyphOpSwitches()
}

// cmdLoopHeader: the header of the loop that ranges over the glyph's commands (the last loop of
// the function).
func cmdLoopHeader(fn *ssa.Function) *ssa.BasicBlock {
	var h *ssa.BasicBlock
	for _, b := range fn.Blocks {
		for _, p := range b.Preds {
			if b.Dominates(p) {
				// outermost loops only: not nested in another candidate
				nested := false
				if h != nil && h.Dominates(b) {
					for _, q := range h.Preds {
						if h.Dominates(q) && b.Dominates(q) == false && reachesBlock(b, q) {
							nested = true
						}
					}
				}
				if !nested {
					h = b
				}
			}
		}
	}
	return h
}

func reachesBlock(from, to *ssa.BasicBlock) bool {
	seen := map[*ssa.BasicBlock]bool{}
	st := []*ssa.BasicBlock{from}
	for len(st) > 0 {
		b := st[len(st)-1]
		st = st[:len(st)-1]
		if b == to {
			return true
		}
		if seen[b] {
			continue
		}
		seen[b] = true
		st = append(st, b.Succs...)
	}
	return false
}

// linOf reads a term built from + and − as a linear combination of its atoms.
func linOf(v sv) map[string]float64 {
	out := map[string]float64{}
	var walk func(v sv, f float64)
	walk = func(v sv, f float64) {
		switch {
		case v.k == svSym && (v.op == "+" || v.op == "-") && len(v.args) == 2:
			walk(v.args[0], f)
			if v.op == "+" {
				walk(v.args[1], f)
			} else {
				walk(v.args[1], -f)
			}
		case v.k == svSym && v.op == "neg" && len(v.args) == 1:
			walk(v.args[0], -f)
		case v.k == svFloat:
			if v.f != 0 {
				out["1"] += f * v.f
			}
		case v.k == svInt:
			if v.i != 0 {
				out["1"] += f * float64(v.i)
			}
		default:
			out[v.String()] += f
		}
	}
	walk(v, 1)
	for k, c := range out {
		if c == 0 {
			delete(out, k)
		}
	}
	return out
}

func linString(l map[string]float64) string {
	var ks []string
	for k := range l {
		ks = append(ks, k)
	}
	sort.Strings(ks)
	var pos, neg []string
	for _, k := range ks {
		switch l[k] {
		case 1:
			pos = append(pos, k)
		case -1:
			neg = append(neg, k)
		default:
			pos = append(pos, fmt.Sprintf("%g*%s", l[k], k))
		}
	}
	s := strings.Join(pos, "+")
	for _, k := range neg {
		s += "-" + k
	}
	return s
}

func (c *Ctx) decoderDiv(info *types.Info, decFD *ast.FuncDecl) {
	c.t1DivRule()
}

// glyphOpSwitches: every switch over a GlyphOpType lists all four constants or has a default.
func (c *Ctx) glyphOpSwitches() {
	info := c.info("type1")
	p := c.pkg("type1")
	want := []string{"OpMoveTo", "OpLineTo", "OpCurveTo", "OpClosePath"}
	for _, f := range p.Syntax {
		if strings.HasSuffix(c.fset.Position(f.Pos()).Filename, "_test.go") {
			continue
		}
		for _, d := range f.Decls {
			fd, ok := d.(*ast.FuncDecl)
			if !ok || fd.Body == nil {
				continue
			}
			ast.Inspect(fd.Body, func(n ast.Node) bool {
				sw, ok := n.(*ast.SwitchStmt)
				if !ok || sw.Tag == nil {
					return true
				}
				t := info.TypeOf(sw.Tag)
				if t == nil || !strings.HasSuffix(t.String(), "type1.GlyphOpType") {
					return true
				}
				have := map[string]bool{}
				hasDefault := false
				for _, cc := range sw.Body.List {
					cl := cc.(*ast.CaseClause)
					if cl.List == nil {
						hasDefault = true
					}
					for _, e := range cl.List {
						if id, ok := e.(*ast.Ident); ok {
							have[id.Name] = true
						}
					}
				}
				var missing []string
				for _, w := range want {
					if !have[w] {
						missing = append(missing, w)
					}
				}
				name := funcDisplayName("type1", fd)
				c.check(len(missing) == 0 || hasDefault, "T1-GLYPHOPS", name, "switch over the path command type is exhaustive", sw.Pos(), "all four commands or a default",
					"the switch over GlyphOpType in "+name+" has no case for "+strings.Join(missing, ", ")+" and no default: those path commands are silently dropped")
				return true
			})
		}
	}
}

// noNarrowing: a value handed to the integer encoder is never squeezed
// through fewer than 32 bits on its way there (no narrowing conversion, no
// 16-bit arithmetic), within the encoder package and across its callers.
func (c *Ctx) noNarrowing() {
	appendInt := c.fn("type1", "appendInt")
	sizes := c.pkg("type1").TypesSizes
	narrow := func(t types.Type) bool {
		b, ok := t.Underlying().(*types.Basic)
		return ok && b.Info()&types.IsInteger != 0 && sizes.Sizeof(t) < 4
	}
	callsOf := func(fn *ssa.Function) []ssa.CallInstruction {
		var out []ssa.CallInstruction
		for _, g := range c.modFuncs {
			out = append(out, staticCalls(g, fn)...)
		}
		return out
	}
	paramIndex := func(p *ssa.Parameter) int {
		for i, q := range p.Parent().Params {
			if q == p {
				return i
			}
		}
		return -1
	}
	// a value that is a parameter handed on (through conversions at most): the function is a
	// wrapper of the encoder as far as this value goes, and the value originates at its callers
	passedOn := func(v ssa.Value) *ssa.Parameter {
		for {
			switch x := v.(type) {
			case *ssa.Convert:
				if b, ok := x.X.Type().Underlying().(*types.Basic); !ok || b.Info()&types.IsInteger == 0 {
					return nil // a number of another kind made an integer here: this is where the integer originates
				}
				v = x.X
			case *ssa.ChangeType:
				v = x.X
			case *ssa.Parameter:
				return x
			default:
				return nil
			}
		}
	}
	// one obligation per place where a value is handed to the integer encoder, directly or through
	// wrappers (a method of an encoder object that appends to its buffer is the same thing as the
	// call it wraps): start is the argument of the call of the encoder itself, chain the calls of
	// the wrappers from the innermost outwards, site the outermost of them
	emit := func(start ssa.Value, chain []ssa.CallInstruction, site ssa.CallInstruction) {
		var problems []string
		type visit struct {
			v ssa.Value
			n int
		}
		seen := map[visit]bool{}
		var walk func(v ssa.Value, chain []ssa.CallInstruction, depth int)
		walk = func(v ssa.Value, chain []ssa.CallInstruction, depth int) {
			if seen[visit{v, len(chain)}] || depth > 12 {
				return
			}
			seen[visit{v, len(chain)}] = true
			switch x := v.(type) {
			case *ssa.Convert:
				if narrow(x.Type()) && !narrow(x.X.Type()) {
					problems = append(problems, fmt.Sprintf("converted from %s to the %d-bit type %s at %s", x.X.Type(), 8*sizes.Sizeof(x.Type()), x.Type(), c.pos(x.Pos())))
				}
				walk(x.X, chain, depth+1)
			case *ssa.ChangeType:
				walk(x.X, chain, depth+1)
			case *ssa.BinOp:
				switch x.Op {
				case token.ADD, token.SUB, token.MUL:
					if narrow(x.Type()) {
						problems = append(problems, fmt.Sprintf("computed in %d-bit arithmetic (%s) at %s", 8*sizes.Sizeof(x.Type()), x.Type(), c.pos(x.Pos())))
					}
				}
				walk(x.X, chain, depth+1)
				walk(x.Y, chain, depth+1)
			case *ssa.UnOp:
				if x.Op == token.SUB {
					walk(x.X, chain, depth+1)
				}
			case *ssa.Phi:
				for _, e := range x.Edges {
					walk(e, chain, depth+1)
				}
			case *ssa.Parameter:
				if narrow(x.Type()) {
					problems = append(problems, fmt.Sprintf("passed through parameter %s of the %d-bit type %s", x.Name(), 8*sizes.Sizeof(x.Type()), x.Type()))
				}
				idx := paramIndex(x)
				if len(chain) > 0 && chain[0].Common().StaticCallee() == x.Parent() {
					// inside a wrapper: the value is the one of this very call
					if idx >= 0 && idx < len(chain[0].Common().Args) {
						walk(chain[0].Common().Args[idx], chain[1:], depth+1)
					}
					return
				}
				for _, cc := range callsOf(x.Parent()) {
					if idx >= 0 && idx < len(cc.Common().Args) {
						walk(cc.Common().Args[idx], nil, depth+1)
					}
				}
			}
		}
		walk(start, chain, 0)
		c.check(len(problems) == 0, "NUM-NARROW", c.fname(site.Parent()), "value reaches the integer encoder without passing through fewer than 32 bits", site.Pos(), "no narrowing conversion or 16-bit arithmetic on the way",
			"an integer handed to the charstring number encoder is "+joinMax(problems, 3)+": values beyond ±32767 wrap silently")
	}
	var collect func(start ssa.Value, chain []ssa.CallInstruction, cur ssa.CallInstruction, idx int)
	collect = func(start ssa.Value, chain []ssa.CallInstruction, cur ssa.CallInstruction, idx int) {
		if p := passedOn(cur.Common().Args[idx]); p != nil && len(chain) < 4 && p.Parent() == cur.Parent() {
			if callers := callsOf(p.Parent()); len(callers) > 0 && paramIndex(p) >= 0 {
				for _, k := range callers {
					if paramIndex(p) < len(k.Common().Args) {
						collect(start, append(append([]ssa.CallInstruction{}, chain...), k), k, paramIndex(p))
					}
				}
				return
			}
		}
		emit(start, chain, cur)
	}
	for _, f := range c.modFuncs {
		for _, call := range staticCalls(f, appendInt) {
			collect(call.Common().Args[1], nil, call, 1)
		}
	}
	c.floor("NUM-NARROW", 10)
}

// numEvalFrac evaluates a float term of appendNumber's search loop at x, with R<q> = round(x*q).
func numEvalFrac(t sv, x float64, q int64) (float64, bool) {
	switch t.k {
	case svFloat:
		return t.f, true
	case svInt:
		return float64(t.i), true
	case svSym:
		if t.op == "" {
			switch {
			case t.s == "x":
				return x, true
			case t.s == fmt.Sprintf("R%d", q):
				return math.Round(x * float64(q)), true
			}
			return 0, false
		}
		var a []float64
		for _, u := range t.args {
			v, ok := numEvalFrac(u, x, q)
			if !ok {
				return 0, false
			}
			a = append(a, v)
		}
		switch {
		case t.op == "neg" && len(a) == 1:
			return -a[0], true
		case t.op == "+" && len(a) == 2:
			return a[0] + a[1], true
		case t.op == "-" && len(a) == 2:
			return a[0] - a[1], true
		case t.op == "*" && len(a) == 2:
			return a[0] * a[1], true
		case t.op == "/" && len(a) == 2:
			return a[0] / a[1], true
		}
	}
	return 0, false
}
