package main

import (
	"fmt"
	"go/token"
	"go/types"
	"strconv"
	"strings"
	"unicode"
	"unicode/utf8"

	"golang.org/x/tools/go/ssa"
)

// Helpers of the C14–C16 rules (worker G).

// cmpHolds: does "x op y" hold when compare(x, y) = r (-1, 0, +1)?
func cmpHolds(op token.Token, r int) bool {
	switch op {
	case token.LSS:
		return r < 0
	case token.LEQ:
		return r <= 0
	case token.GTR:
		return r > 0
	case token.GEQ:
		return r >= 0
	case token.EQL:
		return r == 0
	case token.NEQ:
		return r != 0
	}
	return false
}

// flipCmp: the operator of "y op' x" equivalent to "x op y".
func flipCmp(op token.Token) token.Token { return swapOp(op) }

// byteOrderRead recognises the fixed-width readers of encoding/binary's byte orders by the
// qualified name of the callee: (encoding/binary.littleEndian).Uint32 → (true, 4, true).
func byteOrderRead(name string) (little bool, size int, ok bool) {
	var rest string
	switch {
	case strings.HasPrefix(name, "(encoding/binary.littleEndian)."):
		little, rest = true, strings.TrimPrefix(name, "(encoding/binary.littleEndian).")
	case strings.HasPrefix(name, "(encoding/binary.bigEndian)."):
		rest = strings.TrimPrefix(name, "(encoding/binary.bigEndian).")
	default:
		return false, 0, false
	}
	switch rest {
	case "Uint16":
		return little, 2, true
	case "Uint32":
		return little, 4, true
	case "Uint64":
		return little, 8, true
	}
	return false, 0, false
}

// stdCall models calls of pure standard-library functions on known arguments with the library's
// own semantics: strings, strconv, unicode, utf8, slices on concrete values, and the
// higher-order functions of package strings applied to a predicate of the module, which is
// evaluated in place for every code point.  It is meant as the fall-back of a rule's call hook.
func stdCall(e *ssaEval, call ssa.CallInstruction, args []sv) (sv, bool) {
	if call == nil {
		return sv{}, false
	}
	name := callName(call)
	if r, ok := pureLibCall(e, name, args); ok {
		return r, true
	}
	if r, ok := builderCallG(e, name, args); ok {
		return r, true
	}
	str := func(i int) (string, bool) {
		if i < len(args) && args[i].k == svString {
			return args[i].s, true
		}
		return "", false
	}
	num := func(i int) (int64, bool) {
		if i < len(args) && args[i].k == svInt {
			return args[i].i, true
		}
		return 0, false
	}
	// a predicate of the module (declared function or closure without state) applied to a rune
	pred := func(i int) func(r rune) (bool, bool) {
		if i >= len(call.Common().Args) {
			return nil
		}
		var fn *ssa.Function
		switch v := call.Common().Args[i].(type) {
		case *ssa.Function:
			fn = v
		case *ssa.MakeClosure:
			if len(v.Bindings) == 0 {
				fn, _ = v.Fn.(*ssa.Function)
			}
		}
		if fn == nil || len(fn.Blocks) == 0 || len(fn.Params) != 1 {
			return nil
		}
		return func(r rune) (bool, bool) {
			e.depth++
			ret := e.runFunc(fn, []sv{intV(int64(r))})
			e.depth--
			if len(ret) != 1 || ret[0].k != svBool {
				return false, false
			}
			return ret[0].b, true
		}
	}
	switch name {
	case "fmt.Sprintf":
		// all operands known: the text fmt produces
		if f, ok := str(0); ok && len(args) == 2 {
			el, ok := e.elems(args[1])
			if !ok {
				return sv{}, false
			}
			var vals []any
			for _, x := range el {
				switch x.k {
				case svInt:
					vals = append(vals, x.i)
				case svString:
					vals = append(vals, x.s)
				case svBool:
					vals = append(vals, x.b)
				case svFloat:
					vals = append(vals, x.f)
				default:
					return sv{}, false
				}
			}
			return sv{k: svString, s: fmt.Sprintf(f, vals...)}, true
		}
	case "strings.ContainsFunc", "strings.IndexFunc":
		s, ok := str(0)
		f := pred(1)
		if !ok || f == nil {
			return sv{}, false
		}
		idx := -1
		for i, r := range s {
			v, ok := f(r)
			if !ok {
				return sv{}, false
			}
			if v {
				idx = i
				break
			}
		}
		if name == "strings.ContainsFunc" {
			return boolV(idx >= 0), true
		}
		return intV(int64(idx)), true
	case "strings.ContainsRune":
		s, ok1 := str(0)
		r, ok2 := num(1)
		if ok1 && ok2 {
			return boolV(strings.ContainsRune(s, rune(r))), true
		}
	case "strings.IndexRune":
		s, ok1 := str(0)
		r, ok2 := num(1)
		if ok1 && ok2 {
			return intV(int64(strings.IndexRune(s, rune(r)))), true
		}
	case "strings.LastIndexByte":
		s, ok1 := str(0)
		r, ok2 := num(1)
		if ok1 && ok2 {
			return intV(int64(strings.LastIndexByte(s, byte(r)))), true
		}
	case "strings.ContainsAny", "strings.IndexAny", "strings.LastIndex", "strings.Count", "strings.EqualFold", "strings.CutPrefix", "strings.CutSuffix", "strings.Compare":
		a, ok1 := str(0)
		b, ok2 := str(1)
		if ok1 && ok2 {
			switch name {
			case "strings.ContainsAny":
				return boolV(strings.ContainsAny(a, b)), true
			case "strings.IndexAny":
				return intV(int64(strings.IndexAny(a, b))), true
			case "strings.LastIndex":
				return intV(int64(strings.LastIndex(a, b))), true
			case "strings.Count":
				return intV(int64(strings.Count(a, b))), true
			case "strings.EqualFold":
				return boolV(strings.EqualFold(a, b)), true
			case "strings.Compare":
				return intV(int64(strings.Compare(a, b))), true
			case "strings.CutPrefix":
				x, f := strings.CutPrefix(a, b)
				return sv{k: svTuple, tup: []sv{{k: svString, s: x}, boolV(f)}}, true
			case "strings.CutSuffix":
				x, f := strings.CutSuffix(a, b)
				return sv{k: svTuple, tup: []sv{{k: svString, s: x}, boolV(f)}}, true
			}
		}
	case "strings.ToUpper", "strings.ToLower":
		if a, ok := str(0); ok {
			if name == "strings.ToUpper" {
				return sv{k: svString, s: strings.ToUpper(a)}, true
			}
			return sv{k: svString, s: strings.ToLower(a)}, true
		}
	case "strconv.ParseUint":
		a, ok := str(0)
		b, ok2 := num(1)
		c, ok3 := num(2)
		if ok && ok2 && ok3 {
			v, err := strconv.ParseUint(a, int(b), int(c))
			if err != nil {
				return sv{k: svTuple, tup: []sv{intV(int64(v)), symV("Err:ParseUint")}}, true
			}
			return sv{k: svTuple, tup: []sv{intV(int64(v)), {k: svNil}}}, true
		}
	case "unicode/utf8.RuneCountInString":
		if a, ok := str(0); ok {
			return intV(int64(utf8.RuneCountInString(a))), true
		}
	case "unicode/utf8.ValidString":
		if a, ok := str(0); ok {
			return boolV(utf8.ValidString(a)), true
		}
	case "unicode/utf8.ValidRune":
		if r, ok := num(0); ok && r >= -1<<31 && r < 1<<31 {
			return boolV(utf8.ValidRune(rune(r))), true
		}
	case "unicode/utf8.DecodeRuneInString":
		if a, ok := str(0); ok {
			r, n := utf8.DecodeRuneInString(a)
			return sv{k: svTuple, tup: []sv{intV(int64(r)), intV(int64(n))}}, true
		}
	case "unicode.IsDigit", "unicode.IsLetter", "unicode.IsUpper", "unicode.IsLower", "unicode.IsSpace":
		if r, ok := num(0); ok {
			var v bool
			switch name {
			case "unicode.IsDigit":
				v = unicode.IsDigit(rune(r))
			case "unicode.IsLetter":
				v = unicode.IsLetter(rune(r))
			case "unicode.IsUpper":
				v = unicode.IsUpper(rune(r))
			case "unicode.IsLower":
				v = unicode.IsLower(rune(r))
			case "unicode.IsSpace":
				v = unicode.IsSpace(rune(r))
			}
			return boolV(v), true
		}
	case "slices.Contains", "slices.Index":
		if len(args) == 2 && args[1].isConst() {
			if el, ok := e.elems(args[0]); ok {
				idx := -1
				for i, x := range el {
					if !x.isConst() {
						return sv{}, false
					}
					if x.k == args[1].k && x.String() == args[1].String() && idx < 0 {
						idx = i
					}
				}
				if name == "slices.Contains" {
					return boolV(idx >= 0), true
				}
				return intV(int64(idx)), true
			}
		}
	}
	return sv{}, false
}

// foldMinMax: min/max of integer constants; of two values whose order the oracle fixes.
func foldMinMaxOracle(e *ssaEval, name string, args []sv) (sv, bool) {
	if len(args) == 0 {
		return sv{}, false
	}
	allInt := true
	for _, a := range args {
		if a.k != svInt {
			allInt = false
		}
	}
	if !allInt {
		if len(args) == 2 && args[0].known() && args[1].known() && e != nil && e.oracle != nil {
			if less, ok := e.oracle(token.LSS, args[0], args[1]); ok {
				if less == (name == "min") {
					return args[0], true
				}
				return args[1], true
			}
		}
		return sv{}, false
	}
	best := args[0]
	for _, a := range args {
		if (name == "min" && a.i < best.i) || (name == "max" && a.i > best.i) {
			best = a
		}
	}
	return best, true
}

// errOracle answers comparisons of the error symbols stdCall produces ("Err:…") with nil.
func errOracle(op token.Token, x, y sv) (bool, bool) {
	isErr := func(v sv) bool { return v.k == svSym && strings.HasPrefix(v.s, "Err:") }
	if (isErr(x) && y.k == svNil) || (isErr(y) && x.k == svNil) {
		switch op {
		case token.EQL:
			return false, true
		case token.NEQ:
			return true, true
		}
	}
	return false, false
}

// errNameG: the PostScript error name a value of the error-name type denotes — a typed constant
// (`const eUndefined Name = "undefined"`), a conversion of a constant, or the initial value of a
// package-level variable; these are one and the same name.
func (c *Ctx) errNameG(v ssa.Value) string {
	if s := c.nameConst(v); s != "" {
		return s
	}
	return c.errNameOfArg(v)
}

// cmpHelperG: the generic helpers of package cmp (Compare, Less, Or) are evaluated from their
// library source, so `a < b`, `cmp.Compare(a, b) < 0` and `cmp.Or(c1, c2) < 0` are one comparator.
func cmpHelperG(fn *ssa.Function) bool {
	if o := fn.Origin(); o != nil {
		fn = o
	}
	if fn.Pkg == nil || fn.Object() == nil || fn.Pkg.Pkg.Path() != "cmp" {
		return false
	}
	switch fn.Object().Name() {
	case "Compare", "Less", "Or", "isNaN":
		return true
	}
	return false
}

// pfbFieldG: addr is the address of field f of the decoder the evaluated method was called on
// (receiver address "r"), directly or inside a struct embedded in it — not a field of the same
// name of some other object (a local header struct).
func pfbFieldG(addr, f string) bool {
	return strings.HasPrefix(addr, "r.") && strings.HasSuffix(addr, "."+f)
}

// ---------------------------------------------------------------------------------------------
// struct values with known fields: a struct that is loaded as a whole from modelled field cells
// (`return *hdr`), handed on (returned, passed, extracted from a tuple) and stored as a whole
// (`*local = result`) keeps the values of its fields, so that `s.f` of the copy is what was
// stored to `orig.f`.  tup holds the field values in declaration order (unknown where the cell
// was never written); s is the rendering as before.

func (e *ssaEval) structFieldsG(addr string, t types.Type) []sv {
	st, ok := t.Underlying().(*types.Struct)
	if !ok {
		return nil
	}
	out := make([]sv, st.NumFields())
	for i := range out {
		key := addr + "." + st.Field(i).Name()
		if v, ok := e.mem[key]; ok {
			out[i] = v
		} else if _, isStruct := st.Field(i).Type().Underlying().(*types.Struct); isStruct {
			if v, ok := e.structAt(key); ok {
				v.tup = e.structFieldsG(key, st.Field(i).Type())
				out[i] = v
			}
		}
	}
	return out
}

func (e *ssaEval) storeStructG(addr string, v sv, t types.Type) {
	st, ok := t.Underlying().(*types.Struct)
	if !ok || len(v.tup) != st.NumFields() {
		return
	}
	// the cell holds its fields, not a second copy of the whole that later field stores would
	// leave stale
	delete(e.mem, addr)
	for i := 0; i < st.NumFields(); i++ {
		key := addr + "." + st.Field(i).Name()
		f := v.tup[i]
		switch {
		case f.k == svStruct && len(f.tup) > 0:
			e.storeStructG(key, f, st.Field(i).Type())
		case f.known():
			e.mem[key] = f
		default:
			delete(e.mem, key)
		}
	}
}

// ---------------------------------------------------------------------------------------------
// strings.Builder / bytes.Buffer as an accumulator of text: a local builder is a cell whose
// contents are the concatenation of what was written to it, so that `parts = append(parts, x);
// strings.Join(parts, sep)` and `b.WriteString(x)` … `b.String()` evaluate to the same string.
// A write whose data is not known poisons the contents (String() is then not evaluated).

func fmtOperandsG(e *ssaEval, list sv) ([]any, bool) {
	if list.k == svNil {
		return nil, true
	}
	el, ok := e.elems(list)
	if !ok {
		return nil, false
	}
	var vals []any
	for _, x := range el {
		switch x.k {
		case svInt:
			vals = append(vals, x.i)
		case svString:
			vals = append(vals, x.s)
		case svBool:
			vals = append(vals, x.b)
		case svFloat:
			vals = append(vals, x.f)
		default:
			return nil, false
		}
	}
	return vals, true
}

func builderCallG(e *ssaEval, name string, args []sv) (sv, bool) {
	method, isFmt := "", false
	for _, t := range []string{"(*strings.Builder).", "(*bytes.Buffer)."} {
		if strings.HasPrefix(name, t) {
			method = name[len(t):]
		}
	}
	switch name {
	case "fmt.Fprintf", "fmt.Fprint", "fmt.Fprintln":
		if len(args) >= 1 && args[0].k == svAddr && args[0].typ != nil {
			if ts := args[0].typ.String(); ts == "*strings.Builder" || ts == "*bytes.Buffer" {
				method, isFmt = name[4:], true
			}
		}
	}
	if method == "" || len(args) == 0 || args[0].k != svAddr {
		return sv{}, false
	}
	key := args[0].s + "#text"
	cur, has := e.mem[key]
	if !has {
		cur = sv{k: svString}
	}
	poison := func() (sv, bool) {
		e.mem[key] = sv{}
		return sv{}, false
	}
	write := func(t string) {
		if cur.k == svString {
			e.mem[key] = sv{k: svString, s: cur.s + t}
		}
	}
	okErr := func(n int) sv { return sv{k: svTuple, tup: []sv{intV(int64(n)), {k: svNil}}} }
	if isFmt {
		switch method {
		case "Fprintf":
			if len(args) == 3 && args[1].k == svString {
				if vals, ok := fmtOperandsG(e, args[2]); ok {
					t := fmt.Sprintf(args[1].s, vals...)
					write(t)
					return okErr(len(t)), true
				}
			}
		case "Fprint", "Fprintln":
			if len(args) == 2 {
				if vals, ok := fmtOperandsG(e, args[1]); ok {
					t := fmt.Sprint(vals...)
					if method == "Fprintln" {
						t = fmt.Sprintln(vals...)
					}
					write(t)
					return okErr(len(t)), true
				}
			}
		}
		return poison()
	}
	switch method {
	case "WriteString":
		if len(args) == 2 && args[1].k == svString {
			write(args[1].s)
			return okErr(len(args[1].s)), true
		}
		return poison()
	case "WriteByte":
		if len(args) == 2 && args[1].k == svInt {
			write(string([]byte{byte(args[1].i)}))
			return sv{k: svNil}, true
		}
		return poison()
	case "WriteRune":
		if len(args) == 2 && args[1].k == svInt {
			t := string(rune(args[1].i))
			write(t)
			return okErr(len(t)), true
		}
		return poison()
	case "Write":
		if len(args) == 2 {
			if el, ok := e.elems(args[1]); ok {
				buf := make([]byte, 0, len(el))
				for _, x := range el {
					if x.k != svInt {
						return poison()
					}
					buf = append(buf, byte(x.i))
				}
				write(string(buf))
				return okErr(len(buf)), true
			}
		}
		return poison()
	case "String":
		if cur.k == svString {
			return cur, true
		}
	case "Len":
		if cur.k == svString {
			return intV(int64(len(cur.s))), true
		}
	case "Grow":
		return sv{}, true
	case "Reset":
		e.mem[key] = sv{k: svString}
		return sv{}, true
	}
	return sv{}, false
}
