package main

import (
	"fmt"

	"golang.org/x/tools/go/ssa"
)

// Round 7.  OP-COPYEXTENT (C02): `array1 array2 copy` / `string1 string2 copy` return the *initial
// subarray / substring* of the destination that was overwritten, not the whole destination (PLRM
// `copy`).  Decided on the SSA form of the operator registered as `copy`: every value the operator
// pushes that is derived from the destination of a builtin copy(dst, src) must pass through a slice
// expression whose upper bound is the number of elements copied — the result of that copy or
// len(src) — before it reaches dst.  A pushed value that *is* dst (no such slice on the way) is
// a violation; an upper bound of another form is left to the other clauses (note).
func (c *Ctx) copyExtentRule(ia *interpAnchors, reg *registry) {
	e := reg.byKey["systemdict/copy"]
	if e == nil || e.fn == nil {
		c.undecided("OP-COPYEXTENT", "systemdict/copy", "copy: the result is the overwritten initial part of the destination", 0, "the operator registered as copy was not found")
		return
	}
	f := e.fn
	fname := c.fname(f)
	type cp struct {
		call     *ssa.Call
		dst, src ssa.Value
	}
	var cps []cp
	eachInstr(f, func(ins ssa.Instruction) {
		if call, ok := ins.(*ssa.Call); ok {
			if b, ok := call.Call.Value.(*ssa.Builtin); ok && b.Name() == "copy" && len(call.Call.Args) == 2 {
				cps = append(cps, cp{call, origin(call.Call.Args[0]), origin(call.Call.Args[1])})
			}
		}
	})
	isCount := func(h ssa.Value, p cp) bool {
		h = origin(h)
		if cv, ok := h.(*ssa.Convert); ok {
			h = origin(cv.X)
		}
		if h == ssa.Value(p.call) {
			return true
		}
		if call, ok := h.(*ssa.Call); ok {
			if b, ok := call.Call.Value.(*ssa.Builtin); ok && b.Name() == "len" && origin(call.Call.Args[0]) == p.src {
				return true
			}
		}
		return false
	}
	// rootOf strips slice expressions; bounded tells whether one of them limits the extent to the count
	var leaves func(v ssa.Value, seen map[ssa.Value]bool, out *[]ssa.Value)
	leaves = func(v ssa.Value, seen map[ssa.Value]bool, out *[]ssa.Value) {
		v = origin(v)
		if seen[v] {
			return
		}
		seen[v] = true
		switch x := v.(type) {
		case *ssa.Phi:
			for _, ed := range x.Edges {
				leaves(ed, seen, out)
			}
		case *ssa.MakeInterface:
			leaves(x.X, seen, out)
		default:
			*out = append(*out, v)
		}
	}
	n, other := 0, 0
	for _, s := range c.opSinks(ia, f) {
		if s.kind != "push" {
			continue
		}
		var ls []ssa.Value
		leaves(s.val, map[ssa.Value]bool{}, &ls)
		for _, l := range ls {
			for _, p := range cps {
				// walk from the pushed value towards dst
				v, bounded, otherBound := l, false, false
				reached := false
				for i := 0; i < 8; i++ {
					v = origin(v)
					if v == p.dst {
						reached = true
						break
					}
					sl, ok := v.(*ssa.Slice)
					if !ok {
						break
					}
					if sl.High != nil {
						if isCount(sl.High, p) {
							bounded = true
						} else {
							otherBound = true
						}
					}
					v = sl.X
				}
				if !reached {
					continue
				}
				// the destination handed to copy may itself have been cut to the count before
				if d, ok := p.dst.(*ssa.Slice); ok && d.High != nil && isCount(d.High, p) {
					bounded = true
				}
				switch {
				case bounded:
					n++
					c.ok("OP-COPYEXTENT", fname, "copy: the result is the overwritten initial part of the destination", p.call.Pos(), "pushed value is dst[:count]", "")
				case otherBound:
					other++
				default:
					n++
					c.fail("OP-COPYEXTENT", fname, "copy: the result is the overwritten initial part of the destination", p.call.Pos(),
						fmt.Sprintf("copy: the value pushed after copy(dst, src) at %s is the whole destination; the PLRM returns the initial subarray/substring that was overwritten (dst[:n] with n the number of elements copied) — with a longer destination the result has the wrong length", c.pos(p.call.Pos())))
				}
			}
		}
	}
	if other > 0 {
		c.note("OP-COPYEXTENT: %d pushed values are cut with a bound that is neither the result of copy nor len(src); not decided by this clause", other)
	}
	if n == 0 && other == 0 {
		c.note("OP-COPYEXTENT: no pushed value derived from the destination of a builtin copy was found in %s (%d copy calls); the clause decides nothing on this tree", fname, len(cps))
	}
}
