package main

import (
	"fmt"
	"go/constant"
	"go/token"
	"go/types"
	"strings"

	"golang.org/x/tools/go/ssa"
)

// Round 6, worker F: the writers and the round trip.

// ---------------------------------------------------------------------------------------------
// 1. read-only maps of functions (a `switch` written as a table of functions)
//
// A package-level map with constant keys whose values are functions of the module, filled by its
// composite literal in the package initialiser and only ever read afterwards (looked up, ranged
// over, measured), is a constant function of its key: `f, ok := table[k]; if !ok {…}; f(args)`
// with a known k is the call the case of k in a written-out switch makes (and `!ok` is its
// default).  The evaluator answers a look-up in such a table with the function of the literal.

type roFuncTable struct {
	keysI map[int64]*ssa.Function
	keysS map[string]*ssa.Function
}

var roFuncTables = map[*ssa.Global]*roFuncTable{}

// roMapMakerY6: g is a package-level map that is stored once (a MakeMap, in the initialiser of its
// package) and whose every other use in the module is a load that is looked up, ranged over or
// measured; the MakeMap is returned (nil otherwise).
func (c *Ctx) roMapMakerY6(g *ssa.Global) *ssa.MakeMap {
	if g == nil || g.Pkg == nil {
		return nil
	}
	init := g.Pkg.Func("init")
	if init == nil {
		return nil
	}
	var mk *ssa.MakeMap
	good := true
	for _, fn := range c.modFuncs {
		eachInstr(fn, func(ins ssa.Instruction) {
			for _, op := range ins.Operands(nil) {
				if *op != ssa.Value(g) {
					continue
				}
				switch x := ins.(type) {
				case *ssa.Store:
					m, isMk := x.Val.(*ssa.MakeMap)
					if x.Addr != ssa.Value(g) || fn != init || mk != nil || !isMk {
						good = false
						return
					}
					mk = m
				case *ssa.UnOp:
					if x.Op != token.MUL {
						good = false
						return
					}
					for _, r := range *x.Referrers() {
						switch y := r.(type) {
						case *ssa.Lookup:
							if y.X != ssa.Value(x) {
								good = false
							}
						case *ssa.Range, *ssa.DebugRef:
						case *ssa.Call:
							if b, isB := y.Call.Value.(*ssa.Builtin); !isB || b.Name() != "len" {
								good = false
							}
						default:
							good = false
						}
					}
				case *ssa.DebugRef:
				default:
					good = false
				}
			}
		})
	}
	if !good {
		return nil
	}
	return mk
}

// roFuncTableOf returns the contents of g if g is a read-only table of functions, nil otherwise.
func (c *Ctx) roFuncTableOf(g *ssa.Global) *roFuncTable {
	if t, ok := roFuncTables[g]; ok {
		return t
	}
	roFuncTables[g] = nil
	if g == nil {
		return nil
	}
	mt, ok := g.Type().Underlying().(*types.Pointer).Elem().Underlying().(*types.Map)
	if !ok {
		return nil
	}
	if _, ok := mt.Key().Underlying().(*types.Basic); !ok {
		return nil
	}
	if _, ok := mt.Elem().Underlying().(*types.Signature); !ok {
		return nil
	}
	mk := c.roMapMakerY6(g)
	if mk == nil {
		return nil
	}
	t := &roFuncTable{keysI: map[int64]*ssa.Function{}, keysS: map[string]*ssa.Function{}}
	for _, r := range *mk.Referrers() {
		switch x := r.(type) {
		case *ssa.MapUpdate:
			k, isK := x.Key.(*ssa.Const)
			if x.Map != ssa.Value(mk) || !isK || k.Value == nil {
				return nil
			}
			_, held := c.tableFuncOf(x.Value)
			if held == nil {
				return nil
			}
			switch k.Value.Kind() {
			case constant.Int:
				i, exact := constant.Int64Val(k.Value)
				if !exact {
					return nil
				}
				if _, dup := t.keysI[i]; dup {
					return nil
				}
				t.keysI[i] = held
			case constant.String:
				t.keysS[constant.StringVal(k.Value)] = held
			default:
				return nil
			}
		case *ssa.Store:
			if x.Val != ssa.Value(mk) || x.Addr != ssa.Value(g) {
				return nil
			}
		case *ssa.DebugRef:
		default:
			return nil
		}
	}
	roFuncTables[g] = t
	return t
}

// tableFnPrefixY6 marks a function value that came out of a read-only table of functions: calling
// it is a static call of that function.
const tableFnPrefixY6 = "tablefn:"

// roFuncLookup: the value of a look-up with a known key in a read-only table of functions.
func (e *ssaEval) roFuncLookup(x *ssa.Lookup, k sv) (sv, bool) {
	g := globalLoad(x.X)
	if g == nil || (k.k != svInt && k.k != svString) {
		return sv{}, false
	}
	t := e.c.roFuncTableOf(g)
	if t == nil {
		return sv{}, false
	}
	var f *ssa.Function
	if k.k == svInt {
		f = t.keysI[k.i]
	} else {
		f = t.keysS[k.s]
	}
	r := sv{k: svNil}
	if f != nil {
		r = sv{k: svSym, s: tableFnPrefixY6 + f.String(), fn: f}
	}
	if x.CommaOk {
		return sv{k: svTuple, tup: []sv{r, boolV(f != nil)}}, true
	}
	return r, true
}

// tableFnCallee: the function a call runs whose callee value came out of a read-only table.
func (e *ssaEval) tableFnCallee(fr *frame, x *ssa.Call) *ssa.Function {
	if x.Call.IsInvoke() || x.Call.StaticCallee() != nil {
		return nil
	}
	v := e.val(fr, x.Call.Value)
	if v.fn != nil && v.k == svSym && len(v.s) > len(tableFnPrefixY6) && v.s[:len(tableFnPrefixY6)] == tableFnPrefixY6 {
		return v.fn
	}
	return nil
}

// ---------------------------------------------------------------------------------------------
// 2. the reader's default of an optional entry, when the field is stored more than once
//
// readerDefaultEval (ext_d.go) needs the one store of the field.  A reader that first fills the
// structure with the defaults and then overwrites the field if the entry is present stores the
// field twice; the default is what the field holds after the last store that is executed when the
// dictionaries hold no entry at all.  The function that holds the stores (all of them in one
// function reachable from Read) is evaluated from the block that dominates the first mention of
// the key and every store, every dictionary look-up answering "absent", until no store can be
// reached any more; an evaluation that does not get that far decides nothing.
func (c *Ctx) readerDefaultEvalY6(key string) (float64, bool) {
	read := c.fn("type1", "Read")
	privT := c.typeObj("type1", "PrivateDict")
	funcs := c.reachFuncs(read, 3)
	asserted := map[string]types.Type{}
	targets := map[ssa.Instruction]bool{}
	var fn *ssa.Function
	oneFn := true
	var fns []*ssa.Function
	for f := range funcs {
		fns = append(fns, f)
	}
	for _, f := range fns {
		eachInstr(f, func(ins ssa.Instruction) {
			switch x := ins.(type) {
			case *ssa.TypeAssert:
				asserted[x.AssertedType.String()] = x.AssertedType
			case *ssa.Store:
				if isFieldAddr(x.Addr, privT, key) {
					if fn != nil && fn != f {
						oneFn = false
					}
					fn = f
					targets[x] = true
				}
			}
		})
	}
	if fn == nil || !oneFn {
		return 0, false
	}
	isKey := func(v ssa.Value) bool {
		k, ok := origin(v).(*ssa.Const)
		if cv, isConv := origin(v).(*ssa.Convert); isConv && !ok {
			k, ok = cv.X.(*ssa.Const)
		}
		return ok && k.Value != nil && k.Value.Kind() == constant.String && constant.StringVal(k.Value) == key
	}
	var anchor []*ssa.BasicBlock
	mentioned := false
	for _, b := range fn.Blocks {
		for _, ins := range b.Instrs {
			if targets[ins] {
				anchor = append(anchor, b)
			}
			if mentioned {
				continue
			}
			switch x := ins.(type) {
			case *ssa.Lookup:
				if isKey(x.Index) {
					anchor, mentioned = append(anchor, b), true
				}
			case ssa.CallInstruction:
				for _, a := range x.Common().Args {
					if isKey(a) && !mentioned {
						anchor, mentioned = append(anchor, b), true
					}
				}
			}
		}
	}
	start := anchor[0]
	for _, b := range anchor {
		for start != nil && !start.Dominates(b) {
			start = start.Idom()
		}
	}
	if start == nil {
		return 0, false
	}
	// the blocks from which a store of the field can still be executed (without coming back
	// through the start)
	reach := map[*ssa.BasicBlock]bool{}
	for _, b := range anchor {
		reach[b] = true
	}
	for changed := true; changed; {
		changed = false
		for _, b := range fn.Blocks {
			if reach[b] {
				continue
			}
			for _, s := range b.Succs {
				if reach[s] && s != start {
					reach[b], changed = true, true
				}
			}
		}
	}
	ev := &ssaEval{c: c, bind: map[ssa.Value]sv{}, mem: map[string]sv{}, maxDepth: 3}
	ev.lookup = func(x *ssa.Lookup, m, k sv) (sv, bool) {
		if !isDictLookup(x) {
			return sv{}, false
		}
		if x.CommaOk {
			return sv{k: svTuple, tup: []sv{{k: svNil}, boolV(false)}}, true
		}
		return sv{k: svNil}, true
	}
	ev.call = func(call ssa.CallInstruction, args []sv) (sv, bool) {
		if call == nil && len(args) == 2 && strings.HasPrefix(args[0].s, "typeassert:") && args[1].k == svNil {
			z := sv{}
			if t := asserted[strings.TrimPrefix(args[0].s, "typeassert:")]; t != nil {
				z, _ = aZeroSV(t)
			}
			return sv{k: svTuple, tup: []sv{z, boolV(false)}}, true
		}
		return sv{}, false
	}
	ev.load = func(ld *ssa.UnOp, addr sv) (sv, bool) { return symV("v:" + addr.s), true }
	ev.guide = func(ifi *ssa.If) (int, bool) {
		b := ifi.Block()
		r0, r1 := reach[b.Succs[0]], reach[b.Succs[1]]
		switch {
		case r0 && !r1:
			return 0, true
		case r1 && !r0:
			return 1, true
		}
		return 0, false
	}
	fr := &frame{vals: map[ssa.Value]sv{}}
	for i, p := range fn.Params {
		fr.vals[p] = symV(fmt.Sprintf("p%d", i))
	}
	ev.runBlocks(fr, start, nil, func(next, from *ssa.BasicBlock) bool { return !reach[next] || next == start })
	if ev.why != "" {
		return 0, false
	}
	val, have := 0.0, false
	for _, ef := range ev.effects {
		if targets[ef.ins] {
			have = false
			if len(ef.args) == 1 {
				switch ef.args[0].k {
				case svInt:
					val, have = float64(ef.args[0].i), true
				case svFloat:
					val, have = ef.args[0].f, true
				}
			}
		}
	}
	return val, have
}
