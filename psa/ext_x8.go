package main

import (
	"fmt"
	"go/token"
	"go/types"
	"sort"
	"strings"

	"golang.org/x/tools/go/ssa"
)

// Round 5, worker F: helpers of the PFB decoder and delivery rules.
//
//   1. bit-disjoint `|` as `+`: a value assembled from bytes by shifts and ors has the same normal
//      form whether the shifts are written out (b2 | b3<<8 | b4<<16 | b5<<24) or accumulated in a
//      loop (((b5<<8 | b4)<<8 | b3)<<8 | b2);

// ---------------------------------------------------------------------------------------------
// 1. bit-disjoint or

// bitMaskX8: an upper bound of the set of bits that can be 1 in the 64-bit pattern of v (all ones:
// nothing known).  width gives the number of significant bits of the symbols (unsigned values).
func bitMaskX8(v sv, width map[string]uint) uint64 {
	all := ^uint64(0)
	switch {
	case v.k == svInt:
		return uint64(v.i)
	case v.k == svBool:
		return 1
	case v.k == svSym && v.op == "":
		if w, ok := width[v.s]; ok && w < 64 {
			return maskB(w)
		}
		return all
	case !isTermB(v):
		return all
	}
	base, ow, signed := splitOpB(v.op)
	arg := func(i int) uint64 {
		if i < len(v.args) {
			return bitMaskX8(v.args[i], width)
		}
		return all
	}
	m := all
	switch base {
	case "":
		if len(v.args) == 1 {
			m = arg(0)
		}
	case "|", "^":
		m = 0
		for i := range v.args {
			m |= arg(i)
		}
	case "&":
		for i := range v.args {
			m &= arg(i)
		}
	case "<<":
		if len(v.args) == 2 && v.args[1].k == svInt && v.args[1].i >= 0 {
			m = 0
			if k := uint(v.args[1].i); k < 64 {
				m = arg(0) << k
			}
		}
	case ">>":
		if len(v.args) == 2 && v.args[1].k == svInt && v.args[1].i >= 0 && arg(0)>>63 == 0 {
			m = 0
			if k := uint(v.args[1].i); k < 64 {
				m = arg(0) >> k
			}
		}
	}
	if ow < 64 {
		// the result lives in a narrower type: truncated; a signed type extends its sign bit
		if signed && m>>(ow-1)&1 != 0 {
			return all
		}
		m &= maskB(ow)
	}
	return m
}

// orAsSumX8 rewrites every `|` and `^` whose operands cannot have a one bit in common into `+`
// (x|y = x^y = x+y when x&y = 0) and drops zero operands, so that the polynomial normal form of
// ringB sees through the different ways of assembling a value from disjoint bit fields.
func orAsSumX8(v sv, width map[string]uint) sv {
	if !isTermB(v) {
		return v
	}
	args := make([]sv, len(v.args))
	for i, a := range v.args {
		args[i] = orAsSumX8(a, width)
	}
	base, _, _ := splitOpB(v.op)
	if base == "|" || base == "^" {
		var kept []sv
		for _, a := range args {
			if a.k == svInt && a.i == 0 {
				continue
			}
			kept = append(kept, a)
		}
		switch len(kept) {
		case 0:
			return intV(0)
		}
		disjoint := true
		var seen uint64
		for _, a := range kept {
			m := bitMaskX8(a, width)
			if m&seen != 0 {
				disjoint = false
			}
			seen |= m
		}
		if disjoint {
			if len(kept) == 1 && v.op == base {
				return kept[0]
			}
			return term("+"+strings.TrimPrefix(v.op, base), kept...)
		}
		return term(v.op, kept...)
	}
	return term(v.op, args...)
}

// bitFieldsAgreeX8: got and want denote the same value modulo 2^w for all values of the symbols
// (equal normal forms after orAsSumX8, or exhaustive comparison where ringB can do it).
func bitFieldsAgreeX8(got, want sv, width map[string]uint, w uint) bool {
	if !got.known() {
		return false
	}
	if got.String() == want.String() {
		return true
	}
	n := &ringB{width: width}
	ok, _ := n.agree(orAsSumX8(got, width), orAsSumX8(want, width), w)
	return ok
}

// ---------------------------------------------------------------------------------------------
// 2. DLV-LOOKAHEAD: Next and the look-ahead buffer

// lookaheadRuleX8 decides, on the evaluated SSA form of scanner.Next (helpers in place), the two
// cells that matter for delivery independence: with bytes in the look-ahead buffer (outside the
// replay mode of the eexec start) Next hands out the oldest of them, takes it out of the buffer and
// does not touch the source; with an empty buffer it fetches a byte of new input.  How the test is
// written, and whether the buffer is popped in Next or in a helper, plays no part.
func (c *Ctx) lookaheadRuleX8(rule string) {
	next := c.method("postscript", "scanner", "Next")
	scannerT := c.typeObj("postscript", "scanner")
	peekF := c.fld("scanner.peek")
	refill := c.methodOpt("postscript", "scanner", "refill")
	isSource := func(g *ssa.Function) bool {
		if g == refill {
			return true
		}
		sig := g.Signature
		if sig.Recv() == nil || !pointsTo(sig.Recv().Type(), scannerT) || sig.Params().Len() != 0 || sig.Results().Len() != 2 {
			return false
		}
		return sig.Results().At(0).Type().String() == "byte" && isErrorTypeB(sig.Results().At(1).Type())
	}
	type outcome struct {
		ret    []sv
		inputs int
		peek   []string
		why    string
	}
	run := func(n int) outcome {
		ev := &ssaEval{c: c, bind: map[ssa.Value]sv{}, mem: map[string]sv{}, makeLists: true, maxDepth: 6}
		var cells []sv
		for i := 0; i < n; i++ {
			cells = append(cells, symV(fmt.Sprintf("p%d", i)))
		}
		buf := ev.newList(cells)
		ev.mem["s."+peekF] = buf
		var out outcome
		ev.noInline = isSource
		ev.load = func(ld *ssa.UnOp, addr sv) (sv, bool) {
			if bt, ok := ld.Type().Underlying().(*types.Basic); ok && bt.Info()&types.IsBoolean != 0 && strings.HasPrefix(addr.s, "s.") {
				return boolV(false), true // no mode flag is set (not replaying, no CR pending)
			}
			return sv{}, false
		}
		ev.oracle = func(op token.Token, x, y sv) (bool, bool) {
			// the byte handed out is an ordinary one (no line end): unequal to every constant
			if (x.k == svSym && y.k == svInt) || (y.k == svSym && x.k == svInt) {
				switch op {
				case token.EQL:
					return false, true
				case token.NEQ:
					return true, true
				}
			}
			if x.k == svNil && y.k == svNil {
				return op == token.EQL, true
			}
			return false, false
		}
		ev.call = func(call ssa.CallInstruction, args []sv) (sv, bool) {
			if call == nil {
				return sv{}, false
			}
			if g := call.Common().StaticCallee(); g != nil && c.inModule(g) && isSource(g) {
				out.inputs++
				if g.Signature.Results().Len() == 2 {
					return sv{k: svTuple, tup: []sv{symV("input"), {k: svNil}}}, true
				}
				return sv{k: svNil}, true
			}
			return sv{}, false
		}
		out.ret = ev.runFunc(next, []sv{{k: svAddr, s: "s"}})
		out.why = ev.why
		if l, ok := ev.mem["s."+peekF]; ok {
			if el, ok := ev.elems(l); ok {
				for _, e := range el {
					out.peek = append(out.peek, e.String())
				}
			} else {
				out.peek = []string{l.String()}
			}
		}
		return out
	}
	var bad []string
	for _, n := range []int{1, 2, 3} {
		full := run(n)
		var want []string
		for i := 1; i < n; i++ {
			want = append(want, fmt.Sprintf("p%d", i))
		}
		switch {
		case len(full.ret) != 2:
			bad = append(bad, fmt.Sprintf("with %d byte(s) in the look-ahead buffer Next could not be evaluated: %s", n, full.why))
		case full.inputs != 0 || full.ret[0].String() != "p0" || full.ret[1].k != svNil:
			bad = append(bad, fmt.Sprintf("with %d byte(s) p0 … in the look-ahead buffer Next returns %v after %d fetch(es) of new input, expected p0 without touching the source: bytes already peeked would be skipped", n, full.ret, full.inputs))
		case strings.Join(full.peek, " ") != strings.Join(want, " "):
			bad = append(bad, fmt.Sprintf("after handing out p0 from a look-ahead buffer of %d byte(s) the buffer holds [%s], expected [%s]", n, strings.Join(full.peek, " "), strings.Join(want, " ")))
		}
	}
	empty := run(0)
	switch {
	case len(empty.ret) != 2:
		bad = append(bad, "with an empty look-ahead buffer Next could not be evaluated: "+empty.why)
	case empty.inputs != 1 || empty.ret[0].String() != "input":
		bad = append(bad, fmt.Sprintf("with an empty look-ahead buffer Next returns %v after %d fetch(es) of new input, expected one fetch", empty.ret, empty.inputs))
	}
	c.check(len(bad) == 0, rule, c.fname(next), "Next serves the look-ahead buffer first", next.Pos(), "four cells evaluated: look-ahead buffer holding 1, 2, 3 bytes / empty", "Next and the look-ahead buffer: "+joinMax(bad, 2))
}

// ---------------------------------------------------------------------------------------------
// 3. fixed package-level tables (dispatch tables of functions, tables of constants)

type fixedTableX8 struct {
	elems []ssa.Value // the element values the initialiser stores (nil: zero value)
	ok    bool
}

var fixedTableCacheX8 = map[*ssa.Global]*fixedTableX8{}

// fixedTable: g is a package-level array or slice of the module that receives its value once,
// from a composite literal in the package initialiser, and is from then on only read (indexed,
// ranged over, measured): no store to it or through it anywhere in the module, its address and
// the addresses of its elements do not escape.  The elements are then what the literal says, for
// the whole run — a `switch` written as a table.
func (c *Ctx) fixedTable(g *ssa.Global) ([]ssa.Value, bool) {
	if t, ok := fixedTableCacheX8[g]; ok {
		return t.elems, t.ok
	}
	t := &fixedTableX8{}
	fixedTableCacheX8[g] = t
	if g == nil || g.Pkg == nil || g.Pkg.Func("init") == nil {
		return nil, false
	}
	if _, inMod := c.pkgs[g.Pkg.Pkg.Path()]; !inMod {
		return nil, false
	}
	init := g.Pkg.Func("init")
	// the elements stored into an array cell that is filled element by element
	litElems := func(al *ssa.Alloc) ([]ssa.Value, bool) {
		at, isArr := al.Type().Underlying().(*types.Pointer).Elem().Underlying().(*types.Array)
		if !isArr || at.Len() > 1<<12 {
			return nil, false
		}
		elems := make([]ssa.Value, at.Len())
		for _, r := range *al.Referrers() {
			switch r := r.(type) {
			case *ssa.IndexAddr:
				i, isC := constInt(r.Index)
				if !isC || i < 0 || i >= at.Len() {
					return nil, false
				}
				for _, rr := range *r.Referrers() {
					s2, isS := rr.(*ssa.Store)
					if !isS || s2.Addr != ssa.Value(r) || elems[i] != nil {
						return nil, false
					}
					elems[i] = s2.Val
				}
			case *ssa.UnOp, *ssa.Slice, *ssa.DebugRef:
			default:
				return nil, false
			}
		}
		return elems, true
	}
	nStores := 0
	okUses := true
	var direct []ssa.Value               // elements stored by the initialiser directly into the array
	readOnly := func(v ssa.Value) bool { // v: an element address or a copy of the table; only read
		if v.Referrers() == nil {
			return false
		}
		for _, r := range *v.Referrers() {
			switch r := r.(type) {
			case *ssa.UnOp:
				if r.Op != token.MUL {
					return false
				}
			case *ssa.DebugRef:
			default:
				return false
			}
		}
		return true
	}
	for _, fn := range c.modFuncs {
		eachInstr(fn, func(ins ssa.Instruction) {
			uses := false
			for _, op := range ins.Operands(nil) {
				if *op == ssa.Value(g) {
					uses = true
				}
			}
			if !uses {
				return
			}
			switch x := ins.(type) {
			case *ssa.Store:
				if x.Addr != ssa.Value(g) || fn != init {
					okUses = false
					return
				}
				nStores++
				switch v := x.Val.(type) {
				case *ssa.UnOp: // array: the literal is built in a local and copied
					if al, isAl := v.X.(*ssa.Alloc); isAl && v.Op == token.MUL {
						t.elems, t.ok = litElems(al)
					}
				case *ssa.Slice: // slice: the literal's backing array
					if al, isAl := v.X.(*ssa.Alloc); isAl && v.Low == nil && v.High == nil {
						t.elems, t.ok = litElems(al)
					}
				}
			case *ssa.IndexAddr: // element of the array
				if x.X != ssa.Value(g) {
					okUses = false
					return
				}
				if readOnly(x) {
					return
				}
				// the initialiser fills the array in place, element by element
				at, isArr := g.Type().Underlying().(*types.Pointer).Elem().Underlying().(*types.Array)
				i, isC := constInt(x.Index)
				refs := *x.Referrers()
				if fn != init || !isArr || !isC || i < 0 || i >= at.Len() || at.Len() > 1<<12 || len(refs) != 1 {
					okUses = false
					return
				}
				s2, isS := refs[0].(*ssa.Store)
				if !isS || s2.Addr != ssa.Value(x) {
					okUses = false
					return
				}
				if direct == nil {
					direct = make([]ssa.Value, at.Len())
				}
				if direct[i] != nil {
					okUses = false
				}
				direct[i] = s2.Val
			case *ssa.UnOp: // the slice header, or a copy of the array
				if x.Op != token.MUL {
					okUses = false
					return
				}
				for _, r := range *x.Referrers() {
					switch r := r.(type) {
					case *ssa.IndexAddr:
						if !readOnly(r) {
							okUses = false
						}
					case *ssa.Index, *ssa.Range, *ssa.DebugRef:
					case *ssa.Call:
						if b, isB := r.Call.Value.(*ssa.Builtin); !isB || (b.Name() != "len" && b.Name() != "cap") {
							okUses = false
						}
					default:
						okUses = false
					}
				}
			case *ssa.DebugRef:
			default:
				okUses = false
			}
		})
	}
	if direct != nil && nStores == 0 {
		t.elems, t.ok, nStores = direct, true, 1
	} else if direct != nil {
		okUses = false
	}
	if nStores != 1 || !okUses {
		t.elems, t.ok = nil, false
	}
	return t.elems, t.ok
}

// tableOfElemAddr: addr is the address of an element of a package-level array or slice.
func tableOfElemAddr(addr ssa.Value) (*ssa.Global, *ssa.IndexAddr) {
	ia, ok := addr.(*ssa.IndexAddr)
	if !ok {
		return nil, nil
	}
	switch b := ia.X.(type) {
	case *ssa.Global:
		return b, ia
	case *ssa.UnOp:
		if g, ok := b.X.(*ssa.Global); ok && b.Op == token.MUL {
			return g, ia
		}
	}
	return nil, nil
}

// fixedTableLoad: the value of a load from an element of a fixed table (see fixedTable) at an
// index the evaluation has fixed: the function, closure-free function value or constant the
// initialiser put there.
func (e *ssaEval) fixedTableLoad(ld *ssa.UnOp, a sv) (sv, bool) {
	if a.k != svAddr || !strings.HasSuffix(a.s, "]") {
		return sv{}, false
	}
	g, _ := tableOfElemAddr(ld.X)
	if g == nil {
		return sv{}, false
	}
	i := strings.LastIndex(a.s, "[")
	var k int
	if _, err := fmt.Sscanf(a.s[i:], "[%d]", &k); err != nil {
		return sv{}, false
	}
	elems, ok := e.c.fixedTable(g)
	if !ok || k < 0 || k >= len(elems) || elems[k] == nil {
		return sv{}, false
	}
	v := elems[k]
	for {
		ct, isCT := v.(*ssa.ChangeType)
		if !isCT {
			break
		}
		v = ct.X
	}
	switch v.(type) {
	case *ssa.Function, *ssa.Const:
		r := e.val(&frame{vals: map[ssa.Value]sv{}}, v)
		return r, r.known()
	}
	return sv{}, false
}

// thunkTarget: fn is the synthetic function go/ssa makes for a method expression `T.m` or
// `(*T).m` of a module method (it takes the receiver as first parameter and calls the method
// with all parameters in order); the method.  Evaluating the method on the same arguments is
// evaluating the thunk.
func (c *Ctx) thunkTarget(fn *ssa.Function) *ssa.Function {
	if fn == nil || fn.Synthetic == "" || fn.Pkg != nil || len(fn.Blocks) != 1 || len(fn.FreeVars) != 0 {
		return nil
	}
	var call *ssa.Call
	for _, ins := range fn.Blocks[0].Instrs {
		switch x := ins.(type) {
		case *ssa.Call:
			if call != nil {
				return nil
			}
			call = x
		case *ssa.Return, *ssa.Extract, *ssa.DebugRef:
		default:
			return nil
		}
	}
	if call == nil || call.Call.IsInvoke() {
		return nil
	}
	g := call.Call.StaticCallee()
	if g == nil || !c.inModule(g) || len(call.Call.Args) != len(fn.Params) {
		return nil
	}
	for i, a := range call.Call.Args {
		if a != ssa.Value(fn.Params[i]) {
			return nil
		}
	}
	return g
}

// ---------------------------------------------------------------------------------------------
// 4. DLV-READFULL for the PFB decoder

// pfbFixedReadsX8: items of fixed size are read with io.ReadFull.  One iteration of the decoder's
// main loop is evaluated in the header state and in the binary state (rules_c14b.go): the header
// state must perform exactly one io.ReadFull into a buffer of six bytes and no other read of the
// source, the binary state exactly one io.ReadFull and no other read of the source.
func (c *Ctx) pfbFixedReadsX8(fn *ssa.Function) (ok bool, why string, nFull int) {
	H := loopHeader(fn)
	if H == nil {
		return false, "the decoder has no main loop", 0
	}
	count := func(it pfbIter) (full, other int, size int64) {
		size = -1
		for _, ef := range it.effects {
			switch ef.what {
			case "readfull":
				full++
				if len(ef.args) == 2 {
					size = readBufLenX8(ef)
				}
			case "read":
				other++
			case "call":
				// any other call that is handed the source (io.ReadAtLeast, io.Copy, a wrapper …)
				for _, a := range ef.args {
					if a.k == svSym && a.s == "src" {
						other++
					}
				}
			}
		}
		return
	}
	var bad []string
	hdr := c.pfbIterationOpt(fn, H, 0, map[int]int64{0: 0x80, 1: 1}, 2, pfbOpt{hdrK: -1})
	full, other, size := count(hdr)
	nFull += full
	if full != 1 || other != 0 || size != 6 {
		bad = append(bad, fmt.Sprintf("at the start of a segment the decoder performs %d io.ReadFull (buffer of %d bytes) and %d other read(s) of the source, expected one io.ReadFull of 6 bytes %s", full, size, other, hdr.why))
	}
	bin := c.pfbIterationOpt(fn, H, 2, nil, -1, pfbOpt{hdrK: -1})
	full, other, _ = count(bin)
	nFull += full
	if full != 1 || other != 0 {
		bad = append(bad, fmt.Sprintf("in a binary segment the decoder performs %d io.ReadFull and %d other read(s) of the source, expected one io.ReadFull %s", full, other, bin.why))
	}
	return len(bad) == 0, joinMax(bad, 2), nFull
}

// readBufLenX8: the constant length of the buffer handed to a recorded read (-1: not constant).
func readBufLenX8(ef ssaEffect) int64 {
	a := ef.args[1]
	if a.k == svList {
		return a.n
	}
	if a.op == "slice" && len(a.args) == 3 {
		lo, hi := a.args[1], a.args[2]
		if lo.s == "_" {
			lo = intV(0)
		}
		if lo.k == svInt && hi.k == svInt {
			return hi.i - lo.i
		}
		if call, ok := ef.ins.(*ssa.Call); ok && len(call.Call.Args) == 2 && lo.k == svInt && hi.s == "_" {
			if sl, ok := call.Call.Args[1].(*ssa.Slice); ok {
				if p, ok := sl.X.Type().Underlying().(*types.Pointer); ok {
					if arr, ok := p.Elem().Underlying().(*types.Array); ok {
						return arr.Len() - lo.i
					}
				}
			}
		}
	}
	return -1
}

// ---------------------------------------------------------------------------------------------
// 5. calls through a fixed table of functions, for the fact engine

// tableFuncOf: the module function an element of a fixed table stands for (a function, or the
// thunk of a method expression); nil if the element is anything else.
func (c *Ctx) tableFuncOf(v ssa.Value) (target, held *ssa.Function) {
	for {
		ct, isCT := v.(*ssa.ChangeType)
		if !isCT {
			break
		}
		v = ct.X
	}
	f, ok := v.(*ssa.Function)
	if !ok {
		return nil, nil
	}
	if t := c.thunkTarget(f); t != nil {
		return t, f
	}
	if c.inModule(f) && len(f.Blocks) > 0 && f.Pkg != nil {
		return f, f
	}
	return nil, nil
}

// tableCallees: the module functions a call may run whose callee is loaded from an element of a
// fixed table of functions (nil: not such a call, or an element is not a known module function).
func (c *Ctx) tableCallees(call ssa.CallInstruction) []*ssa.Function {
	com := call.Common()
	if com.IsInvoke() {
		return nil
	}
	ld, ok := com.Value.(*ssa.UnOp)
	if !ok || ld.Op != token.MUL {
		return nil
	}
	g, _ := tableOfElemAddr(ld.X)
	if g == nil {
		return nil
	}
	elems, ok := c.fixedTable(g)
	if !ok || len(elems) == 0 {
		return nil
	}
	var out []*ssa.Function
	for _, e := range elems {
		if e == nil {
			return nil
		}
		t, _ := c.tableFuncOf(e)
		if t == nil {
			return nil
		}
		out = append(out, t)
	}
	return out
}

// isMethodWrapperX8: w is one of the functions go/ssa synthesises to hold a method as a function
// value (method expression, method value, promoted or interface method) — not an instantiation of a
// generic function, which shares its object with its siblings but is called statically.
func isMethodWrapperX8(w *ssa.Function) bool {
	return strings.HasPrefix(w.Synthetic, "thunk for") || strings.HasPrefix(w.Synthetic, "wrapper for") || strings.HasPrefix(w.Synthetic, "bound method wrapper for")
}

type tableSitesX8 struct {
	sites []*ssa.Call
	ok    bool
}

var tableSitesCacheX8 = map[*ssa.Function]*tableSitesX8{}

// indirectCallSites: the calls that reach fn other than through a static call.  A method can be
// held as a function value through the wrapper go/ssa makes for a method expression; such a use is
// accounted for when the wrapper is an element of fixed tables and nothing else, and every element
// loaded from those tables is called on the spot — the dynamic calls are then call sites of fn,
// with the arguments in the order of fn's parameters (receiver first).  ok is false when a wrapper
// of fn is used in any other way: the call sites of fn are then not known.
func (c *Ctx) indirectCallSites(fn *ssa.Function) ([]*ssa.Call, bool) {
	if r, hit := tableSitesCacheX8[fn]; hit {
		return r.sites, r.ok
	}
	res := &tableSitesX8{ok: true}
	tableSitesCacheX8[fn] = res
	if fn.Object() == nil {
		return nil, true
	}
	// the function values that stand for fn: wrappers of its object, and fn itself when it sits in a table
	nUses := map[*ssa.Function]int{}
	for _, caller := range c.modFuncs {
		eachInstr(caller, func(ins ssa.Instruction) {
			for _, op := range ins.Operands(nil) {
				w, isF := (*op).(*ssa.Function)
				if !isF || w == fn || w.Object() != fn.Object() || !isMethodWrapperX8(w) {
					continue
				}
				if call, isCall := ins.(ssa.CallInstruction); isCall && call.Common().Value == ssa.Value(w) && c.thunkTarget(w) == fn {
					if cc, isC := ins.(*ssa.Call); isC {
						res.sites = append(res.sites, cc) // a direct call of the wrapper
						continue
					}
				}
				nUses[w]++
			}
		})
	}
	if len(nUses) == 0 {
		return res.sites, true
	}
	// every such use must be an element of a fixed table
	inTables := map[*ssa.Function]int{}
	var tables []*ssa.Global
	for _, pkg := range c.spkgs {
		for _, m := range pkg.Members {
			g, isG := m.(*ssa.Global)
			if !isG {
				continue
			}
			elems, ok := c.fixedTable(g)
			if !ok {
				continue
			}
			has := false
			for _, e := range elems {
				if e == nil {
					continue
				}
				if t, held := c.tableFuncOf(e); t == fn && held != fn {
					inTables[held]++
					has = true
				}
			}
			if has {
				tables = append(tables, g)
			}
		}
	}
	for w, n := range nUses {
		if c.thunkTarget(w) != fn || inTables[w] != n {
			res.sites, res.ok = nil, false
			return nil, false
		}
	}
	sort.Slice(tables, func(i, j int) bool { return tables[i].String() < tables[j].String() })
	for _, g := range tables {
		for _, caller := range c.modFuncs {
			eachInstr(caller, func(ins ssa.Instruction) {
				ia, isIA := ins.(*ssa.IndexAddr)
				if !isIA {
					return
				}
				if tg, _ := tableOfElemAddr(ia); tg != g {
					return
				}
				for _, r := range *ia.Referrers() {
					ld, isLd := r.(*ssa.UnOp)
					if !isLd {
						if _, isSt := r.(*ssa.Store); isSt && caller == g.Pkg.Func("init") {
							continue // the initialiser's own store
						}
						if _, isDbg := r.(*ssa.DebugRef); !isDbg {
							res.ok = false
						}
						continue
					}
					for _, rr := range *ld.Referrers() {
						call, isCall := rr.(*ssa.Call)
						if _, isDbg := rr.(*ssa.DebugRef); isDbg {
							continue
						}
						if !isCall || call.Call.Value != ssa.Value(ld) {
							res.ok = false
							continue
						}
						for _, a := range call.Call.Args {
							if a == ssa.Value(ld) {
								res.ok = false
							}
						}
						res.sites = append(res.sites, call)
					}
				}
			})
			// the table copied or ranged over as a whole: elements leave by ways not followed here
			eachInstr(caller, func(ins ssa.Instruction) {
				if u, isU := ins.(*ssa.UnOp); isU && u.Op == token.MUL && u.X == ssa.Value(g) {
					for _, r := range *u.Referrers() {
						switch r := r.(type) {
						case *ssa.IndexAddr, *ssa.DebugRef:
						case *ssa.Call:
							if b, isB := r.Call.Value.(*ssa.Builtin); !isB || (b.Name() != "len" && b.Name() != "cap") {
								res.ok = false
							}
						default:
							res.ok = false
						}
					}
				}
			})
		}
	}
	if !res.ok {
		res.sites = nil
	}
	return res.sites, res.ok
}

// tableResultFacts: the facts about result idx of a call through a fixed table of functions that
// hold whichever element is called (the facts every possible callee establishes at all its returns).
func tableResultFacts(fi *funcInfo, a string, call *ssa.Call, idx int) []Lin {
	if feCtx == nil || call.Call.StaticCallee() != nil {
		return nil
	}
	callees := feCtx.tableCallees(call)
	if len(callees) == 0 {
		return nil
	}
	count := map[string]int{}
	var order []Lin
	for _, g := range callees {
		if len(g.Params) != len(call.Call.Args) {
			return nil
		}
		seen := map[string]bool{}
		for _, mk := range resultFacts(g, idx) {
			l := mk(fi, a, call)
			k := l.String()
			if seen[k] {
				continue
			}
			seen[k] = true
			if count[k] == 0 {
				order = append(order, l)
			}
			count[k]++
		}
	}
	var out []Lin
	for _, l := range order {
		if count[l.String()] == len(callees) {
			out = append(out, l)
		}
	}
	return out
}

// ---------------------------------------------------------------------------------------------
// 6. repeated loads of one element of a local array

// sameCellLoad: u loads element k (a constant) of a local array; an earlier load of the same
// element between which and u nothing can have written memory (no store through a pointer, no
// call: unchangedBetween) has the same value — `if buf[1] > 3 { return }; state = int(buf[1])`
// reads one byte twice.  The earliest such load is returned (nil: none).
func sameCellLoad(u *ssa.UnOp) *ssa.UnOp {
	if u.Op != token.MUL {
		return nil
	}
	ia, ok := u.X.(*ssa.IndexAddr)
	if !ok {
		return nil
	}
	al, ok := ia.X.(*ssa.Alloc)
	if !ok {
		return nil
	}
	k, ok := constInt(ia.Index)
	if !ok {
		return nil
	}
	var best *ssa.UnOp
	for _, r := range *al.Referrers() {
		switch r := r.(type) {
		case *ssa.Store:
			if r.Addr == ssa.Value(al) {
				return nil // the array is assigned as a whole somewhere
			}
		case *ssa.IndexAddr:
			if k2, ok := constInt(r.Index); !ok || k2 != k {
				continue
			}
			for _, rr := range *r.Referrers() {
				l, isLd := rr.(*ssa.UnOp)
				if !isLd || l == u || l.Op != token.MUL || !unchangedBetweenOpt(l, u, true) {
					continue
				}
				if best == nil || dominatesInstr(l, best) {
					best = l
				}
			}
		}
	}
	return best
}

// ---------------------------------------------------------------------------------------------
// 7. leaf accessors: small methods of an internal type that replace parallel locals
//
// `b = b[k:]; n += k` and `for len(b) > 0` may be written as `out.advance(k)` and `for !out.full()`
// on a small struct.  A *leaf accessor* is a module function of one basic block whose first
// parameter points to a struct, that calls nothing but len/cap/min/max, and stores only to fields
// of that struct.  Its effect on the fields and its boolean result are linear forms over the field
// values at entry and the parameters, so the fact engine can use it at a call as if it were inline:
//   - the memory epoch a call of it starts for a field it writes is related exactly to the epoch
//     before (leafCallRel), as for a store in the caller itself;
//   - a condition that is the result of such a call yields the callee's comparison (leafCondFacts);
//   - a struct that lives in a local variable of the caller and is only handed to leaf accessors
//     cannot be written by any other call (localOnlyField).

type leafSumX8 struct {
	g        *ssa.Function
	gfi      *funcInfo
	recvName string
	after    map[string]Lin // field key → length (slice field) or value (integer field) after the call, in callee atoms
	cond     ssa.Value      // the boolean result (nil if none)
}

var leafSumCacheX8 = map[*ssa.Function]*leafSumX8{}

// leafShape: g has the form of a leaf accessor (decided on its instructions alone, no facts
// needed); its stores and its return.
func leafShape(g *ssa.Function) (stores []*ssa.Store, ret *ssa.Return, ok bool) {
	if g == nil || feCtx == nil || !inMod(g) || len(g.Blocks) != 1 || len(g.Params) == 0 || g.Parent() != nil {
		return nil, nil, false
	}
	recv := g.Params[0]
	pt, isPtr := recv.Type().Underlying().(*types.Pointer)
	if !isPtr {
		return nil, nil, false
	}
	if _, isStruct := pt.Elem().Underlying().(*types.Struct); !isStruct {
		return nil, nil, false
	}
	for _, ins := range g.Blocks[0].Instrs {
		switch x := ins.(type) {
		case *ssa.FieldAddr:
			if x.X != ssa.Value(recv) {
				return nil, nil, false
			}
			for _, r := range *x.Referrers() {
				switch r := r.(type) {
				case *ssa.UnOp, *ssa.DebugRef:
				case *ssa.Store:
					if r.Addr != ssa.Value(x) {
						return nil, nil, false
					}
				default:
					return nil, nil, false
				}
			}
		case *ssa.UnOp:
			if x.Op == token.MUL {
				if _, isFA := x.X.(*ssa.FieldAddr); !isFA {
					return nil, nil, false
				}
			}
		case *ssa.BinOp, *ssa.Slice, *ssa.Convert, *ssa.ChangeType, *ssa.DebugRef:
		case *ssa.Call:
			b, isB := x.Call.Value.(*ssa.Builtin)
			if !isB {
				return nil, nil, false
			}
			switch b.Name() {
			case "len", "cap", "min", "max":
			default:
				return nil, nil, false
			}
		case *ssa.Store:
			if _, isFA := x.Addr.(*ssa.FieldAddr); !isFA || x.Val == ssa.Value(recv) {
				return nil, nil, false
			}
			stores = append(stores, x)
		case *ssa.Return:
			ret = x
		default:
			return nil, nil, false
		}
	}
	if ret == nil {
		return nil, nil, false
	}
	// the results are plain values (numbers, booleans, strings) or slices of such: nothing through
	// which the caller could get hold of the object again
	plain := func(t types.Type) bool {
		_, isBasic := t.Underlying().(*types.Basic)
		return isBasic
	}
	for _, r := range ret.Results {
		t := r.Type()
		if sl, isSlice := t.Underlying().(*types.Slice); isSlice {
			t = sl.Elem()
		}
		if !plain(t) {
			return nil, nil, false
		}
	}
	return stores, ret, true
}

func leafSummary(g *ssa.Function) *leafSumX8 {
	if s, ok := leafSumCacheX8[g]; ok {
		return s
	}
	leafSumCacheX8[g] = nil
	stores, ret, ok := leafShape(g)
	if !ok {
		return nil
	}
	recv := g.Params[0]
	gfi := newFuncInfo(g)
	s := &leafSumX8{g: g, gfi: gfi, recvName: gfi.vname(canonBase(recv)), after: map[string]Lin{}}
	for _, st := range stores {
		_, f, ok := slotOf(st.Addr)
		if !ok {
			return nil
		}
		switch {
		case gfi.intFields[f]:
			s.after[f] = gfi.term(st.Val)
		case gfi.fields[f]:
			s.after[f] = gfi.lenOf(st.Val)
		default:
			s.after[f] = Lin{} // a field the engine does not track: no relation
		}
	}
	if len(ret.Results) == 1 {
		if bt, isB := ret.Results[0].Type().Underlying().(*types.Basic); isB && bt.Info()&types.IsBoolean != 0 {
			s.cond = ret.Results[0]
		}
	}
	leafSumCacheX8[g] = s
	return s
}

// translate: a linear form over the atoms of the leaf accessor (its parameters, the lengths and
// values of the receiver's fields at entry) as a form over the caller's atoms at the call.
func (s *leafSumX8) translate(l Lin, cfi *funcInfo, call *ssa.Call) (Lin, bool) {
	if l.coef == nil && l.c == nil {
		return Lin{}, false
	}
	args := call.Call.Args
	if len(args) != len(s.g.Params) {
		return Lin{}, false
	}
	out := l.clone()
	for a := range l.coef {
		if a == neqMarker {
			continue
		}
		var by Lin
		found := false
		for i, p := range s.g.Params {
			switch a {
			case s.gfi.vname(p):
				if _, _, isInt := isIntType(p.Type()); isInt {
					by, found = cfi.term(args[i]), true
				}
			case "len(" + s.gfi.vname(p) + ")":
				by, found = cfi.lenOf(args[i]), true
			}
		}
		if !found && strings.HasSuffix(a, "@entry)") {
			for _, kind := range []string{"len(", "val("} {
				pre := kind + s.recvName + "."
				if !strings.HasPrefix(a, pre) {
					continue
				}
				f := a[len(pre) : len(a)-len("@entry)")]
				if kind == "len(" {
					by, found = cfi.fieldLenAtCall(call, args[0], f)
				} else {
					by, found = cfi.fieldValAtCall(call, args[0], f)
				}
			}
		}
		if !found {
			return Lin{}, false
		}
		out = out.subst(a, by)
	}
	return out, true
}

// leafCallRel: the call is a call of a leaf accessor: the epochs it starts for the fields it
// writes are related to the state before the call.
func (fi *funcInfo) leafCallRel(ins ssa.Instruction) {
	call, ok := ins.(*ssa.Call)
	if !ok {
		return
	}
	g := call.Call.StaticCallee()
	if g == nil || g == fi.fn || len(call.Call.Args) == 0 {
		return
	}
	s := leafSummary(g)
	if s == nil || len(s.after) == 0 {
		return
	}
	ep := fmt.Sprintf("call@%d.%d", call.Block().Index, instrIndex(call))
	base := fi.vname(canonBase(call.Call.Args[0]))
	for f, l := range s.after {
		if !fi.fields[f] {
			continue
		}
		if t, ok := s.translate(l, fi, call); ok {
			fi.rel[ep+"|"+f+"|"+base] = t
		}
	}
}

// leafCondFacts: the condition is the boolean result of a leaf accessor.
func (fi *funcInfo) leafCondFacts(c ssa.Value, truth bool) []Lin {
	call, ok := c.(*ssa.Call)
	if !ok {
		return nil
	}
	g := call.Call.StaticCallee()
	if g == nil || g == fi.fn {
		return nil
	}
	s := leafSummary(g)
	if s == nil || s.cond == nil {
		return nil
	}
	var out []Lin
	for _, l := range s.gfi.condFacts(s.cond, truth) {
		if t, ok := s.translate(l, fi, call); ok {
			out = append(out, t)
		}
	}
	return out
}

var localOnlyCacheX8 = map[*ssa.Function]map[string][]*ssa.Alloc{}

// localOnlyField: every object of fn whose field f (fact-engine key) is addressed in fn is a local
// variable of fn that is handed to nothing but leaf accessors (as their first argument) and is
// never stored anywhere: only fn's own stores and those calls can write the field.  The locals
// are returned (nil: the field is, or may be, reachable from elsewhere).
func localOnlyField(fn *ssa.Function, f string) []*ssa.Alloc {
	if m, ok := localOnlyCacheX8[fn]; ok {
		return m[f]
	}
	m := map[string][]*ssa.Alloc{}
	localOnlyCacheX8[fn] = m
	bad := map[string]bool{}
	contained := map[*ssa.Alloc]bool{}
	isContained := func(al *ssa.Alloc) bool {
		if r, ok := contained[al]; ok {
			return r
		}
		ok := true
		for _, r := range *al.Referrers() {
			switch r := r.(type) {
			case *ssa.FieldAddr, *ssa.DebugRef:
			case *ssa.Store:
				if r.Addr != ssa.Value(al) {
					ok = false
				}
			case *ssa.UnOp:
				if r.Op != token.MUL {
					ok = false
				}
			case *ssa.Call:
				g := r.Call.StaticCallee()
				if _, _, leaf := leafShape(g); g == nil || !leaf || len(r.Call.Args) == 0 || r.Call.Args[0] != ssa.Value(al) {
					ok = false
				}
				for _, a := range r.Call.Args[1:] {
					if a == ssa.Value(al) {
						ok = false
					}
				}
			default:
				ok = false
			}
		}
		contained[al] = ok
		return ok
	}
	eachInstr(fn, func(ins ssa.Instruction) {
		fa, ok := ins.(*ssa.FieldAddr)
		if !ok {
			return
		}
		key := fieldName(fa)
		al, isAl := fa.X.(*ssa.Alloc)
		if !isAl || !isContained(al) {
			bad[key] = true
			return
		}
		// the address of the field itself must not travel either
		for _, r := range *fa.Referrers() {
			switch r := r.(type) {
			case *ssa.UnOp, *ssa.DebugRef:
			case *ssa.Store:
				if r.Addr != ssa.Value(fa) {
					bad[key] = true
				}
			default:
				bad[key] = true
			}
		}
		seen := false
		for _, x := range m[key] {
			if x == al {
				seen = true
			}
		}
		if !seen {
			m[key] = append(m[key], al)
		}
	})
	for k := range bad {
		delete(m, k)
	}
	return m[f]
}

// leafCallSpares: the call cannot write field f although the mod-set of a callee contains it: all
// objects of the function with that field are contained locals (localOnlyField) and none of them is
// handed to this call.
func leafCallSpares(call ssa.CallInstruction, f string) bool {
	fn := call.Parent()
	locals := localOnlyField(fn, f)
	if len(locals) == 0 {
		return false
	}
	for _, a := range call.Common().Args {
		for _, al := range locals {
			if a == ssa.Value(al) {
				return false
			}
		}
	}
	return true
}

// ---------------------------------------------------------------------------------------------
// 8. "the buffer has room" as a loop condition

// roomTest: the boolean v tells whether a slice is non-empty — `len(x) > 0`, `len(x) != 0`,
// `len(x) >= 1`, their negations `len(x) == 0`, `len(x) <= 0`, `len(x) < 1`, `!…` of either, or
// the result of a leaf accessor (see leafShape) that returns such a test of a slice field of its
// receiver (`out.full()`).  room is the truth value of v that means "not empty".
func roomTest(v ssa.Value, depth int) (room bool, ok bool) {
	if depth > 3 {
		return false, false
	}
	switch x := v.(type) {
	case *ssa.UnOp:
		if x.Op == token.NOT {
			r, ok := roomTest(x.X, depth+1)
			return !r, ok
		}
	case *ssa.Call:
		g := x.Call.StaticCallee()
		if _, ret, leaf := leafShape(g); leaf && len(ret.Results) == 1 {
			return roomTest(ret.Results[0], depth+1)
		}
	case *ssa.BinOp:
		m, isCmp := asCmp(cond{v: x, truth: true})
		if !isCmp {
			return false, false
		}
		a, b, op := m.x, m.y, m.op
		if _, isC := constInt(a); isC {
			a, b, op = b, a, swapOp(op)
		}
		k, isC := constInt(b)
		call, isCall := a.(*ssa.Call)
		if !isC || !isCall {
			return false, false
		}
		if bi, isB := call.Call.Value.(*ssa.Builtin); !isB || bi.Name() != "len" {
			return false, false
		}
		if _, isSlice := call.Call.Args[0].Type().Underlying().(*types.Slice); !isSlice {
			return false, false
		}
		switch {
		case k == 0 && (op == token.GTR || op == token.NEQ), k == 1 && op == token.GEQ:
			return true, true
		case k == 0 && (op == token.LEQ || op == token.EQL), k == 1 && op == token.LSS:
			return false, true
		}
	}
	return false, false
}
