package main

import (
	"fmt"
	"go/token"
	"go/types"
	"regexp"
	"sort"
	"strings"
	"text/template/parse"

	"golang.org/x/tools/go/ssa"
)

// C08 — Type 1 writer conformance.  Rule families A10 T1WRITE + A7 CIPHER.

func init() {
	register(&propCheck{
		id:    "C08",
		title: "Type 1 writer emits conforming files that say what the font says",
		explanation: "Decides the framing, cipher and template-structure clauses of C08: the PFB branch writes header {128, type, LE32(n)} / data three times with types 1, 2, 1 and the end marker {128, 3}, each length taken from the filled buffer before it is reset and spread little-endian over four bytes; " +
			"the eexec stream writer and the charstring obfuscator use keys 55665 / 4330 and multipliers 52845 / 22719 with ciphertext feedback (the writer is evaluated through Write + Close with a symbolic state and byte and with a concrete sequence across a full buffer, the obfuscator on symbolic and concrete bytes; outputs and state compared with the specification as normal forms over Z/2^16 or for all values), four lead bytes; the first eexec ciphertext byte, evaluated as a constant, is neither white space nor a hexadecimal digit; the charstring lead-byte search only accepts a first byte above 32 and a non-hexadecimal byte among the first four (sets evaluated for all bytes); no /lenIV is written, so the default of four applies; " +
			"template: required keys (/FontInfo /FontName /Encoding /PaintType /FontType 1 /FontMatrix /FontBBox /Private /CharStrings) present; RD, ND, NP defined with the standard bodies before their first use; every binary string is preceded by `<len of the same value> RD `; `currentfile eexec` ends the clear text exactly when encrypting; the encrypted part ends with `mark currentfile closefile` and the trailer is 8×64 zeros and cleartomark under the same condition; the explicit encoding lists every entry except .notdef; every real number is printed by the template in a form that reads back as the same number (the template's own printing, or a printf format / FuncMap function evaluated on numbers needing up to 17 digits); " +
			"PDF embedding: the first length is read after the clear text and before the cipher lead bytes, the second after the cipher writer was closed, both from the same byte counter. Charstring number and command encodings are C20/C06. " +
			"It does NOT decide that an independent decoder recovers the same font (that needs a second decoder to run).",
		trusted:     []string{"text/template/parse (parse only)", "canonical symbolic terms", "byte-domain evaluation"},
		assumptions: nil,
		run:         runC08,
	})
}

func runC08(c *Ctx) {
	info := c.info("type1")
	c.cipherConstants()
	// info strings over all byte values: every string reaches the program text escaped
	c.templateEscaping(nil)
	// the strings of the FontInfo dictionary decode to what the font says only if every byte is
	// written in a form the string reader maps back to it (same decision as C04/C09 LEX-WRITER: the
	// string serialiser evaluated for every byte value, alone and before a digit or a parenthesis)
	c.stringWriter(c.info("postscript"), c.readStringTables(c.info("postscript")))
	c.glyphNameShadowing()

	// ---- eexec writer: encryption shape, decided through Write/Close on the evaluator (ext_b.go)
	c.cipherWriterB()
	// ---- lead bytes of the eexec stream: constructor + Close evaluated (ext_x9.go)
	c.leadBytesX9()
	// ---- charstring obfuscation: key and shape decided on the evaluator (ext_b.go)
	c.cipherObfuscateB()
	// ---- lead-byte search in encodeCharstrings
	{
		fd := c.funcDecl("type1", "Font", "encodeCharstrings")
		fname := "type1.(*Font).encodeCharstrings"
		// the number of lead bytes is what the search hands to the obfuscator (read off the
		// evaluation below, wherever and however the lead bytes are allocated)
		ivLen := -1
		// acceptance of a ciphertext: the function is evaluated on the SSA form for one glyph;
		// the first ciphertext is the table value, the second one is acceptable for sure, so the
		// number of obfuscation calls tells whether the first was accepted
		fn := c.method("type1", "Font", "encodeCharstrings")
		obfFn := c.fn("type1", "obfuscateCharstring")
		accepts := func(first string) (bool, string) {
			ev := &ssaEval{c: c, bind: map[ssa.Value]sv{}, mem: map[string]sv{}, arrays: true}
			calls, nexts := 0, 0
			stored := ""
			ev.noInline = func(f *ssa.Function) bool { return f.Signature.Recv() != nil }
			ev.load = func(ld *ssa.UnOp, addr sv) (sv, bool) {
				return symV("v:" + addr.s), true
			}
			ev.call = func(call ssa.CallInstruction, args []sv) (sv, bool) {
				if call == nil {
					if len(args) > 0 && args[0].s == "next" {
						nexts++
						if nexts == 1 {
							return sv{k: svTuple, tup: []sv{boolV(true), symV("name"), {k: svAddr, s: "glyph"}}}, true
						}
						return sv{k: svTuple, tup: []sv{boolV(false), {k: svNil}, {k: svNil}}}, true
					}
					return sv{}, false
				}
				if call.Common().StaticCallee() == obfFn {
					calls++
					if len(args) == 2 {
						// every call of the obfuscator gets the same number of lead bytes
						if el, ok := ev.elems(args[1]); ok && (ivLen == -1 || ivLen == len(el)) {
							ivLen = len(el)
						} else {
							ivLen = -2
						}
					}
					if calls == 1 {
						return sv{k: svString, s: first}, true
					}
					return sv{k: svString, s: "\x80\x80\x80\x80\x80"}, true
				}
				return sv{}, false
			}
			ret := ev.runFunc(fn, []sv{{k: svAddr, s: "f"}})
			for _, ef := range ev.effects {
				if ef.what == "mapupdate" && ef.args[1].k == svString {
					stored = ef.args[1].s
				}
			}
			if len(ret) != 1 || calls == 0 || calls > 2 {
				return false, fmt.Sprintf("not evaluable (%d obfuscation calls) %s", calls, ev.why)
			}
			if calls == 1 && stored != first || calls == 2 && stored == first {
				return false, "the stored charstring is not the accepted ciphertext"
			}
			return calls == 1, ""
		}
		bad := ""
		for p := 0; p < 4 && bad == ""; p++ {
			for b := 0; b < 256; b++ {
				w := []byte("AAAAA")
				w[p] = byte(b)
				got, why := accepts(string(w))
				want := !isHexDigit(b) && (p != 0 || b > 32)
				if why != "" {
					bad = why
					break
				}
				if got != want {
					bad = fmt.Sprintf("a ciphertext whose byte %d is %d (the other lead bytes being hexadecimal digits) is %s", p, b, map[bool]string{true: "accepted", false: "refused"}[got])
					break
				}
			}
		}
		if bad == "" {
			if got, _ := accepts(" \x80\x80\x80\x80"); got {
				bad = "a ciphertext starting with a space is accepted"
			}
		}
		c.check(ivLen == 4, "W-CHARSTRINGIV", fname, "charstrings get four lead bytes (the default lenIV, no /lenIV is written)", fd.Pos(), fmt.Sprint(ivLen), fmt.Sprintf("charstrings are obfuscated with %d lead bytes but the template writes no /lenIV, so a decoder assumes 4", ivLen))
		c.check(bad == "", "W-CHARSTRINGIV", fname, "lead bytes are searched until the ciphertext starts above 32 and is not all-hexadecimal in its first four bytes", fd.Pos(), "4 positions × 256 byte values evaluated", "lead-byte search: "+bad+" — `RD` data starting with white space or looking like hex would be misread")
	}

	c.noNarrowing()
	c.eexecStream()
	// the encoder tracks the position a decoder reconstructs (C20's rule): outlines survive
	c.positionTracking(info)
	c.pfbFraming(info)
	c.templateStructure(info)
	c.templateDataFields()
	c.numbersExact()
	c.pdfLengths()
	c.encodingWriter(info)
}

func (c *Ctx) pfbFraming(info *types.Info) {
	// Font.Write is evaluated on the SSA form for Format = FormatPFB: the templates and the
	// cipher writer are opaque (they add named content to the buffer), the buffer reports its
	// symbolic length and content, and the sequence of writes to the destination is compared
	// with the PFB framing.  Helper functions are evaluated in place.
	fn := c.method("type1", "Font", "Write")
	fname := "type1.(*Font).Write"
	pfb := c.constInt("type1", "FormatPFB")
	ev := &ssaEval{c: c, bind: map[ssa.Value]sv{}, mem: map[string]sv{}, arrays: true}
	var content []string
	var writes []string
	cur := func() string { return "<" + strings.Join(content, ",") + ">" }
	isBuf := func(v sv) bool { return v.k == svAddr && strings.HasPrefix(v.s, "cell") }
	ev.noInline = func(f *ssa.Function) bool {
		return f.Name() != "Write" || f.Signature.Recv() == nil || !strings.Contains(f.String(), "Font")
	}
	ev.noInline = func(f *ssa.Function) bool {
		// only unexported helpers are evaluated in place (e.g. a segment writer, with or without a
		// receiver, or a function literal handed to one); exported methods (the writers' Write and
		// Close) are modelled
		if f.Object() == nil {
			return f.Parent() == nil
		}
		return f.Object().Exported() || c.isFn(f, "type1", "", "newEExecWriter")
	}
	ev.load = func(ld *ssa.UnOp, addr sv) (sv, bool) {
		if strings.HasSuffix(addr.s, ".Format") {
			return intV(pfb), true
		}
		// a table of the package that only ever holds its initialiser (segment kinds, section names)
		if v, ok := c.constTableValueX9(ev, ld, addr); ok {
			return v, true
		}
		if strings.HasPrefix(addr.s, "global:") {
			return sv{k: svAddr, s: addr.s[strings.LastIndex(addr.s, ".")+1:]}, true
		}
		return sv{}, false
	}
	ev.oracle = func(op token.Token, x, y sv) (bool, bool) {
		if (x.k == svNil) != (y.k == svNil) {
			return op == token.NEQ, true
		}
		return false, false
	}
	ev.call = func(call ssa.CallInstruction, args []sv) (sv, bool) {
		n := callName(call)
		switch {
		case strings.HasSuffix(n, "template.Template).ExecuteTemplate") && len(args) == 4:
			name := args[2].s
			if isBuf(args[1]) {
				content = append(content, name)
			} else if args[1].s == "we" {
				content = append(content, "enc("+name+")")
			} else {
				writes = append(writes, "template "+name+" straight to the destination")
			}
			return sv{k: svNil}, true
		case strings.HasSuffix(n, "type1.newEExecWriter"):
			if len(args) == 1 && isBuf(args[0]) {
				content = append(content, "iv")
			} else {
				writes = append(writes, "cipher writer not on the buffer")
			}
			return sv{k: svTuple, tup: []sv{{k: svAddr, s: "we"}, {k: svNil}}}, true
		case strings.HasSuffix(n, "eexecWriter).Close"):
			content = append(content, "flush")
			return sv{k: svNil}, true
		case strings.HasSuffix(n, "bytes.Buffer).Len"):
			return term("len", symV(cur())), true
		case strings.HasSuffix(n, "bytes.Buffer).Bytes"):
			return symV(cur()), true
		case strings.HasSuffix(n, "bytes.Buffer).Reset"):
			content = nil
			return sv{}, true
		case strings.HasPrefix(n, "invoke ") && strings.HasSuffix(n, ".Write") && len(args) == 2:
			if el, ok := ev.elems(args[1]); ok {
				var p []string
				for _, x := range el {
					p = append(p, strings.ReplaceAll(x.String(), "u32", ""))
				}
				writes = append(writes, "["+strings.Join(p, " ")+"]")
			} else {
				writes = append(writes, args[1].String())
			}
			return sv{k: svTuple, tup: []sv{symV("n"), {k: svNil}}}, true
		case strings.HasSuffix(n, "makeTemplateData"):
			return sv{k: svAddr, s: "info"}, true
		}
		// a validation of the font (a method of the font without further arguments that returns
		// only an error): the table describes a font the writer accepts
		if call == nil {
			return sv{}, false
		}
		if sc := call.Common().StaticCallee(); sc != nil && c.inModule(sc) && sc.Signature.Recv() != nil && sc.Signature.Params().Len() == 0 && returnsError(sc) && sc.Signature.Results().Len() == 1 {
			return sv{k: svNil}, true
		}
		return sv{}, false
	}
	ret := ev.runFunc(fn, []sv{{k: svAddr, s: "f"}, symV("w"), {k: svAddr, s: "opt"}})
	seg := func(kind int, body string) []string {
		n := "(len(" + body + "))"
		return []string{fmt.Sprintf("[128 %d u8%s u8(>>(%s,8)) u8(>>(%s,16)) u8(>>(%s,24))]", kind, n, n[1:len(n)-1], n[1:len(n)-1], n[1:len(n)-1]), body}
	}
	var want []string
	want = append(want, seg(1, "<SectionA>")...)
	want = append(want, seg(2, "<iv,enc(SectionB),flush>")...)
	want = append(want, seg(1, "<SectionC>")...)
	want = append(want, "[128 3]")
	got := strings.Join(writes, " ")
	okRet := len(ret) == 1 && ret[0].k == svNil
	flat := func(s string) string { return strings.NewReplacer("(", "", ")", "").Replace(s) }
	c.check(okRet && flat(got) == flat(strings.Join(want, " ")), "W-PFB", fname, "PFB framing: {128,1,LE32} text, {128,2,LE32} cipher, {128,1,LE32} trailer, {128,3}; lengths taken from the filled buffer before it is reset", fn.Pos(), "7 writes to the destination in order",
		"the PFB branch writes `"+got+"`; expected `"+strings.Join(want, " ")+"` "+ev.why)
}

func (c *Ctx) templateStructure(info *types.Info) {
	t := c.fontTemplate()
	all := t.flatText()
	a := t.sectionText("SectionA")
	b := t.sectionText("SectionB")
	cc := t.sectionText("SectionC")
	name := "type1 font program template"
	c.check(fmt.Sprint(t.order) == "[SectionA SectionB SectionC]", "W-TEMPLATE", name, "sections A (clear text), B (encrypted), C (trailer) in this order", token.NoPos, fmt.Sprint(t.order), "the main template does not invoke SectionA, SectionB, SectionC in order")
	var missing []string
	for _, k := range []string{"/FontInfo ", "/FontName ", "/PaintType ", "/FontType 1 def", "/FontMatrix ", "/FontBBox ", "/Private ", "/CharStrings ", "⟦E .Encoding .CharStrings⟧"} {
		if !strings.Contains(all, k) {
			missing = append(missing, strings.TrimSpace(k))
		}
	}
	c.check(len(missing) == 0, "W-TEMPLATE", name, "required font dictionary entries are written", token.NoPos, "9 entries", "the template lacks "+strings.Join(missing, ", "))
	// RD ND NP
	defs := map[string]string{"RD": "{string currentfile exch readstring pop}", "ND": "{def}", "NP": "{put}"}
	for op, body := range defs {
		def := "/" + op + " " + body + " executeonly def"
		i := strings.Index(b, def)
		use := regexp.MustCompile(`[ \n]` + op + `[ \n]`).FindStringIndex(b)
		okDef := i >= 0 && use != nil
		if okDef {
			// first use that is not the definition itself
			rest := b[i+len(def):]
			okDef = regexp.MustCompile(`[ \n]`+op+`[ \n]`).FindStringIndex(rest) != nil && (use[0] > i || use[0] == i-1 || strings.Index(b, " "+op+" ") > i)
		}
		c.check(okDef, "W-TEMPLATE", name, op+" defined as "+body+" before its first use", token.NoPos, def, op+" is not defined with the standard body `"+body+"` before it is used in the Private dictionary")
	}
	// binary emissions: a string taken out of a collection (an element that is ranged over, or a
	// field of such an element) and printed without an escape function is binary data; the action
	// in front of it must be ` RD ` preceded by `len` of the same value (tmplPrints resolves range
	// variables and the dot, so `$cs` of a map and `.Code` of a list element are the same thing)
	prints := c.tmplPrints()
	nBin, badBin := 0, ""
	itemsB := t.items("SectionB")
	for i, it := range itemsB {
		p, isPrint := prints[it.node]
		if _, isAct := it.node.(*parse.ActionNode); !isAct || !isPrint || !p.elem || len(p.funcs) != 0 || p.typ == nil {
			continue
		}
		if bt, ok := p.typ.Underlying().(*types.Basic); !ok || bt.Info()&types.IsString == 0 {
			continue
		}
		nBin++
		ok := i >= 2 && itemsB[i-1].action == "" && itemsB[i-1].text == " RD "
		if ok {
			q, isQ := prints[itemsB[i-2].node]
			_, isAct := itemsB[i-2].node.(*parse.ActionNode)
			ok = isQ && isAct && len(q.funcs) == 1 && q.funcs[0] == "len" && q.expr == p.expr
		}
		if !ok {
			badBin += " `" + it.action + "`"
		}
	}
	c.check(nBin >= 2 && badBin == "", "W-TEMPLATE", name, "every binary string is preceded by `<its length> RD `", token.NoPos, fmt.Sprintf("%d binary emissions", nBin), "a charstring or subroutine is emitted without the length of the same value and ` RD ` in front of it:"+badBin)
	// no lenIV
	c.check(!strings.Contains(all, "lenIV"), "W-TEMPLATE", name, "no /lenIV entry (decoders assume four lead bytes)", token.NoPos, "", "the template writes /lenIV; the obfuscator always uses four lead bytes")
	// eexec switching
	okA := strings.HasSuffix(a, "⟦if .EExec⟧currentfile eexec\n⟦end⟧")
	okB := strings.HasSuffix(b, "definefont pop\n⟦if .EExec⟧mark currentfile closefile\n⟦end⟧")
	zeros := strings.Repeat(strings.Repeat("0", 64)+"\n", 8)
	okC := cc == "⟦if .EExec⟧"+zeros+"cleartomark\n⟦end⟧"
	c.check(okA, "W-TEMPLATE", name, "`currentfile eexec` ends the clear text exactly when encrypting", token.NoPos, "", "section A does not end with `currentfile eexec` under the EExec condition")
	c.check(okB, "W-TEMPLATE", name, "the encrypted part ends with definefont and, when encrypting, `mark currentfile closefile`", token.NoPos, "", "section B does not end with `… definefont pop` followed by `mark currentfile closefile` under the EExec condition")
	c.check(okC, "W-TEMPLATE", name, "trailer: 8 lines of 64 zeros and cleartomark, when encrypting", token.NoPos, "", "section C is not 8×64 zeros followed by cleartomark under the EExec condition")
	// EExec flag: true unless FormatNoEExec — Write (every format) and WritePDF are evaluated on
	// the SSA form up to their template executions; the flag the template sees is compared
	flagPos := c.method("type1", "Font", "Write").Pos()
	if fd := c.funcDeclOpt("type1", "Font", "makeTemplateData"); fd != nil {
		flagPos = fd.Pos()
	}
	okFlag, whyFlag := c.eexecFlag()
	c.check(okFlag, "W-TEMPLATE", "type1.(*Font).makeTemplateData", "encryption markers are written for every format except the unencrypted one", flagPos, "Write × 5 formats and WritePDF evaluated", "the EExec flag is not `Format != FormatNoEExec`: "+whyFlag)
}

func (c *Ctx) pdfLengths() {
	f := c.method("type1", "Font", "WritePDF")
	fname := c.fname(f)
	cwT, cwField, cw := c.findCountingWriter("type1")
	if cwT == nil {
		c.undecided("W-PDFLENGTHS", fname, "the two lengths are byte counts of what was written", f.Pos(), "no byte-counting writer (a type whose Write adds the count returned by the underlying Write to a field) exists in package type1, so the lengths WritePDF reports cannot be tied to the number of bytes it wrote (lengths found by searching the output are wrong as soon as a font string contains the searched text)")
		return
	}
	// WritePDF evaluated with writers as objects (ext_x9.go): what the two results count
	okLen, why := c.pdfLengthsEvalX9(f, cwT, cwField)
	c.check(okLen, "W-PDFLENGTHS", fname, "length1 = bytes counted after the clear text and before the cipher lead bytes; length2 = bytes counted after Close minus length1", f.Pos(), "counter read between SectionA and newEExecWriter, and after Close",
		"PDF lengths: "+why)
	// the counter is written nowhere else
	okCount := true
	for _, fn := range c.modFuncs {
		if fn == cw {
			continue
		}
		eachInstr(fn, func(ins ssa.Instruction) {
			if st, ok := ins.(*ssa.Store); ok && isFieldAddr(st.Addr, cwT, cwField) {
				okCount = false
			}
		})
	}
	c.check(okCount, "W-PDFLENGTHS", c.fname(cw), "the counter advances by the number of bytes the underlying writer accepted", cw.Pos(), "w.n += n", "the byte counter does not add the count returned by the underlying Write")
}

// findCountingWriter discovers, by shape, the writer that counts bytes: a named struct type of
// the package with a method Write([]byte) (int, error) that stores field + n into an integer
// field, n being the count returned by a nested Write call.
func (c *Ctx) findCountingWriter(pkg string) (*types.TypeName, string, *ssa.Function) {
	var names []string
	scope := c.pkg(pkg).Types.Scope()
	for _, n := range scope.Names() {
		names = append(names, n)
	}
	sort.Strings(names)
	for _, n := range names {
		tn, ok := scope.Lookup(n).(*types.TypeName)
		if !ok {
			continue
		}
		st, ok := tn.Type().Underlying().(*types.Struct)
		if !ok {
			continue
		}
		sel := types.NewMethodSet(types.NewPointer(tn.Type())).Lookup(c.pkg(pkg).Types, "Write")
		if sel == nil {
			continue
		}
		m := c.prog.MethodValue(sel)
		if m == nil || len(m.Blocks) == 0 {
			continue
		}
		for i := 0; i < st.NumFields(); i++ {
			fld := st.Field(i).Name()
			found := false
			eachInstr(m, func(ins ssa.Instruction) {
				if s, ok := ins.(*ssa.Store); ok && isFieldAddr(s.Addr, tn, fld) {
					if bo, ok := s.Val.(*ssa.BinOp); ok && bo.Op == token.ADD && isFieldLoad(bo.X, tn, fld) {
						if ex, ok := bo.Y.(*ssa.Extract); ok && ex.Index == 0 {
							if call, ok := ex.Tuple.(*ssa.Call); ok && (call.Call.IsInvoke() && call.Call.Method.Name() == "Write" || call.Call.StaticCallee() != nil && call.Call.StaticCallee().Name() == "Write") {
								found = true
							}
						}
					}
				}
			})
			if found {
				return tn, fld, m
			}
		}
	}
	return nil, "", nil
}

func (c *Ctx) encodingWriter(info *types.Info) {
	// writeEncoding is evaluated on the SSA form for encodings with known entries (the cells of
	// the decision {.notdef, other} at the first, an inner and the last code, with the glyph of
	// the entry present in or absent from the font).  String building is modelled (builder
	// writes, Fprintf/Sprintf, Itoa, concatenation), the name serialiser is opaque and leaves a
	// mark, so that the text the function returns can be compared with the text the Type 1
	// format prescribes.  How the text is put together does not matter.
	fn := c.fn("type1", "writeEncoding")
	fname := "type1.writeEncoding"
	psFn := c.method("postscript", "Name", "PS")
	stdFn := c.fnOpt("type1", "isStandardEncoding")
	encIdx := -1
	for i, p := range fn.Params {
		if sl, ok := p.Type().Underlying().(*types.Slice); ok {
			if bt, ok := sl.Elem().Underlying().(*types.Basic); ok && bt.Info()&types.IsString != 0 && encIdx < 0 {
				encIdx = i
			}
		}
	}
	if encIdx < 0 {
		c.undecided("W-ENCODING", fname, "explicit encoding: 256 array preset to .notdef, every other entry written as `dup code /name put`", fn.Pos(), "writeEncoding has no parameter holding the encoding vector ([]string)")
		return
	}
	mark := func(name string) string { return "\u27e8" + name + "\u27e9" }
	run := func(enc []string, present bool) (string, string) {
		ev := &ssaEval{c: c, bind: map[ssa.Value]sv{}, mem: map[string]sv{}}
		sm := &strModel{e: ev, text: map[string]string{}}
		ev.oracle = func(op token.Token, x, y sv) (bool, bool) {
			// an entry compared with a name the table does not know (a standard name): different
			if (x.k == svString) != (y.k == svString) && (op == token.EQL || op == token.NEQ) {
				return op == token.NEQ, true
			}
			return false, false
		}
		ev.call = func(call ssa.CallInstruction, args []sv) (sv, bool) {
			if call == nil {
				if len(args) == 3 && args[0].s == "lookup" {
					// is there a glyph of that name in the font: fixed by the cell
					return sv{k: svTuple, tup: []sv{symV("glyph"), boolV(present)}}, true
				}
				return sv{}, false
			}
			switch sc := call.Common().StaticCallee(); {
			case sc != nil && sc == psFn:
				if len(args) == 1 && args[0].k == svString {
					return sv{k: svString, s: mark(args[0].s)}, true
				}
				return sv{}, false
			case sc != nil && sc == stdFn:
				return boolV(false), true // the cells are not the standard encoding
			}
			return sm.call(call, args)
		}
		var el []sv
		for _, n := range enc {
			el = append(el, sv{k: svString, s: n})
		}
		args := make([]sv, len(fn.Params))
		for i := range args {
			args[i] = symV(fmt.Sprintf("arg%d", i))
		}
		args[encIdx] = ev.newList(el)
		ret := ev.runFunc(fn, args)
		if sm.bad != "" {
			return "", "not evaluable: " + sm.bad
		}
		if len(ret) != 1 || ret[0].k != svString {
			return "", "not evaluable: " + ev.why
		}
		return ret[0].s, ""
	}
	want := func(enc []string) string {
		var sb strings.Builder
		sb.WriteString("/Encoding 256 array\n0 1 255 {1 index exch /.notdef put} for\n")
		for i, n := range enc {
			if n != ".notdef" {
				fmt.Fprintf(&sb, "dup %d %s put\n", i, mark(n))
			}
		}
		sb.WriteString("readonly def\n")
		return sb.String()
	}
	vec := func(set map[int]string) []string {
		v := make([]string, 256)
		for i := range v {
			v[i] = ".notdef"
			if n, ok := set[i]; ok {
				v[i] = n
			}
		}
		return v
	}
	all := map[int]string{}
	for i := 0; i < 256; i++ {
		all[i] = fmt.Sprintf("g%d", i)
	}
	cells := []struct {
		what string
		enc  []string
	}{
		{"every entry .notdef", vec(nil)},
		{"a name at code 0 only", vec(map[int]string{0: "first"})},
		{"a name at code 255 only", vec(map[int]string{255: "last"})},
		{"names at codes 0, 1, 65, 66, 254, 255", vec(map[int]string{0: "a", 1: "b", 65: "A", 66: "notdef", 254: "y", 255: "z"})},
		{"every entry a name", vec(all)},
	}
	bad := ""
	for _, cl := range cells {
		for _, present := range []bool{true, false} {
			got, why := run(cl.enc, present)
			if why == "" && got != want(cl.enc) {
				why = "writes " + diffAt(got, want(cl.enc))
			}
			if why != "" && bad == "" {
				bad = fmt.Sprintf("%s (glyphs of the names in the font: %v): %s", cl.what, present, why)
			}
		}
	}
	c.check(bad == "", "W-ENCODING", fname, "explicit encoding: 256 array preset to .notdef, every other entry written as `dup code /name put`", fn.Pos(), fmt.Sprintf("%d encodings × glyph present/absent evaluated, text compared", len(cells)), "explicit encoding: "+bad)
	// length guard: no Encoding entry unless there are 256 entries
	badLen := ""
	for _, L := range []int{0, 1, 255, 257} {
		enc := make([]string, L)
		for i := range enc {
			enc[i] = fmt.Sprintf("g%d", i)
		}
		got, why := run(enc, true)
		if (why != "" || got != "") && badLen == "" {
			badLen = fmt.Sprintf("%d entries: %s%s", L, why, diffAt(got, ""))
		}
	}
	c.check(badLen == "", "W-ENCODING", fname, "no Encoding entry unless the font has a 256-entry encoding", fn.Pos(), "lengths 0, 1, 255, 257 return the empty string", "writeEncoding does not return the empty string for an encoding whose length is not 256: "+badLen)
}

// diffAt renders the first place where got differs from want.
func diffAt(got, want string) string {
	if got == want {
		return ""
	}
	i := 0
	for i < len(got) && i < len(want) && got[i] == want[i] {
		i++
	}
	lo := i - 12
	if lo < 0 {
		lo = 0
	}
	cut := func(s string) string {
		hi := i + 28
		if hi > len(s) {
			hi = len(s)
		}
		if lo > len(s) {
			return ""
		}
		return s[lo:hi]
	}
	return fmt.Sprintf("%q where %q is expected (offset %d)", cut(got), cut(want), i)
}
