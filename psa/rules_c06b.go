package main

import (
	"fmt"
	"go/token"
	"go/types"
	"sort"
	"strings"

	"golang.org/x/tools/go/ssa"
)

// C06 — the charstring command table, decided by evaluating one pass of the decoder's command
// loop on the SSA form (ssaeval.go) for every command and every operand-stack depth: the input
// is the concrete byte sequence of one command, the operand stack is symbolic (s0, s1, …), the
// helper closures that emit path commands are recognised by what they emit, and what the
// decoder does — error, helper calls with their arguments, stack cleared or not, new stack
// content — is compared with the Type 1 book's table.  The spelling of the decoder (switch or if
// chain, guard forms, hoisted locals) plays no part.

type t1Outcome struct {
	err      bool     // the decoder returns an error
	errName  string   // rendering of the error value
	calls    []string // helper calls: kind(arg,…)
	cleared  bool     // the operand stack was emptied
	newTop   string   // value appended / stored on the operand stack, if any
	stack    string   // rendering of the final stack value
	ps, flex string   // PostScript stack and flex buffer after the pass
	appended []string // values appended to slices other than the operand stack
	flags    map[string]bool
	panics   bool
	back     bool // the pass ended by going on to the next command
	ret      bool // returned without error
	why      string
	effects  []ssaEffect
	// the bytes still to be decoded, the operand stack and the stack of return frames as they are
	// when the pass goes on to the next command
	code      sv
	stackVals []sv
	frames    []sv
	// carried: the numeric locals of the decoder (preset to the symbol that is the key) as they
	// are after the pass: values carried by the command loop and cells shared with closures
	carried map[string]sv
	// appendedVals: the values appended to any list during the pass, element by element
	appendedVals []sv
}

type t1Machine struct {
	c     *Ctx
	fn    *ssa.Function
	inner *ssa.BasicBlock // header of the per-command loop
	kinds map[*ssa.Function]string
	// flexFirst: of the two []float64 values carried by the command loop the first one (in phi
	// order) is the flex buffer, the second the PostScript stack
	flexFirst bool
	// inlineHelpers: evaluate the path helpers in place instead of recording their calls
	inlineHelpers bool
	// subrs: the subroutines of the font (what a load of a [][]byte delivers); nil = unknown
	subrs [][]byte
	// nframes: the number of return frames already on the call stack when the pass begins
	// (only if framesSet; otherwise one frame)
	framesSet bool
	nframes   int
}

// closureKinds classifies the closures of the decoder by what they emit.
func (c *Ctx) t1ClosureKinds(fn *ssa.Function) map[*ssa.Function]string {
	kinds := map[*ssa.Function]string{}
	opVal := map[int64]string{c.constInt("type1", "OpMoveTo"): "move", c.constInt("type1", "OpLineTo"): "line", c.constInt("type1", "OpCurveTo"): "curve", c.constInt("type1", "OpClosePath"): "close"}
	for _, an := range fn.AnonFuncs {
		kind := ""
		eachInstr(an, func(ins ssa.Instruction) {
			switch x := ins.(type) {
			case *ssa.Store:
				if fa, ok := x.Addr.(*ssa.FieldAddr); ok {
					st := fa.X.Type().Underlying().(*types.Pointer).Elem().Underlying().(*types.Struct)
					if st.Field(fa.Field).Name() == "Op" {
						if k, isC := constInt(x.Val); isC {
							if n := opVal[k]; n != "" && (kind == "" || kind == "close") {
								kind = n
							}
						}
					}
				}
				// stack = stack[:0]
				if sl, ok := x.Val.(*ssa.Slice); ok && sl.High != nil && sl.Low == nil {
					if k, isC := constInt(sl.High); isC && k == 0 && len(an.Params) == 0 && kind == "" {
						if _, isF := sl.Type().Underlying().(*types.Slice); isF {
							kind = "clear"
						}
					}
				}
			}
		})
		if kind != "" {
			kinds[an] = kind
		}
	}
	c.t1HelperKindsX3(fn, opVal, kinds) // path helpers that are methods or functions (ext_x3.go)
	return kinds
}

func (c *Ctx) t1Machine() *t1Machine {
	fn := c.method("type1", "decodeInfo", "decodeCharString")
	m := &t1Machine{c: c, fn: fn, kinds: c.t1ClosureKinds(fn)}
	// the per-command loop: the innermost loop header whose condition tests the length of the
	// []byte being decoded
	for _, b := range fn.Blocks {
		isHeader := false
		for _, p := range b.Preds {
			if b.Dominates(p) {
				isHeader = true
			}
		}
		if !isHeader {
			continue
		}
		if ifi, ok := b.Instrs[len(b.Instrs)-1].(*ssa.If); ok {
			if cm, ok := asCmp(cond{ifi.Cond, true, b}); ok {
				for _, v := range []ssa.Value{cm.x, cm.y} {
					if call, ok := origin(v).(*ssa.Call); ok {
						if bi, ok := call.Call.Value.(*ssa.Builtin); ok && bi.Name() == "len" {
							if sl, ok := call.Call.Args[0].Type().Underlying().(*types.Slice); ok {
								if bt, ok := sl.Elem().Underlying().(*types.Basic); ok && bt.Kind() == types.Uint8 {
									m.inner = b
								}
							}
						}
					}
				}
			}
		}
	}
	if m.inner == nil {
		abort("anchor: the per-command loop of the charstring decoder (a loop over the bytes of the charstring) was not found")
	}
	// othersubr 2 appends the current point to the flex buffer: that tells the two lists apart
	o := m.othersubr(2, nil, nil, nil)
	if o.ps != "[]" && o.flex == "[]" {
		m.flexFirst = true
	}
	return m
}

func fl(x float64) sv { return sv{k: svFloat, f: x} }

func isByteSliceSlice(t types.Type) bool {
	sl, ok := t.Underlying().(*types.Slice)
	if !ok {
		return false
	}
	in, ok := sl.Elem().Underlying().(*types.Slice)
	if !ok {
		return false
	}
	bt, ok := in.Elem().Underlying().(*types.Basic)
	return ok && bt.Kind() == types.Uint8
}

// othersubr evaluates `args… n idx callothersubr`.
func (m *t1Machine) othersubr(idx int, args, ps, flex []sv) t1Outcome {
	code := m.c.constInt("type1", "t1callothersubr")
	stack := append(append([]sv{}, args...), fl(float64(len(args))), fl(float64(idx)))
	return m.runX([]byte{12, byte(code & 0xff)}, stack, ps, flex, nil)
}

// run evaluates one pass of the command loop for the command bytes with `depth` symbolic
// operands s0… on the stack and psDepth values p0… on the PostScript stack.
func (m *t1Machine) run(code []byte, depth, psDepth int) t1Outcome {
	var stack, ps []sv
	for i := 0; i < depth; i++ {
		stack = append(stack, symV(fmt.Sprintf("s%d", i)))
	}
	for i := 0; i < psDepth; i++ {
		ps = append(ps, symV(fmt.Sprintf("p%d", i)))
	}
	return m.runX(code, stack, ps, nil, nil)
}

// runX: the same with explicit contents of the operand stack, the PostScript stack and the flex
// buffer, and with preset values for the boolean cells of the decoder (by cell comment).
func (m *t1Machine) runX(code []byte, stack, ps, flex []sv, flags map[string]bool) t1Outcome {
	c := m.c
	fn := m.fn
	ev := &ssaEval{c: c, bind: map[ssa.Value]sv{}, mem: map[string]sv{}}
	out := t1Outcome{}
	nonNilSyms, ambiguous, globalOfSym := map[string]bool{}, map[string]bool{}, map[string]*ssa.Global{}
	ev.oracle = errOracleX3(nonNilSyms)
	ev.load = func(ld *ssa.UnOp, addr sv) (sv, bool) {
		a := addr.s
		if strings.HasPrefix(a, "global:") {
			name := a[strings.LastIndex(a, ".")+1:]
			// an error value kept in a package-level variable is not nil (ext_x3.go); two variables
			// of the same name in different packages are not told apart by the symbol: no answer
			if g, ok := ld.X.(*ssa.Global); ok {
				if prev, seen := globalOfSym[name]; seen && prev != g {
					delete(nonNilSyms, name)
					ambiguous[name] = true
				} else if globalOfSym[name] = g; !ambiguous[name] && c.nonNilErrorGlobalX3(g) {
					nonNilSyms[name] = true
				}
			}
			return symV(name), true
		}
		if m.subrs != nil && isByteSliceSlice(ld.Type()) {
			var el []sv
			for _, sb := range m.subrs {
				el = append(el, sv{k: svString, s: string(sb)})
			}
			return ev.newList(el), true
		}
		return sv{}, false
	}
	ev.call = func(call ssa.CallInstruction, args []sv) (sv, bool) {
		if call == nil {
			return sv{}, false
		}
		cc := call.Common()
		// a path helper is a closure of the decoder, or a method / function it calls: its operands
		// are the real-valued arguments (not the receiver or the objects it works on)
		if sc := cc.StaticCallee(); sc != nil && !cc.IsInvoke() {
			if k := m.kinds[sc]; k != "" && k != "clear" && !m.inlineHelpers {
				var p []string
				args = helperOperandsX3(sc, args)
				for _, a := range args {
					p = append(p, a.String())
				}
				out.calls = append(out.calls, k+"("+strings.Join(p, ",")+")")
				ev.effects = append(ev.effects, ssaEffect{ins: call, what: "helper:" + k, args: args})
				return sv{}, true
			}
		}
		if n := callName(call); n == "builtin append" && len(args) >= 2 {
			var p []string
			for _, a := range args[1:] {
				p = append(p, ev.render(a))
			}
			out.appended = append(out.appended, p...)
			for _, a := range args[1:] {
				if el, ok := ev.elems(a); ok && (a.k == svList || a.op == "slice") {
					out.appendedVals = append(out.appendedVals, el...)
				} else {
					out.appendedVals = append(out.appendedVals, a)
				}
			}
			return term("append", args...), true
		}
		return sv{}, false
	}
	fr := &frame{vals: map[ssa.Value]sv{}}
	fr.vals[fn.Params[0]] = sv{k: svAddr, s: "info"}
	fr.vals[fn.Params[1]] = sv{k: svString, s: string(code)}
	fr.vals[fn.Params[2]] = symV("name")
	ev.guide = guideTo(m.inner)
	at, from0, _ := ev.runBlocks(fr, fn.Blocks[0], nil, func(next, from *ssa.BasicBlock) bool { return next == m.inner })
	if at != m.inner {
		out.why = "the command loop is not reached: " + ev.why
		return out
	}
	ev.guide = nil
	// which captured []float64 cell is the operand stack: the one the clear helper writes
	isStackCell := func(al *ssa.Alloc) bool {
		for an, k := range m.kinds {
			if k != "clear" {
				continue
			}
			for _, ins2 := range fn.Blocks[0].Instrs {
				if mc, ok := ins2.(*ssa.MakeClosure); ok && mc.Fn == ssa.Value(an) {
					for _, b := range mc.Bindings {
						if b == ssa.Value(al) {
							return true
						}
					}
				}
			}
		}
		return false
	}
	stackCell := ""
	var psPhi, flexPhi, codePhi, framesPhi *ssa.Phi
	var numPhis []*ssa.Phi
	numCells := map[string]string{}
	floatLists := 0
	for _, ins := range m.inner.Instrs {
		phi, ok := ins.(*ssa.Phi)
		if !ok {
			continue
		}
		switch t := phi.Type().Underlying().(type) {
		case *types.Slice:
			if bt, ok := t.Elem().Underlying().(*types.Basic); ok {
				switch bt.Kind() {
				case types.Uint8:
					fr.vals[phi] = sv{k: svString, s: string(code)}
					codePhi = phi
				case types.Float64:
					// two float lists are carried by the loop: the PostScript stack and the
					// flex buffer; they are told apart below by what othersubr 2 appends to
					floatLists++
					if psPhi == nil {
						psPhi = phi
					} else {
						flexPhi = phi
					}
				}
			} else {
				frames := []sv{symV("outer")}
				if m.framesSet {
					frames = nil
					for i := 0; i < m.nframes; i++ {
						frames = append(frames, symV(fmt.Sprintf("outer%d", i)))
					}
				}
				fr.vals[phi] = ev.newList(frames)
				if isByteSliceSlice(phi.Type()) {
					framesPhi = phi
				}
			}
		case *types.Basic:
			if t.Info()&types.IsBoolean != 0 {
				fr.vals[phi] = boolV(flags[phi.Comment])
			} else if isStepCounter(phi) {
				// a budget counter (only ever incremented, compared with a constant): the table
				// describes a step taken within the budget
				fr.vals[phi] = intV(0)
			} else {
				fr.vals[phi] = symV("v:" + phi.Comment)
				numPhis = append(numPhis, phi)
			}
		}
	}
	// the return frames kept in a fixed array with a counter instead of a slice: the array cell
	// holds the frames, the integer carried by the loop that indexes it counts them — starting
	// from the value it has when the loop is entered with no call outstanding
	frameArr, frameBase := "", int64(0)
	var depthPhi *ssa.Phi
	if framesPhi == nil {
		if al, phi := m.frameArray(); al != nil {
			if a := ev.val(fr, al); a.k == svAddr {
				for i, p := range m.inner.Preds {
					if p == from0 {
						if b0 := ev.val(fr, phi.Edges[i]); b0.k == svInt {
							frameArr, frameBase, depthPhi = a.s, b0.i, phi
						}
					}
				}
			}
		}
		if frameArr != "" {
			n := 1
			if m.framesSet {
				n = m.nframes
			}
			for i := 0; i < n; i++ {
				name := "outer"
				if m.framesSet {
					name = fmt.Sprintf("outer%d", i)
				}
				ev.mem[fmt.Sprintf("%s[%d]", frameArr, i)] = symV(name)
			}
			fr.vals[depthPhi] = intV(frameBase + int64(n))
		}
	}
	if m.flexFirst {
		psPhi, flexPhi = flexPhi, psPhi
	}
	if psPhi != nil {
		fr.vals[psPhi] = ev.newList(ps)
	}
	if flexPhi != nil {
		fr.vals[flexPhi] = ev.newList(flex)
	}
	boolCells := map[string]string{}
	for _, ins := range fn.Blocks[0].Instrs {
		al, ok := ins.(*ssa.Alloc)
		if !ok {
			continue
		}
		a := ev.val(fr, al)
		if a.k != svAddr {
			continue
		}
		switch t := al.Type().Underlying().(*types.Pointer).Elem().Underlying().(type) {
		case *types.Slice:
			if bt, ok := t.Elem().Underlying().(*types.Basic); ok && bt.Kind() == types.Float64 {
				if isStackCell(al) {
					ev.mem[a.s] = ev.newList(stack)
					stackCell = a.s
				}
			}
		case *types.Basic:
			if t.Info()&types.IsBoolean != 0 {
				ev.mem[a.s] = boolV(flags[al.Comment])
				boolCells[a.s] = al.Comment
			} else if t.Info()&types.IsNumeric != 0 {
				ev.mem[a.s] = symV("v:" + al.Comment)
				numCells[a.s] = "v:" + al.Comment
			}
		}
	}
	m.presetStateFieldsX3(ev, fr, flags, boolCells) // decoder state kept in fields of a local object (ext_x3.go)
	ev.effects, ev.why = nil, ""
	var from *ssa.BasicBlock
	_, from, ret := ev.runBlocks(fr, m.inner, nil, func(next, f *ssa.BasicBlock) bool {
		if next == m.inner {
			out.back = true
		}
		return next == m.inner
	})
	out.why = ev.why
	out.effects = ev.effects
	for _, ef := range ev.effects {
		if ef.what == "panic" {
			out.panics = true
		}
	}
	if ret != nil {
		last := ret[len(ret)-1]
		if last.k == svNil {
			out.ret = true
		} else {
			out.err = true
			out.errName = last.String()
		}
	}
	if stackCell != "" {
		v := ev.mem[stackCell]
		out.stack = ev.render(v)
		if el, ok := ev.elems(v); ok {
			out.stackVals = append([]sv{}, el...)
			if len(el) == 0 {
				out.cleared = true
			}
		}
	}
	// the lists carried by the loop, as they are when the pass goes on to the next command
	if out.back && from != nil {
		for i, p := range m.inner.Preds {
			if p != from {
				continue
			}
			if psPhi != nil {
				out.ps = ev.render(ev.val(fr, psPhi.Edges[i]))
			}
			if flexPhi != nil {
				out.flex = ev.render(ev.val(fr, flexPhi.Edges[i]))
			}
			if codePhi != nil {
				out.code = ev.val(fr, codePhi.Edges[i])
			}
			if framesPhi != nil {
				if el, ok := ev.elems(ev.val(fr, framesPhi.Edges[i])); ok {
					out.frames = append([]sv{}, el...)
				}
			}
			for _, phi := range numPhis {
				if out.carried == nil {
					out.carried = map[string]sv{}
				}
				out.carried["v:"+phi.Comment] = ev.val(fr, phi.Edges[i])
			}
			if depthPhi != nil {
				if nd := ev.val(fr, depthPhi.Edges[i]); nd.k == svInt {
					out.frames = []sv{}
					for j := int64(0); j < nd.i-frameBase && j < 4096; j++ {
						out.frames = append(out.frames, ev.mem[fmt.Sprintf("%s[%d]", frameArr, j)])
					}
				}
			}
		}
	}
	if out.back {
		for cell, name := range numCells {
			if out.carried == nil {
				out.carried = map[string]sv{}
			}
			out.carried[name] = ev.mem[cell]
		}
		// numeric locals grouped into a struct: a field cell that was never written is read as the
		// symbol *cell.f, and that is the key under which its value after the pass is listed
		for k, v := range ev.mem {
			if strings.HasPrefix(k, "cell") && strings.Contains(k, ".") && (v.k == svSym || v.k == svInt || v.k == svFloat) {
				if _, isCell := numCells[k]; !isCell {
					if out.carried == nil {
						out.carried = map[string]sv{}
					}
					out.carried["*"+k] = v
				}
			}
		}
	}
	out.flags = map[string]bool{}
	for cell, name := range boolCells {
		if v := ev.mem[cell]; v.k == svBool {
			out.flags[name] = v.b
		}
	}
	return out
}

// frameArray: the local array of byte slices that holds the return frames of the decoder, and
// the integer carried by the command loop that indexes it (directly, off by a constant, or
// through the counter of the enclosing loop).  nil, nil when the decoder has no such array.
func (m *t1Machine) frameArray() (*ssa.Alloc, *ssa.Phi) {
	rootPhi := func(v ssa.Value) *ssa.Phi {
		for i := 0; i < 8; i++ {
			switch x := v.(type) {
			case *ssa.Phi:
				return x
			case *ssa.Convert:
				v = x.X
			case *ssa.BinOp:
				_, yc := x.Y.(*ssa.Const)
				_, xc := x.X.(*ssa.Const)
				switch {
				case (x.Op == token.ADD || x.Op == token.SUB) && yc:
					v = x.X
				case x.Op == token.ADD && xc:
					v = x.Y
				default:
					return nil
				}
			default:
				return nil
			}
		}
		return nil
	}
	var arr *ssa.Alloc
	var idx *ssa.Phi
	eachInstr(m.fn, func(ins ssa.Instruction) {
		ia, ok := ins.(*ssa.IndexAddr)
		if !ok {
			return
		}
		al, ok := ia.X.(*ssa.Alloc)
		if !ok {
			return
		}
		at, ok := al.Type().Underlying().(*types.Pointer).Elem().Underlying().(*types.Array)
		if !ok {
			return
		}
		if sl, ok := at.Elem().Underlying().(*types.Slice); !ok {
			return
		} else if bt, ok := sl.Elem().Underlying().(*types.Basic); !ok || bt.Kind() != types.Uint8 {
			return
		}
		r := rootPhi(ia.Index)
		if r == nil {
			return
		}
		for _, hi := range m.inner.Instrs {
			phi, ok := hi.(*ssa.Phi)
			if !ok {
				continue
			}
			hit := r == phi
			for _, e := range r.Edges {
				if rootPhi(e) == phi {
					hit = true
				}
			}
			if hit && (arr == nil || arr == al) {
				arr, idx = al, phi
			}
		}
	})
	return arr, idx
}

func (c *Ctx) t1CommandTable() {
	m := c.t1Machine()
	fname := "type1.(*decodeInfo).decodeCharString"
	pos := m.fn.Pos()
	var names []string
	for n := range t1Spec {
		names = append(names, n)
	}
	sort.Strings(names)
	bytesOf := func(code int64) []byte {
		if code >= 0x0c00 {
			return []byte{12, byte(code & 0xff)}
		}
		return []byte{byte(code)}
	}
	for _, n := range names {
		spec := t1Spec[n]
		code := bytesOf(c.constInt("type1", n))
		// arity: too few operands → error; enough → no "operand" error
		var bad []string
		for d := 0; d <= spec.args+1 && d <= 8; d++ {
			o := m.run(code, d, 2)
			switch {
			case d < spec.args && !o.err:
				bad = append(bad, fmt.Sprintf("with %d operand(s) on the stack the command is not refused (%s)", d, o.why))
			case d >= spec.args && o.err && n != "t1seac" && n != "t1callsubr" && n != "t1callothersubr" && n != "t1endchar" && n != "t1return":
				bad = append(bad, fmt.Sprintf("with %d operand(s) on the stack the command is refused (%s)", d, o.errName))
			}
		}
		if spec.args == 0 {
			o := m.run(code, 0, 2)
			c.check(!o.err || n == "t1pop" || n == "t1endchar" || n == "t1return", "T1-ARITY", fname, n+": takes no operands", pos, "accepted on an empty operand stack", n+" is refused on an empty operand stack although the book gives it no operands ("+o.errName+")")
		} else {
			c.check(len(bad) == 0, "T1-ARITY", fname, fmt.Sprintf("%s: %d operand(s) demanded before any is read", n, spec.args), pos, fmt.Sprintf("depths 0..%d evaluated", spec.args+1), n+": "+joinMax(bad, 2)+"; the book gives the command "+fmt.Sprint(spec.args)+" operand(s)")
		}
		// clearing
		if n != "t1seac" && n != "t1callsubr" && n != "t1callothersubr" && n != "t1endchar" && n != "t1return" && n != "t1pop" && n != "t1div" {
			o := m.run(code, spec.args+1, 2)
			if o.why != "" && !o.back && !o.ret && !o.err {
				c.undecided("T1-CLEAR", fname, n+": effect on the operand stack", pos, n+": the command could not be evaluated: "+o.why)
			} else if spec.clears {
				c.check(o.cleared, "T1-CLEAR", fname, n+": clears the operand stack", pos, "stack emptied", n+" does not clear the operand stack: left-over operands shift the operands of every following command")
			} else {
				c.check(!o.cleared, "T1-CLEAR", fname, n+": leaves the operand stack for the following command", pos, "stack kept", n+" clears the operand stack although its results/remaining operands are needed by what follows")
			}
		}
		// path arguments
		if pa, ok := t1PathArgs[n]; ok {
			o := m.run(code, spec.args, 2)
			var want []string
			for _, a := range pa.args {
				if a < 0 {
					want = append(want, "0")
				} else {
					want = append(want, fmt.Sprintf("s%d", a))
				}
			}
			wantCall := pa.helper + "(" + strings.Join(want, ",") + ")"
			got := ""
			for _, cl := range o.calls {
				if !strings.HasPrefix(cl, "clear(") {
					got += cl
				}
			}
			c.check(got == wantCall, "T1-PATHARGS", fname, n+" → "+wantCall, pos, got, fmt.Sprintf("%s emits %s, the book prescribes %s", n, got, wantCall))
		}
	}
	// unknown commands are an error
	{
		known := map[string]bool{}
		for _, n := range names {
			known[string(bytesOf(c.constInt("type1", n)))] = true
		}
		var accepted []string
		for b := 0; b < 32; b++ {
			if b == 12 {
				for s := 0; s < 256; s++ {
					if !known[string([]byte{12, byte(s)})] {
						if o := m.run([]byte{12, byte(s)}, 8, 2); !o.err {
							accepted = append(accepted, fmt.Sprintf("12 %d", s))
						}
					}
				}
				continue
			}
			if !known[string([]byte{byte(b)})] {
				if o := m.run([]byte{byte(b)}, 8, 2); !o.err {
					accepted = append(accepted, fmt.Sprint(b))
				}
			}
		}
		c.check(len(accepted) == 0, "T1-DISPATCH", fname, "unknown commands are an error", pos, "all unassigned one- and two-byte command codes evaluated", "the command bytes "+joinMax(accepted, 5)+" are not assigned by the Type 1 book but are accepted")
	}
}

func (c *Ctx) t1Debug() {
	m := c.t1Machine()
	fmt.Println("closure kinds:")
	for f, k := range m.kinds {
		fmt.Println("  ", f.Name(), k)
	}
	var names []string
	for n := range t1Spec {
		names = append(names, n)
	}
	sort.Strings(names)
	for _, n := range names {
		code := c.constInt("type1", n)
		b := []byte{byte(code)}
		if code >= 0x0c00 {
			b = []byte{12, byte(code & 0xff)}
		}
		for _, d := range []int{t1Spec[n].args - 1, t1Spec[n].args} {
			if d < 0 {
				continue
			}
			o := m.run(b, d, 2)
			fmt.Printf("%-18s d=%d err=%v(%s) calls=%v cleared=%v stack=%s back=%v ret=%v why=%s\n", n, d, o.err, o.errName, o.calls, o.cleared, o.stack, o.back, o.ret, o.why)
		}
	}
}

// t1DivRule: div replaces the two top operands by second-from-top / top.
func (c *Ctx) t1DivRule() {
	m := c.t1Machine()
	fname := "type1.(*decodeInfo).decodeCharString"
	pos := m.fn.Pos()
	code := c.constInt("type1", "t1div")
	o := m.run([]byte{12, byte(code & 0xff)}, 3, 2)
	okDiv := o.stack == "[s0 /(s1,s2)]"
	inPlace, shrunk := false, false
	c.check(okDiv || (inPlace && shrunk), "NUM-DIV", fname, "div computes second-from-top / top", pos, o.stack, "the decoder's div does not replace its two operands by (second-from-top / top): new stack "+o.stack+" "+o.why)
}

// t1FlexRules: the flex protocol, argument transfer of callothersubr and pop, from the machine.
func (c *Ctx) t1FlexRules() {
	m := c.t1Machine()
	fname := "type1.(*decodeInfo).decodeCharString"
	pos := m.fn.Pos()
	syms := func(prefix string, n int) []sv {
		var l []sv
		for i := 0; i < n; i++ {
			l = append(l, symV(fmt.Sprintf("%s%d", prefix, i)))
		}
		return l
	}
	// othersubr 1: flex start
	o1 := m.othersubr(1, nil, nil, syms("f", 4))
	flag := ""
	for n, v := range o1.flags {
		if v {
			flag = n
		}
	}
	c.check(o1.back && o1.flex == "[]" && flag != "", "T1-FLEX", fname, "othersubr 1 starts a flex sequence: the buffer is emptied and the flex mode is switched on", pos, "flex buffer [] and mode flag set", fmt.Sprintf("othersubr 1 leaves the flex buffer %s and sets no flex mode flag (%s)", o1.flex, o1.why))
	// othersubr 2: record the current point
	o2 := m.othersubr(2, nil, nil, syms("f", 2))
	okPoint := o2.back && strings.HasPrefix(o2.flex, "[f0 f1 ") && len(strings.Fields(o2.flex)) == 4
	if okPoint {
		// two distinct numeric state variables of the decoder (locals, or fields of a local object)
		f := strings.Fields(strings.Trim(o2.flex, "[]"))
		okPoint = f[2] != f[3] && isStateSymX3(f[2]) && isStateSymX3(f[3])
	}
	c.check(okPoint, "T1-FLEX", fname, "othersubr 2 records the current point", pos, o2.flex, "othersubr 2 does not append the current point (x, y) to the flex buffer: "+o2.flex+" "+o2.why)
	// othersubr 0: seven points → two curves from points 1..6
	o0 := m.runFlexEnd(14, flag)
	want1, want2 := "Args:[f2 f3 f4 f5 f6 f7]", "Args:[f8 f9 f10 f11 f12 f13]"
	curve := fmt.Sprintf("Op:%d", c.constInt("type1", "OpCurveTo"))
	all := strings.Join(o0.appended, " ")
	i1, i2 := strings.Index(all, want1), strings.Index(all, want2)
	okEnd := i1 >= 0 && i2 > i1 && strings.Count(all, curve) == 2 && strings.Count(all, "Op:") == 2 && !o0.flags[flag] && o0.back
	o0short := m.runFlexEnd(12, flag)
	okEnd = okEnd && len(o0short.appended) == 0 && !o0short.panics
	c.check(okEnd, "T1-FLEX", fname, "othersubr 0 ends the sequence: with seven recorded points it emits two curves through points 1..6 and leaves flex mode", pos, strings.Join(o0.appended, " "), fmt.Sprintf("flex end emits %v (with six points: %v), flex mode afterwards %v %s", o0.appended, o0short.appended, o0.flags[flag], o0.why))
	// flex end without arguments must be refused, not crash
	oNoArg := m.othersubr(0, nil, nil, syms("f", 14))
	c.check(!oNoArg.panics && (oNoArg.err || oNoArg.back), "T1-FLEX", fname, "flex end without arguments is refused", pos, "", "`0 0 callothersubr` makes the decoder slice its PostScript stack out of range")
	// moves inside a flex sequence only record coordinates
	m.inlineHelpers = true
	code := []byte{byte(c.constInt("type1", "t1rmoveto"))}
	in := m.runX(code, syms("s", 2), nil, nil, map[string]bool{flag: true})
	outside := m.runX(code, syms("s", 2), nil, nil, map[string]bool{flag: false})
	m.inlineHelpers = false
	c.check(flag != "" && len(in.appended) == 0 && len(outside.appended) > 0 && in.back, "T1-FLEX", fname, "moves inside a flex sequence only record coordinates", pos, fmt.Sprintf("in flex mode rmoveto emits %d path commands, outside %d", len(in.appended), len(outside.appended)), fmt.Sprintf("rmoveto inside a flex sequence emits path commands %v: after a line this leaves a spurious closepath in the outline", in.appended))
	// argument transfer
	ox := m.othersubr(7, syms("a", 2), syms("p", 1), nil)
	c.check(ox.back && ox.ps == "[a1 a0]" && ox.stack == "[]", "T1-FLEX", fname, "callothersubr moves its arguments, last first, to the PostScript stack", pos, ox.ps, fmt.Sprintf("after `a0 a1 2 7 callothersubr` the PostScript stack is %s and the operand stack %s (%s); expected [a1 a0] and []", ox.ps, ox.stack, ox.why))
	// pop
	popCode := c.constInt("type1", "t1pop")
	p0 := m.run([]byte{12, byte(popCode & 0xff)}, 1, 0)
	p2 := m.run([]byte{12, byte(popCode & 0xff)}, 1, 2)
	c.check(p0.err && !p0.panics && p2.back && p2.stack == "[s0 p1]" && p2.ps == "[p0]", "T1-FLEX", fname, "pop moves the top of the PostScript stack to the operand stack (guarded)", pos, "empty → error; [p0 p1] → operand stack … p1, PostScript stack [p0]", fmt.Sprintf("pop on an empty PostScript stack: error %v; on [p0 p1]: operand stack %s, PostScript stack %s %s", p0.err, p2.stack, p2.ps, p2.why))
}

// runFlexEnd evaluates `x y z 3 0 callothersubr` with n values in the flex buffer and flex mode on.
func (m *t1Machine) runFlexEnd(n int, flag string) t1Outcome {
	var flex []sv
	for i := 0; i < n; i++ {
		flex = append(flex, symV(fmt.Sprintf("f%d", i)))
	}
	code := m.c.constInt("type1", "t1callothersubr")
	stack := []sv{symV("a0"), symV("a1"), symV("a2"), fl(3), fl(0)}
	return m.runX([]byte{12, byte(code & 0xff)}, stack, nil, flex, map[string]bool{flag: true})
}

// isStepCounter: an integer φ whose in-loop edges all add a positive constant to it and which is
// compared with a constant.
func isStepCounter(phi *ssa.Phi) bool {
	if bt, ok := phi.Type().Underlying().(*types.Basic); !ok || bt.Info()&types.IsInteger == 0 {
		return false
	}
	pi := analyzePhi(phi)
	if pi == nil || len(pi.steps) == 0 || !guarded(phi, pi) {
		return false
	}
	for _, k := range pi.steps {
		if k <= 0 {
			return false
		}
	}
	// the bound is a constant
	check := func(v ssa.Value) bool {
		for _, r := range *v.Referrers() {
			if b, ok := r.(*ssa.BinOp); ok {
				switch b.Op {
				case token.LSS, token.LEQ, token.GTR, token.GEQ:
					if _, isC := b.Y.(*ssa.Const); isC && b.X == v {
						return true
					}
				}
			}
		}
		return false
	}
	if check(phi) {
		return true
	}
	for _, sv := range pi.stepVals {
		if check(sv) {
			return true
		}
	}
	return false
}
