package main

import (
	"fmt"
	"go/token"
	"sort"
	"strings"

	"golang.org/x/tools/go/ssa"
)

// C03 — the loop operators (for, forall, loop, repeat), decided by evaluating each registered
// operator on the SSA form (ssaeval.go) with a typed symbolic operand stack.  Running the
// procedure is opaque: the table fixes what each successive run returns (nil, the exit signal,
// the stop signal, another error); what is on the operand stack at each run and what the
// operator finally returns is compared with the PLRM.  Helper functions wrapping the run or the
// exit test are evaluated in place.

type loopRun struct {
	stack string // operand stack when the procedure is run
	proc  string
	flag  string // the execute flag passed
}

type loopOutcome struct {
	runs  []loopRun
	ret   string // "nil", "error:<name>", "exit", "stop", "other", or a rendering
	why   string
	final string // operand stack when the operator returns
}

// dictValue: the value stored under a key of the dictionary operand of the table.  The entry
// whose key ends in "nil" holds the nil object (in this interpreter a valid PostScript object:
// the file object of `currentfile`, the initial element of `n array`); it is an entry like any
// other and must be visited.
func dictValue(key string) sv {
	if strings.HasSuffix(key, "nil") {
		return sv{k: svNil}
	}
	return symV("val:" + key)
}

func (c *Ctx) loopOperator(fn *ssa.Function, stack []sv, results []string, dictKeys []string) loopOutcome {
	ia := c.interp()
	var out loopOutcome
	ev := &ssaEval{c: c, bind: map[ssa.Value]sv{}, mem: map[string]sv{}}
	st := append([]sv{}, stack...)
	for i, v := range st {
		if v.k == svTuple && v.op == "Array" {
			l := ev.newList(v.tup)
			l.op = "Array"
			st[i] = l
		}
	}
	ev.mem["intp.Stack"] = ev.newList(st)
	exitG, stopG := c.signalGlobal("exit"), c.signalGlobal("stop")
	ev.noInline = func(g *ssa.Function) bool { return g == ia.executeOne }
	ev.load = func(ld *ssa.UnOp, addr sv) (sv, bool) {
		switch addr.s {
		case "global:" + exitG.String():
			return symV("exit"), true
		case "global:" + stopG.String():
			return symV("stop"), true
		}
		if strings.HasPrefix(addr.s, "global:") {
			return symV(addr.s[strings.LastIndex(addr.s, ".")+1:]), true
		}
		return sv{}, false
	}
	typeOf := func(v sv) string {
		if v.k == svList || v.k == svString {
			return v.op
		}
		if v.k == svInt {
			return "Integer"
		}
		if v.k == svBool {
			return "Boolean"
		}
		if i := strings.Index(v.s, ":"); v.k == svSym && i > 0 {
			return v.s[:i]
		}
		return ""
	}
	nextKey := 0
	ev.call = func(call ssa.CallInstruction, args []sv) (sv, bool) {
		if call == nil {
			switch {
			case len(args) == 2 && strings.HasPrefix(args[0].s, "typeassert:"):
				want := args[0].s[len("typeassert:"):]
				want = want[strings.LastIndex(want, ".")+1:]
				if typeOf(args[1]) == want {
					return sv{k: svTuple, tup: []sv{args[1], boolV(true)}}, true
				}
				return sv{k: svTuple, tup: []sv{{k: svNil}, boolV(false)}}, true
			case len(args) >= 1 && args[0].s == "next":
				if nextKey < len(dictKeys) {
					nextKey++
					return sv{k: svTuple, tup: []sv{boolV(true), {k: svString, s: dictKeys[nextKey-1]}, dictValue(dictKeys[nextKey-1])}}, true
				}
				return sv{k: svTuple, tup: []sv{boolV(false), {k: svNil}, {k: svNil}}}, true
			case len(args) == 3 && args[0].s == "lookup" && args[2].k == svString:
				return sv{k: svTuple, tup: []sv{dictValue(args[2].s), boolV(true)}}, true
			}
			return sv{}, false
		}
		cc := call.Common()
		n := callName(call)
		switch {
		case cc.StaticCallee() == ia.executeOne:
			r := "nil"
			if len(out.runs) < len(results) {
				r = results[len(out.runs)]
			}
			flag := "?"
			if len(args) == 3 {
				flag = args[2].String()
			}
			out.runs = append(out.runs, loopRun{stack: ev.render(ev.mem["intp.Stack"]), proc: args[1].String(), flag: flag})
			switch r {
			case "nil":
				return sv{k: svNil}, true
			case "exit", "stop":
				return symV(r), true
			}
			return symV("otherErr"), true
		case cc.StaticCallee() == ia.e:
			if len(cc.Args) > 1 {
				return symV("error:" + c.errNameOfArg(cc.Args[1])), true
			}
		case strings.HasPrefix(n, "slices.Sort") && len(args) == 1 && args[0].k == svList:
			el, _ := ev.elems(args[0])
			sort.SliceStable(el, func(i, j int) bool { return el[i].s < el[j].s })
			return sv{}, true
		case n == "maps.Keys" && len(args) == 1 && args[0].k == svSym && typeOf(args[0]) == "Dict":
			// the iterator over the keys of the dictionary operand (in map order, i.e. any order)
			return sv{k: svSym, s: "keys(" + args[0].s + ")", op: "mapkeys"}, true
		case (n == "slices.Collect" || n == "slices.Sorted") && len(args) == 1 && args[0].op == "mapkeys":
			// the stdlib forms of "collect the keys (and sort them)"
			var el []sv
			for _, k := range dictKeys {
				el = append(el, sv{k: svString, s: k})
			}
			if n == "slices.Sorted" {
				sort.SliceStable(el, func(i, j int) bool { return el[i].s < el[j].s })
			}
			return ev.newList(el), true
		case n == "builtin len" && len(args) == 1 && args[0].k == svSym:
			return intV(int64(len(dictKeys))), true
		}
		return sv{}, false
	}
	ev.oracle = func(op token.Token, x, y sv) (bool, bool) {
		if (x.k == svSym || x.k == svNil) && (y.k == svSym || y.k == svNil) {
			eq := x.String() == y.String()
			switch op {
			case token.EQL:
				return eq, true
			case token.NEQ:
				return !eq, true
			}
		}
		return false, false
	}
	ret := ev.runFunc(fn, []sv{{k: svAddr, s: "intp"}})
	out.why = ev.why
	out.final = ev.render(ev.mem["intp.Stack"])
	if len(ret) == 1 {
		switch {
		case ret[0].k == svNil:
			out.ret = "nil"
		case ret[0].s == "otherErr":
			out.ret = "other"
		default:
			out.ret = ret[0].String()
		}
	}
	return out
}

func (c *Ctx) loopOperatorRules() {
	reg := c.registry()
	keep := obj("Integer", "keep")
	proc := obj("Procedure", "body")
	check := func(rule, op, construct string, ok bool, tactic, detail string) {
		f := reg.op("systemdict", op)
		c.check(ok, rule, c.fname(f), construct, f.Pos(), tactic, detail)
	}
	stacksOf := func(o loopOutcome) string {
		var p []string
		for _, r := range o.runs {
			p = append(p, r.stack)
		}
		return strings.Join(p, " ")
	}
	cases := []struct {
		op, kind string
		stack    []sv
		lists    map[int][]sv // positions of the stack that are array operands with these elements
		strs     map[int]string
		keys     []string
		want     []string
	}{
		{op: "for", kind: "", stack: []sv{keep, intV(1), intV(2), intV(5), proc}, want: []string{"[Integer:keep 1]", "[Integer:keep 1 3]", "[Integer:keep 1 3 5]"}},
		{op: "for", kind: " (negative increment)", stack: []sv{keep, intV(5), intV(-2), intV(1), proc}, want: []string{"[Integer:keep 5]", "[Integer:keep 5 3]", "[Integer:keep 5 3 1]"}},
		{op: "repeat", kind: "", stack: []sv{keep, intV(3), proc}, want: []string{"[Integer:keep]", "[Integer:keep]", "[Integer:keep]"}},
		{op: "loop", kind: "", stack: []sv{keep, proc}, want: []string{"[Integer:keep]", "[Integer:keep]", "[Integer:keep]"}},
		{op: "forall", kind: " (array)", stack: []sv{keep, {}, proc}, lists: map[int][]sv{1: {symV("Name:a"), symV("Name:b"), symV("Name:c")}}, want: []string{"[Integer:keep Name:a]", "[Integer:keep Name:a Name:b]", "[Integer:keep Name:a Name:b Name:c]"}},
		{op: "forall", kind: " (string)", stack: []sv{keep, {}, proc}, strs: map[int]string{1: "x\xe9z"}, want: []string{"[Integer:keep 120]", "[Integer:keep 120 233]", "[Integer:keep 120 233 122]"}},
		{op: "forall", kind: " (dictionary)", stack: []sv{keep, obj("Dict", "d"), proc}, keys: []string{"k2nil", "k1", "k3"}, want: []string{`[Integer:keep "k1" val:k1]`, `[Integer:keep "k1" val:k1 "k2nil" nil]`, `[Integer:keep "k1" val:k1 "k2nil" nil "k3" val:k3]`}},
	}
	build := func(i int, results []string) loopOutcome {
		cs := cases[i]
		return c.loopOperatorWith(reg.op("systemdict", cs.op), cs.stack, cs.lists, cs.strs, results, cs.keys)
	}
	for i, cs := range cases {
		name := cs.op + cs.kind
		// (a) protocol: what is pushed per iteration; the body is run as a procedure
		results := []string{"nil", "nil", "nil", "exit"}
		o := build(i, results)
		want := strings.Join(cs.want, " ")
		got := stacksOf(o)
		if cs.op == "loop" {
			// loop runs until exit: the fourth run ends it
			okL := len(o.runs) == 4 && o.ret == "nil" && strings.HasPrefix(got, want)
			check("CTL-LOOPPROTO", cs.op, name+": values pushed per iteration", okL, fmt.Sprintf("%d runs", len(o.runs)), fmt.Sprintf("loop: %d runs with operand stacks %s, result %s %s; expected the body to be run until it signals exit, with nothing pushed", len(o.runs), got, o.ret, o.why))
		} else {
			okP := len(o.runs) == 3 && got == want && o.ret == "nil"
			check("CTL-LOOPPROTO", cs.op, name+": values pushed per iteration", okP, fmt.Sprintf("%d runs", len(o.runs)), fmt.Sprintf("%s: the body is run %d time(s) with operand stacks %s (result %s %s); the PLRM prescribes 3 runs with %s", name, len(o.runs), got, o.ret, o.why, want))
		}
		flags := true
		for _, r := range o.runs {
			if r.flag != "true" || r.proc != "Procedure:body" {
				flags = false
			}
		}
		check("CTL-LOOPPROTO", cs.op, name+": the operand is run as a procedure", flags && len(o.runs) > 0, "executeOne(proc, true)", name+" does not run its procedure operand with the execute flag set")
		// (b) exit leaves the loop and is not an error; other errors and stop are passed on
		oe := build(i, []string{"nil", "exit"})
		ox := build(i, []string{"nil", "other"})
		os := build(i, []string{"stop"})
		okExit := len(oe.runs) == 2 && oe.ret == "nil" && len(ox.runs) == 2 && ox.ret == "other" && len(os.runs) == 1 && os.ret == "stop"
		check("CTL-EXIT", cs.op, name+": exit leaves the loop (result nil); stop and other errors are passed on", okExit, "results nil/exit/other/stop evaluated",
			fmt.Sprintf("%s: after `exit` in the second run: %d runs, result %s; after another error: %d runs, result %s; after `stop`: %d runs, result %s %s%s%s", name, len(oe.runs), oe.ret, len(ox.runs), ox.ret, len(os.runs), os.ret, oe.why, ox.why, os.why))
	}
	// for: the termination predicate on the first test
	{
		f := reg.op("systemdict", "for")
		bits := uint(8 * c.pkg("postscript").TypesSizes.Sizeof(c.typeObj("postscript", "Integer").Type()))
		minI := int64(-1) << (bits - 1)
		maxI := -(minI + 1)
		var bad []string
		for _, t := range []struct {
			init, inc, limit int64
			runs             int
		}{{1, 1, 3, 3}, {3, 1, 3, 1}, {4, 1, 3, 0}, {3, -1, 1, 3}, {1, -1, 1, 1}, {0, -1, 1, 0}, {1, 2, 2, 1}, {5, -3, 0, 2},
			// the control variable must not wrap around at the ends of the integer range
			{maxI - 1, 1, maxI, 2}, {minI + 1, -1, minI, 2}, {maxI - 1, 5, maxI, 1}} {
			o := c.loopOperatorWith(f, []sv{keep, intV(t.init), intV(t.inc), intV(t.limit), proc}, nil, nil, []string{"nil", "nil", "nil", "nil", "exit"}, nil)
			if len(o.runs) != t.runs || o.ret != "nil" {
				bad = append(bad, fmt.Sprintf("%d %d %d {…} for runs its body %d time(s) (result %s %s), the PLRM prescribes %d", t.init, t.inc, t.limit, len(o.runs), o.ret, o.why, t.runs))
			}
		}
		c.check(len(bad) == 0, "CTL-FORPRED", c.fname(f), "termination ≡ (inc>0 ∧ v>limit) ∨ (inc<0 ∧ v<limit); the control variable starts at initial and advances by increment", f.Pos(), "11 sign/order/boundary cells evaluated", "the termination test of `for` differs from the PLRM: "+joinMax(bad, 3))
	}
	// repeat: trip count
	{
		f := reg.op("systemdict", "repeat")
		var bad []string
		for _, n := range []int64{0, 1, 4} {
			o := c.loopOperatorWith(f, []sv{keep, intV(n), proc}, nil, nil, nil, nil)
			if int64(len(o.runs)) != n || o.ret != "nil" {
				bad = append(bad, fmt.Sprintf("%d {…} repeat runs its body %d time(s) (result %s %s)", n, len(o.runs), o.ret, o.why))
			}
		}
		o := c.loopOperatorWith(f, []sv{keep, intV(-1), proc}, nil, nil, nil, nil)
		if len(o.runs) != 0 || o.ret != "error:rangecheck" {
			bad = append(bad, fmt.Sprintf("-1 {…} repeat runs its body %d time(s) and returns %s, expected rangecheck", len(o.runs), o.ret))
		}
		c.check(len(bad) == 0, "CTL-REPEAT", c.fname(f), "trip count = count operand; a negative count is a rangecheck", f.Pos(), "counts 0, 1, 4, -1 evaluated", "repeat: "+joinMax(bad, 3))
	}
	c.floor("CTL-EXIT", 6)
	c.floor("CTL-LOOPPROTO", 6)
}

// loopOperatorWith is loopOperator with array / string operands placed on the stack.
func (c *Ctx) loopOperatorWith(fn *ssa.Function, stack []sv, lists map[int][]sv, strs map[int]string, results []string, keys []string) loopOutcome {
	st := append([]sv{}, stack...)
	for i, el := range lists {
		st[i] = sv{k: svTuple, tup: el, op: "Array"}
	}
	for i, s := range strs {
		st[i] = sv{k: svString, s: s, op: "String"}
	}
	return c.loopOperator(fn, st, results, keys)
}
