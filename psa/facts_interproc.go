package main

import (
	"fmt"
	"go/token"
	"go/types"
	"math/big"
	"os"

	"golang.org/x/tools/go/ssa"
)

// Interprocedural facts for functions that are only ever called statically from inside the
// module (helpers): what holds for the arguments at every call site holds for the parameters at
// entry; what holds for the result at every return holds for the result at every call.  Code that
// is moved into such a helper keeps the facts its guards established in the caller.

var entryFactCache = map[*ssa.Function][]Lin{}
var entryFactBusy = map[*ssa.Function]bool{}
var dbgEntry = os.Getenv("DBGENTRY") != ""

// staticCallSites returns the call sites of fn if every use of fn in the module is a plain
// static call (not a method value, not go/defer); nil otherwise.
func staticCallSites(fn *ssa.Function) []*ssa.Call {
	if fn == nil || fn.Parent() != nil || exportedAPI(fn) || !inMod(fn) {
		return nil
	}
	var sites []*ssa.Call
	for _, caller := range feCtx.modFuncs {
		for _, b := range caller.Blocks {
			for _, ins := range b.Instrs {
				for _, op := range ins.Operands(nil) {
					if *op == ssa.Value(fn) {
						if call, ok := ins.(ssa.CallInstruction); !ok || call.Common().Value != ssa.Value(fn) {
							return nil
						}
					}
				}
				call, ok := ins.(ssa.CallInstruction)
				if !ok || call.Common().StaticCallee() != fn {
					continue
				}
				c, isCall := ins.(*ssa.Call)
				if !isCall {
					return nil
				}
				sites = append(sites, c)
			}
		}
	}
	// uses through the wrapper of a method expression: calls through a fixed table of functions are
	// call sites too; any other such use leaves the call sites unknown (ext_x8.go)
	extra, ok := feCtx.indirectCallSites(fn)
	if !ok {
		return nil
	}
	return append(sites, extra...)
}

// fieldLenAtCall: the length of slice field f of the object arg points to, as the caller knows
// it at the call instruction.
func (fi *funcInfo) fieldLenAtCall(call *ssa.Call, arg ssa.Value, f string) (Lin, bool) {
	if !fi.fields[f] || fi.callEpoch == nil {
		return Lin{}, false
	}
	ep, ok := fi.callEpoch[call][f]
	if !ok {
		return Lin{}, false
	}
	base := fi.vname(canonBase(arg))
	if r, ok := fi.rel[ep+"|"+f+"|"+base]; ok {
		return r, true
	}
	return atom(fmt.Sprintf("len(%s.%s@%s)", base, f, ep)), true
}

// entryFacts: facts about the parameters of fi.fn that hold at every call site.
func (fi *funcInfo) entryFacts() []Lin {
	fn := fi.fn
	if r, ok := entryFactCache[fn]; ok {
		return r
	}
	if entryFactBusy[fn] {
		return nil
	}
	entryFactBusy[fn] = true
	defer delete(entryFactBusy, fn)
	sites := staticCallSites(fn)
	if len(sites) == 0 {
		entryFactCache[fn] = nil
		return nil
	}
	type cand struct {
		callee Lin                                             // fact over the callee's atoms
		caller func(cfi *funcInfo, call *ssa.Call) (Lin, bool) // the same fact over the caller's atoms
	}
	var cands []cand
	isSliceLike := func(t types.Type) bool {
		switch u := t.Underlying().(type) {
		case *types.Slice:
			return true
		case *types.Basic:
			return u.Info()&types.IsString != 0
		}
		return false
	}
	for j, pj := range fn.Params {
		if !isSliceLike(pj.Type()) {
			continue
		}
		j := j
		for _, k := range []int64{1, 2, 4} {
			k := k
			cands = append(cands, cand{
				callee: fi.lenOf(pj).addK(-k),
				caller: func(cfi *funcInfo, call *ssa.Call) (Lin, bool) {
					return cfi.lenOf(call.Call.Args[j]).addK(-k), true
				},
			})
		}
	}
	for i, pi := range fn.Params {
		if _, _, isInt := isIntType(pi.Type()); isInt {
			for j, pj := range fn.Params {
				if !isSliceLike(pj.Type()) {
					continue
				}
				i, j := i, j
				for _, k := range []int64{0, 1} {
					k := k
					cands = append(cands, cand{
						callee: fi.lenOf(pj).sub(fi.term(pi)).addK(-k),
						caller: func(cfi *funcInfo, call *ssa.Call) (Lin, bool) {
							return cfi.lenOf(call.Call.Args[j]).sub(cfi.term(call.Call.Args[i])).addK(-k), true
						},
					})
				}
			}
		}
		if _, _, isInt := isIntType(pi.Type()); isInt {
			// a count of items that expand to two bytes each: 2*i <= len(s), 2*i-1 <= len(s)
			for j, pj := range fn.Params {
				if !isSliceLike(pj.Type()) {
					continue
				}
				i, j := i, j
				for _, k := range []int64{0, -1} {
					k := k
					cands = append(cands, cand{
						callee: fi.lenOf(pj).addScaled(fi.term(pi), big.NewRat(-2, 1)).addK(-k),
						caller: func(cfi *funcInfo, call *ssa.Call) (Lin, bool) {
							return cfi.lenOf(call.Call.Args[j]).addScaled(cfi.term(call.Call.Args[i]), big.NewRat(-2, 1)).addK(-k), true
						},
					})
				}
			}
		}
		if _, isPtr := pi.Type().Underlying().(*types.Pointer); isPtr {
			base := fi.vname(canonBase(pi))
			for f := range fi.fields {
				if fi.intFields[f] || len(f) > 5 && f[:5] == "cell:" {
					continue
				}
				i, f := i, f
				// an integer parameter that is at most the length of the slice field (o.advance(k) with
				// o.buf = o.buf[k:] inside): the pair (slice, count) kept in a small struct
				for i2, p2 := range fn.Params {
					if _, _, isInt := isIntType(p2.Type()); !isInt {
						continue
					}
					i2 := i2
					cands = append(cands, cand{
						callee: atom(fmt.Sprintf("len(%s.%s@entry)", base, f)).sub(fi.term(p2)),
						caller: func(cfi *funcInfo, call *ssa.Call) (Lin, bool) {
							l, ok := cfi.fieldLenAtCall(call, call.Call.Args[i], f)
							if !ok {
								return Lin{}, false
							}
							return l.sub(cfi.term(call.Call.Args[i2])), true
						},
					})
				}
				for _, k := range []int64{1, 2} {
					k := k
					cands = append(cands, cand{
						callee: atom(fmt.Sprintf("len(%s.%s@entry)", base, f)).addK(-k),
						caller: func(cfi *funcInfo, call *ssa.Call) (Lin, bool) {
							l, ok := cfi.fieldLenAtCall(call, call.Call.Args[i], f)
							if !ok {
								return Lin{}, false
							}
							return l.addK(-k), true
						},
					})
				}
			}
		}
	}
	for _, pc := range fi.ptrSliceParamCands() { // a slice reached through a pointer parameter (ext_y1.go)
		cands = append(cands, cand{callee: pc.callee, caller: pc.caller})
	}
	var out []Lin
	for _, cd := range cands {
		holds := true
		for _, call := range sites {
			cfi := newFuncInfo(call.Parent())
			goal, ok := cd.caller(cfi, call)
			if !ok || !cfi.prove([]Lin{goal}, cfi.factsAt(call.Block(), call), 1) {
				if dbgEntry {
					fmt.Println("ENTRYFACT fails", fn.Name(), cd.callee, "at", prog.Fset.Position(call.Pos()), ok, goal)
				}
				holds = false
				break
			}
		}
		if holds {
			out = append(out, cd.callee)
		}
	}
	entryFactCache[fn] = out
	return out
}

type resKey struct {
	g   *ssa.Function
	idx int
}

var resultFactCache = map[resKey][]func(fi *funcInfo, a string, call *ssa.Call) Lin{}
var resultFactBusy = map[resKey]bool{}

// resultFacts: facts about the first (integer) result of a module function that hold at every
// return: 0 <= r, and r <= len(p) for slice parameters p.  They are returned as constructors of
// the corresponding fact at a call site (a = the atom naming the result there).
func resultFacts(g *ssa.Function, idx int) []func(fi *funcInfo, a string, call *ssa.Call) Lin {
	key := resKey{g, idx}
	if r, ok := resultFactCache[key]; ok {
		return r
	}
	if resultFactBusy[key] || g == nil || len(g.Blocks) == 0 || !inMod(g) {
		return nil
	}
	res := g.Signature.Results()
	if res.Len() <= idx {
		return nil
	}
	if _, _, isInt := isIntType(res.At(idx).Type()); !isInt {
		return nil
	}
	resultFactBusy[key] = true
	defer delete(resultFactBusy, key)
	gfi := newFuncInfo(g)
	type cand struct {
		holds func(t Lin) Lin
		make  func(fi *funcInfo, a string, call *ssa.Call) Lin
	}
	cands := []cand{{
		holds: func(t Lin) Lin { return t },
		make:  func(fi *funcInfo, a string, call *ssa.Call) Lin { return atom(a) },
	}}
	for j, pj := range g.Params {
		if _, ok := pj.Type().Underlying().(*types.Slice); !ok {
			continue
		}
		j := j
		lp := gfi.lenOf(pj)
		cands = append(cands, cand{
			holds: func(t Lin) Lin { return lp.sub(t) },
			make:  func(fi *funcInfo, a string, call *ssa.Call) Lin { return fi.lenOf(call.Call.Args[j]).sub(atom(a)) },
		})
	}
	// r <= K for the constants the callee compares with (`n < 0 || n > 100 → error`)
	for _, k := range compareConsts(g, 6) {
		k := k
		cands = append(cands, cand{
			holds: func(t Lin) Lin { return konst(k).sub(t) },
			make:  func(fi *funcInfo, a string, call *ssa.Call) Lin { return konst(k).sub(atom(a)) },
		})
	}
	// r <= p for integer parameters p, r <= x.f for integer fields of objects passed by pointer
	for j, pj := range g.Params {
		j := j
		if _, _, isInt := isIntType(pj.Type()); isInt {
			tp := gfi.term(pj)
			cands = append(cands, cand{
				holds: func(t Lin) Lin { return tp.sub(t) },
				make:  func(fi *funcInfo, a string, call *ssa.Call) Lin { return fi.term(call.Call.Args[j]).sub(atom(a)) },
			})
		}
		if _, isPtr := pj.Type().Underlying().(*types.Pointer); isPtr {
			base := gfi.vname(canonBase(pj))
			for f := range gfi.intFields {
				f := f
				entry := atom(fmt.Sprintf("val(%s.%s@entry)", base, f))
				cands = append(cands, cand{
					holds: func(t Lin) Lin { return entry.sub(t) },
					make: func(fi *funcInfo, a string, call *ssa.Call) Lin {
						v, ok := fi.fieldValAtCall(call, call.Call.Args[j], f)
						if !ok {
							return konst(0) // no information: the trivial fact 0 >= 0
						}
						return v.sub(atom(a))
					},
				})
			}
		}
	}
	var out []func(fi *funcInfo, a string, call *ssa.Call) Lin
	for _, cd := range cands {
		ok := true
		n := 0
		for _, r := range returns(g) {
			for _, v := range retValues(r, idx) {
				n++
				t := gfi.term(v)
				if !gfi.prove([]Lin{cd.holds(t)}, gfi.factsAt(r.Block(), r), 1) {
					ok = false
				}
			}
		}
		if ok && n > 0 {
			out = append(out, cd.make)
		}
	}
	resultFactCache[key] = out
	return out
}

// proveWithJoins: prove the goals at instruction `at` of block b; if the dominating facts do not
// suffice and control reaches b through a join (a block entered by several edges, as after the
// negation of a disjunctive guard), prove them separately for every edge into the join, with
// the facts that hold on that edge.
func (fi *funcInfo) proveWithJoins(goals []Lin, b *ssa.BasicBlock, at ssa.Instruction, depth int) bool {
	base := fi.factsAt(b, at)
	if fi.prove(goals, base, 1) {
		return true
	}
	if depth <= 0 {
		return false
	}
	j := b
	for n := 0; j != nil && len(j.Preds) < 2 && n < 8; n++ {
		j = j.Idom()
	}
	if j == nil || len(j.Preds) < 2 {
		return false
	}
	for _, p := range j.Preds {
		if j.Dominates(p) {
			continue // back edge: the facts of the loop body are not facts at the join's first entry
		}
		facts := append([]Lin{}, base...)
		if ifi, ok := p.Instrs[len(p.Instrs)-1].(*ssa.If); ok && p.Succs[0] != p.Succs[1] {
			facts = append(facts, fi.condFacts(ifi.Cond, p.Succs[0] == j)...)
		}
		facts = append(facts, fi.factsAt(p, p.Instrs[len(p.Instrs)-1])...)
		if fi.prove(goals, facts, 1) {
			continue
		}
		// the predecessor may itself sit below a join
		if !fi.proveJoinEdge(goals, facts, p, depth-1) {
			return false
		}
	}
	return true
}

func (fi *funcInfo) proveJoinEdge(goals []Lin, have []Lin, b *ssa.BasicBlock, depth int) bool {
	if depth <= 0 {
		return false
	}
	j := b
	for n := 0; j != nil && len(j.Preds) < 2 && n < 8; n++ {
		j = j.Idom()
	}
	if j == nil || len(j.Preds) < 2 {
		return false
	}
	for _, p := range j.Preds {
		if j.Dominates(p) {
			continue
		}
		facts := append([]Lin{}, have...)
		if ifi, ok := p.Instrs[len(p.Instrs)-1].(*ssa.If); ok && p.Succs[0] != p.Succs[1] {
			facts = append(facts, fi.condFacts(ifi.Cond, p.Succs[0] == j)...)
		}
		facts = append(facts, fi.factsAt(p, p.Instrs[len(p.Instrs)-1])...)
		if !fi.prove(goals, facts, 1) && !fi.proveJoinEdge(goals, facts, p, depth-1) {
			return false
		}
	}
	return true
}

// fieldValAtCall: the value of integer field f of the object arg points to, as the caller knows
// it right before the call instruction.
func (fi *funcInfo) fieldValAtCall(call *ssa.Call, arg ssa.Value, f string) (Lin, bool) {
	if !fi.intFields[f] || fi.callEpoch == nil {
		return Lin{}, false
	}
	ep, ok := fi.callEpoch[call][f]
	if !ok {
		return Lin{}, false
	}
	base := fi.vname(canonBase(arg))
	if r, ok := fi.rel[ep+"|"+f+"|"+base]; ok {
		return r, true
	}
	va := fmt.Sprintf("val(%s.%s@%s)", base, f, ep)
	if fa := fieldAddrTypeOf(arg, f); fa != nil {
		valAtomType[va] = fa
	}
	return atom(va), true
}

// fieldAddrTypeOf: the type of field f (fact-engine key) of the struct arg points to.
func fieldAddrTypeOf(arg ssa.Value, f string) types.Type {
	pt, ok := arg.Type().Underlying().(*types.Pointer)
	if !ok {
		return nil
	}
	st, ok := pt.Elem().Underlying().(*types.Struct)
	if !ok {
		return nil
	}
	for i := 0; i < st.NumFields(); i++ {
		if types.TypeString(pt.Elem(), nil)+"."+st.Field(i).Name() == f {
			return st.Field(i).Type()
		}
	}
	return nil
}

// compareConsts: the integer constants the function compares integer values with (at most max).
func compareConsts(g *ssa.Function, max int) []int64 {
	seen := map[int64]bool{}
	var out []int64
	for _, b := range g.Blocks {
		for _, ins := range b.Instrs {
			bo, ok := ins.(*ssa.BinOp)
			if !ok {
				continue
			}
			switch bo.Op {
			case token.LSS, token.LEQ, token.GTR, token.GEQ, token.EQL, token.NEQ:
			default:
				continue
			}
			for _, o := range []ssa.Value{bo.X, bo.Y} {
				if k, ok := constIntVal(o); ok && !seen[k] && k > -1<<40 && k < 1<<40 {
					seen[k] = true
					out = append(out, k)
				}
			}
		}
	}
	if len(out) > max {
		return nil
	}
	return out
}

// ---- guard summaries: what a module function that returns an error has checked about its
// integer parameters whenever the error is nil (`if err := checkSize(op, size, limit); err != nil
// { return err }` leaves 0 <= size <= limit behind)

type guardFact func(cfi *funcInfo, call ssa.CallInstruction) (Lin, bool)

var guardSummaryCache = map[*ssa.Function][]guardFact{}
var guardSummaryBusy = map[*ssa.Function]bool{}

func guardSummary(g *ssa.Function) []guardFact {
	if r, ok := guardSummaryCache[g]; ok {
		return r
	}
	if guardSummaryBusy[g] || g == nil || len(g.Blocks) == 0 || !inMod(g) {
		return nil
	}
	res := g.Signature.Results()
	if res.Len() == 0 || !isErrorType(res.At(res.Len()-1).Type()) {
		guardSummaryCache[g] = nil
		return nil
	}
	errIdx := res.Len() - 1
	guardSummaryBusy[g] = true
	defer delete(guardSummaryBusy, g)
	gfi := newFuncInfo(g)
	type cand struct {
		callee Lin
		caller guardFact
	}
	var cands []cand
	var ints []int
	for i, p := range g.Params {
		if _, _, isInt := isIntType(p.Type()); isInt {
			ints = append(ints, i)
		}
	}
	if len(ints) == 0 {
		guardSummaryCache[g] = nil
		return nil
	}
	arg := func(i int) func(cfi *funcInfo, call ssa.CallInstruction) Lin {
		return func(cfi *funcInfo, call ssa.CallInstruction) Lin { return cfi.term(call.Common().Args[i]) }
	}
	for _, i := range ints {
		i := i
		ti := gfi.term(g.Params[i])
		cands = append(cands, cand{ti, func(cfi *funcInfo, call ssa.CallInstruction) (Lin, bool) { return arg(i)(cfi, call), true }})
		for _, k := range compareConsts(g, 6) {
			k := k
			cands = append(cands, cand{konst(k).sub(ti), func(cfi *funcInfo, call ssa.CallInstruction) (Lin, bool) {
				return konst(k).sub(arg(i)(cfi, call)), true
			}})
		}
		for _, j := range ints {
			if j == i {
				continue
			}
			j := j
			tj := gfi.term(g.Params[j])
			cands = append(cands, cand{tj.sub(ti), func(cfi *funcInfo, call ssa.CallInstruction) (Lin, bool) {
				return arg(j)(cfi, call).sub(arg(i)(cfi, call)), true
			}})
		}
	}
	var out []guardFact
	for _, cd := range cands {
		ok, n := true, 0
		for _, r := range returns(g) {
			if len(r.Results) <= errIdx {
				ok = false
				break
			}
			ev := r.Results[errIdx]
			if definitelyNonNilError(ev) {
				continue
			}
			n++
			if !gfi.prove([]Lin{cd.callee}, gfi.factsAt(r.Block(), r), 1) {
				ok = false
				break
			}
		}
		if ok && n > 0 {
			out = append(out, cd.caller)
		}
	}
	guardSummaryCache[g] = out
	return out
}

// definitelyNonNilError: the returned error value is a freshly made error (a call of a function
// that constructs one, or a boxed pointer to a composite literal).
// (functions under inspection are remembered: two functions that return each other's results would
// otherwise send this into unbounded recursion; a result that depends on itself is not "definitely"
// anything)
var nonNilErrBusy = map[*ssa.Function]bool{}

func definitelyNonNilError(v ssa.Value) bool {
	switch x := origin(v).(type) {
	case *ssa.MakeInterface:
		switch y := origin(x.X).(type) {
		case *ssa.Alloc:
			return true
		case *ssa.Call:
			_ = y
			return false
		}
	case *ssa.Call:
		if sc := x.Call.StaticCallee(); sc != nil {
			n := calleeName(sc)
			if n == "fmt.Errorf" || n == "errors.New" {
				return true
			}
			if inMod(sc) && len(sc.Blocks) > 0 {
				if nonNilErrBusy[sc] {
					return false
				}
				nonNilErrBusy[sc] = true
				defer delete(nonNilErrBusy, sc)
				// a module constructor all of whose returns are such values
				all := true
				for _, r := range returns(sc) {
					if len(r.Results) == 0 || !definitelyNonNilError(r.Results[len(r.Results)-1]) {
						all = false
					}
				}
				return all && len(returns(sc)) > 0
			}
		}
	}
	return false
}
