package main

import (
	"fmt"
	"go/token"
	"strings"

	"golang.org/x/tools/go/ssa"
)

// executeTable evaluates (*Interpreter).Execute for each kind of result of the run
// (nil, the exit signal, the stop signal, any other error) and reports what Execute returns and
// whether the DSC comments of the scanner were handed over.
type executeCell struct {
	in      string // nil | exit | stop | other
	empty   bool   // the scanner of this run collected no DSC comments
	ret     string // nil | invalidexit | other | <something else>
	dsc     bool   // DSC comments appended to Interpreter.DSC
	dscFrom bool   // … taken from the scanner of this run
	why     string
}

func (c *Ctx) executeTable() []executeCell {
	ia := c.interp()
	fn := c.method("postscript", "Interpreter", "Execute")
	errExit, errStop := c.signalGlobal("exit"), c.signalGlobal("stop")
	var out []executeCell
	type cellKey struct {
		in    string
		empty bool
	}
	var keys []cellKey
	for _, in := range []string{"nil", "exit", "stop", "other"} {
		keys = append(keys, cellKey{in, false}, cellKey{in, true})
	}
	for _, key := range keys {
		in, empty := key.in, key.empty
		cell := executeCell{in: in, empty: empty}
		ev := &ssaEval{c: c, bind: map[ssa.Value]sv{}, mem: map[string]sv{}}
		ev.load = func(ld *ssa.UnOp, addr sv) (sv, bool) {
			switch addr.s {
			case "global:" + errExit.String():
				return symV("errExit"), true
			case "global:" + errStop.String():
				return symV("errStop"), true
			}
			if strings.HasSuffix(addr.s, ".DSC") {
				return symV("DSC(" + strings.TrimSuffix(addr.s, ".DSC") + ")"), true
			}
			return symV("v:" + addr.s), true
		}
		ev.oracle = func(op token.Token, x, y sv) (bool, bool) {
			// the number of DSC comments the scanner collected, against a constant: 0 in the cells
			// "no comments"; otherwise any positive number, so the comparison is decided only if it
			// comes out the same for 1 and for a large number
			if x.k == svSym && x.s == "len:scannerDSC" && y.k == svInt || y.k == svSym && y.s == "len:scannerDSC" && x.k == svInt {
				cmpInt := func(a, b int64) bool {
					switch op {
					case token.EQL:
						return a == b
					case token.NEQ:
						return a != b
					case token.LSS:
						return a < b
					case token.LEQ:
						return a <= b
					case token.GTR:
						return a > b
					}
					return a >= b
				}
				with := func(n int64) bool {
					if x.k == svInt {
						return cmpInt(x.i, n)
					}
					return cmpInt(n, y.i)
				}
				if empty {
					return with(0), true
				}
				if with(1) == with(1<<40) {
					return with(1), true
				}
				return false, false
			}
			if x.k != svSym && x.k != svNil || y.k != svSym && y.k != svNil {
				return false, false
			}
			eq := x.String() == y.String()
			switch op {
			case token.EQL:
				return eq, true
			case token.NEQ:
				return !eq, true
			}
			return false, false
		}
		ev.call = func(call ssa.CallInstruction, args []sv) (sv, bool) {
			if call == nil {
				return sv{}, false
			}
			cc := call.Common()
			switch {
			case cc.StaticCallee() == ia.execScanner:
				switch in {
				case "nil":
					return sv{k: svNil}, true
				case "exit":
					return symV("errExit"), true
				case "stop":
					return symV("errStop"), true
				}
				return symV("otherErr"), true
			case c.isFn(cc.StaticCallee(), "postscript", "", "newScanner"):
				return sv{k: svAddr, s: "scanner"}, true
			case cc.StaticCallee() == ia.e:
				if len(cc.Args) > 1 {
					return symV("error:" + c.errNameOfArg(cc.Args[1])), true
				}
			case callName(call) == "builtin len" && len(args) == 1 && args[0].k == svSym && strings.HasPrefix(args[0].s, "DSC(scanner"):
				return symV("len:scannerDSC"), true
			case callName(call) == "builtin append":
				ev.effects = append(ev.effects, ssaEffect{ins: call, what: "append", args: args})
				return symV("appended"), true
			}
			return sv{}, false
		}
		ret := ev.runFunc(fn, []sv{{k: svAddr, s: "intp"}, symV("reader")})
		cell.why = ev.why
		if len(ret) == 1 {
			switch {
			case ret[0].k == svNil:
				cell.ret = "nil"
			case ret[0].s == "error:invalidexit":
				cell.ret = "invalidexit"
			case ret[0].s == "otherErr":
				cell.ret = "other"
			default:
				cell.ret = ret[0].String()
			}
		}
		for i, ef := range ev.effects {
			if ef.what == "append" && len(ef.args) == 2 && strings.HasPrefix(ef.args[0].s, "DSC(intp") {
				// the appended slice must be stored back into Interpreter.DSC
				for _, st := range ev.effects[i:] {
					if st.what == "store" && strings.HasSuffix(st.addr, "intp.DSC") {
						cell.dsc = true
						cell.dscFrom = strings.HasPrefix(ef.args[1].s, "DSC(scanner")
					}
				}
			}
		}
		out = append(out, cell)
	}
	return out
}

// errNameOfArg: the PostScript error name a value of the error-name type denotes.
func (c *Ctx) errNameOfArg(v ssa.Value) string {
	if g := globalLoad(v); g != nil {
		return c.globalInit(g)
	}
	// the names may be constants instead of package-level variables
	if n := c.nameConst(v); n != "" {
		return n
	}
	return c.valShape(v)
}

func (c *Ctx) executeRules(signals, dsc, flow bool) {
	fn := c.method("postscript", "Interpreter", "Execute")
	fname := c.fname(fn)
	tab := c.executeTable()
	// every cell of one kind of result (with and without collected DSC comments)
	all := func(in string, pred func(executeCell) bool) (bool, executeCell) {
		var last executeCell
		n := 0
		for _, t := range tab {
			if t.in != in {
				continue
			}
			n++
			last = t
			if !pred(t) {
				return false, t
			}
		}
		return n > 0, last
	}
	if signals {
		ok, e := all("exit", func(t executeCell) bool { return t.ret == "invalidexit" })
		c.check(ok, "CTL-SIGNALS", fname, "stray exit → invalidexit", fn.Pos(), "Execute maps the exit signal to an invalidexit error", fmt.Sprintf("Execute does not turn an `exit` outside any loop into an invalidexit error (it returns %s %s)", e.ret, e.why))
		ok, s := all("stop", func(t executeCell) bool { return t.ret == "nil" })
		c.check(ok, "CTL-SIGNALS", fname, "stop → normal completion", fn.Pos(), "Execute maps the stop signal to nil", fmt.Sprintf("Execute does not turn `stop` into normal completion (it returns %s %s)", s.ret, s.why))
	}
	if dsc {
		bad := ""
		for _, t := range tab {
			want := t.ret == "nil"
			// appending nothing leaves Interpreter.DSC as it is: with no comments collected the hand-over
			// may be skipped, but it must not happen after a failed run, nor from anywhere else
			wrong := t.dsc != want
			if t.empty && want && !t.dsc {
				wrong = false
			}
			if t.ret == "" {
				bad = fmt.Sprintf("Execute could not be evaluated for a run that ends with %s: %s", t.in, t.why)
				continue
			}
			if wrong || (t.dsc && !t.dscFrom) {
				bad = fmt.Sprintf("when the run ends with %s (Execute returns %s; comments collected: %v) the DSC comments are handed over: %v (from this run's scanner: %v)", t.in, t.ret, !t.empty, t.dsc, t.dscFrom)
			}
		}
		c.check(bad == "", "LEX-DSC", fname, "DSC comments are handed to the interpreter only after an error-free run, in order", fn.Pos(), "decision table over the four kinds of result, with and without collected comments", "DSC comments are appended to Interpreter.DSC on a path where the run failed (or not at all): "+bad)
	}
	if flow {
		okO, o := all("other", func(t executeCell) bool { return t.ret == "other" })
		okN, n := all("nil", func(t executeCell) bool { return t.ret == "nil" })
		c.check(okO && okN, "IO-FLOW", fname, "error of (*postscript.Interpreter).executeScanner", fn.Pos(), "an error of the run is returned as it is, nil stays nil", fmt.Sprintf("Execute does not pass the error of the run on: a failing run returns %s, a clean run %s %s%s", o.ret, n.ret, o.why, n.why))
	}
}

// signalGlobal finds the package-level error variable that serves as the internal exit / stop
// signal: the one initialised with errors.New(text).  The name of the variable plays no part.
func (c *Ctx) signalGlobal(text string) *ssa.Global {
	var found *ssa.Global
	init := c.spkg("postscript").Func("init")
	eachInstr(init, func(ins ssa.Instruction) {
		st, ok := ins.(*ssa.Store)
		if !ok {
			return
		}
		g, ok := st.Addr.(*ssa.Global)
		if !ok {
			return
		}
		if call, ok := st.Val.(*ssa.Call); ok {
			if sc := call.Call.StaticCallee(); sc != nil && sc.String() == "errors.New" && len(call.Call.Args) == 1 {
				if s, ok := constString(call.Call.Args[0]); ok && s == text {
					found = g
				}
			}
		}
	})
	if found == nil {
		abort("anchor: the internal %q signal (a package-level errors.New(%q)) was not found", text, text)
	}
	return found
}
