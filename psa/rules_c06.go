package main

import (
	"bytes"
	"fmt"
	"go/ast"
	"go/constant"
	"go/printer"
	"go/token"
	"go/types"
	"os"
	"sort"
	"strings"

	"golang.org/x/tools/go/ssa"
)

// C06 — Type 1 reader.  Rule family A8 T1SPEC.

func init() {
	register(&propCheck{
		id:    "C06",
		title: "Type 1 reader recovers exactly the font a conforming file describes",
		explanation: "Decides the specification-table and shape clauses of C06: the 25 charstring opcode constants equal the Type 1 book's numbers; the command switch has a case for every one of them and its default is an error; each case demands the book's operand count before it reads operands and reads only operands below that count; every stack-clearing command clears the stack; the argument mapping of the eight path commands to relative line/move/curve equals the book's (which operand is dx, dy, which are zero); " +
			"flex: othersubr 1 resets the flex buffer, 2 records the current point, 0 requires seven points and emits two curves from points 1..6 in order; moves inside a flex sequence only record coordinates; callothersubr pops its arguments in reverse and pop returns them; callsubr is depth-limited and index-checked; div operand order (C20); " +
			"number ranges (C20); charstring decryption uses key 4330, the specified data flow (outputs compared as normal forms over Z/2^16), skips lenIV bytes, default lenIV 4, and at every call of the decryption — glyph procedures and subroutines — the lenIV entry of the font reaches the lead-byte argument (value sources); defaults BlueScale .039625, BlueShift 7, BlueFuzz 1, FontMatrix [.001 0 0 .001 0 0]; seac components are looked up in StandardEncoding with both codes range-checked, the composite copies the base's commands, the accent's commands are translated by (adx, ady) for every command type; codes of absent glyphs map to .notdef; container detection tests the first byte against 0x80. " +
			"It does NOT decide that outlines, widths, hints and dictionary values equal the described ones as values, nor the side-bearing arithmetic where readings of the book differ (DESIGN.md §10).",
		trusted:     []string{"Adobe Type 1 Font Format tables carried in the checker", "byte-domain evaluation / symbolic terms"},
		assumptions: nil,
		run:         runC06,
	})
}

var t1Spec = map[string]struct {
	code   int64
	args   int  // operands required
	clears bool // clears the operand stack
}{
	"t1hstem": {1, 2, true}, "t1vstem": {3, 2, true}, "t1vmoveto": {4, 1, true}, "t1rlineto": {5, 2, true},
	"t1hlineto": {6, 1, true}, "t1vlineto": {7, 1, true}, "t1rrcurveto": {8, 6, true}, "t1closepath": {9, 0, false},
	"t1callsubr": {10, 1, false}, "t1return": {11, 0, false}, "t1hsbw": {13, 2, true}, "t1endchar": {14, 0, false},
	"t1rmoveto": {21, 2, true}, "t1hmoveto": {22, 1, true}, "t1vhcurveto": {30, 4, true}, "t1hvcurveto": {31, 4, true},
	"t1dotsection": {0x0c00, 0, true}, "t1vstem3": {0x0c01, 6, true}, "t1hstem3": {0x0c02, 6, true}, "t1seac": {0x0c06, 5, false},
	"t1sbw": {0x0c07, 4, true}, "t1div": {0x0c0c, 2, false}, "t1callothersubr": {0x0c10, 2, false}, "t1pop": {0x0c11, 0, false},
	"t1setcurrentpoint": {0x0c21, 2, true},
}

// path commands: arguments of the relative helper in terms of operand indices (-1 = constant 0)
var t1PathArgs = map[string]struct {
	helper string
	args   []int
}{
	"t1hlineto": {"line", []int{0, -1}}, "t1vlineto": {"line", []int{-1, 0}}, "t1rlineto": {"line", []int{0, 1}},
	"t1hmoveto": {"move", []int{0, -1}}, "t1vmoveto": {"move", []int{-1, 0}}, "t1rmoveto": {"move", []int{0, 1}},
	"t1rrcurveto": {"curve", []int{0, 1, 2, 3, 4, 5}}, "t1hvcurveto": {"curve", []int{0, -1, 1, 2, -1, 3}}, "t1vhcurveto": {"curve", []int{-1, 0, 1, 2, 3, -1}},
}

func runC06(c *Ctx) {
	if os.Getenv("PSA_DEBUG_T1") != "" {
		c.t1Debug()
	}
	// charstrings and subroutines arrive as `n RD ~n~binary~bytes~`: RD is readstring
	c.scannerOperators(c.interp(), c.registry(), "T1-BINARY", "readstring")
	// the private part of every conforming font file is an eexec section, written either as
	// hexadecimal digits or as binary bytes (Type 1 book §7.2): the reader recovers the font only
	// if the section's form is told apart exactly as the book says — binary iff one of the first
	// four cipher bytes is not a hexadecimal digit —, white space before it is skipped and the
	// four lead bytes are dropped.  Same decision table as C05 (EEXEC-WS/-HEXDETECT/-LEADBYTES).
	c.beginEexecTable()
	// ---- opcode constants
	var names []string
	for n := range t1Spec {
		names = append(names, n)
	}
	sort.Strings(names)
	for _, n := range names {
		obj, _ := c.pkg("type1").Types.Scope().Lookup(c.curVal("type1", n)).(*types.Const)
		if obj == nil {
			c.fail("T1-OPCODES", n, "constant defined", token.NoPos, "opcode constant "+n+" is not defined")
			continue
		}
		v, _ := constant.Int64Val(obj.Val())
		c.check(v == t1Spec[n].code, "T1-OPCODES", n, fmt.Sprintf("= %d (Type 1 book, appendix 2)", t1Spec[n].code), obj.Pos(), fmt.Sprint(v), fmt.Sprintf("opcode %s is %d, the Type 1 book says %d", n, v, t1Spec[n].code))
	}
	// the command table: arity, clearing, path arguments, unknown commands, two-byte commands
	c.t1CommandTable()

	// (every command has a handler, unknown commands are errors, operand counts, stack clearing:
	// all decided by the command table above; no rule locates the command switch in the syntax)
	c.t1FlexRules()
	// closepath closes the sub-path whatever the decoder's state (Type 1 book §6.4 attaches no condition)
	c.closePathRule()
	c.subrRules(nil, nil)
	c.charstringDecryption()
	c.readDefaults()
	c.t1StemsW2()
	c.lenIVFlowB()
	c.subrsTableB()
	c.lenIVGuards()
	c.seacRulesX4() // ext_x4.go: the assembly of the composites, in Read or in helpers
	c.shareCopyRule("type1", "T1-SHARECOPY")
	c.glyphOpSwitches()
	c.glyphOpLiterals()
	c.containerDetectionX4() // ext_x4.go: decision table over the first byte
}

func nodeString(c *Ctx, n ast.Node) string {
	var buf bytes.Buffer
	if err := printer.Fprint(&buf, c.fset, n); err != nil {
		return ""
	}
	return strings.Join(strings.Fields(buf.String()), " ")
}

// subrRules: callsubr, decided on the decoder's command loop (one pass evaluated per cell,
// rules_c06b.go).  The font has five subroutines of distinct content; the command is evaluated
// with every kind of index (negative, in range, one past the end, far beyond) and with call
// stacks of different depth, both with further commands after the call and as the last byte of
// its charstring (a tail call).  The arguments are kept for the callers' sake.
func (c *Ctx) subrRules(_ *types.Info, _ map[string]*ast.CaseClause) {
	m := c.t1Machine()
	fname := "type1.(*decodeInfo).decodeCharString"
	pos := m.fn.Pos()
	op := byte(c.constInt("type1", "t1callsubr"))
	end := byte(c.constInt("type1", "t1endchar"))
	ret := byte(c.constInt("type1", "t1return"))
	m.subrs = [][]byte{{ret}, {end, ret}, {end, end, ret}, {ret, ret}, {end, ret, ret}}
	defer func() { m.subrs, m.framesSet, m.nframes = nil, false, 0 }()
	run := func(code []byte, idx float64, frames int) t1Outcome {
		m.framesSet, m.nframes = true, frames
		return m.runX(code, []sv{symV("s0"), fl(idx)}, nil, nil, nil)
	}
	tails := [][]byte{{op, end}, {op}}
	// ---- the index
	var bad []string
	n := float64(len(m.subrs))
	for _, code := range tails {
		for _, idx := range []float64{-1, -1000, n, n + 1, 1 << 40} {
			o := run(code, idx, 1)
			if !o.err || o.panics {
				bad = append(bad, fmt.Sprintf("index %g of %g subroutines is not refused (%s)", idx, n, o.why))
			}
		}
		for _, idx := range []int{0, 1, 2, 4} {
			o := run(code, float64(idx), 1)
			if !o.back || o.code.k != svString || o.code.s != string(m.subrs[idx]) {
				bad = append(bad, fmt.Sprintf("index %d does not continue with subroutine %d: error %v, next code %s %s", idx, idx, o.err, o.code, o.why))
			} else if o.stack != "[s0]" {
				bad = append(bad, fmt.Sprintf("the call does not take exactly its index off the operand stack: [s0 %d] becomes %s", idx, o.stack))
			}
		}
	}
	c.check(len(bad) == 0, "T1-SUBR", fname, "subroutine index range-checked before the jump", pos, "indices -1, -1000, n, n+1, 2^40 refused; 0, 1, 2, 4 of 5 continue with that subroutine", "callsubr jumps to a subroutine without checking the index against the Subrs array: "+joinMax(bad, 2))
	// ---- return frames and the depth limit
	bad = nil
	for _, code := range tails {
		rest := string(code[1:])
		for _, depth := range []int{0, 1} {
			o := run(code, 0, depth)
			ok := o.back && len(o.frames) == depth+1
			if ok {
				top := o.frames[len(o.frames)-1]
				ok = top.k == svString && top.s == rest
			}
			if !ok {
				bad = append(bad, fmt.Sprintf("a call with %d byte(s) of the caller left and %d frame(s) on the call stack leaves the call stack %v (expected: one more frame holding the rest of the caller) %s", len(rest), depth, o.frames, o.why))
			}
		}
		// the depth limit, by induction over the depth (so that a call stack of bounded capacity is
		// only examined in states it can be in): from depth 0 every accepted call leaves one more
		// frame, and some depth up to 100 refuses the call
		refused := false
		for depth := 0; depth <= 100 && !refused; depth++ {
			o := run(code, 0, depth)
			switch {
			case o.err && !o.panics:
				refused = true
			case o.back && !o.panics && len(o.frames) == depth+1:
			default:
				bad = append(bad, fmt.Sprintf("a call with %d byte(s) of the caller left at depth %d is neither refused nor does it leave %d frames (call stack %v) %s", len(rest), depth, depth+1, o.frames, o.why))
				refused = true
			}
		}
		if !refused {
			bad = append(bad, fmt.Sprintf("a call with %d byte(s) of the caller left is not refused at any depth up to 100", len(rest)))
		}
	}
	c.check(len(bad) == 0, "T1-SUBR", fname, "every subroutine call pushes a return frame and is depth-limited", pos, "calls in the middle and at the end of a charstring, at depths 0, 1, … until the call is refused (at most 100)", "a subroutine call can be made without pushing a return frame or without the depth limit: a subroutine that ends in a call of itself then loops forever: "+joinMax(bad, 2))
}

func (c *Ctx) charstringDecryption() {
	fn := c.fn("type1", "deobfuscateCharstring")
	fname := "type1.deobfuscateCharstring"
	// evaluate the function on six symbolic cipher bytes for each number of lead bytes
	run := func(ncipher int, n int64) (res sv, ev *ssaEval) {
		ev = &ssaEval{c: c, bind: map[ssa.Value]sv{}, mem: map[string]sv{}}
		var cipher []sv
		for i := 0; i < ncipher; i++ {
			cipher = append(cipher, symV(fmt.Sprintf("c%d", i)))
		}
		ret := ev.runFunc(fn, []sv{ev.newList(cipher), intV(n)})
		if len(ret) == 1 {
			res = ret[0]
		}
		return res, ev
	}
	// reference: r0 = 4330; plain_j = c_j ^ byte(r_j >> 8); r_{j+1} = (c_j + r_j)*c1 + c2 in 16 bits.
	// The outputs are compared as normal forms over Z/2^16 (ext_b.go); when the forms differ, three
	// symbolic bytes are compared for all their values and a concrete sequence decides the chaining.
	nring := &ringB{width: map[string]uint{}}
	for i := 0; i < 6; i++ {
		nring.width[fmt.Sprintf("c%d", i)] = 8
	}
	compare := func(cipher []sv, n int64) string {
		ev := &ssaEval{c: c, bind: map[ssa.Value]sv{}, mem: map[string]sv{}}
		ret := ev.runFunc(fn, []sv{ev.newList(cipher), intV(n)})
		if len(ret) != 1 || ev.why != "" {
			return fmt.Sprintf("lenIV %d: not evaluable (%s)", n, ev.why)
		}
		got, ok := ev.elems(ret[0])
		if !ok {
			return fmt.Sprintf("lenIV %d: the result is %s", n, ev.render(ret[0]))
		}
		want, _ := cipherRefB(cipher, intV(4330), true)
		return nring.bytesAgreeB(got, want[n:], fmt.Sprintf("with lenIV %d on %d bytes", n, len(cipher)))
	}
	var bad []string
	for _, n := range []int64{0, 1, 4, 6} {
		if why := compare(symListB("c", 6), n); why != "" {
			bad = append(bad, why)
		}
	}
	if len(bad) > 0 {
		// the same decision without relying on the form of the terms
		var bad2 []string
		for _, n := range []int64{0, 1, 3} {
			if why := compare(symListB("c", 3), n); why != "" {
				bad2 = append(bad2, why)
			}
		}
		for _, n := range []int64{0, 1, 4, 6, 8} {
			if why := compare(intListB(0x10, 0xbf, 0x31, 0x70, 0x4f, 0xab, 0x5b, 0x1f), n); why != "" {
				bad2 = append(bad2, why)
			}
		}
		if len(bad2) == 0 {
			bad = nil
		}
	}
	c.check(len(bad) == 0, "CIPHER-SHAPE", fname, "plain = cipher ^ (r >> 8), r = (cipher + r)*c1 + c2 from key 4330, the first lenIV bytes decrypted but not output", fn.Pos(), "six symbolic cipher bytes × lenIV 0, 1, 4, 6", "charstring decryption: "+joinMax(bad, 2))
	// lenIV outside 0..len(cipher): no charstring, no crash
	okGuard := true
	why := ""
	for _, n := range []int64{-1, -1000000000000000, 7, 1 << 40} {
		res, ev := run(6, n)
		panics := false
		for _, ef := range ev.effects {
			if ef.what == "panic" {
				panics = true
			}
		}
		el, isList := ev.elems(res)
		if panics || ev.why != "" || !(res.k == svNil || (isList && len(el) == 0)) {
			okGuard = false
			why = fmt.Sprintf("lenIV %d gives %s (%s)", n, ev.render(res), ev.why)
		}
	}
	c.check(okGuard, "CIPHER-SHAPE", fname, "lenIV outside 0..len(cipher) yields no charstring", fn.Pos(), "lenIV -1, -10^15, 7, 2^40 on six bytes → empty", "negative or oversized lenIV is not rejected before the output buffer is sized: "+why)
}

func (c *Ctx) readDefaults() {
	_ = c.info("type1")
	fd := c.funcDecl("type1", "", "Read")
	fname := "type1.Read"
	// the constants that can flow into the destination of each entry (on the path where the
	// dictionary has no such entry the destination receives the default)
	read := c.fn("type1", "Read")
	privT := c.typeObj("type1", "PrivateDict")
	for _, d := range []struct {
		key  string
		want float64
	}{{"BlueScale", 0.039625}, {"BlueShift", 7}, {"BlueFuzz", 1}} {
		var consts []float64
		n := 0
		// (the record may be filled in by Read itself or by a function it hands the dictionary to)
		c.eachInstrDeep(read, 4, func(ins ssa.Instruction) {
			if st, ok := ins.(*ssa.Store); ok && isFieldAddr(st.Addr, privT, d.key) {
				n++
				consts = append(consts, c.constSources(st.Val)...)
			}
		})
		consts = uniqFloats(consts)
		got := fmt.Sprint(consts)
		c.check(n > 0 && len(consts) == 1 && consts[0] == d.want, "T1-DEFAULTS", fname, fmt.Sprintf("default of %s = %v", d.key, d.want), fd.Pos(), got, fmt.Sprintf("the default substituted for a missing %s is %s, the Type 1 book says %v", d.key, got, d.want))
	}
	{
		// lenIV: the number of lead bytes handed to the charstring decryption
		deob := c.fn("type1", "deobfuscateCharstring")
		var consts []float64
		n := 0
		for _, f := range c.modFuncs {
			for _, call := range staticCalls(f, deob) {
				n++
				consts = append(consts, c.constSources(call.Common().Args[1])...)
			}
		}
		consts = uniqFloats(consts)
		got := fmt.Sprint(consts)
		c.check(n > 0 && len(consts) == 1 && consts[0] == 4, "T1-DEFAULTS", fname, "default of lenIV = 4", fd.Pos(), got, "the default substituted for a missing lenIV is "+got+", the Type 1 book says 4")
	}
	// FontMatrix default: decided by evaluation of the code that looks the entry up, with a dictionary
	// that has none (ext_y4.go) — in Read or in a helper, as an array of objects or as a matrix literal
	okFM, whyFM := c.fontMatrixDefaultY4(read)
	c.check(okFM, "T1-DEFAULTS", fname, "default FontMatrix = [0.001 0 0 0.001 0 0]", fd.Pos(), "", "the default FontMatrix is not [0.001 0 0 0.001 0 0]: "+whyFM)
	// codes of absent glyphs → .notdef
	// (decided on the SSA form, ext_w2.go: the loop may live in Read or in a helper)
	okND, whyND := c.notdefMappingW2(read)
	c.check(okND, "T1-DEFAULTS", fname, "codes of absent glyphs are mapped to .notdef", fd.Pos(), "Font.Encoding[i] = .notdef iff Font.Encoding[i] is not a key of Font.Glyphs", "encoding entries naming glyphs that are not in the font are no longer mapped to .notdef: "+whyND)
}

// glyphOpLiterals: every GlyphOp literal has the number of arguments its command needs.
func (c *Ctx) glyphOpLiterals() {
	info := c.info("type1")
	p := c.pkg("type1")
	want := map[string]int{"OpMoveTo": 2, "OpLineTo": 2, "OpCurveTo": 6, "OpClosePath": 0}
	n := 0
	for _, f := range p.Syntax {
		if strings.HasSuffix(c.fset.Position(f.Pos()).Filename, "_test.go") {
			continue
		}
		ast.Inspect(f, func(nn ast.Node) bool {
			lit, ok := nn.(*ast.CompositeLit)
			if !ok {
				return true
			}
			t := info.TypeOf(lit)
			if t == nil || !strings.HasSuffix(t.String(), "type1.GlyphOp") {
				return true
			}
			op := ""
			nargs := 0
			for _, e := range lit.Elts {
				kv, ok := e.(*ast.KeyValueExpr)
				if !ok {
					continue
				}
				switch kv.Key.(*ast.Ident).Name {
				case "Op":
					if id, ok := kv.Value.(*ast.Ident); ok {
						op = id.Name
					}
				case "Args":
					if al, ok := kv.Value.(*ast.CompositeLit); ok {
						nargs = len(al.Elts)
					} else {
						nargs = -1
					}
				}
			}
			if op == "" {
				return true
			}
			n++
			w, known := want[op]
			c.check(known && nargs == w, "T1-GLYPHOPLIT", "type1", fmt.Sprintf("GlyphOp{%s} carries %d coordinates", op, w), lit.Pos(), fmt.Sprint(nargs), fmt.Sprintf("a %s command is built with %d coordinates, it needs %d: consumers index Args[0..%d]", op, nargs, w, w-1))
			return true
		})
	}
	c.floor("T1-GLYPHOPLIT", 8)
}

// t1CommandClauses returns the case clauses of the charstring command switch by opcode constant name.
func (c *Ctx) t1CommandClauses() (map[string]*ast.CaseClause, *types.Info) {
	info := c.info("type1")
	decFD := c.funcDecl("type1", "decodeInfo", "decodeCharString")
	clauses := map[string]*ast.CaseClause{}
	ast.Inspect(decFD.Body, func(n ast.Node) bool {
		s, ok := n.(*ast.SwitchStmt)
		if !ok || s.Tag == nil {
			return true
		}
		if t := info.TypeOf(s.Tag); t == nil || !strings.HasSuffix(t.String(), "type1.t1op") {
			return true
		}
		for _, cc := range s.Body.List {
			cl := cc.(*ast.CaseClause)
			for _, e := range cl.List {
				if id, ok := e.(*ast.Ident); ok {
					clauses[id.Name] = cl
				}
			}
		}
		return false
	})
	return clauses, info
}

// constSources: the numeric constants that can flow into v through phis, conversions, the results
// of module functions (the values their return statements deliver; a parameter met on the way
// back is the argument of the call the walk came through, so that one helper used for several
// entries — getOr(d, key, default) — keeps its call sites apart) and — for parameters of the
// function the walk started in — the arguments of the static call sites.  The walk knows the
// block in which the value is used: a result of a (value, ok) function that is used only under
// `ok` does not receive what the function returns together with ok = false.
func (c *Ctx) constSources(v ssa.Value) []float64 {
	seen := map[string]bool{}
	set := map[float64]bool{}
	var walk func(v ssa.Value, at, to *ssa.BasicBlock, ctx []ssa.CallInstruction, depth int)
	// the edge through which a value is used: the operand of a phi is used on the edge from the
	// predecessor `at` into the phi's block (`x, ok := f(); if !ok { x = default }` uses x on the
	// edge of the `ok` outcome, not in a block of its own)
	// underOK: block at (or the edge from at into the phi the value feeds) is only reached when the
	// last (boolean) result of call is true
	underOK := func(call *ssa.Call, at *ssa.BasicBlock, to *ssa.BasicBlock) bool {
		tup, ok := call.Type().(*types.Tuple)
		if !ok || tup.Len() < 2 || at == nil || call.Referrers() == nil {
			return false
		}
		last := tup.Len() - 1
		if bt, ok := tup.At(last).Type().Underlying().(*types.Basic); !ok || bt.Info()&types.IsBoolean == 0 {
			return false
		}
		for _, r := range *call.Referrers() {
			ex, ok := r.(*ssa.Extract)
			if !ok || ex.Index != last || ex.Referrers() == nil {
				continue
			}
			for _, u := range *ex.Referrers() {
				if ifi, ok := u.(*ssa.If); ok {
					tb := ifi.Block().Succs[0]
					if len(tb.Preds) == 1 && tb.Parent() == at.Parent() && tb.Dominates(at) {
						return true
					}
					if to != nil && ifi.Block() == at && tb == to && ifi.Block().Succs[1] != to {
						return true
					}
				}
			}
		}
		return false
	}
	results := func(call ssa.CallInstruction, idx int, okOnly bool, ctx []ssa.CallInstruction, depth int) {
		callee := call.Common().StaticCallee()
		if callee == nil || len(callee.Blocks) == 0 || !c.inModule(callee) || len(ctx) >= 4 {
			return
		}
		for _, in := range ctx {
			if in == call {
				return
			}
		}
		sub := append(append([]ssa.CallInstruction{}, ctx...), call)
		for _, r := range returns(callee) {
			if idx >= len(r.Results) {
				continue
			}
			if okOnly {
				if k, isC := r.Results[len(r.Results)-1].(*ssa.Const); isC && k.Value != nil && k.Value.Kind() == constant.Bool && !constant.BoolVal(k.Value) {
					continue
				}
			}
			walk(r.Results[idx], r.Block(), nil, sub, depth+1)
		}
	}
	walk = func(v ssa.Value, at, to *ssa.BasicBlock, ctx []ssa.CallInstruction, depth int) {
		v = origin(v)
		key := fmt.Sprintf("%p@%p>%p", v, at, to)
		for _, in := range ctx {
			key += fmt.Sprintf("|%p", in)
		}
		if seen[key] || depth > 12 {
			return
		}
		seen[key] = true
		switch x := v.(type) {
		case *ssa.Const:
			if x.Value != nil && (x.Value.Kind() == constant.Int || x.Value.Kind() == constant.Float) {
				f, _ := constant.Float64Val(constant.ToFloat(x.Value))
				set[f] = true
			}
		case *ssa.Phi:
			for i, e := range x.Edges {
				walk(e, x.Block().Preds[i], x.Block(), ctx, depth+1)
			}
		case *ssa.Convert:
			walk(x.X, at, to, ctx, depth+1)
		case *ssa.ChangeType:
			walk(x.X, at, to, ctx, depth+1)
		case *ssa.MakeInterface:
			walk(x.X, at, to, ctx, depth+1)
		case *ssa.Call:
			results(x, 0, false, ctx, depth)
		case *ssa.Extract:
			if call, ok := x.Tuple.(*ssa.Call); ok {
				results(call, x.Index, underOK(call, at, to), ctx, depth)
			}
		case *ssa.Parameter:
			fn := x.Parent()
			idx := -1
			for i, p := range fn.Params {
				if p == x {
					idx = i
				}
			}
			if n := len(ctx); n > 0 && ctx[n-1].Common().StaticCallee() == fn {
				// back to the call the walk came through
				if args := ctx[n-1].Common().Args; idx >= 0 && idx < len(args) {
					walk(args[idx], ctx[n-1].Block(), nil, ctx[:n-1], depth+1)
				}
				return
			}
			for _, g := range c.modFuncs {
				for _, call := range staticCalls(g, fn) {
					if idx >= 0 && idx < len(call.Common().Args) {
						walk(call.Common().Args[idx], call.Block(), nil, nil, depth+1)
					}
				}
			}
		case *ssa.UnOp:
			// a local cell assigned on several paths
			if al, ok := x.X.(*ssa.Alloc); ok && x.Op == token.MUL {
				for _, r := range *al.Referrers() {
					if st, ok := r.(*ssa.Store); ok && st.Addr == ssa.Value(al) {
						walk(st.Val, st.Block(), nil, ctx, depth+1)
					}
				}
			}
		}
	}
	// where the value is used (a value with one use: the block of that use)
	var at *ssa.BasicBlock
	if refs := v.Referrers(); refs != nil {
		n := 0
		for _, r := range *refs {
			if _, dbg := r.(*ssa.DebugRef); !dbg {
				at = r.Block()
				n++
			}
		}
		if n != 1 {
			at = nil
		}
	}
	walk(v, at, nil, nil, 0)
	var out []float64
	for f := range set {
		out = append(out, f)
	}
	sort.Float64s(out)
	return out
}

func uniqFloats(l []float64) []float64 {
	sort.Float64s(l)
	var out []float64
	for i, f := range l {
		if i == 0 || f != l[i-1] {
			out = append(out, f)
		}
	}
	return out
}
