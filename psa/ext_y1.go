package main

import (
	"fmt"
	"go/token"
	"go/types"
	"math/big"
	"sort"
	"strings"

	"golang.org/x/tools/go/ssa"
)

// Round 6, worker A: additions to the fact engine.

// remByVariable: r = x % d for a divisor d that is not a constant.  If d >= 1 holds at the
// division (dominating guards `d >= 0`, `d != 0`), Go's truncated remainder satisfies
// |r| <= d-1; if x >= 0 holds as well, 0 <= r <= x.  (`j %= n; if j < 0 { j += n }` then
// leaves 0 <= j < n on both edges of the join, wherever the value is used afterwards: in the
// same function or as the argument of a helper.)
type remFactsEntry struct {
	dPos, xNonneg bool
}

var remFactsCache = map[*ssa.BinOp]remFactsEntry{}

func (fi *funcInfo) remByVariable(a string, bo *ssa.BinOp) []Lin {
	if _, signed, isInt := isIntType(bo.Type()); !isInt || !signed {
		return nil
	}
	fi2 := fiByFn[bo.Parent()]
	if fi2 == nil {
		return nil
	}
	x, d := fi2.term(bo.X), fi2.term(bo.Y)
	e, ok := remFactsCache[bo]
	if !ok {
		if fi2.inDivProof {
			return nil
		}
		fi2.inDivProof = true
		savedS, savedN, savedD := fi2.substs, fi2.neq, debugProve
		fi2.substs = nil
		debugProve = false
		e.dPos = fi2.prove([]Lin{d.addK(-1)}, fi2.factsAt(bo.Block(), bo), 2)
		if e.dPos {
			e.xNonneg = fi2.prove([]Lin{x}, fi2.factsAt(bo.Block(), bo), 2)
		}
		fi2.substs, fi2.neq, debugProve = savedS, savedN, savedD
		fi2.inDivProof = false
		remFactsCache[bo] = e
	}
	if !e.dPos {
		return nil
	}
	r := atom(a)
	out := []Lin{d.addK(-1), d.addK(-1).sub(r), r.add(d.addK(-1))}
	if e.xNonneg {
		out = append(out, r, x.sub(r))
	}
	return out
}

// ---- results of a module function under "the returned error is nil": what holds for the integer
// results at every return that can carry a nil error holds in the caller on the edge where the
// error was found to be nil (`start, end, err := checkOperands(n); if err != nil { return err }`
// leaves 0 <= start <= end <= n behind, as the written-out checks did).

type nilErrFact func(cfi *funcInfo, call *ssa.Call) (Lin, bool)

var nilErrResultCache = map[*ssa.Function][]nilErrFact{}
var nilErrResultBusy = map[*ssa.Function]bool{}

func callResultTerm(cfi *funcInfo, call *ssa.Call, idx int) (Lin, bool) {
	if call.Referrers() == nil {
		return Lin{}, false
	}
	for _, r := range *call.Referrers() {
		if ex, ok := r.(*ssa.Extract); ok && ex.Index == idx {
			return cfi.term(ex), true
		}
	}
	return Lin{}, false
}

func nilErrResultFacts(g *ssa.Function) []nilErrFact {
	if r, ok := nilErrResultCache[g]; ok {
		return r
	}
	if nilErrResultBusy[g] || g == nil || len(g.Blocks) == 0 || !inMod(g) {
		return nil
	}
	res := g.Signature.Results()
	if res.Len() < 2 || !isErrorType(res.At(res.Len()-1).Type()) {
		nilErrResultCache[g] = nil
		return nil
	}
	errIdx := res.Len() - 1
	var ints []int
	for i := 0; i < errIdx; i++ {
		if _, _, isInt := isIntType(res.At(i).Type()); isInt {
			ints = append(ints, i)
		}
	}
	if len(ints) == 0 {
		nilErrResultCache[g] = nil
		return nil
	}
	nilErrResultBusy[g] = true
	defer delete(nilErrResultBusy, g)
	gfi := newFuncInfo(g)
	type cand struct {
		callee func(r *ssa.Return) Lin
		caller nilErrFact
	}
	var cands []cand
	for _, i := range ints {
		i := i
		ri := func(r *ssa.Return) Lin { return gfi.term(r.Results[i]) }
		// 0 <= r_i
		cands = append(cands, cand{ri, func(cfi *funcInfo, call *ssa.Call) (Lin, bool) { return callResultTerm(cfi, call, i) }})
		// r_i <= r_j
		for _, j := range ints {
			if j == i {
				continue
			}
			j := j
			cands = append(cands, cand{
				func(r *ssa.Return) Lin { return gfi.term(r.Results[j]).sub(ri(r)) },
				func(cfi *funcInfo, call *ssa.Call) (Lin, bool) {
					a, ok1 := callResultTerm(cfi, call, i)
					b, ok2 := callResultTerm(cfi, call, j)
					return b.sub(a), ok1 && ok2
				}})
		}
		// r_i <= p, r_i <= len(p)
		for k, p := range g.Params {
			k, p := k, p
			if _, _, isInt := isIntType(p.Type()); isInt {
				cands = append(cands, cand{
					func(r *ssa.Return) Lin { return gfi.term(p).sub(ri(r)) },
					func(cfi *funcInfo, call *ssa.Call) (Lin, bool) {
						a, ok := callResultTerm(cfi, call, i)
						return cfi.term(call.Call.Args[k]).sub(a), ok
					}})
			}
			switch u := p.Type().Underlying().(type) {
			case *types.Slice:
			case *types.Basic:
				if u.Info()&types.IsString == 0 {
					continue
				}
			default:
				continue
			}
			cands = append(cands, cand{
				func(r *ssa.Return) Lin { return gfi.lenOf(p).sub(ri(r)) },
				func(cfi *funcInfo, call *ssa.Call) (Lin, bool) {
					a, ok := callResultTerm(cfi, call, i)
					return cfi.lenOf(call.Call.Args[k]).sub(a), ok
				}})
		}
	}
	var out []nilErrFact
	for _, cd := range cands {
		ok, n := true, 0
		for _, r := range returns(g) {
			if len(r.Results) <= errIdx {
				ok = false
				break
			}
			if definitelyNonNilError(r.Results[errIdx]) || testedNonNilAt(r.Results[errIdx], r.Block()) {
				continue
			}
			n++
			if !gfi.prove([]Lin{cd.callee(r)}, gfi.factsAt(r.Block(), r), 1) {
				ok = false
				break
			}
		}
		if ok && n > 0 {
			out = append(out, cd.caller)
		}
	}
	nilErrResultCache[g] = out
	return out
}

// ---- slice fields of an object passed by pointer, under "the returned error is nil": a helper
// `func (s *T) fill(want int) error` that returns nil only once len(s.buf) >= want leaves that
// relation behind in the caller, for the memory epoch that starts with the call.

type nilErrFieldCand struct {
	ptr, num int // parameter indices: the object, the integer
	f        string
}

var nilErrFieldCache = map[*ssa.Function][]nilErrFieldCand{}
var nilErrFieldBusy = map[*ssa.Function]bool{}

// errResultReturns: the returns of g that can carry a nil error as last result (ok=false: g does
// not return an error last).
func nilErrorReturns(g *ssa.Function) ([]*ssa.Return, bool) {
	res := g.Signature.Results()
	if res.Len() == 0 || !isErrorType(res.At(res.Len()-1).Type()) {
		return nil, false
	}
	errIdx := res.Len() - 1
	var out []*ssa.Return
	for _, r := range returns(g) {
		if len(r.Results) <= errIdx {
			return nil, false
		}
		if definitelyNonNilError(r.Results[errIdx]) || testedNonNilAt(r.Results[errIdx], r.Block()) {
			continue
		}
		out = append(out, r)
	}
	return out, true
}

func nilErrFieldFacts(g *ssa.Function) []nilErrFieldCand {
	if r, ok := nilErrFieldCache[g]; ok {
		return r
	}
	if nilErrFieldBusy[g] || g == nil || len(g.Blocks) == 0 || !inMod(g) {
		return nil
	}
	rets, ok := nilErrorReturns(g)
	if !ok || len(rets) == 0 {
		nilErrFieldCache[g] = nil
		return nil
	}
	nilErrFieldBusy[g] = true
	defer delete(nilErrFieldBusy, g)
	gfi := newFuncInfo(g)
	var out []nilErrFieldCand
	for i, pi := range g.Params {
		pt, isPtr := pi.Type().Underlying().(*types.Pointer)
		if !isPtr {
			continue
		}
		if _, isStruct := pt.Elem().Underlying().(*types.Struct); !isStruct {
			continue
		}
		base := gfi.vname(canonBase(pi))
		prefix := types.TypeString(pt.Elem(), nil) + "."
		for f := range gfi.fields {
			if gfi.intFields[f] || !strings.HasPrefix(f, prefix) {
				continue
			}
			for j, pj := range g.Params {
				if _, _, isInt := isIntType(pj.Type()); !isInt {
					continue
				}
				holds := true
				for _, r := range rets {
					ep, ok := gfi.outEpoch[r.Block()][f]
					if !ok {
						holds = false
						break
					}
					ln, ok := gfi.rel[ep+"|"+f+"|"+base]
					if !ok {
						ln = atom(fmt.Sprintf("len(%s.%s@%s)", base, f, ep))
					}
					if dbgEntry {
						fmt.Println("NILERRFIELD", g.Name(), f, ep, ln, gfi.term(pj))
						debugProve = true
					}
					proved := gfi.prove([]Lin{ln.sub(gfi.term(pj))}, gfi.factsAt(r.Block(), r), 1)
					debugProve = false
					if !proved {
						holds = false
						break
					}
				}
				if holds {
					out = append(out, nilErrFieldCand{ptr: i, num: j, f: f})
				}
			}
		}
	}
	nilErrFieldCache[g] = out
	return out
}

// nilErrFieldFactsAt: the facts of nilErrFieldFacts over the caller's atoms, for the epoch of the
// field right after the call.
func (fi *funcInfo) nilErrFieldFactsAt(call *ssa.Call, g *ssa.Function) []Lin {
	cands := nilErrFieldFacts(g)
	if len(cands) == 0 || fi.callEpoch == nil {
		return nil
	}
	b := call.Block()
	pos := -1
	for i, ins := range b.Instrs {
		if ins == ssa.Instruction(call) {
			pos = i
		}
	}
	if pos < 0 || len(call.Call.Args) != len(g.Params) {
		return nil
	}
	var out []Lin
	for _, cd := range cands {
		if !fi.fields[cd.f] {
			continue
		}
		ep, ok := fi.callEpoch[call][cd.f]
		if callMayModify(call, cd.f) && !leafCallSpares(call, cd.f) {
			ep, ok = fmt.Sprintf("call@%d.%d", b.Index, pos), true
		}
		if !ok {
			continue
		}
		base := fi.vname(canonBase(call.Call.Args[cd.ptr]))
		ln, has := fi.rel[ep+"|"+cd.f+"|"+base]
		if !has {
			ln = atom(fmt.Sprintf("len(%s.%s@%s)", base, cd.f, ep))
		}
		out = append(out, ln.sub(fi.term(call.Call.Args[cd.num])))
	}
	return out
}

// testedNonNilAt: block b is only reached over the edge of a test `v != nil` (or `v == nil`) on
// which v is not nil (`if err != nil { return err }`).
func testedNonNilAt(v ssa.Value, b *ssa.BasicBlock) bool {
	for c := b; c != nil; c = c.Idom() {
		d := c.Idom()
		if d == nil || len(c.Preds) != 1 || c.Preds[0] != d {
			continue
		}
		ifi, ok := d.Instrs[len(d.Instrs)-1].(*ssa.If)
		if !ok || d.Succs[0] == d.Succs[1] {
			continue
		}
		bo, ok := ifi.Cond.(*ssa.BinOp)
		if !ok || (bo.Op != token.NEQ && bo.Op != token.EQL) {
			continue
		}
		var x ssa.Value
		switch {
		case isNilConst(bo.Y):
			x = bo.X
		case isNilConst(bo.X):
			x = bo.Y
		default:
			continue
		}
		if x != v {
			continue
		}
		if bo.Op == token.NEQ && c == d.Succs[0] || bo.Op == token.EQL && c == d.Succs[1] {
			return true
		}
	}
	return false
}

// ---- slice fields that are read and written through their address (`x.stack.push(v)`,
// `x.stack.truncate(n)` with methods on a pointer to a named slice type)

// slotParamUse classifies what function g does with its parameter number i, a pointer to a slice:
// loadsOnly — the pointer is only dereferenced for reading; monotone — every store through it is
// an append to the slice it points to or a re-slice [:h] of it (capacity never shrinks), and
// the pointer goes nowhere else (it may be handed on to functions of the same kind).
type slotParamUse struct{ loadsOnly, monotone bool }

type slotParamKey struct {
	g *ssa.Function
	i int
}

var slotParamCache = map[slotParamKey]slotParamUse{}
var slotParamBusy = map[slotParamKey]bool{}

func slotParam(g *ssa.Function, i int) slotParamUse {
	key := slotParamKey{g, i}
	if r, ok := slotParamCache[key]; ok {
		return r
	}
	if g == nil || len(g.Blocks) == 0 || i >= len(g.Params) || slotParamBusy[key] {
		return slotParamUse{}
	}
	slotParamBusy[key] = true
	defer delete(slotParamBusy, key)
	p := g.Params[i]
	res := slotParamUse{loadsOnly: true, monotone: true}
	refs := p.Referrers()
	if refs == nil {
		slotParamCache[key] = res
		return res
	}
	loadOfP := func(v ssa.Value) bool {
		ld, ok := v.(*ssa.UnOp)
		return ok && ld.Op == token.MUL && ld.X == ssa.Value(p)
	}
	for _, r := range *refs {
		switch x := r.(type) {
		case *ssa.DebugRef:
		case *ssa.UnOp:
			if x.Op != token.MUL {
				res = slotParamUse{}
			}
		case *ssa.Store:
			res.loadsOnly = false
			if x.Addr != ssa.Value(p) {
				res.monotone = false // the pointer itself is stored somewhere
				break
			}
			okForm := false
			switch v := x.Val.(type) {
			case *ssa.Call:
				if b, ok := v.Call.Value.(*ssa.Builtin); ok && b.Name() == "append" {
					a0 := v.Call.Args[0]
					if sl, ok := a0.(*ssa.Slice); ok && sl.Low == nil {
						a0 = sl.X
					}
					okForm = loadOfP(a0)
				}
			case *ssa.Slice:
				okForm = v.Low == nil && loadOfP(v.X)
			}
			if !okForm {
				res.monotone = false
			}
		case *ssa.Call:
			sc := x.Call.StaticCallee()
			if sc == nil || x.Call.Value == ssa.Value(p) {
				res = slotParamUse{}
				break
			}
			for j, a := range x.Call.Args {
				if a != ssa.Value(p) {
					continue
				}
				sub := slotParam(sc, j)
				res.loadsOnly = res.loadsOnly && sub.loadsOnly
				res.monotone = res.monotone && sub.monotone
			}
		default:
			res = slotParamUse{}
		}
	}
	slotParamCache[key] = res
	return res
}

// fieldAddrUses: how the address of a field is used besides plain loads and stores: handed (as an
// argument of a static call) to functions that only read through it / that keep the slot
// monotone, or used in some other way (escapes).
func fieldAddrUses(fa *ssa.FieldAddr) (readersOnly, monotone bool) {
	readersOnly, monotone = true, true
	refs := fa.Referrers()
	if refs == nil {
		return
	}
	for _, r := range *refs {
		switch x := r.(type) {
		case *ssa.DebugRef:
		case *ssa.UnOp:
			if x.Op != token.MUL {
				return false, false
			}
		case *ssa.Store:
			if x.Addr != ssa.Value(fa) {
				return false, false
			}
		case *ssa.FieldAddr, *ssa.IndexAddr:
			// the address of a part of the field: that part is a slot of its own
		case *ssa.Call:
			sc := x.Call.StaticCallee()
			if sc == nil || len(sc.Blocks) == 0 || len(sc.Params) != len(x.Call.Args) {
				return false, false
			}
			for j, a := range x.Call.Args {
				if a != ssa.Value(fa) {
					continue
				}
				u := slotParam(sc, j)
				readersOnly = readersOnly && u.loadsOnly
				monotone = monotone && u.monotone
			}
		default:
			return false, false
		}
	}
	return
}

// fieldAddrHandedOut: the address of the field reaches code that may store through it.
func fieldAddrHandedOut(fa *ssa.FieldAddr) bool {
	readersOnly, _ := fieldAddrUses(fa)
	return !readersOnly
}

// callGetsFieldAddr: an argument of the call is the address of field fname, and the callee may
// store through it.
func callGetsFieldAddr(com *ssa.CallCommon, fname string) bool {
	for j, a := range com.Args {
		fa, ok := a.(*ssa.FieldAddr)
		if !ok || fieldName(fa) != fname {
			continue
		}
		sc := com.StaticCallee()
		if sc == nil || len(sc.Blocks) == 0 || len(sc.Params) != len(com.Args) || !slotParam(sc, j).loadsOnly {
			return true
		}
	}
	return false
}

// monotoneSlotsByAccessor: a slice field whose address is taken stays a monotone slot only if
// the address goes to nothing but functions that append to / re-slice [:h] what it points to.
func monotoneSlotsByAccessor(c *Ctx, cand, bad map[string]bool) {
	for _, f := range c.modFuncs {
		eachInstr(f, func(ins ssa.Instruction) {
			fa, ok := ins.(*ssa.FieldAddr)
			if !ok {
				return
			}
			if _, isSlice := fa.Type().(*types.Pointer).Elem().Underlying().(*types.Slice); !isSlice {
				return
			}
			readersOnly, monotone := fieldAddrUses(fa)
			if readersOnly {
				return
			}
			name := fieldName(fa)
			cand[name] = true
			if !monotone {
				bad[name] = true
			}
		})
	}
}

// monotoneCapacityParam: (*p)[:h] in a function whose parameter p is the address of a monotone
// slot at every call site, h a linear form over the integer parameters: the re-slice is within
// the capacity if at every call site 0 <= h <= len(slot) holds for the length the slot had at
// some earlier point of the caller (its capacity has not shrunk since).
func (fi *funcInfo) monotoneCapacityParam(ins ssa.Instruction, mono map[string]bool) bool {
	sl, ok := ins.(*ssa.Slice)
	if !ok || sl.Low != nil || sl.High == nil {
		return false
	}
	ld, ok := sl.X.(*ssa.UnOp)
	if !ok || ld.Op != token.MUL {
		return false
	}
	p, ok := ld.X.(*ssa.Parameter)
	if !ok || p.Parent() != fi.fn {
		return false
	}
	pi := -1
	for i, q := range fi.fn.Params {
		if q == p {
			pi = i
		}
	}
	if pi < 0 || !slotParam(fi.fn, pi).monotone {
		return false
	}
	h := fi.term(sl.High)
	type argOf func(cfi *funcInfo, call *ssa.Call) Lin
	trans := map[string]argOf{}
	for i, q := range fi.fn.Params {
		i := i
		if _, _, isInt := isIntType(q.Type()); isInt {
			t := fi.term(q)
			if len(t.coef) == 1 && t.c.Sign() == 0 {
				for a, k := range t.coef {
					if k.Cmp(big.NewRat(1, 1)) == 0 {
						trans[a] = func(cfi *funcInfo, call *ssa.Call) Lin { return cfi.term(call.Call.Args[i]) }
					}
				}
			}
		}
	}
	for a := range h.coef {
		if trans[a] == nil {
			return false
		}
	}
	sites := staticCallSites(fi.fn)
	if len(sites) == 0 {
		return false
	}
	for _, call := range sites {
		if len(call.Call.Args) != len(fi.fn.Params) {
			return false
		}
		fa, ok := call.Call.Args[pi].(*ssa.FieldAddr)
		if !ok {
			return false
		}
		base, f, ok := slotOf(fa)
		if !ok || !mono[f] {
			return false
		}
		cfi := newFuncInfo(call.Parent())
		hc := konst(0)
		hc.c = new(big.Rat).Set(h.c)
		for a, k := range h.coef {
			hc = hc.addScaled(trans[a](cfi, call), k)
		}
		// the lengths the slot had at points the caller has passed
		eps := map[string]bool{}
		for _, m := range cfi.epoch {
			if e, ok := m[f]; ok {
				eps[e] = true
			}
		}
		if e, ok := cfi.callEpoch[call][f]; ok {
			eps[e] = true
		}
		var names []string
		for e := range eps {
			names = append(names, e)
		}
		sort.Strings(names)
		facts := cfi.factsAt(call.Block(), call)
		shown := false
		for _, e := range names {
			ln, has := cfi.rel[e+"|"+f+"|"+cfi.vname(base)]
			if !has {
				ln = atom(fmt.Sprintf("len(%s.%s@%s)", cfi.vname(base), f, e))
			}
			if cfi.prove([]Lin{hc, ln.sub(hc)}, facts, 0) {
				shown = true
				break
			}
		}
		if !shown {
			return false
		}
	}
	return true
}

// ---- class invariants at joins the function reaches with values it stored itself

// classInvJoins: for the joins whose merged state is not made of entry/call states only, assume
// the invariant at all of them, prove it on every incoming edge of each (from the values stored
// on that edge, the guards, and the invariant at the clean states — which now include the assumed
// joins), drop the joins where that fails and repeat until nothing is dropped.  What remains
// holds by induction on the number of joins passed: the first join state to violate the
// invariant would have been reached over an edge on which it was proved from states that held.
func (fi *funcInfo) classInvJoins() {
	type jn struct {
		b  *ssa.BasicBlock
		fs []string
	}
	var joins []jn
	for _, b := range fi.fn.Blocks {
		ep := fmt.Sprintf("phi@%d", b.Index)
		var fs []string
		for f := range classInvField {
			if fi.inEpoch[b][f] == ep && !fi.cleanEp[f+"|"+ep] {
				fs = append(fs, f)
			}
		}
		if len(fs) > 0 {
			sort.Strings(fs)
			joins = append(joins, jn{b, fs})
		}
	}
	if len(joins) == 0 || len(joins) > 16 {
		return
	}
	// the objects whose fields the function stores to
	bases := map[ssa.Value]bool{}
	for _, b := range fi.fn.Blocks {
		for _, ins := range b.Instrs {
			if st, ok := ins.(*ssa.Store); ok {
				if fa, ok := st.Addr.(*ssa.FieldAddr); ok && classInvField[fieldName(fa)] {
					bases[canonBase(fa.X)] = true
				}
			}
		}
	}
	var blist []ssa.Value
	for b := range bases {
		blist = append(blist, b)
	}
	sort.Slice(blist, func(i, j int) bool { return blist[i].Name() < blist[j].Name() })
	if len(blist) == 0 {
		return
	}
	set := func(j jn, v bool) {
		for _, f := range j.fs {
			fi.cleanEp[f+"|"+fmt.Sprintf("phi@%d", j.b.Index)] = v
		}
	}
	alive := map[*ssa.BasicBlock]bool{}
	for _, j := range joins {
		set(j, true)
		alive[j.b] = true
	}
	savedS, savedN, savedD := fi.substs, fi.neq, debugProve
	defer func() { fi.substs, fi.neq, debugProve = savedS, savedN, savedD }()
	fi.substs = nil
	debugProve = false
	edgeHolds := func(p, b *ssa.BasicBlock) bool {
		st := fi.outEpoch[p]
		facts := fi.edgeFacts(p, b)
		for _, ci := range classInvs {
			for _, base := range blist {
				bn := fi.vname(base)
				get := func(g string) Lin {
					ep := st[g]
					if ep == "" {
						ep = "entry"
					}
					if r, ok := fi.rel[ep+"|"+g+"|"+bn]; ok {
						return r
					}
					return atom(classInvAtom(ci.isLen[g], bn, g, ep))
				}
				for _, r := range ci.rels {
					if dbgEntry {
						debugProve = true
						fmt.Println("CLASSJOIN", fi.fn.Name(), p.Index, "->", b.Index, r.desc)
					}
					proved := fi.prove([]Lin{r.lin(get)}, facts, 1)
					debugProve = false
					if !proved {
						return false
					}
				}
			}
		}
		return true
	}
	for changed := true; changed; {
		changed = false
		for _, j := range joins {
			if !alive[j.b] {
				continue
			}
			ok := true
			for _, p := range j.b.Preds {
				if !edgeHolds(p, j.b) {
					ok = false
					break
				}
			}
			if !ok {
				alive[j.b] = false
				set(j, false)
				changed = true
			}
		}
		// a join fed by a dropped join is not made of states that hold: drop it as well
		for _, j := range joins {
			if !alive[j.b] {
				continue
			}
			for _, p := range j.b.Preds {
				for _, f := range j.fs {
					pe := fi.outEpoch[p][f]
					if strings.HasPrefix(pe, "phi@") && !fi.cleanEp[f+"|"+pe] {
						alive[j.b] = false
					}
				}
			}
			if !alive[j.b] {
				set(j, false)
				changed = true
			}
		}
	}
}

// ---- a slice reached through a pointer parameter (`func pop[T any](s *[]T) T`): the value a load
// `*p` yields before anything in the function can have changed the slice is the slice the caller
// passed the address of; if that is a tracked field, what the caller knows about its length at the
// call holds for the loaded value.

// pureFunc: a module function that stores nothing (but to its own local variables) and calls
// nothing but builtins and functions of the same kind.
var pureFuncCache = map[*ssa.Function]bool{}
var pureFuncBusy = map[*ssa.Function]bool{}

func localAddr(v ssa.Value) bool {
	for {
		switch x := v.(type) {
		case *ssa.Alloc:
			return !x.Heap
		case *ssa.FieldAddr:
			v = x.X
		case *ssa.IndexAddr:
			if _, isPtr := x.X.Type().Underlying().(*types.Pointer); !isPtr {
				return false
			}
			v = x.X
		default:
			return false
		}
	}
}

func pureFunc(g *ssa.Function) bool {
	if r, ok := pureFuncCache[g]; ok {
		return r
	}
	if g == nil || len(g.Blocks) == 0 || !inMod(g) || pureFuncBusy[g] {
		return false
	}
	pureFuncBusy[g] = true
	defer delete(pureFuncBusy, g)
	res := true
	for _, b := range g.Blocks {
		for _, ins := range b.Instrs {
			switch x := ins.(type) {
			case *ssa.Store:
				if !localAddr(x.Addr) {
					res = false
				}
			case *ssa.Go, *ssa.Defer, *ssa.RunDefers, *ssa.Send, *ssa.MapUpdate:
				res = false
			case *ssa.Call:
				if _, isB := x.Call.Value.(*ssa.Builtin); isB {
					continue
				}
				if sc := x.Call.StaticCallee(); sc == nil || !pureFunc(sc) {
					res = false
				}
			}
		}
	}
	pureFuncCache[g] = res
	return res
}

// entryStateLoads: the loads *p that are reached only over paths on which no slice variable of
// p's element type can have been assigned and nothing but pure functions was called.
func entryStateLoads(fn *ssa.Function, p *ssa.Parameter) []*ssa.UnOp {
	pt, ok := p.Type().Underlying().(*types.Pointer)
	if !ok {
		return nil
	}
	dirty := func(ins ssa.Instruction) bool {
		switch x := ins.(type) {
		case *ssa.Store:
			if localAddr(x.Addr) {
				return false
			}
			switch x.Val.Type().Underlying().(type) {
			case *types.Struct, *types.Array:
				return true
			}
			return types.Identical(x.Val.Type().Underlying(), pt.Elem().Underlying())
		case *ssa.Go, *ssa.RunDefers:
			return true
		case *ssa.Call:
			if _, isB := x.Call.Value.(*ssa.Builtin); isB {
				return false
			}
			sc := x.Call.StaticCallee()
			return sc == nil || !pureFunc(sc)
		}
		return false
	}
	cleanOut := map[*ssa.BasicBlock]bool{}
	cleanIn := map[*ssa.BasicBlock]bool{}
	for _, b := range fn.Blocks {
		cleanIn[b], cleanOut[b] = true, true
	}
	for changed := true; changed; {
		changed = false
		for _, b := range fn.Blocks {
			in := true
			for _, q := range b.Preds {
				in = in && cleanOut[q]
			}
			out := in
			for _, ins := range b.Instrs {
				if dirty(ins) {
					out = false
				}
			}
			if in != cleanIn[b] || out != cleanOut[b] {
				cleanIn[b], cleanOut[b] = in, out
				changed = true
			}
		}
	}
	var loads []*ssa.UnOp
	for _, b := range fn.Blocks {
		if !cleanIn[b] {
			continue
		}
		for _, ins := range b.Instrs {
			if dirty(ins) {
				break
			}
			if ld, ok := ins.(*ssa.UnOp); ok && ld.Op == token.MUL && ld.X == ssa.Value(p) {
				loads = append(loads, ld)
			}
		}
	}
	return loads
}

type ptrSliceCand struct {
	callee Lin
	caller func(cfi *funcInfo, call *ssa.Call) (Lin, bool)
}

// fieldLenBehindAddr: the length of the slice field whose address is arg, as the caller knows it
// right before the call.
func (fi *funcInfo) fieldLenBehindAddr(call ssa.Instruction, arg ssa.Value) (Lin, bool) {
	fa, ok := arg.(*ssa.FieldAddr)
	if !ok {
		return Lin{}, false
	}
	base, f, ok := slotOf(fa)
	if !ok || !fi.fields[f] || fi.intFields[f] || fi.callEpoch == nil {
		return Lin{}, false
	}
	ep, ok := fi.callEpoch[call][f]
	if !ok {
		return Lin{}, false
	}
	bn := fi.vname(base)
	if r, ok := fi.rel[ep+"|"+f+"|"+bn]; ok {
		return r, true
	}
	return atom(fmt.Sprintf("len(%s.%s@%s)", bn, f, ep)), true
}

func (fi *funcInfo) ptrSliceParamCands() []ptrSliceCand {
	var out []ptrSliceCand
	for i, p := range fi.fn.Params {
		pt, ok := p.Type().Underlying().(*types.Pointer)
		if !ok {
			continue
		}
		if _, isSlice := pt.Elem().Underlying().(*types.Slice); !isSlice {
			continue
		}
		i := i
		for _, ld := range entryStateLoads(fi.fn, p) {
			for _, k := range []int64{1, 2} {
				k := k
				out = append(out, ptrSliceCand{
					callee: fi.lenOf(ld).addK(-k),
					caller: func(cfi *funcInfo, call *ssa.Call) (Lin, bool) {
						l, ok := cfi.fieldLenBehindAddr(call, call.Call.Args[i])
						if !ok {
							return Lin{}, false
						}
						return l.addK(-k), true
					},
				})
			}
		}
	}
	return out
}

func resetCachesY1() {
	remFactsCache = map[*ssa.BinOp]remFactsEntry{}
	nilErrResultCache = map[*ssa.Function][]nilErrFact{}
	nilErrFieldCache = map[*ssa.Function][]nilErrFieldCand{}
	slotParamCache = map[slotParamKey]slotParamUse{}
	pureFuncCache = map[*ssa.Function]bool{}
}

// ---- slot invariants: the address of the field handed to a helper (`defer popLast(&x.stack)`)

// accessorWriters: call instruction u has the address fa of the field among its arguments.
// ok=false: the callee is not a function that merely reads through the pointer or appends to /
// re-slices [:h] the slice it points to (the address escapes).  Otherwise the stores the callee
// makes through the pointer are returned as writers of the field.
func accessorWriters(u ssa.CallInstruction, fa *ssa.FieldAddr, key string) ([]slotWriter, bool) {
	com := u.Common()
	sc := com.StaticCallee()
	if sc == nil || len(sc.Blocks) == 0 || len(sc.Params) != len(com.Args) {
		return nil, false
	}
	if _, isGo := u.(*ssa.Go); isGo {
		return nil, false
	}
	var out []slotWriter
	for j, a := range com.Args {
		if a != ssa.Value(fa) {
			continue
		}
		use := slotParam(sc, j)
		if use.loadsOnly {
			continue
		}
		if !use.monotone {
			return nil, false
		}
		p := sc.Params[j]
		direct := false
		for _, r := range *p.Referrers() {
			switch x := r.(type) {
			case *ssa.Store:
				if x.Addr == ssa.Value(p) {
					out = append(out, slotWriter{fn: sc, st: x, key: key, via: u, viaParam: j})
					direct = true
				}
			case *ssa.Call:
				// handed on to a further function that stores: not followed
				for k, a2 := range x.Call.Args {
					if a2 == ssa.Value(p) && !slotParam(x.Call.StaticCallee(), k).loadsOnly {
						return nil, false
					}
				}
			}
		}
		if !direct {
			return nil, false
		}
	}
	return out, true
}

func accessorWritersAsEscapes(writers []slotWriter, escapes []ssa.Instruction) ([]slotWriter, []ssa.Instruction) {
	var ws []slotWriter
	for _, w := range writers {
		if w.via != nil {
			escapes = append(escapes, w.via)
			continue
		}
		ws = append(ws, w)
	}
	return ws, escapes
}

// popThroughParam: the store `*p = (*p)[:h]` of a helper removes at most one element:
// h >= len(*p) - 1 for the value *p has at the store.
func popThroughParam(w *slotWriter) bool {
	sl, ok := origin(w.st.Val).(*ssa.Slice)
	if !ok || sl.Low != nil || sl.High == nil {
		return false
	}
	ld, ok := sl.X.(*ssa.UnOp)
	if !ok || ld.Op != token.MUL || ld.X != w.st.Addr {
		return false
	}
	// nothing between the load and the store changes the slice: same block, no call or store between
	if ld.Block() != w.st.Block() {
		return false
	}
	between := false
	for _, ins := range ld.Block().Instrs {
		if ins == ssa.Instruction(ld) {
			between = true
			continue
		}
		if ins == ssa.Instruction(w.st) {
			break
		}
		if !between {
			continue
		}
		switch x := ins.(type) {
		case *ssa.Store:
			return false
		case *ssa.Call:
			if _, isB := x.Call.Value.(*ssa.Builtin); !isB {
				return false
			}
		}
	}
	fi := newFuncInfo(w.fn)
	goal := fi.term(sl.High).sub(fi.lenOf(ld)).addK(1)
	facts := fi.factsAt(w.st.Block(), w.st)
	// loads of *p between which nothing is stored and nothing is called yield one value
	var prev *ssa.UnOp
	for _, ins := range ld.Block().Instrs {
		switch x := ins.(type) {
		case *ssa.Store:
			prev = nil
		case *ssa.Call:
			if _, isB := x.Call.Value.(*ssa.Builtin); !isB {
				prev = nil
			}
		case *ssa.UnOp:
			if x.Op == token.MUL && x.X == w.st.Addr {
				if prev != nil {
					d := fi.lenOf(x).sub(fi.lenOf(prev))
					facts = append(facts, d, d.neg())
				}
				prev = x
			}
		}
	}
	return fi.prove([]Lin{goal}, facts, 1)
}

// popParamAtoms: the deferred pop is a helper that reaches the slot through its address: the
// values it loads through the pointer before anything can have changed the slot are the slot as
// it is when the deferred call starts.
func popParamAtoms(pop *slotWriter) map[string]bool {
	if pop == nil || pop.via == nil {
		return nil
	}
	fi := newFuncInfo(pop.fn)
	out := map[string]bool{}
	for _, ld := range entryStateLoads(pop.fn, pop.fn.Params[pop.viaParam]) {
		l := fi.lenOf(ld)
		if len(l.coef) == 1 && l.c.Sign() == 0 {
			for a, k := range l.coef {
				if k.Cmp(big.NewRat(1, 1)) == 0 {
					out[a] = true
				}
			}
		}
	}
	return out
}

// ---- the refill step of the scanner, by role

// refillAnchor: the function that fills the scanner's buffer from its source.  If there is no
// method of that name (or of the name it was given), it is the one scanner method that reads
// the source directly: the refill step is then written out inside the function that hands out
// the next raw byte (whole = true), and its decision table is taken over one pass of that
// function, entered with an empty buffer and no mode flag set.
func (c *Ctx) refillAnchor() (fn *ssa.Function, whole bool) {
	if f := c.methodOpt("postscript", "scanner", "refill"); f != nil {
		return f, false
	}
	scannerT := c.typeObj("postscript", "scanner")
	var found []*ssa.Function
	for _, f := range c.modFuncs {
		if f.Signature.Recv() == nil || !pointsTo(f.Signature.Recv().Type(), scannerT) {
			continue
		}
		has := false
		eachInstr(f, func(ins ssa.Instruction) {
			if call, ok := ins.(ssa.CallInstruction); ok && call.Common().IsInvoke() && call.Common().Method.Name() == "Read" && isFieldLoad(call.Common().Value, scannerT, c.fld("scanner.src")) {
				has = true
			}
		})
		if has {
			found = append(found, f)
		}
	}
	if len(found) != 1 {
		abort("anchor: method postscript.scanner.refill not found, and %d scanner methods read the source directly", len(found))
	}
	return found[0], true
}

// refillWholeLoad: in the whole-function mode the buffer is empty (cursor and fill level 0) and no
// mode flag is set.
func refillWholeLoad(whole bool, ld *ssa.UnOp) (sv, bool) {
	if !whole {
		return sv{}, false
	}
	if bt, ok := ld.Type().Underlying().(*types.Basic); ok {
		switch {
		case bt.Info()&types.IsBoolean != 0:
			return boolV(false), true
		case bt.Info()&types.IsInteger != 0:
			return intV(0), true
		}
	}
	return sv{}, false
}
