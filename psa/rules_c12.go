package main

import (
	"fmt"
	"go/token"
	"go/types"

	"golang.org/x/tools/go/ssa"
)

func runC12(c *Ctx) {
	scannerT := c.typeObj("postscript", "scanner")
	ia := c.interp()

	c.readCountRule("DLV-READCOUNT", func(*ssa.Function) bool { return true })
	c.floor("DLV-READCOUNT", 3)

	// ---- refill: no error reported while data was delivered
	c.refillRules("DLV-DATAWITHERR", "")
	refill := c.method("postscript", "scanner", "refill")

	// ---- fixed-size reads use io.ReadFull
	pfbRead := c.method("pfb", "pfbReader", "Read")
	nFull, nArr := 0, 0
	c.eachInstrDeep(pfbRead, 2, func(ins ssa.Instruction) {
		if call, ok := ins.(*ssa.Call); ok {
			if sc := call.Common().StaticCallee(); sc != nil && calleeName(sc) == "io.ReadFull" {
				nFull++
				if sl, ok := call.Common().Args[1].(*ssa.Slice); ok {
					if p, ok := sl.X.Type().Underlying().(*types.Pointer); ok {
						if arr, ok := p.Elem().Underlying().(*types.Array); ok && arr.Len() == 6 {
							nArr++
						}
					}
				}
			}
		}
	})
	c.check(nFull >= 2 && nArr == 1, "DLV-READFULL", c.fname(pfbRead), "segment header (6 bytes) and binary data read with io.ReadFull", pfbRead.Pos(), fmt.Sprintf("%d ReadFull calls, header buffer [6]byte", nFull),
		"the PFB decoder no longer reads the 6-byte segment header and the binary segment bytes with io.ReadFull: a short read would be taken for the whole item")
	peek := c.fn("type1", "peek")
	nFull = 0
	c.eachInstrDeep(peek, 2, func(ins ssa.Instruction) {
		if call, ok := ins.(*ssa.Call); ok {
			if sc := call.Common().StaticCallee(); sc != nil && calleeName(sc) == "io.ReadFull" {
				nFull++
			}
		}
	})
	plainReads := 0
	c.eachInstrDeep(peek, 2, func(ins ssa.Instruction) {
		if call, ok := ins.(*ssa.Call); ok && call.Common().IsInvoke() && call.Common().Method.Name() == "Read" {
			plainReads++
		}
	})
	c.check(nFull >= 1 && plainReads == 0, "DLV-READFULL", c.fname(peek), "sniffed bytes read with io.ReadFull", peek.Pos(), fmt.Sprintf("%d ReadFull calls, no plain Read", nFull), "the first-byte sniffer uses a plain Read: a reader that delivers nothing on its first call would be misdetected")

	// ---- peek: seek branch restores the saved offset before every successful return
	var seeks []*ssa.Call
	eachInstr(peek, func(ins ssa.Instruction) {
		if call, ok := ins.(*ssa.Call); ok && call.Common().IsInvoke() && call.Common().Method.Name() == "Seek" {
			seeks = append(seeks, call)
		}
	})
	if len(seeks) == 0 {
		c.ok("DLV-SEEKBACK", c.fname(peek), "no seek branch", peek.Pos(), "the sniffer always buffers", "")
	} else {
		var save, restore *ssa.Call
		for _, s := range seeks {
			off, okO := constInt(s.Common().Args[0])
			wh, okW := constInt(s.Common().Args[1])
			if okO && okW && off == 0 && wh == 1 {
				save = s
			}
		}
		for _, s := range seeks {
			if s == save || save == nil {
				continue
			}
			wh, okW := constInt(s.Common().Args[1])
			if ex, ok := s.Common().Args[0].(*ssa.Extract); ok && ex.Tuple == ssa.Value(save) && ex.Index == 0 && okW && wh == 0 {
				restore = s
			}
		}
		okSeek := save != nil && restore != nil
		why := "the seekable branch does not save the offset with Seek(0, SeekCurrent) and restore it with Seek(pos, SeekStart)"
		if okSeek {
			// every successful return in the region dominated by save is dominated by restore
			for _, r := range returns(peek) {
				if !isNilConst(r.Results[len(r.Results)-1]) {
					continue
				}
				if dominatesInstr(save, r) && !dominatesInstr(restore, r) {
					okSeek = false
					why = "a successful return at " + c.pos(r.Pos()) + " in the seekable branch is not preceded by the Seek back to the saved offset"
				}
			}
			// restore error is checked
			okErr := false
			for _, rr := range *restore.Referrers() {
				if ex, ok := rr.(*ssa.Extract); ok && ex.Index == 1 && len(*ex.Referrers()) > 0 {
					okErr = true
				}
			}
			if !okErr {
				okSeek, why = false, "the error of the Seek back is ignored"
			}
		}
		c.check(okSeek, "DLV-SEEKBACK", c.fname(peek), "seekable source is rewound to the saved offset", peek.Pos(), "Seek(0,Current) … Seek(pos,Start) dominates the successful return", why)
	}
	// buffered branch: the peekReader replays exactly buf[:k] and then the rest
	prT := c.typeObj("type1", "peekReader")
	prRead := c.method("type1", "peekReader", "Read")
	okReplay := false
	eachInstr(prRead, func(ins ssa.Instruction) {
		// r.buf = r.buf[k:] with k = copy count min(len(b), len(r.buf))
		if st, ok := ins.(*ssa.Store); ok && isFieldAddr(st.Addr, prT, c.fld("peekReader.buf")) {
			if sl, ok := st.Val.(*ssa.Slice); ok && sl.Low != nil && sl.High == nil && isFieldLoad(sl.X, prT, c.fld("peekReader.buf")) {
				okReplay = true
			}
		}
	})
	c.check(okReplay, "DLV-REPLAY", c.fname(prRead), "buffered bytes replayed once, in order", prRead.Pos(), "r.buf = r.buf[k:] after copying k bytes", "the buffered reader does not advance its replay buffer by the number of bytes handed out")

	// ---- executeScanner: scanners push popped by a deferred function
	f := ia.execScanner
	var push *ssa.Store
	eachInstr(f, func(ins ssa.Instruction) {
		if st, ok := ins.(*ssa.Store); ok && isFieldAddr(st.Addr, ia.T, c.fld("intp.scanners")) {
			if call, ok := st.Val.(*ssa.Call); ok {
				if b, ok := call.Common().Value.(*ssa.Builtin); ok && b.Name() == "append" {
					push = st
				}
			}
		}
	})
	okPop := false
	if push != nil {
		eachInstr(f, func(ins ssa.Instruction) {
			d, ok := ins.(*ssa.Defer)
			if !ok || !dominatesInstr(push, d) && push.Block() != d.Block() {
				return
			}
			for _, cl := range closuresOf(d.Call.Value) {
				eachInstr(cl, func(i2 ssa.Instruction) {
					if st, ok := i2.(*ssa.Store); ok && isFieldAddr(st.Addr, ia.T, c.fld("intp.scanners")) {
						if sl, ok := st.Val.(*ssa.Slice); ok && sl.High != nil {
							okPop = true
						}
					}
				})
			}
		})
	}
	c.check(push != nil && okPop, "DLV-SCANNERSTACK", c.fname(f), "scanner pushed for the run is popped by a deferred function", f.Pos(), "append … defer scanners = scanners[:len-1]", "the scanner stack is not restored on every exit of executeScanner: a later Execute call (or readstring) would use a stale scanner")

	// ---- interpreter state persists across Execute calls: the entry points touch only per-run fields
	perRun := map[string]bool{"DSC": true, "scanners": true, "CheckStart": true}
	for _, name := range []string{"Execute", "ExecuteString", "executeScanner"} {
		g := c.methodOpt("postscript", "Interpreter", name)
		if g == nil {
			continue
		}
		var bad []string
		eachInstr(g, func(ins ssa.Instruction) {
			if st, ok := ins.(*ssa.Store); ok {
				if base, fld, ok := fieldAddrOf(st.Addr); ok && pointsTo(base.Type(), ia.T) && !perRun[fld.Name()] {
					bad = append(bad, fld.Name()+" at "+c.pos(st.Pos()))
				}
			}
		})
		c.check(len(bad) == 0, "DLV-PERSIST", c.fname(g), "entry point leaves stacks, open procedure bodies and dictionaries untouched", g.Pos(), "stores only to per-run fields (DSC, scanners, CheckStart)",
			c.fname(g)+" resets or rewrites interpreter state that must persist across Execute calls: "+joinMax(bad, 3)+"; feeding a program in several calls is then not equivalent to one call")
	}

	// ---- the stored read error is consulted only where EOF is handled explicitly
	nSticky := 0
	for _, f := range c.modFuncs {
		if f == refill {
			continue
		}
		eachInstr(f, func(ins ssa.Instruction) {
			ld, ok := ins.(*ssa.UnOp)
			if !ok || ld.Op != token.MUL || !isFieldAddr(ld.X, scannerT, c.fld("scanner.err")) {
				return
			}
			nSticky++
			handled := false
			why := ""
			// (a) compared with io.EOF somewhere
			var vals []ssa.Value
			vals = append(vals, ld)
			for i := 0; i < len(vals); i++ {
				for _, r := range *vals[i].Referrers() {
					switch r := r.(type) {
					case *ssa.BinOp:
						if isEOFGlobal(r.X) || isEOFGlobal(r.Y) {
							handled = true
							why = "compared with io.EOF"
						}
					case *ssa.Phi:
						vals = append(vals, r)
					}
				}
				if len(vals) > 20 {
					break
				}
			}
			// (b) dominated by a short-peek test len(x) < n
			for _, cd := range domConds(ld.Block()) {
				if m, ok := asCmp(cd); ok && m.op == token.LSS {
					if call, ok := origin(m.x).(*ssa.Call); ok {
						if b, ok := call.Common().Value.(*ssa.Builtin); ok && b.Name() == "len" {
							handled = true
							why = "only after a peek came up short"
						}
					}
				}
			}
			c.check(handled, "DLV-STICKYREAD", c.fname(f), "stored read error consulted with io.EOF handled explicitly", ld.Pos(), why,
				"the scanner's stored read error is used as the result here without distinguishing io.EOF: when the reader delivers the last bytes together with io.EOF the stored error is already io.EOF although all data is available, so the outcome depends on how the input is delivered")
		})
	}
	c.floor("DLV-STICKYREAD", 2)

	// ---- Next/Peek share one look-ahead buffer: bytes peeked are handed out before new input
	next := c.method("postscript", "scanner", "Next")
	usesPeek := false
	eachInstr(next, func(ins ssa.Instruction) {
		if ld, ok := ins.(*ssa.UnOp); ok && isFieldLoad(ld, scannerT, c.fld("scanner.peek")) {
			usesPeek = true
		}
	})
	c.check(usesPeek, "DLV-LOOKAHEAD", c.fname(next), "Next serves the look-ahead buffer first", next.Pos(), "reads scanner.peek", "Next no longer consults the look-ahead buffer: bytes already peeked would be skipped")
}

// readCountRule: at every direct Read on an io.Reader the byte count is accounted before the
// error is acted on (a Read may deliver data together with an error).
func (c *Ctx) readCountRule(rule string, filter func(*ssa.Function) bool) {
	// ---- every direct Read on an io.Reader: count accounted before the error is looked at
	nReads := 0
	for _, f := range c.modFuncs {
		if !filter(f) {
			continue
		}
		fname := c.fname(f)
		eachInstr(f, func(ins ssa.Instruction) {
			call, ok := ins.(*ssa.Call)
			if !ok || !call.Common().IsInvoke() || call.Common().Method.Name() != "Read" {
				return
			}
			if m := call.Common().Method; m.Pkg() == nil || m.Pkg().Path() != "io" {
				return
			}
			nReads++
			var n, e ssa.Value
			direct := false
			for _, r := range *call.Referrers() {
				switch r := r.(type) {
				case *ssa.Extract:
					if r.Index == 0 {
						n = r
					} else {
						e = r
					}
				case *ssa.Return:
					direct = true
				}
			}
			if direct {
				c.ok(rule, fname, "Read result passed on unchanged", call.Pos(), "return r.Read(b)", "")
				return
			}
			if n == nil || len(*n.Referrers()) == 0 {
				c.fail(rule, fname, "byte count of Read used", call.Pos(), "the number of bytes returned by Read is ignored: a short read loses or invents data")
				return
			}
			// at least one accounting use of n must not be control dependent on the error test
			bad := ""
			free := 0
			for _, r := range *n.Referrers() {
				ri, ok := r.(ssa.Instruction)
				if !ok {
					continue
				}
				dependent := false
				for _, cd := range domConds(ri.Block()) {
					if m, ok := asCmp(cd); ok && e != nil && (m.x == e || m.y == e) {
						dependent = true
					}
				}
				if !dependent {
					free++
				}
			}
			if free == 0 {
				bad = "the byte count is only used on paths that have already tested the error: bytes delivered together with an error (e.g. EOF) are lost"
			}
			// and some use of n precedes (is not dominated by) the error test
			c.check(bad == "", rule, fname, "byte count of Read accounted before the error is acted on", call.Pos(), "n is used unconditionally", bad)
		})
	}
	_ = nReads
}
