package main

import (
	"fmt"
	"go/token"

	"golang.org/x/tools/go/ssa"
)

func runC12(c *Ctx) {
	scannerT := c.typeObj("postscript", "scanner")
	ia := c.interp()

	// consecutive Execute calls behave like one call on the concatenation only if the start check
	// (CheckStart: the input must begin with %!) is made once — the flag is cleared when the check
	// has passed — and otherwise leaves no trace; same decision table as C11 (L7-START)
	c.startCheck(ia)

	c.readCountRule("DLV-READCOUNT", func(*ssa.Function) bool { return true })
	c.floor("DLV-READCOUNT", 3)

	// ---- a module reader that is asked only once fills the buffer (after seed C12-p1)
	c.fullReadRule("DLV-FULLREAD")
	c.floor("DLV-FULLREAD", 1)

	// ---- refill: no error reported while data was delivered
	c.refillRules("DLV-DATAWITHERR", "")
	refill, _ := c.refillAnchor()

	// ---- fixed-size reads use io.ReadFull
	// (decided on one evaluated iteration of the decoder's main loop per state — rules_c14b.go — so
	// that helpers, step methods reached through a dispatch table and inline code are the same thing)
	pfbRead := c.method("pfb", "pfbReader", "Read")
	okFull, whyFull, nFull := c.pfbFixedReadsX8(pfbRead)
	c.check(okFull, "DLV-READFULL", c.fname(pfbRead), "segment header (6 bytes) and binary data read with io.ReadFull", pfbRead.Pos(), fmt.Sprintf("%d ReadFull calls, header buffer of 6 bytes", nFull),
		"the PFB decoder no longer reads the 6-byte segment header and the binary segment bytes with io.ReadFull: a short read would be taken for the whole item ("+whyFull+")")
	peek := c.fn("type1", "peek")
	nFull = 0
	c.eachInstrDeep(peek, 2, func(ins ssa.Instruction) {
		if call, ok := ins.(*ssa.Call); ok {
			if sc := call.Common().StaticCallee(); sc != nil && calleeName(sc) == "io.ReadFull" {
				nFull++
			}
		}
	})
	plainReads := 0
	c.eachInstrDeep(peek, 2, func(ins ssa.Instruction) {
		if call, ok := ins.(*ssa.Call); ok && call.Common().IsInvoke() && call.Common().Method.Name() == "Read" {
			plainReads++
		}
	})
	c.check(nFull >= 1 && plainReads == 0, "DLV-READFULL", c.fname(peek), "sniffed bytes read with io.ReadFull", peek.Pos(), fmt.Sprintf("%d ReadFull calls, no plain Read", nFull), "the first-byte sniffer uses a plain Read: a reader that delivers nothing on its first call would be misdetected")

	// ---- peek: seek branch restores the saved offset before every successful return
	var seeks []*ssa.Call
	eachInstr(peek, func(ins ssa.Instruction) {
		if call, ok := ins.(*ssa.Call); ok && call.Common().IsInvoke() && call.Common().Method.Name() == "Seek" {
			seeks = append(seeks, call)
		}
	})
	if len(seeks) == 0 {
		c.ok("DLV-SEEKBACK", c.fname(peek), "no seek branch", peek.Pos(), "the sniffer always buffers", "")
	} else {
		var save, restore *ssa.Call
		for _, s := range seeks {
			off, okO := constInt(s.Common().Args[0])
			wh, okW := constInt(s.Common().Args[1])
			if okO && okW && off == 0 && wh == 1 {
				save = s
			}
		}
		for _, s := range seeks {
			if s == save || save == nil {
				continue
			}
			wh, okW := constInt(s.Common().Args[1])
			if ex, ok := s.Common().Args[0].(*ssa.Extract); ok && ex.Tuple == ssa.Value(save) && ex.Index == 0 && okW && wh == 0 {
				restore = s
			}
		}
		okSeek := save != nil && restore != nil
		why := "the seekable branch does not save the offset with Seek(0, SeekCurrent) and restore it with Seek(pos, SeekStart)"
		if okSeek {
			// every successful return in the region dominated by save is dominated by restore
			for _, r := range returns(peek) {
				if !isNilConst(r.Results[len(r.Results)-1]) {
					continue
				}
				if dominatesInstr(save, r) && !dominatesInstr(restore, r) {
					okSeek = false
					why = "a successful return at " + c.pos(r.Pos()) + " in the seekable branch is not preceded by the Seek back to the saved offset"
				}
			}
			// restore error is checked
			okErr := false
			for _, rr := range *restore.Referrers() {
				if ex, ok := rr.(*ssa.Extract); ok && ex.Index == 1 && len(*ex.Referrers()) > 0 {
					okErr = true
				}
			}
			if !okErr {
				okSeek, why = false, "the error of the Seek back is ignored"
			}
		}
		c.check(okSeek, "DLV-SEEKBACK", c.fname(peek), "seekable source is rewound to the saved offset", peek.Pos(), "Seek(0,Current) … Seek(pos,Start) dominates the successful return", why)
	}
	// buffered branch: the peekReader replays exactly buf[:k] and then the rest
	prT := c.typeObj("type1", "peekReader")
	prRead := c.method("type1", "peekReader", "Read")
	okReplay := false
	eachInstr(prRead, func(ins ssa.Instruction) {
		// r.buf = r.buf[k:] with k = copy count min(len(b), len(r.buf))
		if st, ok := ins.(*ssa.Store); ok && isFieldAddr(st.Addr, prT, c.fld("peekReader.buf")) {
			if sl, ok := st.Val.(*ssa.Slice); ok && sl.Low != nil && sl.High == nil && isFieldLoad(sl.X, prT, c.fld("peekReader.buf")) {
				okReplay = true
			}
		}
	})
	c.check(okReplay, "DLV-REPLAY", c.fname(prRead), "buffered bytes replayed once, in order", prRead.Pos(), "r.buf = r.buf[k:] after copying k bytes", "the buffered reader does not advance its replay buffer by the number of bytes handed out")

	// ---- executeScanner: scanners push popped by a deferred function
	f := ia.execScanner
	// the push is the store `scanners = append(scanners, …)`, in executeScanner itself or in a helper it
	// calls (then the call of the helper is the push site)
	isPushStore := func(ins ssa.Instruction) bool {
		if st, ok := ins.(*ssa.Store); ok && isFieldAddr(st.Addr, ia.T, c.fld("intp.scanners")) {
			if call, ok := st.Val.(*ssa.Call); ok {
				if b, ok := call.Common().Value.(*ssa.Builtin); ok && b.Name() == "append" {
					return true
				}
			}
		}
		return false
	}
	isPopStore := func(ins ssa.Instruction) bool {
		if st, ok := ins.(*ssa.Store); ok && isFieldAddr(st.Addr, ia.T, c.fld("intp.scanners")) {
			if sl, ok := st.Val.(*ssa.Slice); ok && sl.High != nil {
				return true
			}
		}
		return false
	}
	var push ssa.Instruction
	eachInstr(f, func(ins ssa.Instruction) {
		if isPushStore(ins) {
			push = ins
			return
		}
		if call, ok := ins.(*ssa.Call); ok {
			if g := call.Common().StaticCallee(); g != nil && g != f && g != ia.executeOne && c.inModule(g) && len(g.Blocks) > 0 {
				pushes, pops := false, false
				c.eachInstrDeep(g, 2, func(i2 ssa.Instruction) {
					pushes = pushes || isPushStore(i2)
					pops = pops || isPopStore(i2)
				})
				if pushes && !pops {
					push = ins
				}
			}
		}
	})
	okPop := false
	if push != nil {
		eachInstr(f, func(ins ssa.Instruction) {
			d, ok := ins.(*ssa.Defer)
			if !ok || !dominatesInstr(push, d) && push.Block() != d.Block() {
				return
			}
			// the pop may be made by a helper that receives the address of the field (ext_y3.go)
			isPopCall := func(com *ssa.CallCommon) bool {
				for i, a := range com.Args {
					if isFieldAddr(a, ia.T, c.fld("intp.scanners")) && !com.IsInvoke() {
						if _, ok := popThroughPointer(com.StaticCallee(), i); ok {
							return true
						}
					}
				}
				return false
			}
			if isPopCall(&d.Call) {
				okPop = true
			}
			for _, cl := range closuresOf(d.Call.Value) {
				c.eachInstrDeep(cl, 2, func(i2 ssa.Instruction) {
					if isPopStore(i2) {
						okPop = true
					}
					if call, ok := i2.(*ssa.Call); ok && isPopCall(&call.Call) {
						okPop = true
					}
				})
			}
		})
	}
	c.check(push != nil && okPop, "DLV-SCANNERSTACK", c.fname(f), "scanner pushed for the run is popped by a deferred function", f.Pos(), "append … defer scanners = scanners[:len-1]", "the scanner stack is not restored on every exit of executeScanner: a later Execute call (or readstring) would use a stale scanner")

	// ---- interpreter state persists across Execute calls: the entry points touch only per-run fields
	perRun := map[string]bool{"DSC": true, "scanners": true, "CheckStart": true}
	for _, name := range []string{"Execute", "ExecuteString", "executeScanner"} {
		g := c.methodOpt("postscript", "Interpreter", name)
		if g == nil {
			continue
		}
		var bad []string
		eachInstr(g, func(ins ssa.Instruction) {
			if st, ok := ins.(*ssa.Store); ok {
				if base, fld, ok := fieldAddrOf(st.Addr); ok && pointsTo(base.Type(), ia.T) && !perRun[fld.Name()] {
					bad = append(bad, fld.Name()+" at "+c.pos(st.Pos()))
				}
			}
		})
		c.check(len(bad) == 0, "DLV-PERSIST", c.fname(g), "entry point leaves stacks, open procedure bodies and dictionaries untouched", g.Pos(), "stores only to per-run fields (DSC, scanners, CheckStart)",
			c.fname(g)+" resets or rewrites interpreter state that must persist across Execute calls: "+joinMax(bad, 3)+"; feeding a program in several calls is then not equivalent to one call")
	}

	// ---- the stored read error is consulted only where EOF is handled explicitly
	nSticky := 0
	for _, f := range c.modFuncs {
		if f == refill {
			continue
		}
		eachInstr(f, func(ins ssa.Instruction) {
			ld, ok := ins.(*ssa.UnOp)
			if !ok || ld.Op != token.MUL || !isFieldAddr(ld.X, scannerT, c.fld("scanner.err")) {
				return
			}
			nSticky++
			handled := false
			why := ""
			// (a) compared with io.EOF somewhere.  Loads of the field from the same scanner between which
			// nothing can have written it (no call, no store on any path between them) yield the same
			// value: `err := s.err; if err != nil && err != io.EOF` and `if s.err != nil && s.err != io.EOF`
			// are the same consultation.
			var vals []ssa.Value
			vals = append(vals, ld)
			eachInstr(f, func(i2 ssa.Instruction) {
				l2, ok := i2.(*ssa.UnOp)
				if !ok || l2 == ld || l2.Op != token.MUL || !isFieldAddr(l2.X, scannerT, c.fld("scanner.err")) {
					return
				}
				if sameFieldBase(ld.X, l2.X) && (unchangedBetween(ld, l2) || unchangedBetween(l2, ld)) {
					vals = append(vals, l2)
				}
			})
			for i := 0; i < len(vals); i++ {
				for _, r := range *vals[i].Referrers() {
					switch r := r.(type) {
					case *ssa.BinOp:
						if isEOFGlobal(r.X) || isEOFGlobal(r.Y) {
							handled = true
							why = "compared with io.EOF"
						}
					case *ssa.Phi:
						vals = append(vals, r)
					}
				}
				if len(vals) > 20 {
					break
				}
			}
			// (b) dominated by a short-peek test len(x) < n, where x is what a look-ahead of the scanner
			// delivered: fewer bytes than asked for means the input really is exhausted (or broken).  The
			// length of anything else (the look-ahead buffer itself, while bytes may still sit in the read
			// buffer) says nothing about that.
			for _, cd := range domConds(ld.Block()) {
				if m, ok := asCmp(cd); ok && m.op == token.LSS {
					if call, ok := origin(m.x).(*ssa.Call); ok {
						if b, ok := call.Common().Value.(*ssa.Builtin); ok && b.Name() == "len" && len(call.Common().Args) == 1 {
							if pk, ok := origin(call.Common().Args[0]).(*ssa.Call); ok {
								if g := pk.Common().StaticCallee(); g != nil && g.Signature.Recv() != nil && pointsTo(g.Signature.Recv().Type(), scannerT) {
									handled = true
									why = "only after a peek came up short"
								}
							}
						}
					}
				}
			}
			c.check(handled, "DLV-STICKYREAD", c.fname(f), "stored read error consulted with io.EOF handled explicitly", ld.Pos(), why,
				"the scanner's stored read error is used as the result here without distinguishing io.EOF: when the reader delivers the last bytes together with io.EOF the stored error is already io.EOF although all data is available, so the outcome depends on how the input is delivered")
		})
	}
	c.floor("DLV-STICKYREAD", 2)

	// ---- Next/Peek share one look-ahead buffer: bytes peeked are handed out before new input
	// (decided on the evaluated form of Next, helpers in place: ext_x8.go)
	_ = scannerT
	c.lookaheadRuleX8("DLV-LOOKAHEAD")
}

// readCountRule: at every direct Read on an io.Reader the byte count is accounted before the
// error is acted on (a Read may deliver data together with an error).
func (c *Ctx) readCountRule(rule string, filter func(*ssa.Function) bool) {
	// ---- every direct Read on an io.Reader: count accounted before the error is looked at
	nReads := 0
	for _, f := range c.modFuncs {
		if !filter(f) {
			continue
		}
		fname := c.fname(f)
		eachInstr(f, func(ins ssa.Instruction) {
			call, ok := ins.(*ssa.Call)
			if !ok || !call.Common().IsInvoke() || call.Common().Method.Name() != "Read" {
				return
			}
			if m := call.Common().Method; m.Pkg() == nil || m.Pkg().Path() != "io" {
				return
			}
			nReads++
			var n, e ssa.Value
			direct := false
			for _, r := range *call.Referrers() {
				switch r := r.(type) {
				case *ssa.Extract:
					if r.Index == 0 {
						n = r
					} else {
						e = r
					}
				case *ssa.Return:
					direct = true
				}
			}
			if direct {
				c.ok(rule, fname, "Read result passed on unchanged", call.Pos(), "return r.Read(b)", "")
				return
			}
			if n == nil || len(*n.Referrers()) == 0 {
				c.fail(rule, fname, "byte count of Read used", call.Pos(), "the number of bytes returned by Read is ignored: a short read loses or invents data")
				return
			}
			// at least one accounting use of n must not be control dependent on the error test
			bad := ""
			free := 0
			for _, r := range *n.Referrers() {
				ri, ok := r.(ssa.Instruction)
				if !ok {
					continue
				}
				dependent := false
				for _, cd := range domConds(ri.Block()) {
					if m, ok := asCmp(cd); ok && e != nil && (m.x == e || m.y == e) {
						dependent = true
					}
				}
				if !dependent {
					free++
				}
			}
			if free == 0 {
				bad = "the byte count is only used on paths that have already tested the error: bytes delivered together with an error (e.g. EOF) are lost"
			}
			// and some use of n precedes (is not dominated by) the error test
			c.check(bad == "", rule, fname, "byte count of Read accounted before the error is acted on", call.Pos(), "n is used unconditionally", bad)
		})
	}
	_ = nReads
}

// sameFieldBase: two field addresses select the same field of the same object.
func sameFieldBase(a, b ssa.Value) bool {
	fa, ok1 := a.(*ssa.FieldAddr)
	fb, ok2 := b.(*ssa.FieldAddr)
	return ok1 && ok2 && fa.Field == fb.Field && origin(fa.X) == origin(fb.X)
}

// unchangedBetween: a is executed before b on every path to b, and no path from a to b contains a
// call (other than of a builtin) or a store through a pointer: memory read at a and at b is the same.
func unchangedBetween(a, b ssa.Instruction) bool { return unchangedBetweenOpt(a, b, false) }

// unchangedBetweenOpt: as unchangedBetween; with strict, the builtins that write through a slice
// (copy, append, clear) and stores into local variables count as writes too — needed when the
// memory in question is a local array that has been sliced.
func unchangedBetweenOpt(a, b ssa.Instruction, strict bool) bool {
	if !dominatesInstr(a, b) {
		return false
	}
	writes := func(ins ssa.Instruction) bool {
		switch x := ins.(type) {
		case ssa.CallInstruction:
			if bi, isB := x.Common().Value.(*ssa.Builtin); isB {
				if strict {
					switch bi.Name() {
					case "copy", "append", "clear":
						return true
					}
				}
				return false
			}
			return true
		case *ssa.Store:
			if _, local := x.Addr.(*ssa.Alloc); local && !strict {
				return false
			}
			return true
		case *ssa.MapUpdate, *ssa.Send:
			return true
		}
		return false
	}
	if a.Block() == b.Block() {
		for _, ins := range a.Block().Instrs[instrIndex(a)+1 : instrIndex(b)] {
			if writes(ins) {
				return false
			}
		}
		return true
	}
	// blocks from which b's block is reachable without leaving the region dominated by a's block
	canReach := map[*ssa.BasicBlock]bool{b.Block(): true}
	for changed := true; changed; {
		changed = false
		for _, blk := range a.Parent().Blocks {
			if canReach[blk] || blk == a.Block() || !a.Block().Dominates(blk) {
				continue
			}
			for _, s := range blk.Succs {
				if canReach[s] {
					canReach[blk] = true
					changed = true
					break
				}
			}
		}
	}
	for _, ins := range a.Block().Instrs[instrIndex(a)+1:] {
		if writes(ins) {
			return false
		}
	}
	for blk := range canReach {
		instrs := blk.Instrs
		if blk == b.Block() {
			// a loop through b's block back to itself would pass the whole block
			inLoop := false
			for _, s := range blk.Succs {
				if canReach[s] {
					inLoop = true
				}
			}
			if !inLoop {
				instrs = instrs[:instrIndex(b)]
			}
		}
		for _, ins := range instrs {
			if writes(ins) {
				return false
			}
		}
	}
	return true
}
