package main

// ext_x4.go — round 5, worker C: reader rules of C05/C06 outside the charstring decoder, rebuilt on
// the evaluator where they still matched the shape of the code.

import (
	"fmt"
	"go/token"
	"go/types"
	"sort"
	"strings"

	"golang.org/x/tools/go/ssa"
)

// termHasOpX4: the operator op occurs in the term v.
func termHasOpX4(v sv, op string) bool {
	if v.op == op {
		return true
	}
	for _, a := range v.args {
		if termHasOpX4(a, op) {
			return true
		}
	}
	return false
}

// isErrSymX4: a loaded package-level error value (`io.EOF`, `io.ErrUnexpectedEOF`, a hoisted
// `errXxx` variable).
func isErrSymX4(v sv) bool { return v.k == svSym && strings.HasPrefix(v.s, "*global:") }

// containerDetectionX4 (T1-CONTAINER of C06): `Read` accepts a font in PFB framing and a bare
// font program; which one it has is told by the first byte of the input.  Decided as a table:
// `Read` is evaluated from its entry up to the call that runs the interpreter, once for every
// value of the first byte and for an input without any byte, for a source that can seek and one
// that cannot.  The interpreter must be given the output of pfb.Decode exactly when the first
// byte is 0x80.  Helpers (peek, a function that opens the container) are evaluated in place; the
// bytes come from the model of io.ReadFull / Read / bufio Peek on the source.
func (c *Ctx) containerDetectionX4() {
	read := c.fn("type1", "Read")
	fname := c.fname(read)
	decode := c.fn("pfb", "Decode")
	newIntp := c.fn("postscript", "NewInterpreter")
	execs := map[*ssa.Function]bool{}
	for _, n := range []string{"Execute", "ExecuteString"} {
		if f := c.methodOpt("postscript", "Interpreter", n); f != nil {
			execs[f] = true
		}
	}
	eof := symV("*global:io.EOF")
	run := func(first int, seeker bool) (decoded bool, why string) {
		ev := &ssaEval{c: c, bind: map[ssa.Value]sv{}, mem: map[string]sv{}, maxDepth: 8}
		var given *sv
		fill := func(buf sv) (sv, bool) {
			// the source delivers its first bytes into buf: (count, error)
			if buf.k != svList {
				return sv{}, false
			}
			if first < 0 || buf.n == 0 {
				if first < 0 {
					return sv{k: svTuple, tup: []sv{intV(0), eof}}, true
				}
				return sv{k: svTuple, tup: []sv{intV(0), {k: svNil}}}, true
			}
			ev.lists[buf.s][buf.i] = intV(int64(first))
			for i := int64(1); i < buf.n; i++ {
				ev.lists[buf.s][buf.i+i] = symV(fmt.Sprintf("d%d", i))
			}
			return sv{k: svTuple, tup: []sv{intV(buf.n), {k: svNil}}}, true
		}
		ev.oracle = func(op token.Token, x, y sv) (bool, bool) {
			if op != token.EQL && op != token.NEQ {
				return false, false
			}
			switch {
			case isErrSymX4(x) && isErrSymX4(y):
				return (x.s == y.s) == (op == token.EQL), true
			case isErrSymX4(x) && y.k == svNil, isErrSymX4(y) && x.k == svNil:
				return op == token.NEQ, true
			}
			return false, false
		}
		ev.call = func(call ssa.CallInstruction, args []sv) (sv, bool) {
			if call == nil {
				if len(args) == 2 && strings.HasPrefix(args[0].s, "typeassert:") {
					// the source is an io.Reader; whether it can also seek is a column of the table
					if strings.Contains(args[0].s, "Seek") {
						return sv{k: svTuple, tup: []sv{args[1], boolV(seeker)}}, true
					}
					return sv{k: svTuple, tup: []sv{{k: svNil}, boolV(false)}}, true
				}
				return sv{}, false
			}
			n := callName(call)
			callee := call.Common().StaticCallee()
			switch {
			case callee != nil && callee == decode:
				if len(args) == 1 && args[0].known() {
					return term("pfb.Decode", args[0]), true
				}
				return sv{}, false
			case callee != nil && callee == newIntp:
				return symV("intp"), true
			case callee != nil && execs[callee]:
				if len(args) >= 2 {
					a := args[1]
					given = &a
				}
				ev.why = "done"
				return sv{}, true
			case n == "io.ReadFull" && len(args) == 2:
				return fill(args[1])
			case n == "io.ReadAtLeast" && len(args) == 3:
				return fill(args[1])
			case strings.HasPrefix(n, "invoke ") && strings.HasSuffix(n, ".Read") && len(args) == 2:
				return fill(args[1])
			case strings.HasPrefix(n, "invoke ") && strings.HasSuffix(n, ".Seek") && len(args) == 3:
				return sv{k: svTuple, tup: []sv{symV("pos"), {k: svNil}}}, true
			case n == "bufio.NewReader" || n == "bufio.NewReaderSize":
				if len(args) >= 1 && args[0].known() {
					return term("bufio", args[0]), true
				}
			case n == "(*bufio.Reader).Peek" && len(args) == 2 && args[1].k == svInt:
				if first < 0 || args[1].i == 0 {
					l := ev.newList(nil)
					if first < 0 {
						return sv{k: svTuple, tup: []sv{l, eof}}, true
					}
					return sv{k: svTuple, tup: []sv{l, {k: svNil}}}, true
				}
				el := []sv{intV(int64(first))}
				for i := int64(1); i < args[1].i && i < 64; i++ {
					el = append(el, symV(fmt.Sprintf("d%d", i)))
				}
				return sv{k: svTuple, tup: []sv{ev.newList(el), {k: svNil}}}, true
			}
			return sv{}, false
		}
		ev.runFunc(read, []sv{symV("src")})
		if given == nil {
			return false, "the interpreter is not reached: " + ev.why
		}
		if !given.known() {
			return false, "the reader handed to the interpreter has no value the table determines"
		}
		return termHasOpX4(*given, "pfb.Decode"), ""
	}
	var bad []string
	n := 0
	for _, seeker := range []bool{false, true} {
		for first := -1; first < 256; first++ {
			n++
			got, why := run(first, seeker)
			want := first == 0x80
			cell := fmt.Sprintf("first byte 0x%02x", first)
			if first < 0 {
				cell = "empty input"
			}
			if seeker {
				cell += " of a seekable source"
			}
			switch {
			case why != "":
				bad = append(bad, cell+": "+why)
			case got && !want:
				bad = append(bad, cell+": the input is unpacked as PFB although it does not start with a segment marker")
			case !got && want:
				bad = append(bad, cell+": the input is run as a bare font program although it starts with a PFB segment marker")
			}
		}
	}
	c.check(len(bad) == 0, "T1-CONTAINER", fname, "first byte 0x80 selects the PFB decoder", read.Pos(), fmt.Sprintf("%d cells: every first byte and the empty input, seekable or not → interpreter reads pfb.Decode(input) iff 0x80", n),
		"container detection: "+joinMax(bad, 3))
}

// ---------------------------------------------------------------------------------------------
// T1-SEAC (C06): the composites of a font, wherever the code that assembles them lives

// notDecoderX4: the functions reachable from Read without the charstring decoder and its closures
// (the decoder only records the seac operands; the composites are assembled after all glyphs
// have been decoded).
func (c *Ctx) seacScopeX4(read *ssa.Function) []*ssa.Function {
	dec := c.method("type1", "decodeInfo", "decodeCharString")
	var out []*ssa.Function
	for f := range c.reachFuncs(read, 5) {
		inDec := false
		for g := f; g != nil; g = g.Parent() {
			if g == dec {
				inDec = true
			}
		}
		if !inDec {
			out = append(out, f)
		}
	}
	sort.Slice(out, func(i, j int) bool { return out[i].Pos() < out[j].Pos() })
	return out
}

// structFieldSourcesX4: the fields of the struct type st whose value reaches v — through
// conversions, phis, once-assigned locals, and parameters (back to the arguments of the static
// calls of the function).
func (c *Ctx) structFieldSourcesX4(v ssa.Value, st *types.Struct) map[string]bool {
	out := map[string]bool{}
	seen := map[ssa.Value]bool{}
	var walk func(v ssa.Value, depth int)
	walk = func(v ssa.Value, depth int) {
		v = origin(v)
		if v == nil || seen[v] || depth > 12 {
			return
		}
		seen[v] = true
		switch x := v.(type) {
		case *ssa.UnOp:
			if x.Op == token.MUL {
				if fa, ok := x.X.(*ssa.FieldAddr); ok {
					if s, ok := fa.X.Type().Underlying().(*types.Pointer).Elem().Underlying().(*types.Struct); ok && types.Identical(s, st) {
						out[s.Field(fa.Field).Name()] = true
					}
				}
			}
		case *ssa.Field:
			if s, ok := x.X.Type().Underlying().(*types.Struct); ok && types.Identical(s, st) {
				out[s.Field(x.Field).Name()] = true
			}
		case *ssa.Convert:
			walk(x.X, depth+1)
		case *ssa.Phi:
			for _, e := range x.Edges {
				walk(e, depth+1)
			}
		case *ssa.Parameter:
			idx := paramIndexB(x)
			for _, g := range c.modFuncs {
				for _, call := range staticCalls(g, x.Parent()) {
					if idx >= 0 && idx < len(call.Common().Args) {
						walk(call.Common().Args[idx], depth+1)
					}
				}
			}
		}
	}
	walk(v, 0)
	return out
}

// sliceRootsX4: the slices whose backing array the slice v may share — v itself, followed through
// re-slicing, the first argument of append, phis, once-assigned locals, and the results of module
// functions (a parameter met among the values a callee returns is the argument of that call).
func (c *Ctx) sliceRootsX4(v ssa.Value) []ssa.Value {
	var out []ssa.Value
	type key struct {
		v    ssa.Value
		call ssa.CallInstruction
	}
	seen := map[key]bool{}
	var walk func(v ssa.Value, via []ssa.CallInstruction, depth int)
	walk = func(v ssa.Value, via []ssa.CallInstruction, depth int) {
		v = origin(v)
		var top ssa.CallInstruction
		if len(via) > 0 {
			top = via[len(via)-1]
		}
		if v == nil || seen[key{v, top}] || depth > 16 {
			return
		}
		seen[key{v, top}] = true
		switch x := v.(type) {
		case *ssa.Slice:
			walk(x.X, via, depth+1)
			return
		case *ssa.Phi:
			for _, e := range x.Edges {
				walk(e, via, depth+1)
			}
			return
		case *ssa.Call:
			if b, ok := x.Call.Value.(*ssa.Builtin); ok && b.Name() == "append" && len(x.Call.Args) > 0 {
				walk(x.Call.Args[0], via, depth+1)
				return
			}
			if g := x.Call.StaticCallee(); g != nil && c.inModule(g) && len(g.Blocks) > 0 && len(via) < 4 {
				for _, r := range returns(g) {
					if len(r.Results) == 1 {
						walk(r.Results[0], append(append([]ssa.CallInstruction{}, via...), x), depth+1)
					}
				}
				return
			}
		case *ssa.Parameter:
			if top != nil && top.Common().StaticCallee() == x.Parent() {
				if idx := paramIndexB(x); idx >= 0 && idx < len(top.Common().Args) {
					walk(top.Common().Args[idx], via[:len(via)-1], depth+1)
					return
				}
			}
		}
		out = append(out, v)
	}
	walk(v, nil, 0)
	return out
}

// loopBlocksX4: the blocks of the natural loop with header H.
func loopBlocksX4(H *ssa.BasicBlock) []*ssa.BasicBlock {
	var out []*ssa.BasicBlock
	for _, q := range H.Parent().Blocks {
		if H.Dominates(q) && reachesBlock(q, H) {
			out = append(out, q)
		}
	}
	return out
}

func (c *Ctx) seacRulesX4() {
	read := c.fn("type1", "Read")
	fname := c.fname(read)
	scope := c.seacScopeX4(read)
	stdEnc := c.spkgs[shortPkg["psenc"]].Var("StandardEncoding")
	seacT := c.typeObj("type1", "seacInfo").Type().Underlying().(*types.Struct)
	var codes, offs []string
	for i := 0; i < seacT.NumFields(); i++ {
		if bt, ok := seacT.Field(i).Type().Underlying().(*types.Basic); ok {
			switch {
			case bt.Kind() == types.Float64:
				offs = append(offs, seacT.Field(i).Name())
			case bt.Info()&types.IsInteger != 0:
				codes = append(codes, seacT.Field(i).Name())
			}
		}
	}
	// 1. both component codes of a seac record are looked up in StandardEncoding, within 0..255:
	// every look-up in the table is range-checked where it is made, and both code fields of the
	// record reach such a look-up (directly or as the argument of a helper)
	nStd := 0
	bounded := true
	reached := map[string]bool{}
	for _, f := range scope {
		eachInstr(f, func(ins ssa.Instruction) {
			ix, ok := ins.(*ssa.IndexAddr)
			if !ok || ix.X != ssa.Value(stdEnc) {
				return
			}
			src := c.structFieldSourcesX4(ix.Index, seacT)
			if len(src) == 0 {
				return // not a look-up of a seac component (the interpreter builds its own copy of the table)
			}
			nStd++
			conds := domConds(ix.Block())
			is := func(v ssa.Value) bool { return sameValue(v, ix.Index) }
			ub, okU := upperBoundConst(conds, is)
			lb, okL := lowerBoundConst(conds, is)
			if !okU || !okL || lb < 0 || ub > 255 {
				bounded = false
			}
			for k := range src {
				reached[k] = true
			}
		})
	}
	var missing []string
	for _, k := range codes {
		if !reached[k] {
			missing = append(missing, k)
		}
	}
	c.check(nStd >= 1 && bounded && len(codes) == 2 && len(missing) == 0, "T1-SEAC", fname, "bchar and achar are codes in StandardEncoding, both range-checked", read.Pos(), "psenc.StandardEncoding[base], [accent] under 0 <= code <= 255",
		fmt.Sprintf("seac components are not looked up as codes in StandardEncoding (lookups: %d, all bounded to 0..255: %v, component codes that reach no such look-up: %v); a font with its own encoding array would get wrong or empty composites", nStd, bounded, missing))
	// 2. the composite copies the base commands, does not alias them
	glyphT := c.typeObj("type1", "Glyph")
	alias := ""
	for _, f := range scope {
		eachInstr(f, func(ins ssa.Instruction) {
			st, ok := ins.(*ssa.Store)
			if !ok || !isFieldAddr(st.Addr, glyphT, "Cmds") {
				return
			}
			dst, _, _ := fieldAddrOf(st.Addr)
			for _, root := range c.sliceRootsX4(st.Val) {
				if isFieldLoad(root, glyphT, "Cmds") {
					src, _, _ := fieldOf(origin(root))
					// (the same object may be loaded twice: `p.glyph.Cmds = append(p.glyph.Cmds, …)`)
					if dst != src && !sameValue(dst, src) {
						alias = c.pos(st.Pos())
					}
				}
			}
		})
	}
	c.check(alias == "", "T1-SEAC", fname, "the composite gets its own copy of the base glyph's commands", read.Pos(), "append(g.Cmds[:0], base.Cmds...)", "the composite glyph shares the command slice of its base glyph ("+alias+"): appending the accent then overwrites the commands of other composites built on the same base")
	// 3. the accent's commands are translated for every command kind: one pass of the loop that reads
	// the commands of a glyph and appends commands to another is evaluated for each kind
	isGlyphOpPtr := func(t types.Type) bool {
		p, ok := t.Underlying().(*types.Pointer)
		return ok && isNamedB(p.Elem(), "go/postscript/type1", "GlyphOp")
	}
	type loopX4 struct {
		fn *ssa.Function
		H  *ssa.BasicBlock
	}
	var loops []loopX4
	for _, f := range scope {
		var best *ssa.BasicBlock
		for _, b := range f.Blocks {
			isHeader := false
			for _, p := range b.Preds {
				if b.Dominates(p) {
					isHeader = true
				}
			}
			if !isHeader {
				continue
			}
			hasOp := false
			for _, q := range loopBlocksX4(b) {
				for _, ins := range q.Instrs {
					if fa, ok := ins.(*ssa.FieldAddr); ok && isGlyphOpPtr(fa.X.Type()) {
						if st := fa.X.Type().Underlying().(*types.Pointer).Elem().Underlying().(*types.Struct); st.Field(fa.Field).Name() == "Op" {
							hasOp = true
						}
					}
				}
			}
			if hasOp && (best == nil || best.Dominates(b)) {
				best = b
			}
		}
		if best != nil {
			loops = append(loops, loopX4{f, best})
		}
	}
	if len(loops) == 0 {
		c.undecided("T1-SEAC", fname, "accent loop", read.Pos(), "the loop over the accent's commands was not found")
		return
	}
	for _, lp := range loops {
		f, H := lp.fn, lp.H
		var bad []string
		for name, nargs := range map[string]int{"OpMoveTo": 2, "OpLineTo": 2, "OpCurveTo": 6, "OpClosePath": 0} {
			opv := c.constInt("type1", name)
			ev := &ssaEval{c: c, bind: map[ssa.Value]sv{}, mem: map[string]sv{}}
			var appended []string
			ev.load = func(ld *ssa.UnOp, addr sv) (sv, bool) {
				a := addr.s
				switch {
				case strings.HasSuffix(a, ".Op"):
					return intV(opv), true
				case strings.Contains(a, ".Args["):
					return symV("A" + strings.TrimSuffix(a[strings.LastIndex(a, "[")+1:], "]")), true
				case strings.HasSuffix(a, ".Args"):
					return sv{k: svAddr, s: "cmd.Args"}, true
				case len(offs) == 2 && strings.HasSuffix(a, "."+offs[0]):
					return symV("dx"), true
				case len(offs) == 2 && strings.HasSuffix(a, "."+offs[1]):
					return symV("dy"), true
				}
				return symV("v:" + a), true
			}
			ev.call = func(call ssa.CallInstruction, args []sv) (sv, bool) {
				if callName(call) == "builtin append" && len(args) == 2 {
					appended = append(appended, ev.render(args[1]))
					return symV("cmds"), true
				}
				return sv{}, false
			}
			fr := &frame{vals: map[ssa.Value]sv{}}
			if ifi, ok := H.Instrs[len(H.Instrs)-1].(*ssa.If); ok {
				ev.bind[ifi.Cond] = boolV(reachesBlock(H.Succs[0], H))
			}
			for _, ins := range H.Instrs {
				if phi, ok := ins.(*ssa.Phi); ok {
					fr.vals[phi] = symV("idx")
				}
			}
			// offsets loaded before the loop (hoisted into locals) or handed to the function that holds
			// the loop are the same symbols
			sym := func(fld string) (sv, bool) {
				switch {
				case len(offs) == 2 && fld == offs[0]:
					return symV("dx"), true
				case len(offs) == 2 && fld == offs[1]:
					return symV("dy"), true
				}
				return sv{}, false
			}
			eachInstr(f, func(ins ssa.Instruction) {
				if ld, ok := ins.(*ssa.UnOp); ok && ld.Op == token.MUL {
					if fa, ok := ld.X.(*ssa.FieldAddr); ok {
						if st, ok := fa.X.Type().Underlying().(*types.Pointer).Elem().Underlying().(*types.Struct); ok && types.Identical(st, seacT) {
							if s, ok := sym(st.Field(fa.Field).Name()); ok {
								ev.bind[ld] = s
							}
						}
					}
				}
			})
			for _, p := range f.Params {
				if bt, ok := p.Type().Underlying().(*types.Basic); ok && bt.Kind() == types.Float64 {
					if src := c.structFieldSourcesX4(p, seacT); len(src) == 1 {
						for k := range src {
							if s, ok := sym(k); ok {
								ev.bind[p] = s
							}
						}
					}
					continue
				}
				if _, isPtr := p.Type().Underlying().(*types.Pointer); isPtr {
					ev.bind[p] = sv{k: svAddr, s: "arg:" + p.Name()}
				} else {
					ev.bind[p] = symV("arg:" + p.Name())
				}
			}
			back := false
			ev.runBlocks(fr, H, nil, func(next, from *ssa.BasicBlock) bool {
				if next == H {
					back = true
				}
				return next == H
			})
			var wantArgs []string
			for k := 0; k < nargs; k++ {
				off := "dx"
				if k%2 == 1 {
					off = "dy"
				}
				wantArgs = append(wantArgs, fmt.Sprintf("+(A%d,%s)", k, off))
			}
			want := fmt.Sprintf("[{Args:[%s],Op:%d}]", strings.Join(wantArgs, " "), opv)
			if nargs == 0 {
				want = fmt.Sprintf("[{Op:%d}]", opv)
			}
			got := strings.Join(appended, " ")
			if nargs == 0 && got == fmt.Sprintf("[{Args:nil,Op:%d}]", opv) {
				got = want
			}
			if !back || got != want {
				bad = append(bad, fmt.Sprintf("%s of the accent becomes %s, expected %s %s", name, got, want, ev.why))
			}
		}
		sort.Strings(bad)
		c.check(len(bad) == 0 && len(offs) == 2, "T1-SEAC", c.fname(f), "every command of the accent is kept and every coordinate translated by (adx, ady), x by dx and y by dy", f.Pos(), "move, line, curve, closepath evaluated", "seac: "+joinMax(bad, 2))
	}
}

// ---------------------------------------------------------------------------------------------
// readstring on the evaluator (EEXEC-OP of C05, T1-BINARY of C06)

type scannerCallX4 struct {
	on   string // the scanner asked
	what string // "next byte", "read into the operand", or the shape of another method
}

type readstringOutcomeX4 struct {
	calls []scannerCallX4
	ret   sv
	why   string
}

// readstringCellX4 evaluates the registered readstring operator with the operand stack
// [keep, file, string of three bytes] and a scanner stack of two scanners, both reads succeeding.
// The methods of the scanner are not entered: each call is recorded with the scanner it is made on
// and what it asks for, told by the signature — () (byte, error) delivers the next byte,
// ([]byte) (int, error) fills a buffer.  Helpers that take the top of a stack are evaluated in place, and so
// are scanner methods that exist for readstring alone (a buffer reader that loops over the byte reader, a
// method that does the skip and the read): then every byte delivered is followed into the operand.
func (c *Ctx) readstringCellX4(f *ssa.Function) readstringOutcomeX4 {
	scT := c.typeObj("postscript", "scanner")
	var o readstringOutcomeX4
	var ev *ssaEval
	var operand sv
	var nextBytes []sv // what the single-byte reader delivered, in order
	own := c.privateHelpersB(f)
	ev = c.cipherEvalB(func(call ssa.CallInstruction, args []sv) (sv, bool) {
		if call == nil {
			if len(args) == 2 && strings.HasPrefix(args[0].s, "typeassert:") {
				if strings.HasSuffix(args[0].s, "postscript.String") && args[1].k == svList {
					return sv{k: svTuple, tup: []sv{args[1], boolV(true)}}, true
				}
				return sv{k: svTuple, tup: []sv{{k: svNil}, boolV(false)}}, true
			}
			return sv{}, false
		}
		sc := call.Common().StaticCallee()
		if sc == nil || sc.Signature.Recv() == nil || !pointsTo(sc.Signature.Recv().Type(), scT) || len(args) == 0 {
			return sv{}, false
		}
		if own[sc] {
			// a piece of the operator that became a scanner method of its own (whatever its signature)
			// is evaluated in place: what counts is what it asks of the scanner's shared readers
			return sv{}, false
		}
		res, par := sc.Signature.Results(), sc.Signature.Params()
		isErr := func(t types.Type) bool { return isErrorTypeB(t) }
		isByte := func(t types.Type) bool {
			b, ok := t.Underlying().(*types.Basic)
			return ok && b.Kind() == types.Uint8
		}
		isBytes := func(t types.Type) bool {
			sl, ok := t.Underlying().(*types.Slice)
			return ok && isByte(sl.Elem())
		}
		switch {
		case par.Len() == 0 && res.Len() == 2 && isByte(res.At(0).Type()) && isErr(res.At(1).Type()):
			o.calls = append(o.calls, scannerCallX4{args[0].s, "next byte"})
			nextBytes = append(nextBytes, symV(fmt.Sprintf("in%d", len(nextBytes))))
			return sv{k: svTuple, tup: []sv{nextBytes[len(nextBytes)-1], {k: svNil}}}, true
		case par.Len() == 1 && isBytes(par.At(0).Type()) && res.Len() == 2 && isIntTypeB(res.At(0).Type()) && isErr(res.At(1).Type()):
			what := "read into the operand"
			if len(args) < 2 || args[1].k != svList || args[1].s != operand.s || args[1].i != operand.i || args[1].n != operand.n {
				what = "read into " + ev.render(args[len(args)-1])
			}
			o.calls = append(o.calls, scannerCallX4{args[0].s, what})
			return sv{k: svTuple, tup: []sv{intV(operand.n), {k: svNil}}}, true
		}
		o.calls = append(o.calls, scannerCallX4{args[0].s, "call of " + sc.Signature.String()})
		return sv{}, true
	})
	ev.load = func(ld *ssa.UnOp, addr sv) (sv, bool) {
		if strings.HasPrefix(addr.s, "global:") {
			return symV(addr.s[strings.LastIndex(addr.s, ".")+1:]), true
		}
		return sv{}, false
	}
	operand = ev.newList(symListB("b", 3))
	ev.mem["intp.Stack"] = ev.newList([]sv{symV("Integer:keep"), {k: svNil}, operand})
	ev.mem["intp."+c.fld("intp.scanners")] = ev.newList([]sv{{k: svAddr, s: "scanner0"}, {k: svAddr, s: "scanner1"}})
	ret := ev.runFunc(f, []sv{{k: svAddr, s: "intp"}})
	o.why = ev.why
	// the buffer reader evaluated in place (it exists for readstring alone): byte by byte it has the same
	// effect as one read into the operand iff the first byte delivered is dropped and the following
	// len(operand) bytes are stored into the operand in the order of delivery
	if el, ok := ev.elems(operand); ok && o.why == "" && int64(len(nextBytes)) == operand.n+1 && len(o.calls) == len(nextBytes) {
		same := true
		for i, x := range el {
			if x.k != svSym || x.s != nextBytes[i+1].s {
				same = false
			}
		}
		for _, k := range o.calls {
			if k.what != "next byte" || k.on != o.calls[0].on {
				same = false
			}
		}
		if same {
			o.calls = []scannerCallX4{o.calls[0], {o.calls[0].on, "read into the operand"}}
		}
	}
	switch {
	case len(ret) == 1:
		o.ret = ret[0]
		if o.why == "" && ret[0].k != svNil {
			o.why = "with a file and a string on the stack the operator fails: " + ret[0].String()
		}
	case o.why == "":
		o.why = "no result"
	}
	return o
}

// ---------------------------------------------------------------------------------------------
// parts of a struct type

// partFieldX4: field f of the named struct type parent holds, by value, an unexported struct type
// of the same package that is a *part* of parent — fields of parent that were grouped.  An
// embedded struct is one (its fields are promoted); a struct in a named field is one when it is
// the only field of its type and the grouping hides no name (no field of the part is called like
// a field of parent), so that "the field r of the scanner" still denotes one thing.  Field roles
// (roles.go), pointsTo (ssahelp.go) and the evaluators that address promoted fields as direct
// fields (flatEmbedded) see through both.
func partFieldX4(parent types.Type, f *types.Var) bool {
	pn, ok := types.Unalias(parent).(*types.Named)
	if !ok {
		return false
	}
	st, ok := pn.Underlying().(*types.Struct)
	if !ok {
		return false
	}
	en, ok := types.Unalias(f.Type()).(*types.Named)
	if !ok || en.Obj().Pkg() != pn.Obj().Pkg() || en.Obj().Exported() {
		return false
	}
	est, ok := en.Underlying().(*types.Struct)
	if !ok {
		return false
	}
	if f.Embedded() {
		return true
	}
	n := 0
	names := map[string]bool{}
	for i := 0; i < st.NumFields(); i++ {
		g := st.Field(i)
		if types.Identical(g.Type(), f.Type()) {
			n++
		}
		names[g.Name()] = true
	}
	if n != 1 {
		return false
	}
	for j := 0; j < est.NumFields(); j++ {
		if names[est.Field(j).Name()] {
			return false
		}
	}
	return true
}
