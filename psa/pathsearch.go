package main

import (
	"fmt"
	"go/token"
	"go/types"
	"sort"
	"strings"

	"golang.org/x/tools/go/ssa"
)

// Path-sensitive reachability on the SSA control-flow graph of one function.
//
// The search follows every CFG path from the entry block but keeps two kinds
// of facts and prunes branches that contradict them:
//
//   B(v) = true|false     for boolean SSA values (parameters, phis of them)
//   T(x) ∈ type / ∉ types the dynamic type of interface value x, learnt
//                         from `typeassert,ok` tests (type switches)
//
// Facts are transferred through phi nodes along the edge taken and dropped
// when the defining block of a value is entered again (next loop iteration).
// It is a search over the finite graph (block × fact set); nothing is executed.

type typeFact struct {
	is  types.Type            // known dynamic type (nil if unknown)
	not map[string]types.Type // excluded types
}

type pathState struct {
	blk   *ssa.BasicBlock
	bools map[ssa.Value]bool
	typs  map[ssa.Value]*typeFact
}

func (s *pathState) key() string {
	var parts []string
	for v, b := range s.bools {
		parts = append(parts, fmt.Sprintf("%s=%v", v.Name(), b))
	}
	for v, tf := range s.typs {
		p := v.Name() + ":"
		if tf.is != nil {
			p += "is " + tf.is.String()
		}
		var ex []string
		for k := range tf.not {
			ex = append(ex, k)
		}
		sort.Strings(ex)
		p += " not " + strings.Join(ex, ",")
		parts = append(parts, p)
	}
	sort.Strings(parts)
	return fmt.Sprintf("%d|%s", s.blk.Index, strings.Join(parts, ";"))
}

func (s *pathState) clone() *pathState {
	n := &pathState{blk: s.blk, bools: map[ssa.Value]bool{}, typs: map[ssa.Value]*typeFact{}}
	for k, v := range s.bools {
		n.bools[k] = v
	}
	for k, v := range s.typs {
		tf := &typeFact{is: v.is, not: map[string]types.Type{}}
		for a, b := range v.not {
			tf.not[a] = b
		}
		n.typs[k] = tf
	}
	return n
}

type pathQuery struct {
	fn       *ssa.Function
	isTarget func(b *ssa.BasicBlock) bool
	avoid    func(b *ssa.BasicBlock) bool
	// optional: facts that hold on entry (about parameters), and a visitor of every state in which
	// a target block is reached (the search then goes on instead of stopping at the first one)
	initBools map[ssa.Value]bool
	initTyps  map[ssa.Value]*typeFact
	each      func(s *pathState)
	// result
	witness []int // block indices of a path found
}

// boolKey canonicalises a boolean condition to (value, negated).
func boolKey(v ssa.Value) (ssa.Value, bool) {
	neg := false
	for {
		if u, ok := v.(*ssa.UnOp); ok && u.Op == token.NOT {
			v = u.X
			neg = !neg
			continue
		}
		break
	}
	return v, neg
}

// typeTest: cond is the ok-flag of `x.(T)`; returns x (resolved through
// representation-only instructions) and T.
func typeTest(v ssa.Value) (ssa.Value, types.Type, bool) {
	ex, ok := v.(*ssa.Extract)
	if !ok || ex.Index != 1 {
		return nil, nil, false
	}
	ta, ok := ex.Tuple.(*ssa.TypeAssert)
	if !ok || !ta.CommaOk {
		return nil, nil, false
	}
	if _, isIface := ta.AssertedType.Underlying().(*types.Interface); isIface {
		return nil, nil, false
	}
	return origin(ta.X), ta.AssertedType, true
}

func (q *pathQuery) search() bool {
	start := &pathState{blk: q.fn.Blocks[0], bools: map[ssa.Value]bool{}, typs: map[ssa.Value]*typeFact{}}
	for k, v := range q.initBools {
		start.bools[k] = v
	}
	for k, v := range q.initTyps {
		tf := &typeFact{is: v.is, not: map[string]types.Type{}}
		for a, b := range v.not {
			tf.not[a] = b
		}
		start.typs[k] = tf
	}
	found := false
	seen := map[string]bool{}
	type item struct {
		s    *pathState
		path []int
	}
	stack := []item{{start, []int{0}}}
	for len(stack) > 0 {
		it := stack[0] // breadth first: the witness is a shortest path
		stack = stack[1:]
		s := it.s
		k := s.key()
		if seen[k] {
			continue
		}
		seen[k] = true
		if len(seen) > 200000 {
			abort("path search exceeded its state budget in %s", q.fn)
		}
		if q.isTarget(s.blk) {
			if q.each != nil {
				if !found {
					q.witness = it.path
				}
				found = true
				q.each(s)
				continue
			}
			q.witness = it.path
			return true
		}
		if q.avoid != nil && q.avoid(s.blk) {
			continue
		}
		b := s.blk
		if len(b.Instrs) == 0 {
			continue
		}
		last := b.Instrs[len(b.Instrs)-1]
		switch last := last.(type) {
		case *ssa.If:
			cv, neg := boolKey(last.Cond)
			for edge := 0; edge < 2; edge++ {
				want := edge == 0 // true edge is Succs[0]
				val := want != neg
				ns := s.clone()
				feasible := true
				if x, T, ok := typeTest(cv); ok {
					feasible = ns.assumeType(x, T, val)
				} else if c, isConst := constBool(cv); isConst {
					feasible = c == val
				} else {
					if old, known := ns.bools[cv]; known {
						feasible = old == val
					} else {
						ns.bools[cv] = val
					}
				}
				if !feasible {
					continue
				}
				ns.enter(b, b.Succs[edge])
				stack = append(stack, item{ns, append(append([]int{}, it.path...), b.Succs[edge].Index)})
			}
		case *ssa.Jump:
			ns := s.clone()
			ns.enter(b, b.Succs[0])
			stack = append(stack, item{ns, append(append([]int{}, it.path...), b.Succs[0].Index)})
		default:
			// return / panic: path ends
		}
	}
	return found
}

func (s *pathState) assumeType(x ssa.Value, T types.Type, val bool) bool {
	tf := s.typs[x]
	if tf == nil {
		tf = &typeFact{not: map[string]types.Type{}}
		s.typs[x] = tf
	}
	if val {
		if tf.is != nil {
			return types.Identical(tf.is, T)
		}
		if _, ex := tf.not[T.String()]; ex {
			return false
		}
		tf.is = T
		return true
	}
	if tf.is != nil {
		return !types.Identical(tf.is, T)
	}
	tf.not[T.String()] = T
	return true
}

// enter moves the state along edge from→to: facts about values defined in
// `to` are dropped, then phi nodes of `to` inherit the facts of their
// incoming operands.
func (s *pathState) enter(from, to *ssa.BasicBlock) {
	s.blk = to
	idx := -1
	for i, p := range to.Preds {
		if p == from {
			idx = i
		}
	}
	type inherit struct {
		phi *ssa.Phi
		b   *bool
		tf  *typeFact
	}
	var inh []inherit
	for _, ins := range to.Instrs {
		phi, ok := ins.(*ssa.Phi)
		if !ok {
			break
		}
		if idx < 0 || idx >= len(phi.Edges) {
			continue
		}
		e := phi.Edges[idx]
		var it inherit
		it.phi = phi
		if c, ok := constBool(e); ok {
			it.b = &c
		} else {
			ev, neg := boolKey(e)
			if b, ok := s.bools[ev]; ok {
				v := b != neg
				it.b = &v
			}
		}
		if tf, ok := s.typs[origin(e)]; ok {
			it.tf = tf
		}
		inh = append(inh, it)
	}
	// drop facts of values defined in `to`
	for _, ins := range to.Instrs {
		if v, ok := ins.(ssa.Value); ok {
			delete(s.bools, v)
			delete(s.typs, v)
		}
	}
	for _, it := range inh {
		if it.b != nil {
			s.bools[it.phi] = *it.b
		}
		if it.tf != nil {
			ntf := &typeFact{is: it.tf.is, not: map[string]types.Type{}}
			for a, b := range it.tf.not {
				ntf.not[a] = b
			}
			s.typs[it.phi] = ntf
		}
	}
}

func pathString(p []int) string {
	var s []string
	for _, i := range p {
		s = append(s, fmt.Sprint(i))
	}
	return strings.Join(s, "→")
}
