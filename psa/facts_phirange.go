package main

import (
	"fmt"
	"go/constant"
	"go/token"
	"os"

	"golang.org/x/tools/go/ssa"
)

// Inductive constant ranges of loop-carried integer phis that are not monotone: a counter that
// is incremented and reset (`pos++; if pos == 5 { pos = 0 }`), a state variable that takes a few
// constants.  Candidates lo <= p <= hi are taken from the constants the function compares p (or
// p plus a constant) with and from the constants it is initialised or reset with; a candidate is
// accepted when it holds for every incoming edge of the phi under the hypothesis that it holds
// for the phi itself (and the conditions of that edge).

type constRange struct{ lo, hi int64 }

var phiRangeCache = map[*ssa.Phi]*constRange{}
var phiRangeHyp = map[*ssa.Phi]*constRange{}
var phiRangeBusy = map[*ssa.Phi]bool{}

// phiConstRange returns the accepted (or currently hypothesised) range of p.
func phiConstRange(p *ssa.Phi) *constRange {
	if h := phiRangeHyp[p]; h != nil {
		return h
	}
	if r, ok := phiRangeCache[p]; ok {
		return r
	}
	if phiRangeBusy[p] || len(phiRangeBusy) > 0 {
		return nil // no nested derivations
	}
	if _, _, ok := isIntType(p.Type()); !ok {
		return nil
	}
	fi := fiByFn[p.Parent()]
	if fi == nil || !inLoop(p) {
		phiRangeCache[p] = nil
		return nil
	}
	phiRangeBusy[p] = true
	defer delete(phiRangeBusy, p)
	// the derivation may have been triggered from inside another proof of this function
	savedBusy, savedSubsts, savedOv, savedTerms, savedNeq := fi.busy, fi.substs, fi.inOverflowProof, fi.terms, fi.neq
	fi.busy, fi.substs, fi.inOverflowProof = map[ssa.Value]bool{}, nil, false
	defer func() {
		fi.busy, fi.substs, fi.inOverflowProof, fi.neq = savedBusy, savedSubsts, savedOv, savedNeq
		fi.terms = savedTerms
		if phiRangeCache[p] != nil {
			fi.terms = map[ssa.Value]Lin{}
		}
	}()
	// constants in the neighbourhood of p
	var ks []int64
	seenK := map[int64]bool{}
	addK := func(v ssa.Value, d int64) {
		if c, ok := v.(*ssa.Const); ok && c.Value != nil && c.Value.Kind() == constant.Int {
			if n, ok := constant.Int64Val(c.Value); ok && !seenK[n+d] && n+d > -1<<31 && n+d < 1<<31 {
				seenK[n+d] = true
				ks = append(ks, n+d)
			}
		}
	}
	related := map[ssa.Value]bool{p: true}
	for changed := true; changed; {
		changed = false
		for _, b := range p.Parent().Blocks {
			for _, ins := range b.Instrs {
				switch x := ins.(type) {
				case *ssa.Phi:
					if related[x] {
						for _, e := range x.Edges {
							if _, isC := e.(*ssa.Const); !isC && !related[e] {
								related[e] = true
								changed = true
							}
						}
					}
				case *ssa.BinOp:
					if (x.Op == token.ADD || x.Op == token.SUB) && related[x] && !related[x.X] {
						if _, isC := x.Y.(*ssa.Const); isC {
							related[x.X] = true
							changed = true
						}
					}
				}
			}
		}
		if len(related) > 40 {
			break
		}
	}
	for _, b := range p.Parent().Blocks {
		for _, ins := range b.Instrs {
			switch x := ins.(type) {
			case *ssa.Phi:
				if related[x] {
					for _, e := range x.Edges {
						addK(e, 0)
					}
				}
			case *ssa.BinOp:
				switch x.Op {
				case token.EQL, token.NEQ, token.LSS, token.LEQ, token.GTR, token.GEQ:
					if related[x.X] {
						addK(x.Y, 0)
						addK(x.Y, -1)
						addK(x.Y, 1)
					}
					if related[x.Y] {
						addK(x.X, 0)
						addK(x.X, -1)
						addK(x.X, 1)
					}
				}
			}
		}
	}
	if len(ks) == 0 || len(ks) > 12 {
		phiRangeCache[p] = nil
		return nil
	}
	a := fi.vname(p)
	var best *constRange
	for _, lo := range ks {
		for _, hi := range ks {
			if hi < lo || (best != nil && hi-lo >= best.hi-best.lo) {
				continue
			}
			cand := &constRange{lo, hi}
			phiRangeHyp[p] = cand
			fi.terms = map[ssa.Value]Lin{}
			ok := true
			for i, e := range p.Edges {
				pred := p.Block().Preds[i]
				t := fi.term(e)
				facts := fi.edgeFacts(pred, p.Block())
				if os.Getenv("DBG4") == p.Name() && lo == 0 && hi == 4 {
					fmt.Println("  EDGE", i, e.Name(), e.String(), "term", t.String())
					debugProve = true
				}
				res := fi.prove([]Lin{t.addK(-lo), konst(hi).sub(t)}, facts, 1)
				debugProve = false
				if !res {
					ok = false
					break
				}
			}
			delete(phiRangeHyp, p)
			fi.terms = map[ssa.Value]Lin{}
			if os.Getenv("DBG4") != "" {
				fmt.Println("PHIRANGE", p.Parent().Name(), p.Name(), p.Comment, lo, hi, ok)
			}
			if ok {
				best = cand
			}
		}
	}
	_ = a
	phiRangeCache[p] = best
	return best
}

// inLoop: the phi's block is a loop header or inside a cycle (one of its edges is defined in a
// block it dominates or reaches back from).
func inLoop(p *ssa.Phi) bool {
	b := p.Block()
	seen := map[*ssa.BasicBlock]bool{}
	var stack []*ssa.BasicBlock
	stack = append(stack, b.Succs...)
	for len(stack) > 0 {
		x := stack[len(stack)-1]
		stack = stack[:len(stack)-1]
		if x == b {
			return true
		}
		if seen[x] {
			continue
		}
		seen[x] = true
		stack = append(stack, x.Succs...)
	}
	return false
}
