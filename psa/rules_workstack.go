package main

import (
	"fmt"
	"go/constant"
	"go/token"
	"go/types"
	"sort"

	"golang.org/x/tools/go/ssa"
)

// LOOP-BUDGET: a loop that is driven by an explicit stack of pending work (a slice of slices that
// is popped by the loop and pushed to inside it: saved continuations of subroutine calls) can
// terminate and still do an amount of work that is exponential in the size of the input — every
// level of nesting multiplies it by the number of pushes per item, and a depth limit only bounds
// the exponent.  Such a loop nest must carry a step budget: an integer that is only ever
// incremented within the nest (never reset), whose increment dominates every push, and that is
// compared with a constant on a branch that leaves the nest.
func (c *Ctx) workStackBudgets(fns []*ssa.Function) {
	n := 0
	for _, fn := range fns {
		headers := map[*ssa.BasicBlock][]*ssa.BasicBlock{}
		for _, b := range fn.Blocks {
			for _, s := range b.Succs {
				if s.Dominates(b) {
					headers[s] = append(headers[s], b)
				}
			}
		}
		if len(headers) == 0 {
			continue
		}
		bodyOf := func(h *ssa.BasicBlock) map[*ssa.BasicBlock]bool {
			body := map[*ssa.BasicBlock]bool{h: true}
			st := append([]*ssa.BasicBlock{}, headers[h]...)
			for len(st) > 0 {
				x := st[len(st)-1]
				st = st[:len(st)-1]
				if body[x] {
					continue
				}
				body[x] = true
				st = append(st, x.Preds...)
			}
			return body
		}
		var hs []*ssa.BasicBlock
		for h := range headers {
			hs = append(hs, h)
		}
		sort.Slice(hs, func(i, j int) bool { return hs[i].Index < hs[j].Index })
		for _, h := range hs {
			body := bodyOf(h)
			// a stack of work items carried by this loop: a phi of type [][]T at the header that is
			// popped (re-sliced to len-1) and pushed (append) inside the loop
			for _, ins := range h.Instrs {
				phi, ok := ins.(*ssa.Phi)
				if !ok {
					break
				}
				st, ok := phi.Type().Underlying().(*types.Slice)
				if !ok {
					continue
				}
				if _, inner := st.Elem().Underlying().(*types.Slice); !inner {
					continue
				}
				var pops, pushes []ssa.Instruction
				seen := map[ssa.Value]bool{}
				var walk func(v ssa.Value)
				walk = func(v ssa.Value) {
					if seen[v] || v.Referrers() == nil {
						return
					}
					seen[v] = true
					for _, r := range *v.Referrers() {
						if !body[r.Block()] {
							continue
						}
						switch r := r.(type) {
						case *ssa.Slice:
							if r.X == v && r.Low == nil && r.High != nil {
								if bo, ok := r.High.(*ssa.BinOp); ok && bo.Op == token.SUB {
									pops = append(pops, r)
								}
							}
							walk(r)
						case *ssa.Phi:
							walk(r)
						case *ssa.Call:
							if b, ok := r.Call.Value.(*ssa.Builtin); ok && b.Name() == "append" && len(r.Call.Args) > 0 && r.Call.Args[0] == v {
								pushes = append(pushes, r)
								walk(r)
							}
						}
					}
				}
				walk(phi)
				if len(pops) == 0 || len(pushes) == 0 {
					continue
				}
				n++
				fname := c.fname(fn)
				construct := "work stack " + phi.Comment + " of the loop at " + loopShape(c, h)
				why, ok := stepBudget(fn, h, body, pushes)
				if ok {
					c.ok("LOOP-BUDGET", fname, construct, firstPos(h), why, "")
				} else {
					c.fail("LOOP-BUDGET", fname, construct, firstPos(h),
						"the loop pops pending work from a stack and pushes more inside; the nesting is limited but the total number of steps is not ("+why+"): input of n bytes can cause (pushes per item)^(depth limit) steps, i.e. the reader runs for hours on a file of a few kilobytes")
				}
			}
		}
	}
	c.floor("LOOP-BUDGET", 1)
	_ = n
}

// stepBudget looks for the step counter of the loop nest (see workStackBudgets).
func stepBudget(fn *ssa.Function, h *ssa.BasicBlock, body map[*ssa.BasicBlock]bool, pushes []ssa.Instruction) (string, bool) {
	why := "no counter found"
	for _, b := range fn.Blocks {
		if !body[b] {
			continue
		}
		for _, ins := range b.Instrs {
			inc, ok := ins.(*ssa.BinOp)
			if !ok || inc.Op != token.ADD {
				continue
			}
			k, ok := constIntVal(inc.Y)
			if !ok || k <= 0 {
				continue
			}
			if _, _, isInt := isIntType(inc.Type()); !isInt {
				continue
			}
			// the family of values the counter flows through inside the nest
			fam := map[ssa.Value]bool{inc: true}
			okFam := true
			var grow func(v ssa.Value)
			grow = func(v ssa.Value) {
				if fam[v] && v != ssa.Value(inc) {
					return
				}
				fam[v] = true
				switch x := v.(type) {
				case *ssa.Phi:
					for i, e := range x.Edges {
						pred := x.Block().Preds[i]
						if !body[pred] {
							// entering the nest: any value
							continue
						}
						if cst, isC := e.(*ssa.Const); isC {
							_ = cst
							okFam = false // reset inside the nest
							continue
						}
						grow(e)
					}
				case *ssa.BinOp:
					if x.Op == token.ADD {
						if kk, ok := constIntVal(x.Y); ok && kk > 0 {
							grow(x.X)
							return
						}
					}
					okFam = false
				default:
					if ins, isIns := v.(ssa.Instruction); isIns && body[ins.Block()] {
						okFam = false
					}
				}
			}
			grow(inc.X)
			if !okFam {
				why = "a counter is reset or recomputed inside the loop"
				continue
			}
			// every push is preceded by an increment in the same iteration
			dom := true
			for _, p := range pushes {
				if !(inc.Block() == p.Block() && before(inc, p) || inc.Block() != p.Block() && inc.Block().Dominates(p.Block())) {
					dom = false
				}
			}
			if !dom {
				why = "the counter is not incremented before every push"
				continue
			}
			// compared with a constant on a branch that leaves the nest
			for v := range fam {
				if v.Referrers() == nil {
					continue
				}
				for _, r := range *v.Referrers() {
					cmp, ok := r.(*ssa.BinOp)
					if !ok {
						continue
					}
					var bound int64
					var exitOnTrue bool
					if kk, ok := constIntVal(cmp.Y); ok && cmp.X == v {
						bound = kk
						switch cmp.Op {
						case token.GTR, token.GEQ:
							exitOnTrue = true
						case token.LSS, token.LEQ:
							exitOnTrue = false
						default:
							continue
						}
					} else {
						continue
					}
					for _, rr := range *cmp.Referrers() {
						ifi, ok := rr.(*ssa.If)
						if !ok || !body[ifi.Block()] {
							continue
						}
						exit := ifi.Block().Succs[1]
						if exitOnTrue {
							exit = ifi.Block().Succs[0]
						}
						if !body[exit] {
							return fmt.Sprintf("step budget: a counter incremented by %d before every push and never reset inside the nest leaves the loop when it passes %d", k, bound), true
						}
					}
				}
			}
			why = "a counter exists but is not compared with a constant on an exit of the loop"
		}
	}
	return why, false
}

func before(a, b ssa.Instruction) bool {
	for _, ins := range a.Block().Instrs {
		if ins == a {
			return true
		}
		if ins == b {
			return false
		}
	}
	return false
}

func constIntVal(v ssa.Value) (int64, bool) {
	c, ok := v.(*ssa.Const)
	if !ok || c.Value == nil || c.Value.Kind() != constant.Int {
		return 0, false
	}
	return constant.Int64Val(c.Value)
}
