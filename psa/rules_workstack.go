package main

import (
	"fmt"
	"go/constant"
	"go/token"
	"go/types"
	"sort"

	"golang.org/x/tools/go/ssa"
)

// LOOP-BUDGET: a loop that is driven by an explicit stack of pending work (saved continuations of
// subroutine calls, procedures still to be visited) pops an item per iteration and pushes more
// inside.  Such a loop can terminate and still do an amount of work that is exponential in the
// size of the input — every level of nesting multiplies it by the number of pushes per item, and
// a depth limit only bounds the exponent.  The nest must bound the number of pushes:
//
//   step budget   an integer that is only ever incremented within the nest (never reset), whose
//                 increment dominates every push, and that is compared with a constant on a
//                 branch that leaves the nest; or
//   visited set   every push is dominated by the test that a key is absent from a set and by the
//                 entry of that key into the set (each key causes pushes at most once).
//
// The stack may be a slice of slices (append / re-slice) or an array of slices with a depth
// counter.  A work loop with a bounded number of pushes that pops on every iteration terminates:
// it is classified as such by the LOOP rule (class P5).

type workStack struct {
	fn     *ssa.Function
	h      *ssa.BasicBlock
	body   map[*ssa.BasicBlock]bool
	name   string
	pushes []ssa.Instruction
	pops   []ssa.Instruction
}

func loopBodies(fn *ssa.Function) (hs []*ssa.BasicBlock, bodyOf func(h *ssa.BasicBlock) map[*ssa.BasicBlock]bool) {
	headers := map[*ssa.BasicBlock][]*ssa.BasicBlock{}
	for _, b := range fn.Blocks {
		for _, s := range b.Succs {
			if s.Dominates(b) {
				headers[s] = append(headers[s], b)
			}
		}
	}
	for h := range headers {
		hs = append(hs, h)
	}
	sort.Slice(hs, func(i, j int) bool { return hs[i].Index < hs[j].Index })
	cache := map[*ssa.BasicBlock]map[*ssa.BasicBlock]bool{}
	bodyOf = func(h *ssa.BasicBlock) map[*ssa.BasicBlock]bool {
		if b, ok := cache[h]; ok {
			return b
		}
		body := map[*ssa.BasicBlock]bool{h: true}
		st := append([]*ssa.BasicBlock{}, headers[h]...)
		for len(st) > 0 {
			x := st[len(st)-1]
			st = st[:len(st)-1]
			if body[x] {
				continue
			}
			body[x] = true
			st = append(st, x.Preds...)
		}
		cache[h] = body
		return body
	}
	return
}

func isSliceOfSlices(t types.Type) bool {
	switch u := t.Underlying().(type) {
	case *types.Slice:
		_, ok := u.Elem().Underlying().(*types.Slice)
		return ok
	case *types.Array:
		_, ok := u.Elem().Underlying().(*types.Slice)
		return ok
	case *types.Pointer:
		if a, ok := u.Elem().Underlying().(*types.Array); ok {
			_, ok := a.Elem().Underlying().(*types.Slice)
			return ok
		}
	}
	return false
}

// workStacksOf finds the loops of fn that are driven by a stack of pending work.
func workStacksOf(fn *ssa.Function) []workStack {
	var out []workStack
	hs, bodyOf := loopBodies(fn)
	for _, h := range hs {
		body := bodyOf(h)
		for _, ins := range h.Instrs {
			phi, ok := ins.(*ssa.Phi)
			if !ok {
				break
			}
			// (a) a slice of slices carried by the loop, popped by re-slicing, pushed by append
			if st, ok := phi.Type().Underlying().(*types.Slice); ok {
				if _, inner := st.Elem().Underlying().(*types.Slice); inner {
					ws := workStack{fn: fn, h: h, body: body, name: phi.Comment}
					seen := map[ssa.Value]bool{}
					var walk func(v ssa.Value)
					walk = func(v ssa.Value) {
						if seen[v] || v.Referrers() == nil {
							return
						}
						seen[v] = true
						for _, r := range *v.Referrers() {
							if !body[r.Block()] {
								continue
							}
							switch r := r.(type) {
							case *ssa.Slice:
								if r.X == v && r.Low == nil && r.High != nil {
									if bo, ok := r.High.(*ssa.BinOp); ok && bo.Op == token.SUB {
										ws.pops = append(ws.pops, r)
									}
								}
								walk(r)
							case *ssa.Phi:
								walk(r)
							case *ssa.Call:
								if b, ok := r.Call.Value.(*ssa.Builtin); ok && b.Name() == "append" && len(r.Call.Args) > 0 && r.Call.Args[0] == v {
									ws.pushes = append(ws.pushes, r)
									walk(r)
								}
							}
						}
					}
					walk(phi)
					if len(ws.pops) > 0 && len(ws.pushes) > 0 {
						out = append(out, ws)
					}
					continue
				}
			}
			// (b) a depth counter into an array (or slice) of slices: decremented and used to load an
			// item, incremented next to a store of an item
			if _, _, isInt := isIntType(phi.Type()); isInt {
				ws := workStack{fn: fn, h: h, body: body, name: phi.Comment}
				// values of the counter inside the loop: the phi, phi±const, phis of those
				fam := map[ssa.Value]bool{phi: true}
				for changed := true; changed; {
					changed = false
					for b := range body {
						for _, in := range b.Instrs {
							switch x := in.(type) {
							case *ssa.BinOp:
								if (x.Op == token.ADD || x.Op == token.SUB) && fam[x.X] && !fam[x] {
									if _, ok := constIntVal(x.Y); ok {
										fam[x] = true
										changed = true
									}
								}
							case *ssa.Phi:
								if !fam[x] {
									for _, e := range x.Edges {
										if fam[e] {
											fam[x] = true
											changed = true
											break
										}
									}
								}
							}
						}
					}
					if len(fam) > 30 {
						break
					}
				}
				for b := range body {
					for _, in := range b.Instrs {
						ix, ok := in.(*ssa.IndexAddr)
						if !ok || !fam[ix.Index] || !isSliceOfSlices(ix.X.Type()) {
							continue
						}
						for _, r := range *ix.Referrers() {
							switch r := r.(type) {
							case *ssa.Store:
								if r.Addr == ssa.Value(ix) && body[r.Block()] {
									ws.pushes = append(ws.pushes, r)
								}
							case *ssa.UnOp:
								if r.Op == token.MUL && body[r.Block()] {
									ws.pops = append(ws.pops, r)
								}
							}
						}
					}
				}
				if len(ws.pops) > 0 && len(ws.pushes) > 0 {
					out = append(out, ws)
				}
			}
		}
	}
	return out
}

// bounded: the number of pushes of the work stack is bounded (see the file comment).
func (ws *workStack) bounded() (string, bool) {
	if why, ok := stepBudget(ws.fn, ws.h, ws.body, ws.pushes); ok {
		return why, true
	} else if why2, ok := visitedBound(ws); ok {
		return why2, true
	} else {
		return why, false
	}
}

// visitedBound: every push is dominated by `seen[k]` being false and by `seen[k] = …` for the
// same key, inside the loop (so each key causes pushes at most once).
func visitedBound(ws *workStack) (string, bool) {
	for _, p := range ws.pushes {
		ok := false
		for b := range ws.body {
			for _, ins := range b.Instrs {
				mu, isMU := ins.(*ssa.MapUpdate)
				if !isMU || !dominatesInstr(mu, p) {
					continue
				}
				for _, cd := range domConds(p.Block()) {
					lk := lookupOf(cd.v)
					if lk == nil || origin(lk.X) != origin(mu.Map) || !sameKey(lk.Index, mu.Key) || !ws.body[lk.Block()] {
						continue
					}
					if !cd.truth {
						ok = true
					}
				}
			}
		}
		if !ok {
			return "", false
		}
	}
	return "visited set: every push is made after a key was found absent from a set and entered into it in the same iteration; each key causes pushes at most once", true
}

func (c *Ctx) workStackBudgets(fns []*ssa.Function) {
	for _, fn := range fns {
		for _, ws := range workStacksOf(fn) {
			ws := ws
			fname := c.fname(fn)
			construct := "work stack " + ws.name + " of the loop at " + loopShape(c, ws.h)
			why, ok := ws.bounded()
			if ok {
				c.ok("LOOP-BUDGET", fname, construct, firstPos(ws.h), why, "")
			} else {
				c.fail("LOOP-BUDGET", fname, construct, firstPos(ws.h),
					"the loop pops pending work from a stack and pushes more inside; the nesting is limited but the total number of pushes is not ("+why+"): input of n bytes can cause (pushes per item)^(depth limit) steps, i.e. the reader runs for hours on a file of a few kilobytes")
			}
		}
	}
	c.floor("LOOP-BUDGET", 1)
}

// workLoopClass: the loop at h is a work loop that pops on every iteration and whose pushes are
// bounded; then it terminates.
func workLoopClass(fn *ssa.Function, h *ssa.BasicBlock) (string, bool) {
	for _, ws := range workStacksOf(fn) {
		if ws.h != h {
			continue
		}
		why, ok := ws.bounded()
		if !ok {
			continue
		}
		// every iteration pops: a pop dominates every back edge source
		popsAlways := false
		for _, p := range ws.pops {
			all := true
			for _, pred := range h.Preds {
				if !ws.body[pred] {
					continue
				}
				if !(p.Block() == pred || p.Block().Dominates(pred)) {
					all = false
				}
			}
			if all {
				popsAlways = true
			}
		}
		if popsAlways {
			return "every iteration removes an item from the stack of pending work, and the number of items ever added is bounded (" + why + ")", true
		}
	}
	return "", false
}

// stepBudget looks for the step counter of the loop nest (see the file comment).
func stepBudget(fn *ssa.Function, h *ssa.BasicBlock, body map[*ssa.BasicBlock]bool, pushes []ssa.Instruction) (string, bool) {
	why := "no counter found"
	for _, b := range fn.Blocks {
		if !body[b] {
			continue
		}
		for _, ins := range b.Instrs {
			inc, ok := ins.(*ssa.BinOp)
			if !ok || inc.Op != token.ADD {
				continue
			}
			k, ok := constIntVal(inc.Y)
			if !ok || k <= 0 {
				continue
			}
			if _, _, isInt := isIntType(inc.Type()); !isInt {
				continue
			}
			// the family of values the counter flows through inside the nest
			fam := map[ssa.Value]bool{inc: true}
			okFam := true
			var grow func(v ssa.Value)
			grow = func(v ssa.Value) {
				if fam[v] && v != ssa.Value(inc) {
					return
				}
				fam[v] = true
				switch x := v.(type) {
				case *ssa.Phi:
					for i, e := range x.Edges {
						pred := x.Block().Preds[i]
						if !body[pred] {
							// entering the nest: any value
							continue
						}
						if _, isC := e.(*ssa.Const); isC {
							okFam = false // reset inside the nest
							continue
						}
						grow(e)
					}
				case *ssa.BinOp:
					if x.Op == token.ADD {
						if kk, ok := constIntVal(x.Y); ok && kk > 0 {
							grow(x.X)
							return
						}
					}
					okFam = false
				default:
					if ins, isIns := v.(ssa.Instruction); isIns && body[ins.Block()] {
						okFam = false
					}
				}
			}
			grow(inc.X)
			if !okFam {
				why = "a counter is reset or recomputed inside the loop"
				continue
			}
			// every push is preceded by an increment in the same iteration
			dom := true
			for _, p := range pushes {
				if !(inc.Block() == p.Block() && before(inc, p) || inc.Block() != p.Block() && inc.Block().Dominates(p.Block())) {
					dom = false
				}
			}
			if !dom {
				why = "the counter is not incremented before every push"
				continue
			}
			// compared with a constant on a branch that leaves the nest
			for v := range fam {
				if v.Referrers() == nil {
					continue
				}
				for _, r := range *v.Referrers() {
					cmp, ok := r.(*ssa.BinOp)
					if !ok {
						continue
					}
					var bound int64
					var exitOnTrue bool
					if kk, ok := constIntVal(cmp.Y); ok && cmp.X == v {
						bound = kk
						switch cmp.Op {
						case token.GTR, token.GEQ:
							exitOnTrue = true
						case token.LSS, token.LEQ:
							exitOnTrue = false
						default:
							continue
						}
					} else {
						continue
					}
					for _, rr := range *cmp.Referrers() {
						ifi, ok := rr.(*ssa.If)
						if !ok || !body[ifi.Block()] {
							continue
						}
						exit := ifi.Block().Succs[1]
						if exitOnTrue {
							exit = ifi.Block().Succs[0]
						}
						if !body[exit] {
							return fmt.Sprintf("step budget: a counter incremented by %d before every push and never reset inside the nest leaves the loop when it passes %d", k, bound), true
						}
					}
				}
			}
			why = "a counter exists but is not compared with a constant on an exit of the loop"
		}
	}
	return why, false
}

func before(a, b ssa.Instruction) bool {
	for _, ins := range a.Block().Instrs {
		if ins == a {
			return true
		}
		if ins == b {
			return false
		}
	}
	return false
}

func constIntVal(v ssa.Value) (int64, bool) {
	c, ok := v.(*ssa.Const)
	if !ok || c.Value == nil || c.Value.Kind() != constant.Int {
		return 0, false
	}
	return constant.Int64Val(c.Value)
}
