package main

// ext_x1.go — round 5, worker A1: C01 rules for nil maps, type assertions, loops and recursion
// restated on values where they had leaned on the shape of one function.

import (
	"fmt"
	"go/constant"
	"go/token"
	"go/types"
	"os"
	"strings"

	"golang.org/x/tools/go/ssa"
)

// ---- correlated results ------------------------------------------------------------------------
//
// A helper that returns (…, m map, …, flag) with "m is a made map whenever flag says found" —
// flag being a trailing error (nil = found), or a boolean result (either polarity) — gives its
// caller a non-nil map wherever the caller has tested the flag *of that very call*.  This is the
// (value, error) convention generalised to (value, ok).

// resultTuple is one joint assignment of the two results a return of the callee may deliver.
type resultTuple struct {
	m, flag ssa.Value       // flag == nil: not known
	at      ssa.Instruction // where m has this value (for dominating conditions inside the callee)
	unknown bool            // m is not known
}

// flagPolarity: which values of the flag result mean "the map result is valid".
type flagPolarity int

const (
	flagErrNil flagPolarity = iota
	flagTrue
	flagFalse
)

// flagMayBe: can flag value v be in the good class?  (Constants are decided, anything else may.)
func flagMayBe(v ssa.Value, pol flagPolarity) bool {
	if v == nil {
		return true
	}
	switch pol {
	case flagErrNil:
		if isNilConst(v) {
			return true
		}
		if _, isC := v.(*ssa.Const); isC {
			return false
		}
		// a made error value (errors.New, fmt.Errorf, a boxed concrete error) is not nil
		switch x := v.(type) {
		case *ssa.MakeInterface:
			return false
		case *ssa.Call:
			if sc := x.Call.StaticCallee(); sc != nil {
				switch calleeName(sc) {
				case "errors.New", "fmt.Errorf":
					return false
				}
			}
		}
		return true
	default:
		if b, isC := constBool(v); isC {
			return b == (pol == flagTrue)
		}
		return true
	}
}

// cellStores collects every store to the local cell al, in its function and in the function
// literals that capture it (transitively).  ok is false when the address is used for anything but
// loads, stores and capture.
func cellStores(al *ssa.Alloc) (stores []*ssa.Store, ok bool) {
	ok = true
	var visit func(addr ssa.Value, depth int)
	visit = func(addr ssa.Value, depth int) {
		if depth > 4 {
			ok = false
			return
		}
		refs := addr.Referrers()
		if refs == nil {
			ok = false
			return
		}
		for _, r := range *refs {
			switch r := r.(type) {
			case *ssa.Store:
				if r.Addr != addr {
					ok = false // the address itself is stored somewhere
					return
				}
				stores = append(stores, r)
			case *ssa.UnOp:
				if r.Op != token.MUL {
					ok = false
				}
			case *ssa.DebugRef:
			case *ssa.MakeClosure:
				fn, isFn := r.Fn.(*ssa.Function)
				if !isFn {
					ok = false
					return
				}
				for i, b := range r.Bindings {
					if b == addr && i < len(fn.FreeVars) {
						visit(fn.FreeVars[i], depth+1)
					}
				}
			default:
				ok = false
			}
		}
	}
	visit(al, 0)
	return stores, ok
}

// resultTuples lists the joint values of results idx and j over every way the callee can return.
// With plain values in the Return that is one tuple per Return.  When the results live in cells
// (named results used by deferred calls; the lowering of a `return` inside the body of a range
// over a function, where the body is a function literal that stores the results and the enclosing
// function reloads them), the tuples are the states the pair of cells has at the end of every
// basic block that stores to one of them — the pair is only ever observed between such groups,
// because the loads of a Return sit together right before it — plus the zero state.
func resultTuples(sc *ssa.Function, idx, j int) (out []resultTuple, ok bool) {
	cellOf := func(v ssa.Value) *ssa.Alloc {
		if u, isU := v.(*ssa.UnOp); isU && u.Op == token.MUL {
			if al, isA := u.X.(*ssa.Alloc); isA && al.Parent() == sc {
				return al
			}
		}
		return nil
	}
	type pair struct{ a, b *ssa.Alloc }
	pairs := map[pair]bool{}
	for _, r := range returns(sc) {
		if idx >= len(r.Results) || j >= len(r.Results) {
			return nil, false
		}
		a, b := cellOf(r.Results[idx]), cellOf(r.Results[j])
		if a == nil && b == nil {
			out = append(out, resultTuple{m: r.Results[idx], flag: r.Results[j], at: r})
			continue
		}
		if a == nil || b == nil {
			// one in a cell, one not: only the cell's last store in this block is usable
			vm := retValues(r, idx)
			vf := retValues(r, j)
			if len(vm) != 1 || len(vf) != 1 {
				return nil, false
			}
			out = append(out, resultTuple{m: vm[0], flag: vf[0], at: r})
			continue
		}
		// both loads sit in the Return's block with nothing between them and the Return that
		// could change a cell
		la, lb := r.Results[idx].(*ssa.UnOp), r.Results[j].(*ssa.UnOp)
		if la.Block() != r.Block() || lb.Block() != r.Block() {
			return nil, false
		}
		first := instrIndex(la)
		if k := instrIndex(lb); k < first {
			first = k
		}
		for _, ins := range r.Block().Instrs[first:] {
			switch ins.(type) {
			case *ssa.Store, *ssa.Call, *ssa.Defer, *ssa.Go, *ssa.RunDefers, *ssa.MapUpdate, *ssa.Send:
				return nil, false
			}
		}
		pairs[pair{a, b}] = true
	}
	for p := range pairs {
		sa, ok1 := cellStores(p.a)
		sb, ok2 := cellStores(p.b)
		if !ok1 || !ok2 {
			return nil, false
		}
		blocks := map[*ssa.BasicBlock]bool{}
		inA, inB := map[*ssa.Store]bool{}, map[*ssa.Store]bool{}
		for _, s := range sa {
			blocks[s.Block()] = true
			inA[s] = true
		}
		for _, s := range sb {
			blocks[s.Block()] = true
			inB[s] = true
		}
		for blk := range blocks {
			t := resultTuple{unknown: true}
			started := false
			for _, ins := range blk.Instrs {
				switch x := ins.(type) {
				case *ssa.Store:
					switch {
					case inA[x]:
						t.m, t.unknown, t.at, started = x.Val, false, x, true
					case inB[x]:
						t.flag, started = x.Val, true
						if t.at == nil {
							t.at = x
						}
					}
				case *ssa.Call, *ssa.Defer, *ssa.Go, *ssa.RunDefers:
					if started {
						// the pair may be observed (or changed) here: the state so far is a tuple too
						out = append(out, t)
					}
				}
			}
			out = append(out, t)
		}
		// the zero state of the cells: no store has happened yet
		out = append(out, resultTuple{m: zeroConst(p.a.Type().(*types.Pointer).Elem()), flag: zeroConst(p.b.Type().(*types.Pointer).Elem()), at: nil})
	}
	return out, len(out) > 0
}

func zeroConst(t types.Type) ssa.Value {
	if b, ok := t.Underlying().(*types.Basic); ok && b.Info()&types.IsBoolean != 0 {
		return ssa.NewConst(constant.MakeBool(false), t)
	}
	return ssa.NewConst(nil, t) // nil map / nil interface
}

// returnsNonNilMapWhen: result idx of the call is a non-nil map whenever another result of the
// same call (a trailing error, or a boolean) has the value that the use at `at` is dominated by a
// test for.
func (c *Ctx) returnsNonNilMapWhen(call *ssa.Call, idx int, at ssa.Instruction) bool {
	sc := call.Call.StaticCallee()
	if sc == nil || sc.Blocks == nil || !c.inModule(sc) || at == nil {
		return false
	}
	if x1WhenBusy[sc] {
		return false // a helper that returns its own result: no induction here
	}
	x1WhenBusy[sc] = true
	defer delete(x1WhenBusy, sc)
	res := sc.Signature.Results()
	for j := 0; j < res.Len(); j++ {
		if j == idx {
			continue
		}
		var pols []flagPolarity
		switch {
		case isErrorType(res.At(j).Type()) && j == res.Len()-1:
			pols = []flagPolarity{flagErrNil}
		case isBoolType(res.At(j).Type()):
			pols = []flagPolarity{flagTrue, flagFalse}
		default:
			continue
		}
		var flagVal ssa.Value
		for _, r := range *call.Referrers() {
			if ex, ok := r.(*ssa.Extract); ok && ex.Index == j {
				flagVal = ex
			}
		}
		if flagVal == nil {
			continue
		}
		for _, pol := range pols {
			if !flagTestedAt(flagVal, pol, at) {
				continue
			}
			tuples, ok := resultTuples(sc, idx, j)
			if !ok {
				continue
			}
			good := 0
			okAll := true
			for _, t := range tuples {
				if !flagMayBe(t.flag, pol) {
					continue
				}
				if t.at != nil {
					good++
				}
				if !t.unknown && pol == flagTrue && c.okPairedDictY2(t.m, t.flag) {
					continue // `v, ok := x.(Dict); return v, ok`: the flag returned is the one that says v is a boxed Dict (ext_y2.go)
				}
				if t.unknown || t.m == nil || !c.mapNonNil(t.m, t.at, map[ssa.Value]bool{}) {
					okAll = false
					break
				}
			}
			if okAll && good > 0 {
				return true
			}
		}
	}
	return false
}

var x1WhenBusy = map[*ssa.Function]bool{}

func isBoolType(t types.Type) bool {
	b, ok := t.Underlying().(*types.Basic)
	return ok && b.Info()&types.IsBoolean != 0
}

// flagTestedAt: the instruction `at` is reached only when the flag value is in the good class.
func flagTestedAt(flag ssa.Value, pol flagPolarity, at ssa.Instruction) bool {
	if at.Block() == nil {
		return false
	}
	for _, cd := range domConds(at.Block()) {
		v, truth := cd.v, cd.truth
		for {
			if u, ok := v.(*ssa.UnOp); ok && u.Op == token.NOT {
				v, truth = u.X, !truth
				continue
			}
			break
		}
		switch pol {
		case flagErrNil:
			if m, ok := asCmp(cond{v, truth, cd.blk}); ok && m.op == token.EQL && (m.x == flag && isNilConst(m.y) || m.y == flag && isNilConst(m.x)) {
				return true
			}
		default:
			want := pol == flagTrue
			if v == flag && truth == want {
				return true
			}
			// found == true, found != false, …
			if m, ok := asCmp(cond{v, truth, cd.blk}); ok && (m.op == token.EQL || m.op == token.NEQ) {
				var k ssa.Value
				switch {
				case m.x == flag:
					k = m.y
				case m.y == flag:
					k = m.x
				}
				if k != nil {
					if b, isC := constBool(k); isC && (b == (m.op == token.EQL)) == want {
						return true
					}
				}
			}
		}
	}
	return false
}

// ---- a type established by a search -----------------------------------------------------------
//
// i := slices.IndexFunc(S, pred) with i >= 0 says pred(S[i]) returned true (the library's
// post-condition).  When pred(k) can only return true behind a successful `M[k].(T)`, and nothing
// can have written to M or S since the search, M[S[i]].(T) succeeds: the search loop with the
// `, ok` assertion in its body and the library search with the assertion repeated on the element
// found are the same program.

func (c *Ctx) assertEstablishedBySearch(x *ssa.TypeAssert) bool {
	lk, ok := origin(x.X).(*ssa.Lookup)
	if !ok || lk.CommaOk {
		return false
	}
	if _, isMap := lk.X.Type().Underlying().(*types.Map); !isMap {
		return false
	}
	ld, ok := origin(lk.Index).(*ssa.UnOp)
	if !ok || ld.Op != token.MUL {
		return false
	}
	ia, ok := ld.X.(*ssa.IndexAddr)
	if !ok {
		return false
	}
	search, ok := origin(ia.Index).(*ssa.Call)
	if !ok || search.Parent() != x.Parent() {
		return false
	}
	sc := search.Call.StaticCallee()
	if sc == nil {
		return false
	}
	if o := sc.Origin(); o != nil {
		sc = o
	}
	if calleeName(sc) != "slices.IndexFunc" || len(search.Call.Args) != 2 || origin(search.Call.Args[0]) != origin(ia.X) {
		return false
	}
	// found: i >= 0 (or i != -1, given -1 <= i) on every path to the assertion
	found := false
	if lb, ok := lowerBoundConst(domConds(x.Block()), func(v ssa.Value) bool { return origin(v) == ssa.Value(search) }); ok && lb >= 0 {
		found = true
	}
	for _, cd := range domConds(x.Block()) {
		if m, ok := asCmp(cd); ok && m.op == token.NEQ {
			if k, isC := constInt(origin(m.y)); isC && k == -1 && origin(m.x) == ssa.Value(search) {
				found = true
			}
			if k, isC := constInt(origin(m.x)); isC && k == -1 && origin(m.y) == ssa.Value(search) {
				found = true
			}
		}
	}
	if !found {
		return false
	}
	// the predicate: pure, and true only behind M[k].(T) with ok
	var pred *ssa.Function
	var bindings []ssa.Value
	switch p := search.Call.Args[1].(type) {
	case *ssa.MakeClosure:
		pred, _ = p.Fn.(*ssa.Function)
		bindings = p.Bindings
	case *ssa.Function:
		pred = p
	}
	if pred == nil || pred.Blocks == nil || len(pred.Params) != 1 {
		return false
	}
	if !noWritesIn(pred.Blocks, nil, nil) {
		return false
	}
	resolve := func(v ssa.Value) ssa.Value {
		v = origin(v)
		if u, ok := v.(*ssa.UnOp); ok && u.Op == token.MUL {
			if fv, ok := u.X.(*ssa.FreeVar); ok {
				for i, f := range pred.FreeVars {
					if f == fv && i < len(bindings) {
						if al, ok := bindings[i].(*ssa.Alloc); ok {
							if s := singleStore(al); s != nil {
								return origin(s)
							}
						}
					}
				}
			}
		}
		return v
	}
	m := origin(lk.X)
	n := 0
	for _, r := range returns(pred) {
		if len(r.Results) != 1 {
			return false
		}
		if b, isC := constBool(r.Results[0]); isC && !b {
			continue
		}
		ex, ok := r.Results[0].(*ssa.Extract)
		if !ok || ex.Index != 1 {
			return false
		}
		ta, ok := ex.Tuple.(*ssa.TypeAssert)
		if !ok || !ta.CommaOk || !types.Identical(ta.AssertedType, x.AssertedType) {
			return false
		}
		plk, ok := origin(ta.X).(*ssa.Lookup)
		if !ok || plk.CommaOk || origin(plk.Index) != ssa.Value(pred.Params[0]) || resolve(plk.X) != m {
			return false
		}
		n++
	}
	if n == 0 {
		return false
	}
	// nothing between the search and the assertion writes to memory
	return noWritesBetween(search, x)
}

// noWritesIn: the instructions of the blocks (from instruction `after` in its block, up to `before`
// in its block, when given) neither store to the heap, update a map, nor call anything.
func noWritesIn(blocks []*ssa.BasicBlock, after, before ssa.Instruction) bool {
	for _, b := range blocks {
		lo, hi := 0, len(b.Instrs)
		if after != nil && after.Block() == b {
			lo = instrIndex(after) + 1
		}
		if before != nil && before.Block() == b {
			hi = instrIndex(before)
		}
		if lo > hi {
			lo, hi = 0, len(b.Instrs) // the block is passed again on a cycle
		}
		for _, ins := range b.Instrs[lo:hi] {
			switch y := ins.(type) {
			case *ssa.MapUpdate, *ssa.Defer, *ssa.Go, *ssa.Send, *ssa.RunDefers:
				return false
			case *ssa.Store:
				if _, local := y.Addr.(*ssa.Alloc); !local {
					return false
				}
			case *ssa.Call:
				if _, builtin := y.Call.Value.(*ssa.Builtin); !builtin {
					return false
				}
			}
		}
	}
	return true
}

// noWritesBetween: on no path from instruction a to instruction b (same function, a dominates b)
// is memory written.
func noWritesBetween(a, b ssa.Instruction) bool {
	if !dominatesInstr(a, b) {
		return false
	}
	fwd := map[*ssa.BasicBlock]bool{}
	var f func(*ssa.BasicBlock)
	f = func(x *ssa.BasicBlock) {
		for _, s := range x.Succs {
			if !fwd[s] {
				fwd[s] = true
				f(s)
			}
		}
	}
	f(a.Block())
	bwd := map[*ssa.BasicBlock]bool{}
	var g func(*ssa.BasicBlock)
	g = func(x *ssa.BasicBlock) {
		for _, p := range x.Preds {
			if !bwd[p] {
				bwd[p] = true
				g(p)
			}
		}
	}
	g(b.Block())
	var mid []*ssa.BasicBlock
	for _, blk := range a.Block().Parent().Blocks {
		if fwd[blk] && bwd[blk] {
			mid = append(mid, blk) // passed entirely (includes a's or b's block when they lie on a cycle)
		}
	}
	if !noWritesIn(mid, nil, nil) {
		return false
	}
	if a.Block() == b.Block() {
		return noWritesIn([]*ssa.BasicBlock{a.Block()}, a, b)
	}
	return noWritesIn([]*ssa.BasicBlock{a.Block()}, a, nil) && noWritesIn([]*ssa.BasicBlock{b.Block()}, nil, b)
}

// ---- the content of a dictionary made by a constructor --------------------------------------------
//
// Which dynamic type the value bound to a constant key has in the dictionary a parameterless
// constructor returns is decided by evaluating the constructor on the SSA form: it has no inputs, so
// the evaluation follows its one path; entries of a literal, assignments after it, assignments in a
// loop over a list of names and entries added by helpers are all the same sequence of map updates.
// decided=false: a branch could not be followed, a key was not a constant, or the map was handed to
// code that was not evaluated.

type dictContent struct {
	decided bool
	why     string
	typ     map[string]types.Type // key → dynamic type of the value bound last
}

var x1Content = map[*ssa.Function]*dictContent{}

func (c *Ctx) constructedDictContent(fn *ssa.Function) *dictContent {
	if dc, ok := x1Content[fn]; ok {
		return dc
	}
	dc := &dictContent{typ: map[string]types.Type{}}
	x1Content[fn] = dc
	if fn == nil || fn.Blocks == nil || len(fn.Params) != 0 || fn.Signature.Results().Len() != 1 {
		dc.why = "not a parameterless constructor"
		return dc
	}
	ev := &ssaEval{c: c, bind: map[ssa.Value]sv{}, mem: map[string]sv{}, makeLists: true, arrays: true, maxDepth: 6}
	ret := ev.runFunc(fn, nil)
	if ev.why != "" || len(ret) != 1 {
		dc.why = "evaluation stopped: " + ev.why
		return dc
	}
	m := ret[0]
	if m.k != svSym || !strings.HasPrefix(m.s, "fresh") {
		dc.why = "the result is not a map made by the constructor"
		return dc
	}
	for _, ef := range ev.effects {
		switch ef.what {
		case "mapupdate":
			if ef.addr != m.String() || len(ef.args) != 2 {
				continue
			}
			k := ef.args[0]
			if k.k != svString {
				dc.why = "a key is not a constant at " + c.pos(ef.ins.Pos())
				return dc
			}
			dc.typ[k.s] = ef.args[1].typ // nil: not known
		case "call", "defer":
			for _, a := range ef.args {
				if mentionsSV(a, m.s) {
					dc.why = "the map is handed to a call that is not evaluated at " + c.pos(ef.ins.Pos())
					return dc
				}
			}
			if ef.what == "defer" {
				dc.why = "deferred call"
				return dc
			}
		}
	}
	dc.decided = true
	return dc
}

func mentionsSV(v sv, name string) bool {
	if (v.k == svSym || v.k == svAddr) && (v.s == name || strings.Contains(v.s, name+".") || strings.Contains(v.s, name+"[") || strings.Contains(v.s, name+",") || strings.Contains(v.s, name+")")) {
		return true
	}
	for _, a := range v.args {
		if mentionsSV(a, name) {
			return true
		}
	}
	for _, a := range v.tup {
		if mentionsSV(a, name) {
			return true
		}
	}
	for _, a := range v.fv {
		if mentionsSV(a, name) {
			return true
		}
	}
	return false
}

// ---- "every path through the helper passes …" -------------------------------------------------

// mustPassBlock: every path from the entry of g to a return passes a block for which is(b) holds,
// or a static call of a module function for which the same holds (depth levels down).  A function
// that cannot return without passing such a block is, for a caller's loop, the same as having the
// block inline.
func mustPassBlock(g *ssa.Function, is func(*ssa.BasicBlock) bool, depth int) bool {
	if g == nil || len(g.Blocks) == 0 || depth < 0 {
		return false
	}
	cut := func(b *ssa.BasicBlock) bool {
		if is(b) {
			return true
		}
		for _, ins := range b.Instrs {
			if call, ok := ins.(ssa.CallInstruction); ok {
				if _, isDefer := ins.(*ssa.Defer); isDefer {
					continue
				}
				if _, isGo := ins.(*ssa.Go); isGo {
					continue
				}
				if sc := call.Common().StaticCallee(); sc != nil && sc != g && len(sc.Blocks) > 0 && mustPassBlock(sc, is, depth-1) {
					return true
				}
			}
		}
		return false
	}
	seen := map[*ssa.BasicBlock]bool{}
	st := []*ssa.BasicBlock{g.Blocks[0]}
	for len(st) > 0 {
		b := st[len(st)-1]
		st = st[:len(st)-1]
		if seen[b] || cut(b) {
			continue
		}
		seen[b] = true
		if _, isRet := b.Instrs[len(b.Instrs)-1].(*ssa.Return); isRet {
			return false
		}
		st = append(st, b.Succs...)
	}
	return true
}

// ---- re-entry of the token loop ---------------------------------------------------------------
//
// The token loop (executeScanner) is entered by the API entry point and re-entered by whatever runs
// an encrypted section.  A re-entry is bounded when it happens only after BeginEexec *of the scanner
// that is then executed* has succeeded: BeginEexec refuses a scanner whose section is active, and the
// nested operator finds that very scanner on top.  Which function holds the call — the registered
// operator itself or a part split off it — does not matter; what is decided is the dominance.

// behindBeginEexec: the call of executeScanner at site is reached only after a successful
// BeginEexec on the same scanner — in the function of the site, or (when that function is a helper
// used by static calls only and the scanner is its parameter) at every call site of the helper.
func (c *Ctx) behindBeginEexec(site ssa.CallInstruction, scannerArg ssa.Value, depth int) bool {
	f := site.Parent()
	begin := c.method("postscript", "scanner", "BeginEexec")
	for _, bc := range staticCalls(f, begin) {
		bv, isV := bc.(ssa.Value)
		if !isV || !dominatesInstr(bc, site) || len(bc.Common().Args) == 0 {
			continue
		}
		if !sameValue(bc.Common().Args[0], scannerArg) {
			continue
		}
		for _, cd := range domConds(site.Block()) {
			m, ok := asCmp(cd)
			if ok && m.op == token.EQL && (origin(m.x) == bv && isNilConst(m.y) || origin(m.y) == bv && isNilConst(m.x)) {
				return true
			}
		}
	}
	// a part split off: the scanner is a parameter, every use of f is a static call
	p, ok := origin(scannerArg).(*ssa.Parameter)
	if !ok || depth <= 0 || f.Parent() != nil || exportedAPI(f) {
		return false
	}
	idx := -1
	for i, q := range f.Params {
		if q == p {
			idx = i
		}
	}
	if idx < 0 || !onlyStaticallyCalled(c, f) {
		return false
	}
	n := 0
	for _, g := range c.modFuncs {
		for _, call := range staticCalls(g, f) {
			n++
			if idx >= len(call.Common().Args) || !c.behindBeginEexec(call, call.Common().Args[idx], depth-1) {
				return false
			}
		}
	}
	return n > 0
}

// onlyStaticallyCalled: f is used nowhere in the module but as the callee of static calls.
func onlyStaticallyCalled(c *Ctx, f *ssa.Function) bool {
	refs := f.Referrers()
	if refs != nil {
		for _, r := range *refs {
			call, ok := r.(ssa.CallInstruction)
			if !ok || call.Common().StaticCallee() != f {
				return false
			}
			for _, a := range call.Common().Args {
				if a == ssa.Value(f) {
					return false
				}
			}
		}
		return true
	}
	// referrers of functions are not recorded by go/ssa: look at every operand in the module
	ok := true
	for _, g := range c.modFuncs {
		eachInstr(g, func(ins ssa.Instruction) {
			for _, op := range ins.Operands(nil) {
				if *op != ssa.Value(f) {
					continue
				}
				call, isCall := ins.(ssa.CallInstruction)
				if !isCall || call.Common().Value != ssa.Value(f) {
					ok = false
				}
				if isCall {
					for _, a := range call.Common().Args {
						if a == ssa.Value(f) {
							ok = false
						}
					}
				}
			}
		})
	}
	return ok
}

// scannerArgOf: the scanner a call of executeScanner executes.
func scannerArgOf(call ssa.CallInstruction) ssa.Value {
	args := call.Common().Args
	sT := 0
	var out ssa.Value
	for _, a := range args {
		if pt, ok := a.Type().Underlying().(*types.Pointer); ok {
			if n, ok := pt.Elem().(*types.Named); ok && n.Obj().Name() != "Interpreter" {
				out = a
				sT++
			}
		}
	}
	if sT == 1 {
		return out
	}
	if len(args) >= 2 {
		return args[1]
	}
	return nil
}

// eexecNestingX1 replaces the formulation "the caller is the registered eexec operator" of rule
// L3-EEXEC by the dominance it stood for.
func (c *Ctx) eexecNestingX1(ia *interpAnchors) {
	execute := c.method("postscript", "Interpreter", "Execute")
	begin := c.method("postscript", "scanner", "BeginEexec")
	n := 0
	for _, f := range c.modFuncs {
		for _, call := range staticCalls(f, ia.execScanner) {
			if f == execute {
				c.ok("L3-EEXEC", c.fname(f), "token loop entered from the API", f.Pos(), "API entry point", "")
				continue
			}
			n++
			sa := scannerArgOf(call)
			okDom := sa != nil && c.behindBeginEexec(call, sa, 2)
			c.check(okDom, "L3-EEXEC", c.fname(f), "re-entry only after BeginEexec succeeded", call.Pos(), "reached only behind BeginEexec() == nil of the scanner that is executed",
				c.fname(f)+" re-enters the token loop without a successful BeginEexec of the scanner it executes: nested re-entry is not refused, Go recursion unbounded")
		}
	}
	// a use of executeScanner that is not a static call cannot be followed
	if !onlyStaticallyCalled(c, ia.execScanner) {
		c.fail("L3-EEXEC", c.fname(ia.execScanner), "token loop re-entry", ia.execScanner.Pos(), "executeScanner is used as a function value: its callers cannot be enumerated")
	}
	if n == 0 {
		return
	}
	// BeginEexec refuses when active
	sT := c.typeObj("postscript", "scanner")
	refuses := false
	entry := begin.Blocks[0]
	if ifi, ok := entry.Instrs[len(entry.Instrs)-1].(*ssa.If); ok {
		if m, ok := asCmp(cond{ifi.Cond, true, entry}); ok && m.op == token.NEQ && isFieldLoad(m.x, sT, c.fld("scanner.eexec")) {
			if k, isC := constInt(m.y); isC && k == 0 {
				if r, ok := entry.Succs[0].Instrs[len(entry.Succs[0].Instrs)-1].(*ssa.Return); ok && !isNilConst(r.Results[0]) {
					refuses = true
				}
			}
		}
	}
	setsActive := false
	eachInstr(begin, func(ins ssa.Instruction) {
		if st, ok := ins.(*ssa.Store); ok && isFieldAddr(st.Addr, sT, c.fld("scanner.eexec")) {
			if ks, isC := constChoices(st.Val, 0); isC && len(ks) > 0 {
				nz := true
				for _, k := range ks {
					nz = nz && k != 0
				}
				if nz {
					setsActive = true
				}
			}
		}
	})
	c.check(refuses && setsActive, "L3-EEXEC", "postscript.(*scanner).BeginEexec", "nested eexec refused", begin.Pos(), "first test: eexec != 0 → error; sets eexec non-zero",
		"BeginEexec does not refuse an already active eexec section (or does not mark the section active): `currentfile eexec` inside an encrypted section recurses without limit")
}

// ---- joins of memory epochs that join nothing ---------------------------------------------------

// simplifyEpochJoinsX1: the forward dataflow of analyzeEpochs names the value of a field at a join
// `phi@b` as soon as two predecessors disagree *during the iteration*; with nested loops a stale value
// of an earlier sweep can make an inner loop header a join although nothing inside the inner loop
// writes the field.  This is the usual clean-up of redundant φ-nodes: a set of joins whose only
// input from outside the set is one epoch v denotes v.  Every recorded occurrence is renamed, so
// the result is what a sweep in the ideal order would have produced.
func simplifyEpochJoinsX1(fi *funcInfo, in, out map[*ssa.BasicBlock]map[string]string) {
	fn := fi.fn
	if os.Getenv("DBGEP") != "" && fn.Name() == os.Getenv("DBGEP") {
		for _, b := range fn.Blocks {
			fmt.Println("EP", b.Index, in[b], out[b])
		}
	}
	for round := 0; round < 8; round++ {
		subst := map[string]string{} // field|phi@k → epoch
		for f := range fi.fields {
			for _, b := range fn.Blocks {
				self := fmt.Sprintf("phi@%d", b.Index)
				if in[b][f] != self {
					continue
				}
				leaves := map[string]bool{}
				okAll := true
				for _, p := range b.Preds {
					v, ok := out[p][f]
					if !ok {
						okAll = false
						break
					}
					if v != self {
						leaves[v] = true // an epoch made by an instruction, or another join (resolved in a later round)
					}
				}
				if okAll && len(leaves) == 1 {
					for v := range leaves {
						if v != "" {
							subst[f+"|"+self] = v
						}
					}
				}
			}
		}
		if len(subst) == 0 {
			return
		}
		rename := func(m map[string]string) {
			for f, ep := range m {
				if v, ok := subst[f+"|"+ep]; ok {
					m[f] = v
				}
			}
		}
		for _, m := range in {
			rename(m)
		}
		for _, m := range out {
			rename(m)
		}
		for _, m := range fi.epoch {
			rename(m)
		}
		for _, m := range fi.callEpoch {
			rename(m)
		}
		for _, m := range fi.stateAt {
			rename(m)
		}
	}
}

// ---- boolean helpers as guards ----------------------------------------------------------------
//
// `for !out.full()` with `func (o *outBuf) full() bool { return len(o.free) == 0 }` is the guard
// `len(out.free) != 0`.  What a small module predicate has established about the lengths of its
// slice parameters and of the slice fields of the objects it is handed — whenever it returns a given
// truth value — is a fact on the corresponding edge in the caller, for the epoch the field has at
// the call.  (The error-returning analogue is guardSummary.)

type predKey struct {
	g     *ssa.Function
	truth bool
}

var predSummaryCache = map[predKey][]guardFact{}
var predSummaryBusy = map[predKey]bool{}

func predSummaryX1(g *ssa.Function, truth bool) []guardFact {
	key := predKey{g, truth}
	if r, ok := predSummaryCache[key]; ok {
		return r
	}
	if predSummaryBusy[key] || g == nil || len(g.Blocks) == 0 || len(g.Blocks) > 12 || !inMod(g) {
		return nil
	}
	res := g.Signature.Results()
	if res.Len() != 1 || !isBoolType(res.At(0).Type()) {
		predSummaryCache[key] = nil
		return nil
	}
	predSummaryBusy[key] = true
	defer delete(predSummaryBusy, key)
	gfi := newFuncInfo(g)
	type cand struct {
		callee Lin
		caller guardFact
	}
	var cands []cand
	for j, pj := range g.Params {
		j := j
		switch u := pj.Type().Underlying().(type) {
		case *types.Slice:
			lp := gfi.lenOf(pj)
			cands = append(cands,
				cand{lp.addK(-1), func(cfi *funcInfo, call ssa.CallInstruction) (Lin, bool) {
					return cfi.lenOf(call.Common().Args[j]).addK(-1), true
				}},
				cand{konst(0).sub(lp), func(cfi *funcInfo, call ssa.CallInstruction) (Lin, bool) {
					return konst(0).sub(cfi.lenOf(call.Common().Args[j])), true
				}})
		case *types.Pointer:
			_ = u
			base := gfi.vname(canonBase(pj))
			for f := range gfi.fields {
				if gfi.intFields[f] || strings.HasPrefix(f, "cell:") {
					continue
				}
				f := f
				entry := atom(fmt.Sprintf("len(%s.%s@entry)", base, f))
				at := func(cfi *funcInfo, call ssa.CallInstruction) (Lin, bool) {
					c, ok := call.(*ssa.Call)
					if !ok {
						return Lin{}, false
					}
					return cfi.fieldLenAtCall(c, c.Call.Args[j], f)
				}
				cands = append(cands,
					cand{entry.addK(-1), func(cfi *funcInfo, call ssa.CallInstruction) (Lin, bool) {
						l, ok := at(cfi, call)
						if !ok {
							return Lin{}, false
						}
						return l.addK(-1), true
					}},
					cand{konst(0).sub(entry), func(cfi *funcInfo, call ssa.CallInstruction) (Lin, bool) {
						l, ok := at(cfi, call)
						if !ok {
							return Lin{}, false
						}
						return konst(0).sub(l), true
					}})
			}
		}
	}
	var out []guardFact
	for _, cd := range cands {
		ok, n := true, 0
		for _, r := range returns(g) {
			if len(r.Results) != 1 {
				ok = false
				break
			}
			v := r.Results[0]
			facts := gfi.factsAt(r.Block(), r)
			if b, isC := constBool(v); isC {
				if b != truth {
					continue
				}
			} else {
				facts = append(append([]Lin{}, facts...), gfi.condFacts(v, truth)...)
			}
			n++
			if !gfi.prove([]Lin{cd.callee}, facts, 1) {
				ok = false
				break
			}
		}
		if ok && n > 0 {
			out = append(out, cd.caller)
		}
	}
	predSummaryCache[key] = out
	return out
}

// predFactsX1: the condition is the result of a module predicate.
func (fi *funcInfo) predFactsX1(c ssa.Value, truth bool) []Lin {
	call, ok := c.(*ssa.Call)
	if !ok || call.Parent() != fi.fn {
		return nil
	}
	sc := call.Call.StaticCallee()
	if sc == nil || !inMod(sc) || sc == fi.fn {
		return nil
	}
	var out []Lin
	for _, gf := range predSummaryX1(sc, truth) {
		if l, ok := gf(fi, call); ok {
			out = append(out, l)
		}
	}
	return out
}

// ---- the controlling condition of a loop, through predicates ------------------------------------
//
// A loop is named by its controlling condition.  `for len(b) > 0`, `for len(b) != 0`,
// `for !(len(b) == 0)` and `for !out.full()` — with full() returning `len(o.free) == 0` — are the same
// condition "the slice is not empty"; it is rendered `(len(X)>0)` with X in the caller's terms.

// nonEmptyTestX1: v having truth value `truth` is equivalent to len(X) >= 1; returns the rendering of X.
func (c *Ctx) nonEmptyTestX1(v ssa.Value, truth bool, subst map[*ssa.Parameter]ssa.Value, depth int) (string, bool) {
	if depth > 3 {
		return "", false
	}
	switch x := v.(type) {
	case *ssa.UnOp:
		if x.Op == token.NOT {
			return c.nonEmptyTestX1(x.X, !truth, subst, depth)
		}
	case *ssa.BinOp:
		var lenCall *ssa.Call
		var k int64
		op := x.Op
		if lc, ok := lenCallOf(x.X); ok {
			kk, isC := constInt(x.Y)
			if !isC {
				return "", false
			}
			lenCall, k = lc, kk
		} else if lc, ok := lenCallOf(x.Y); ok {
			kk, isC := constInt(x.X)
			if !isC {
				return "", false
			}
			lenCall, k, op = lc, kk, swapOp(op)
		} else {
			return "", false
		}
		// (n op k) == truth  ⇔  n >= 1, checked on the cells of the partition {0}, {1..}: the
		// comparison is monotone in n, so the values around k and the ends decide it
		holds := func(n int64) bool {
			var r bool
			switch op {
			case token.LSS:
				r = n < k
			case token.LEQ:
				r = n <= k
			case token.GTR:
				r = n > k
			case token.GEQ:
				r = n >= k
			case token.EQL:
				r = n == k
			case token.NEQ:
				r = n != k
			default:
				return false
			}
			return r == truth
		}
		if holds(0) {
			return "", false
		}
		for _, n := range []int64{1, 2, 3, k - 1, k, k + 1, k + 2, 1 << 40} {
			if n >= 1 && !holds(n) {
				return "", false
			}
		}
		return c.shapeInCallerX1(lenCall.Call.Args[0], subst), true
	case *ssa.Call:
		g := x.Call.StaticCallee()
		if g == nil || !c.inModule(g) || len(g.Blocks) == 0 || len(g.Blocks) > 4 {
			return "", false
		}
		rs := returns(g)
		if len(rs) != 1 || len(rs[0].Results) != 1 || !noWritesIn(g.Blocks, nil, nil) {
			return "", false
		}
		sub := map[*ssa.Parameter]ssa.Value{}
		for i, p := range g.Params {
			if i < len(x.Call.Args) {
				a := x.Call.Args[i]
				if ap, ok := a.(*ssa.Parameter); ok && subst[ap] != nil {
					a = subst[ap]
				}
				sub[p] = a
			}
		}
		return c.nonEmptyTestX1(rs[0].Results[0], truth, sub, depth+1)
	}
	return "", false
}

func lenCallOf(v ssa.Value) (*ssa.Call, bool) {
	call, ok := v.(*ssa.Call)
	if !ok {
		return nil, false
	}
	if b, ok := call.Call.Value.(*ssa.Builtin); ok && b.Name() == "len" && len(call.Call.Args) == 1 {
		return call, true
	}
	return nil, false
}

// shapeInCallerX1 renders a value of a predicate in the terms of its caller: a parameter is the
// argument it was called with.
func (c *Ctx) shapeInCallerX1(v ssa.Value, subst map[*ssa.Parameter]ssa.Value) string {
	switch x := v.(type) {
	case *ssa.Parameter:
		if a, ok := subst[x]; ok {
			return c.valShape(a)
		}
	case *ssa.UnOp:
		if x.Op == token.MUL {
			return c.shapeInCallerX1(x.X, subst)
		}
	case *ssa.FieldAddr:
		st := x.X.Type().Underlying().(*types.Pointer).Elem().Underlying().(*types.Struct)
		return c.shapeInCallerX1(x.X, subst) + "." + st.Field(x.Field).Name()
	}
	return c.valShape(v)
}

// loopShapeX1: the canonical name of a loop controlled by a non-emptiness test ("" if it is not).
func (c *Ctx) loopShapeX1(h *ssa.BasicBlock, body map[*ssa.BasicBlock]bool) string {
	ifi, ok := h.Instrs[len(h.Instrs)-1].(*ssa.If)
	if !ok || len(h.Succs) != 2 {
		return ""
	}
	in0, in1 := body[h.Succs[0]], body[h.Succs[1]]
	if in0 == in1 {
		return ""
	}
	if x, ok := c.nonEmptyTestX1(ifi.Cond, in0, nil, 0); ok {
		return "`(len(" + x + ")>0)`"
	}
	return ""
}
