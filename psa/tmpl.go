package main

import (
	"go/ast"
	"golang.org/x/tools/go/packages"
	"strings"
	"text/template/parse"

	"go/types"

	"golang.org/x/tools/go/ssa"
)

// Template model: the font program is one string constant handed to
// (*template.Template).Parse in type1/write.go.  It is parsed (never executed).

type tmplItem struct {
	text   string     // literal text (for text items)
	action string     // rendered action, e.g. ".FontName|PN", "if .EExec", "range .CharStrings", "end", "else"
	node   parse.Node // the node
	conds  []string   // enclosing if/range/with conditions
}

type fontTmpl struct {
	src    string
	funcs  []string
	trees  map[string]*parse.Tree
	order  []string // names of the sections in the order the main template invokes them
	fnExpr map[string]ast.Expr
}

func (c *Ctx) fontTemplate() *fontTmpl {
	if c.tmpl != nil {
		return c.tmpl
	}
	p := c.pkg("type1")
	info := p.TypesInfo
	t := &fontTmpl{fnExpr: map[string]ast.Expr{}}
	for _, f := range p.Syntax {
		ast.Inspect(f, func(n ast.Node) bool {
			call, ok := n.(*ast.CallExpr)
			if !ok {
				return true
			}
			sel, ok := call.Fun.(*ast.SelectorExpr)
			if !ok {
				return true
			}
			fn, ok := info.ObjectOf(sel.Sel).(*types.Func)
			if !ok || fn.FullName() != "(*text/template.Template).Parse" && fn.FullName() != "(*text/template.Template).Funcs" {
				return true
			}
			if fn.Name() == "Parse" && len(call.Args) == 1 {
				if s, ok := constStrOf(info, call.Args[0]); ok && len(s) > len(t.src) {
					t.src = s
				}
			}
			if fn.Name() == "Funcs" && len(call.Args) == 1 {
				if cl := compositeLitOf(p, call.Args[0]); cl != nil {
					for _, el := range cl.Elts {
						if kv, ok := el.(*ast.KeyValueExpr); ok {
							if k, ok := constStrOf(info, kv.Key); ok {
								t.funcs = append(t.funcs, k)
								t.fnExpr[k] = kv.Value
							}
						}
					}
				}
			}
			return true
		})
	}
	if t.src == "" {
		abort("anchor: font program template (constant argument of Template.Parse) not found in package type1")
	}
	fm := map[string]any{}
	for _, f := range t.funcs {
		fm[f] = func() {}
	}
	builtins := map[string]any{"len": 0, "not": 0, "or": 0, "and": 0, "lt": 0, "gt": 0, "le": 0, "ge": 0, "eq": 0, "ne": 0, "index": 0, "print": 0, "printf": 0, "println": 0, "slice": 0, "html": 0, "js": 0, "call": 0, "urlquery": 0}
	trees, err := parse.Parse("type1", t.src, "{{", "}}", fm, builtins)
	if err != nil {
		abort("the font program template does not parse: %v", err)
	}
	t.trees = trees
	// order of sections: template invocations in the main tree
	if main := trees["type1"]; main != nil && main.Root != nil {
		for _, n := range main.Root.Nodes {
			if tn, ok := n.(*parse.TemplateNode); ok {
				t.order = append(t.order, tn.Name)
			}
		}
	}
	if len(t.order) == 0 {
		for name := range trees {
			if name != "type1" {
				t.order = append(t.order, name)
			}
		}
	}
	c.tmpl = t
	return t
}

func (t *fontTmpl) items(section string) []tmplItem {
	tree := t.trees[section]
	if tree == nil || tree.Root == nil {
		return nil
	}
	var out []tmplItem
	var walk func(n parse.Node, conds []string)
	walk = func(n parse.Node, conds []string) {
		switch n := n.(type) {
		case *parse.ListNode:
			if n == nil {
				return
			}
			for _, x := range n.Nodes {
				walk(x, conds)
			}
		case *parse.TextNode:
			out = append(out, tmplItem{text: string(n.Text), node: n, conds: conds})
		case *parse.ActionNode:
			out = append(out, tmplItem{action: n.Pipe.String(), node: n, conds: conds})
		case *parse.IfNode:
			out = append(out, tmplItem{action: "if " + n.Pipe.String(), node: n, conds: conds})
			walk(n.List, append(append([]string{}, conds...), "if "+n.Pipe.String()))
			if n.ElseList != nil {
				out = append(out, tmplItem{action: "else", node: n, conds: conds})
				walk(n.ElseList, append(append([]string{}, conds...), "else of "+n.Pipe.String()))
			}
			out = append(out, tmplItem{action: "end", node: n, conds: conds})
		case *parse.RangeNode:
			out = append(out, tmplItem{action: "range " + n.Pipe.String(), node: n, conds: conds})
			walk(n.List, append(append([]string{}, conds...), "range "+n.Pipe.String()))
			out = append(out, tmplItem{action: "end", node: n, conds: conds})
		case *parse.WithNode:
			out = append(out, tmplItem{action: "with " + n.Pipe.String(), node: n, conds: conds})
			walk(n.List, conds)
			out = append(out, tmplItem{action: "end", node: n, conds: conds})
		case *parse.TemplateNode:
			out = append(out, tmplItem{action: "template " + n.Name, node: n, conds: conds})
		}
	}
	walk(tree.Root, nil)
	return out
}

func (t *fontTmpl) allItems() []tmplItem {
	var out []tmplItem
	for _, s := range t.order {
		out = append(out, t.items(s)...)
	}
	return out
}

// flatText renders the sections in order with actions shown as ⟦…⟧.
func (t *fontTmpl) flatText() string {
	var sb strings.Builder
	for _, it := range t.allItems() {
		if it.action != "" {
			a := it.action
			// normalise "range $name, $cs := .CharStrings" to "range .CharStrings"
			if strings.HasPrefix(a, "range ") {
				if i := strings.Index(a, ":= "); i >= 0 {
					a = "range " + a[i+3:]
				}
			}
			sb.WriteString("⟦" + a + "⟧")
		} else {
			sb.WriteString(it.text)
		}
	}
	return sb.String()
}

func (t *fontTmpl) sectionText(section string) string {
	var sb strings.Builder
	for _, it := range t.items(section) {
		if it.action != "" {
			a := it.action
			if strings.HasPrefix(a, "range ") {
				if i := strings.Index(a, ":= "); i >= 0 {
					a = "range " + a[i+3:]
				}
			}
			sb.WriteString("⟦" + a + "⟧")
		} else {
			sb.WriteString(it.text)
		}
	}
	return sb.String()
}

// compositeLitOf resolves an expression to a composite literal: the literal itself, or the
// initialiser of the package-level variable it names.
func compositeLitOf(p *packages.Package, e ast.Expr) *ast.CompositeLit {
	switch x := ast.Unparen(e).(type) {
	case *ast.CompositeLit:
		return x
	case *ast.Ident:
		obj := p.TypesInfo.ObjectOf(x)
		for _, f := range p.Syntax {
			for _, d := range f.Decls {
				gd, ok := d.(*ast.GenDecl)
				if !ok {
					continue
				}
				for _, sp := range gd.Specs {
					vs, ok := sp.(*ast.ValueSpec)
					if !ok {
						continue
					}
					for i, n := range vs.Names {
						if p.TypesInfo.Defs[n] == obj && i < len(vs.Values) {
							if cl, ok := ast.Unparen(vs.Values[i]).(*ast.CompositeLit); ok {
								return cl
							}
						}
					}
				}
			}
		}
	}
	return nil
}

// tmplFunc resolves a function of the template's FuncMap to its SSA function (a function
// literal in the map, or a package-level function named there).
func (c *Ctx) tmplFunc(name string) *ssa.Function {
	t := c.fontTemplate()
	e, ok := t.fnExpr[name]
	if !ok {
		return nil
	}
	switch x := ast.Unparen(e).(type) {
	case *ast.FuncLit:
		for _, fn := range c.modFuncs {
			if fn.Syntax() == ast.Node(x) {
				return fn
			}
		}
	case *ast.Ident:
		if f, ok := c.info("type1").ObjectOf(x).(*types.Func); ok {
			return c.prog.FuncValue(f)
		}
	case *ast.SelectorExpr:
		if f, ok := c.info("type1").ObjectOf(x.Sel).(*types.Func); ok {
			return c.prog.FuncValue(f)
		}
	}
	return nil
}

// dateAction finds the action of the template that writes the creation date (the field of the
// template data whose type is time.Time, outside conditions) and returns the text in front of
// it and the time layout it is formatted with: the string argument of `.Field.Format "…"`, or
// the constant layout a function of the pipeline hands to time.Time.Format.
func (c *Ctx) dateAction() (before, layout string, found bool) {
	t := c.fontTemplate()
	// the field of the template data that is filled from the font's time value, as a time or as
	// its text in a constant layout (ext_d.go); by its type if the writer cannot be evaluated
	dateField, preLayout, ok := c.dateDataField()
	if !ok {
		fi := c.typeObj("type1", "fontInfo").Type().Underlying().(*types.Struct)
		for i := 0; i < fi.NumFields(); i++ {
			if fi.Field(i).Type().String() == "time.Time" {
				dateField = fi.Field(i).Name()
			}
		}
	}
	if dateField == "" {
		return "", "", false
	}
	for _, sec := range t.order {
		prev := ""
		for _, it := range t.items(sec) {
			if it.action == "" {
				prev += it.text
				continue
			}
			an, ok := it.node.(*parse.ActionNode)
			if !ok {
				// the text in front of an action continues through the opening of a condition
				if !strings.HasPrefix(it.action, "if ") {
					prev = ""
				}
				continue
			}
			before := prev
			prev = ""
			cmds := an.Pipe.Cmds
			if len(cmds) == 0 || len(cmds[0].Args) == 0 {
				continue
			}
			fn, ok := cmds[0].Args[0].(*parse.FieldNode)
			if !ok || len(fn.Ident) == 0 {
				continue
			}
			if fn.Ident[0] != dateField {
				// a method of the template data that returns the formatted date (ext_w3.go)
				if len(fn.Ident) == 1 && len(cmds[0].Args) == 1 {
					if l, ok := c.dataMethodDateLayout(fn.Ident[0]); ok {
						return before, l, true
					}
				}
				continue
			}
			layout := preLayout
			if len(fn.Ident) == 2 && fn.Ident[1] == "Format" && len(cmds[0].Args) == 2 {
				if sn, ok := cmds[0].Args[1].(*parse.StringNode); ok {
					layout = sn.Text
				}
			}
			for _, cmd := range cmds[1:] {
				if len(cmd.Args) == 0 {
					continue
				}
				id, ok := cmd.Args[0].(*parse.IdentifierNode)
				if !ok {
					continue
				}
				if l, ok := c.formatLayoutOf(c.tmplFunc(id.Ident), 2); ok {
					layout = l
				}
			}
			return before, layout, true
		}
	}
	return "", "", false
}

// formatLayoutOf: the single constant layout fn (or a module function it calls) passes to
// (time.Time).Format / AppendFormat.
func (c *Ctx) formatLayoutOf(fn *ssa.Function, depth int) (string, bool) {
	if fn == nil || len(fn.Blocks) == 0 {
		return "", false
	}
	var layouts []string
	eachInstr(fn, func(ins ssa.Instruction) {
		call, ok := ins.(ssa.CallInstruction)
		if !ok {
			return
		}
		sc := call.Common().StaticCallee()
		if sc == nil {
			return
		}
		switch sc.String() {
		case "(time.Time).Format":
			if l, ok := constString(call.Common().Args[1]); ok {
				layouts = append(layouts, l)
			} else {
				layouts = append(layouts, "\x00not constant")
			}
		case "(time.Time).AppendFormat":
			if l, ok := constString(call.Common().Args[2]); ok {
				layouts = append(layouts, l)
			} else {
				layouts = append(layouts, "\x00not constant")
			}
		default:
			if depth > 0 && c.inModule(sc) {
				if l, ok := c.formatLayoutOf(sc, depth-1); ok {
					layouts = append(layouts, l)
				}
			}
		}
	})
	if len(layouts) == 1 && !strings.HasPrefix(layouts[0], "\x00") {
		return layouts[0], true
	}
	return "", false
}

// ---- typed view of the template: which value an action prints
//
// tmplPrint describes one printing action: the value it prints as an expression over the
// template data (`.FontName`, `.Subrs[]` for the element of a collection that is ranged over,
// `.CharStringList[].Code` for a field of such an element), the Go type of that value, and the
// functions applied to it (a leading call such as `len X` first, then the functions of the
// pipeline).  Variables and the dot of `range`/`with` are resolved, so `range $n, $cs := .M` with
// `$cs` and `range .L` with `.Code` are described alike.
type tmplPrint struct {
	expr  string
	typ   types.Type
	funcs []string
	elem  bool   // the value is (a part of) an element of a collection ranged over
	fmt   string // the constant format of a leading `printf "…" X`
}

type tmplVal struct {
	expr string
	typ  types.Type
	elem bool
}

func (c *Ctx) tmplPrints() map[parse.Node]tmplPrint {
	t := c.fontTemplate()
	pkg := c.pkg("type1").Types
	out := map[parse.Node]tmplPrint{}
	sel := func(v tmplVal, names []string) tmplVal {
		for _, n := range names {
			v.expr += "." + n
			if v.typ != nil {
				obj, _, _ := types.LookupFieldOrMethod(v.typ, true, pkg, n)
				switch o := obj.(type) {
				case *types.Var:
					v.typ = o.Type()
				case *types.Func:
					v.typ = nil
					if res := o.Type().(*types.Signature).Results(); res.Len() >= 1 {
						v.typ = res.At(0).Type()
					}
				default:
					v.typ = nil
				}
			}
		}
		return v
	}
	type env struct {
		dot  tmplVal
		vars map[string]tmplVal
	}
	operand := func(e env, n parse.Node) (tmplVal, bool) {
		switch a := n.(type) {
		case *parse.DotNode:
			return e.dot, true
		case *parse.FieldNode:
			v := e.dot
			if v.expr == "." {
				v.expr = ""
			}
			return sel(v, a.Ident), true
		case *parse.VariableNode:
			if a.Ident[0] == "$" {
				return sel(tmplVal{expr: "", typ: nil}, a.Ident[1:]), true
			}
			if v, ok := e.vars[a.Ident[0]]; ok {
				return sel(v, a.Ident[1:]), true
			}
		}
		return tmplVal{}, false
	}
	elemOf := func(v tmplVal) (key, val tmplVal) {
		key = tmplVal{expr: v.expr + "[key]", elem: true}
		val = tmplVal{expr: v.expr + "[]", elem: true}
		if v.typ != nil {
			switch u := v.typ.Underlying().(type) {
			case *types.Map:
				key.typ, val.typ = u.Key(), u.Elem()
			case *types.Slice:
				key.typ, val.typ = types.Typ[types.Int], u.Elem()
			case *types.Array:
				key.typ, val.typ = types.Typ[types.Int], u.Elem()
			}
		}
		return
	}
	// value and leading function of a pipeline's first command
	fmtOf := func(p *parse.PipeNode) string {
		if p != nil && len(p.Cmds) > 0 && len(p.Cmds[0].Args) == 3 {
			if id, ok := p.Cmds[0].Args[0].(*parse.IdentifierNode); ok && id.Ident == "printf" {
				if sn, ok := p.Cmds[0].Args[1].(*parse.StringNode); ok {
					return sn.Text
				}
			}
		}
		return ""
	}
	first := func(e env, p *parse.PipeNode) (tmplVal, []string, bool) {
		if p == nil || len(p.Cmds) == 0 || len(p.Cmds[0].Args) == 0 {
			return tmplVal{}, nil, false
		}
		args := p.Cmds[0].Args
		if id, ok := args[0].(*parse.IdentifierNode); ok {
			if _, isFmt := args[len(args)-1].(*parse.StringNode); len(args) == 3 && id.Ident == "printf" && !isFmt {
				// printf "format" X
				if _, ok := args[1].(*parse.StringNode); ok {
					if v, ok := operand(e, args[2]); ok {
						return v, []string{id.Ident}, true
					}
				}
			}
			if len(args) == 2 {
				if v, ok := operand(e, args[1]); ok {
					return v, []string{id.Ident}, true
				}
			}
			return tmplVal{}, []string{id.Ident}, false
		}
		v, ok := operand(e, args[0])
		return v, nil, ok && len(args) == 1
	}
	var walk func(n parse.Node, e env)
	walk = func(n parse.Node, e env) {
		switch n := n.(type) {
		case *parse.ListNode:
			if n == nil {
				return
			}
			for _, x := range n.Nodes {
				walk(x, e)
			}
		case *parse.ActionNode:
			v, funcs, ok := first(e, n.Pipe)
			if len(n.Pipe.Decl) > 0 {
				if ok && len(n.Pipe.Decl) == 1 && len(funcs) == 0 && len(n.Pipe.Cmds) == 1 {
					e.vars[n.Pipe.Decl[0].Ident[0]] = v
				}
				return
			}
			if !ok {
				return
			}
			for _, cmd := range n.Pipe.Cmds[1:] {
				name := "?"
				if len(cmd.Args) >= 1 {
					if id, ok := cmd.Args[0].(*parse.IdentifierNode); ok {
						name = id.Ident
					}
				}
				funcs = append(funcs, name)
			}
			out[n] = tmplPrint{expr: v.expr, typ: v.typ, funcs: funcs, elem: v.elem, fmt: fmtOf(n.Pipe)}
		case *parse.IfNode:
			walk(n.List, e)
			walk(n.ElseList, e)
		case *parse.WithNode:
			inner := e
			if v, funcs, ok := first(e, n.Pipe); ok && len(funcs) == 0 {
				inner.dot = v
			} else {
				inner.dot = tmplVal{expr: "?"}
			}
			walk(n.List, inner)
			walk(n.ElseList, e)
		case *parse.RangeNode:
			inner := env{dot: tmplVal{expr: "?"}, vars: map[string]tmplVal{}}
			for k, v := range e.vars {
				inner.vars[k] = v
			}
			if v, funcs, ok := first(e, n.Pipe); ok && len(funcs) == 0 && len(n.Pipe.Cmds) == 1 {
				key, val := elemOf(v)
				inner.dot = val
				switch len(n.Pipe.Decl) {
				case 1:
					inner.vars[n.Pipe.Decl[0].Ident[0]] = val
				case 2:
					inner.vars[n.Pipe.Decl[0].Ident[0]] = key
					inner.vars[n.Pipe.Decl[1].Ident[0]] = val
				}
			}
			walk(n.List, inner)
			walk(n.ElseList, e)
		}
	}
	root := tmplVal{expr: ".", typ: types.NewPointer(c.typeObj("type1", "fontInfo").Type())}
	for _, sec := range t.order {
		if tree := t.trees[sec]; tree != nil && tree.Root != nil {
			walk(tree.Root, env{dot: root, vars: map[string]tmplVal{}})
		}
	}
	return out
}
