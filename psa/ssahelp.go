package main

import (
	"go/constant"
	"go/token"
	"go/types"

	"golang.org/x/tools/go/ssa"
)

// ---- value resolution ------------------------------------------------------

// origin strips representation-only instructions: type changes and loads of
// local cells that are assigned exactly once (go/ssa spills parameters that are
// captured by closures or used with defer into such cells).
func origin(v ssa.Value) ssa.Value {
	for i := 0; i < 20; i++ {
		switch x := v.(type) {
		case *ssa.ChangeType:
			v = x.X
			continue
		case *ssa.UnOp:
			if x.Op == token.MUL {
				if al, ok := x.X.(*ssa.Alloc); ok {
					if s := singleStore(al); s != nil {
						v = s
						continue
					}
				}
			}
		}
		break
	}
	return v
}

// singleStore returns the only value ever stored into the cell, provided
// the cell's address does not escape other than into closures that only
// load it.
func singleStore(al *ssa.Alloc) ssa.Value {
	var val ssa.Value
	n := 0
	for _, r := range *al.Referrers() {
		switch r := r.(type) {
		case *ssa.Store:
			if r.Addr != al {
				return nil
			}
			val = r.Val
			n++
		case *ssa.UnOp, *ssa.DebugRef:
		case *ssa.MakeClosure:
			fn := r.Fn.(*ssa.Function)
			for i, b := range r.Bindings {
				if b == al && i < len(fn.FreeVars) {
					for _, fr := range *fn.FreeVars[i].Referrers() {
						if _, ok := fr.(*ssa.UnOp); !ok {
							if _, ok := fr.(*ssa.DebugRef); !ok {
								return nil
							}
						}
					}
				}
			}
		default:
			return nil
		}
	}
	if n == 1 {
		return val
	}
	return nil
}

// fieldOf: v is a load of a struct field; returns the base pointer (resolved)
// and the field.
func fieldOf(v ssa.Value) (base ssa.Value, f *types.Var, ok bool) {
	u, isU := v.(*ssa.UnOp)
	if !isU || u.Op != token.MUL {
		return nil, nil, false
	}
	return fieldAddrOf(u.X)
}

func fieldAddrOf(a ssa.Value) (base ssa.Value, f *types.Var, ok bool) {
	fa, isFA := a.(*ssa.FieldAddr)
	if !isFA {
		return nil, nil, false
	}
	st := fa.X.Type().Underlying().(*types.Pointer).Elem().Underlying().(*types.Struct)
	return origin(fa.X), st.Field(fa.Field), true
}

// isFieldLoad: v loads the field named name of struct type typ.
func isFieldLoad(v ssa.Value, typ *types.TypeName, name string) bool {
	v = origin(v)
	base, f, ok := fieldOf(v)
	if !ok || f.Name() != name {
		return false
	}
	return pointsTo(base.Type(), typ)
}

func isFieldAddr(a ssa.Value, typ *types.TypeName, name string) bool {
	base, f, ok := fieldAddrOf(a)
	if !ok || f.Name() != name {
		return false
	}
	return pointsTo(base.Type(), typ)
}

func pointsTo(t types.Type, typ *types.TypeName) bool {
	p, ok := t.Underlying().(*types.Pointer)
	if !ok {
		return false
	}
	n, ok := p.Elem().(*types.Named)
	if !ok {
		return false
	}
	if n.Obj() == typ {
		return true
	}
	// a part of typ: an unexported struct embedded in it by value (its fields are fields of typ
	// that were grouped)
	return embeddedIn(n, typ, 0)
}

// embeddedIn: the named struct type n is embedded by value in the struct typ (directly or through
// another embedded struct of the same package).
func embeddedIn(n *types.Named, typ *types.TypeName, depth int) bool {
	st, ok := typ.Type().Underlying().(*types.Struct)
	if !ok || depth > 2 {
		return false
	}
	for i := 0; i < st.NumFields(); i++ {
		f := st.Field(i)
		if !f.Embedded() && f.Exported() && !partFieldX4(typ.Type(), f) {
			// (an unexported field holding an unexported struct by value is a part as well: `in byteSource`)
			continue
		}
		en, ok := f.Type().(*types.Named)
		if !ok || en.Obj().Pkg() != typ.Pkg() || en.Obj().Exported() {
			continue
		}
		if en == n || en.Obj() == n.Obj() {
			return true
		}
		if embeddedIn(n, en.Obj(), depth+1) {
			return true
		}
	}
	return false
}

// lenOfField: v == len(<load of typ.name>)
func lenOfField(v ssa.Value, typ *types.TypeName, name string) bool {
	call, ok := origin(v).(*ssa.Call)
	if !ok {
		return false
	}
	b, ok := call.Common().Value.(*ssa.Builtin)
	if !ok || b.Name() != "len" {
		// a method of the field's own type that returns the length (ext_x5.go)
		return lenAccessorOfField(call, typ, name)
	}
	return isFieldLoad(call.Common().Args[0], typ, name)
}

func constInt(v ssa.Value) (int64, bool) {
	c, ok := v.(*ssa.Const)
	if !ok || c.Value == nil {
		return 0, false
	}
	if c.Value.Kind() != constant.Int {
		return 0, false
	}
	return constant.Int64Val(c.Value)
}

func constBool(v ssa.Value) (bool, bool) {
	c, ok := v.(*ssa.Const)
	if !ok || c.Value == nil || c.Value.Kind() != constant.Bool {
		return false, false
	}
	return constant.BoolVal(c.Value), true
}

func constString(v ssa.Value) (string, bool) {
	c, ok := v.(*ssa.Const)
	if !ok || c.Value == nil || c.Value.Kind() != constant.String {
		return "", false
	}
	return constant.StringVal(c.Value), true
}

// globalLoad: v is a load of package-level variable g (by object).
func globalLoad(v ssa.Value) *ssa.Global {
	v = origin(v)
	if mi, ok := v.(*ssa.MakeInterface); ok {
		v = origin(mi.X)
	}
	u, ok := v.(*ssa.UnOp)
	if !ok || u.Op != token.MUL {
		return nil
	}
	g, _ := u.X.(*ssa.Global)
	return g
}

// ---- dominating conditions -------------------------------------------------

type cond struct {
	v     ssa.Value // boolean SSA value
	truth bool
	blk   *ssa.BasicBlock // the If block
}

// domConds returns the branch conditions known to hold on entry to block b:
// for every If block I with a successor S whose only predecessor is I and
// which dominates b (or is b), the (negated) condition of I.
func domConds(b *ssa.BasicBlock) []cond { return domCondsOpt(b, false) }

// entryConds is like domConds but treats a loop header (all predecessors but
// one are back edges from blocks it dominates) as having that one entry
// predecessor: the conditions hold when the loop is entered, not necessarily
// on later iterations.
func entryConds(b *ssa.BasicBlock) []cond { return domCondsOpt(b, true) }

func domCondsOpt(b *ssa.BasicBlock, throughLoopHeaders bool) []cond {
	var out []cond
	for x := b; x != nil; x = x.Idom() {
		var p *ssa.BasicBlock
		if len(x.Preds) == 1 {
			p = x.Preds[0]
		} else if throughLoopHeaders {
			n := 0
			for _, q := range x.Preds {
				if !x.Dominates(q) {
					p = q
					n++
				}
			}
			if n != 1 {
				continue
			}
		} else {
			continue
		}
		if len(p.Instrs) == 0 {
			continue
		}
		ifi, ok := p.Instrs[len(p.Instrs)-1].(*ssa.If)
		if !ok {
			continue
		}
		if p.Succs[0] == x && p.Succs[1] != x {
			out = append(out, cond{ifi.Cond, true, p})
		} else if p.Succs[1] == x && p.Succs[0] != x {
			out = append(out, cond{ifi.Cond, false, p})
		}
	}
	return out
}

// cmp is a canonical comparison  X op Y  with op one of < <= == != > >=.
type cmp struct {
	x, y ssa.Value
	op   token.Token
}

func negOp(op token.Token) token.Token {
	switch op {
	case token.LSS:
		return token.GEQ
	case token.LEQ:
		return token.GTR
	case token.GTR:
		return token.LEQ
	case token.GEQ:
		return token.LSS
	case token.EQL:
		return token.NEQ
	case token.NEQ:
		return token.EQL
	}
	return token.ILLEGAL
}

func swapOp(op token.Token) token.Token {
	switch op {
	case token.LSS:
		return token.GTR
	case token.LEQ:
		return token.GEQ
	case token.GTR:
		return token.LSS
	case token.GEQ:
		return token.LEQ
	}
	return op
}

// asCmp interprets a condition (with truth value) as a comparison.
func asCmp(c cond) (cmp, bool) {
	v := c.v
	truth := c.truth
	for {
		if u, ok := v.(*ssa.UnOp); ok && u.Op == token.NOT {
			v = u.X
			truth = !truth
			continue
		}
		break
	}
	b, ok := v.(*ssa.BinOp)
	if !ok {
		return cmp{}, false
	}
	switch b.Op {
	case token.LSS, token.LEQ, token.GTR, token.GEQ, token.EQL, token.NEQ:
	default:
		return cmp{}, false
	}
	op := b.Op
	if !truth {
		op = negOp(op)
	}
	return cmp{b.X, b.Y, op}, true
}

// boundsConst: does the comparison bound value-predicate `is` from above
// (v <= K or v < K) / below by a constant?  Returns the inclusive bound.
func upperBoundConst(cs []cond, is func(ssa.Value) bool) (int64, bool) {
	best := int64(0)
	found := false
	for _, c := range cs {
		m, ok := asCmp(c)
		if !ok {
			continue
		}
		x, y, op := m.x, m.y, m.op
		if k, isC := constInt(origin(x)); isC && is(y) {
			// K op v  ->  v swap(op) K
			x, y, op = y, x, swapOp(op)
			_ = k
		}
		if !is(x) {
			continue
		}
		k, isC := constInt(origin(y))
		if !isC {
			continue
		}
		var ub int64
		switch op {
		case token.LSS:
			ub = k - 1
		case token.LEQ, token.EQL:
			ub = k
		default:
			continue
		}
		if !found || ub < best {
			best, found = ub, true
		}
	}
	return best, found
}

func lowerBoundConst(cs []cond, is func(ssa.Value) bool) (int64, bool) {
	best := int64(0)
	found := false
	for _, c := range cs {
		m, ok := asCmp(c)
		if !ok {
			continue
		}
		x, y, op := m.x, m.y, m.op
		if _, isC := constInt(origin(x)); isC && is(y) {
			x, y, op = y, x, swapOp(op)
		}
		if !is(x) {
			continue
		}
		k, isC := constInt(origin(y))
		if !isC {
			continue
		}
		var lb int64
		switch op {
		case token.GTR:
			lb = k + 1
		case token.GEQ, token.EQL:
			lb = k
		default:
			continue
		}
		if !found || lb > best {
			best, found = lb, true
		}
	}
	return best, found
}

// ---- misc -------------------------------------------------------------------

func instrIndex(ins ssa.Instruction) int {
	for i, x := range ins.Block().Instrs {
		if x == ins {
			return i
		}
	}
	return -1
}

// dominatesInstr: a is executed before b on every path to b.
func dominatesInstr(a, b ssa.Instruction) bool {
	if a.Block() == b.Block() {
		return instrIndex(a) < instrIndex(b)
	}
	return a.Block().Dominates(b.Block())
}

func eachInstr(fn *ssa.Function, f func(ssa.Instruction)) {
	for _, b := range fn.Blocks {
		for _, ins := range b.Instrs {
			f(ins)
		}
	}
}

// staticCalls returns the call instructions in fn whose static callee is callee.
func staticCalls(fn, callee *ssa.Function) []ssa.CallInstruction {
	var out []ssa.CallInstruction
	eachInstr(fn, func(ins ssa.Instruction) {
		if c, ok := ins.(ssa.CallInstruction); ok && c.Common().StaticCallee() == callee {
			out = append(out, c)
		}
	})
	return out
}

// returnedError: the Return instructions of fn together with the value of
// the last (error) result, resolved through the named-result cell go/ssa
// uses when the function has defers.
func returns(fn *ssa.Function) []*ssa.Return {
	var out []*ssa.Return
	eachInstr(fn, func(ins ssa.Instruction) {
		if r, ok := ins.(*ssa.Return); ok {
			out = append(out, r)
		}
	})
	return out
}

// retValues resolves the values a Return may yield for result idx.  With
// deferred calls go/ssa stores results in a cell and reloads it after
// `rundefers`; this follows the preceding store in the same block.
func retValues(r *ssa.Return, idx int) []ssa.Value {
	v := r.Results[idx]
	if u, ok := v.(*ssa.UnOp); ok && u.Op == token.MUL {
		if al, ok := u.X.(*ssa.Alloc); ok {
			// last store to al in this block before the return
			blk := r.Block()
			for i := len(blk.Instrs) - 1; i >= 0; i-- {
				if st, ok := blk.Instrs[i].(*ssa.Store); ok && st.Addr == al {
					return []ssa.Value{st.Val}
				}
			}
			// otherwise: any store
			var out []ssa.Value
			for _, ref := range *al.Referrers() {
				if st, ok := ref.(*ssa.Store); ok && st.Addr == al {
					out = append(out, st.Val)
				}
			}
			return out
		}
	}
	return []ssa.Value{v}
}

func isNilConst(v ssa.Value) bool {
	c, ok := v.(*ssa.Const)
	return ok && c.Value == nil
}

// sameValue: a and b denote the same value: identical after origin(), or
// loads of the same field of the same base, or the same field of the same
// struct value.
func sameValue(a, b ssa.Value) bool {
	a, b = origin(a), origin(b)
	if a == b {
		return true
	}
	if ba, fa, ok := fieldOf(a); ok {
		if bb, fb, ok := fieldOf(b); ok && fa == fb && sameValue(ba, bb) {
			return true
		}
	}
	if fa, ok := a.(*ssa.Field); ok {
		if fb, ok := b.(*ssa.Field); ok && fa.Field == fb.Field && sameValue(fa.X, fb.X) {
			return true
		}
	}
	if ca, ok := a.(*ssa.Convert); ok {
		if cb, ok := b.(*ssa.Convert); ok && types.Identical(ca.Type(), cb.Type()) && sameValue(ca.X, cb.X) {
			return true
		}
	}
	return false
}

// underflowGuard interprets an If as a guard "fewer than k elements": it returns k and the
// successor index of the edge taken when the tested length is below k.  All the usual spellings
// are covered: len < k, len <= k-1, k > len, len == 0, !(len >= k), and the same tests with the
// branches swapped.
func underflowGuard(ifi *ssa.If, isLen func(ssa.Value) bool) (k int64, errSucc int, ok bool) {
	for _, truth := range []bool{true, false} {
		m, isCmp := asCmp(cond{ifi.Cond, truth, ifi.Block()})
		if !isCmp {
			return 0, 0, false
		}
		x, y, op := origin(m.x), origin(m.y), m.op
		if _, isC := constInt(x); isC && isLen(y) {
			x, y, op = y, x, swapOp(op)
		}
		if !isLen(x) {
			return 0, 0, false
		}
		kk, isC := constInt(y)
		if !isC {
			return 0, 0, false
		}
		succ := 0
		if !truth {
			succ = 1
		}
		switch op {
		case token.LSS:
			return kk, succ, true
		case token.LEQ:
			return kk + 1, succ, true
		case token.EQL:
			if kk == 0 {
				return 1, succ, true
			}
		}
	}
	return 0, 0, false
}

// eachInstrDeep visits the instructions of fn and of the module functions it calls statically
// (closures included), transitively to the given depth: a rule that asks "does this operation
// contain …" must not depend on whether a step was extracted into a helper.
func (c *Ctx) eachInstrDeep(fn *ssa.Function, depth int, visit func(ssa.Instruction)) {
	seen := map[*ssa.Function]bool{}
	var walk func(f *ssa.Function, d int)
	walk = func(f *ssa.Function, d int) {
		if f == nil || seen[f] || len(f.Blocks) == 0 {
			return
		}
		seen[f] = true
		eachInstr(f, func(ins ssa.Instruction) {
			visit(ins)
			if d <= 0 {
				return
			}
			if call, ok := ins.(ssa.CallInstruction); ok {
				if g := call.Common().StaticCallee(); g != nil && c.inModule(g) {
					walk(g, d-1)
				}
			}
			if mc, ok := ins.(*ssa.MakeClosure); ok {
				if g, ok := mc.Fn.(*ssa.Function); ok {
					walk(g, d-1)
				}
			}
		})
	}
	walk(fn, depth)
}
