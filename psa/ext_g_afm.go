package main

import (
	"fmt"
	"go/token"
	"go/types"
	"regexp"
	"sort"
	"strconv"
	"strings"

	"golang.org/x/tools/go/ssa"
)

// C15 — the AFM reader as a decision table.
//
// One iteration of the reader's line loop is evaluated (ssaeval.go) for one line of text in one
// of the reader's modes (header, character metrics, kerning pairs).  The outcome — which fields
// of the result received which value, which glyph or kerning pair was added, which mode the
// reader is in afterwards — is compared with what the AFM format prescribes for that line.  The
// lines are the cells of a finite table: one line per keyword the writer emits (instantiated
// with one representative value per verb), and the layout variants an independent writer may
// produce (other spacing, tabs, trailing white space, other order of the entries of a glyph
// line).  The shape of the reader (switch, if chain, lookup table, helper functions) plays no
// part: module functions are evaluated in place, map look-ups are answered from the map's
// recorded contents.

type afmReaderModel struct {
	c       *Ctx
	fn      *ssa.Function
	H       *ssa.BasicBlock
	why     string
	initial *afmMode // the mode in which the loop is entered
	// params: values of the function's parameters (by index); others are symbols
	params map[int]sv
	// onCall is consulted before the model's own call hook
	onCall func(ev *ssaEval, call ssa.CallInstruction, args []sv) (sv, bool)
	// the evaluator of the last run and the index of the first effect of the iteration
	lastEv   *ssaEval
	lastBase int
	// emptyState: maps and slices held outside the evaluated function are empty (a cache that
	// has not been filled yet)
	emptyState bool
	cellTypes  map[string]string
	// symNums: number texts that the conversion functions of strconv turn into the symbol
	// num(<text>) instead of a value (provided the library accepts the text): what the reader
	// does with the number then shows in the result, and a branch on it stops the evaluation
	symNums map[string]bool
	// whole: fn is a function that reaches the line loop through helpers of the module (the loop
	// sits in a helper that is handed the body as a function value): fn is evaluated from entry
	// to return with a scanner that delivers exactly one line; the iteration is what happens
	// between the first and the second call of Scan (ext_y7.go: loopOwnerY7)
	whole bool
}

// afmLineResult: the outcome of one iteration.
type afmLineResult struct {
	ok       bool // the iteration came back to the loop header
	why      string
	returned []sv          // values returned, if the function returned instead
	mode     *afmMode      // the reader's mode after the iteration
	fields   map[string]sv // Metrics field → value stored in this iteration
	glyphs   map[string]afmGlyph
	kern     []map[string]sv  // appended kerning pairs: field → value
	encoding map[int64]string // Encoding slots written in this iteration
}

type afmGlyph struct {
	fields map[string]sv     // WidthX, BBox.LLx, …
	lig    map[string]string // nil if the map stored is nil
}

func (c *Ctx) newAfmReaderModel(fn *ssa.Function) *afmReaderModel {
	m := &afmReaderModel{c: c, fn: fn}
	// the line loop: the loop whose header (or body) asks the scanner for the next line
	for _, b := range fn.Blocks {
		isHeader := false
		for _, p := range b.Preds {
			if b.Dominates(p) {
				isHeader = true
			}
		}
		if !isHeader {
			continue
		}
		// the innermost loop containing a call of Scan: take the header that dominates the call
		// and is closest to it
		for _, bb := range fn.Blocks {
			for _, ins := range bb.Instrs {
				if call, ok := ins.(ssa.CallInstruction); ok && callName(call) == "(*bufio.Scanner).Scan" && b.Dominates(bb) {
					if m.H == nil || m.H.Dominates(b) {
						m.H = b
					}
				}
			}
		}
	}
	if m.H == nil {
		m.why = "no loop that reads lines with a bufio.Scanner was found"
		return m
	}
	return m
}

// afmMode: what the reader carries from one line to the next apart from the result: the
// loop-header phis, and constants held in memory cells that exist before the loop starts (a
// parser object with a section field).
type afmMode struct {
	phis map[*ssa.Phi]sv
	mem  map[string]sv
}

func (m *afmReaderModel) modeString(mode *afmMode) string {
	if mode == nil {
		mode = m.initial
	}
	if mode == nil {
		return ""
	}
	var p []string
	for _, ins := range m.H.Instrs {
		if phi, ok := ins.(*ssa.Phi); ok {
			if v, ok := mode.phis[phi]; ok && v.isConst() {
				p = append(p, v.String())
			}
		}
	}
	var keys []string
	for k := range mode.mem {
		keys = append(keys, k)
	}
	sort.Strings(keys)
	for _, k := range keys {
		p = append(p, k+"="+mode.mem[k].String())
	}
	return strings.Join(p, ",")
}

// run evaluates one iteration of the line loop on the given line.  mode == nil: the mode in
// which the loop is entered.
func (m *afmReaderModel) run(mode *afmMode, line string) afmLineResult {
	c := m.c
	res := afmLineResult{fields: map[string]sv{}, glyphs: map[string]afmGlyph{}, encoding: map[int64]string{}}
	if m.H == nil {
		res.why = m.why
		return res
	}
	ev := &ssaEval{c: c, bind: map[ssa.Value]sv{}, mem: map[string]sv{}, arrays: true}
	delivered := false
	wholeBase, wholeEnd, wholeWhy := -1, -1, ""
	mapEntries := func(id string) map[string]sv {
		out := map[string]sv{}
		for _, ef := range ev.effects {
			if ef.what == "mapupdate" && ef.addr == id && ef.args[0].k == svString {
				out[ef.args[0].s] = ef.args[1]
			}
		}
		return out
	}
	ev.oracle = func(op token.Token, x, y sv) (bool, bool) {
		// a failed conversion against nil
		if x.k == svSym && strings.HasPrefix(x.s, "Err:") && y.k == svNil {
			return op == token.NEQ, true
		}
		if y.k == svSym && strings.HasPrefix(y.s, "Err:") && x.k == svNil {
			return op == token.NEQ, true
		}
		// addresses of cells are not nil
		if x.k == svAddr && y.k == svNil || y.k == svAddr && x.k == svNil {
			return op == token.NEQ, true
		}
		// a fresh map against nil
		if x.k == svSym && strings.HasPrefix(x.s, "fresh") && y.k == svNil {
			return op == token.NEQ, true
		}
		return false, false
	}
	ev.call = func(call ssa.CallInstruction, args []sv) (sv, bool) {
		if call == nil {
			if len(args) == 3 && args[0].s == "lookup" && args[1].k == svNil {
				// a nil map has no entries
				return sv{k: svTuple, tup: []sv{{k: svNil}, boolV(false)}}, true
			}
			if len(args) == 3 && args[0].s == "lookup" && args[1].k == svSym && args[2].k == svString {
				if v, ok := mapEntries(args[1].String())[args[2].s]; ok {
					return sv{k: svTuple, tup: []sv{v, boolV(true)}}, true
				}
				return sv{k: svTuple, tup: []sv{{k: svNil}, boolV(false)}}, true
			}
			return sv{}, false
		}
		if m.onCall != nil {
			if r, ok := m.onCall(ev, call, args); ok {
				return r, true
			}
		}
		n := callName(call)
		if m.symNums != nil && len(args) >= 1 && args[0].k == svString && m.symNums[args[0].s] {
			switch n {
			case "strconv.ParseFloat", "strconv.Atoi", "strconv.ParseInt", "strconv.ParseUint":
				if r, ok := stdCall(ev, call, args); ok && r.k == svTuple && len(r.tup) == 2 && r.tup[1].k == svNil {
					return sv{k: svTuple, tup: []sv{symV("num(" + args[0].s + ")"), {k: svNil}}}, true
				}
			}
		}
		switch n {
		case "bufio.NewScanner":
			return symV("scanner"), true
		case "(*bufio.Scanner).Scan":
			if !delivered {
				delivered = true
				wholeBase = len(ev.effects)
				return boolV(true), true
			}
			if wholeEnd < 0 {
				wholeEnd, wholeWhy = len(ev.effects), ev.why
			}
			return boolV(false), true
		case "(*bufio.Scanner).Text":
			return sv{k: svString, s: line}, true
		case "(*bufio.Scanner).Bytes":
			var el []sv
			for _, b := range []byte(line) {
				el = append(el, intV(int64(b)))
			}
			return ev.newList(el), true
		case "(*bufio.Scanner).Err":
			return sv{k: svNil}, true
		case "(*bufio.Scanner).Buffer", "(*bufio.Scanner).Split":
			return sv{k: svNil}, true
		case "builtin len":
			if len(args) == 1 && args[0].k == svSym && strings.HasPrefix(args[0].s, "fresh") {
				return intV(int64(len(mapEntries(args[0].s)))), true
			}
		}
		return stdCall(ev, call, args)
	}
	// make([]T, n) with constant n is an array cell and a slice of it: model the slice as a list
	// (in the reader and in the helpers it consists of: a constructor of the result is evaluated
	// in place)
	bindMake := func(ins ssa.Instruction) {
		sl, ok := ins.(*ssa.Slice)
		if !ok || sl.Low != nil {
			return
		}
		al, ok := sl.X.(*ssa.Alloc)
		if !ok || al.Comment != "makeslice" {
			return
		}
		arr, ok := al.Type().Underlying().(*types.Pointer).Elem().Underlying().(*types.Array)
		if !ok || arr.Len() > 4096 {
			return
		}
		n := arr.Len()
		if sl.High != nil {
			h, isC := constInt(sl.High)
			if !isC || h > n {
				return
			}
			n = h
		}
		zero := sv{k: svNil}
		if bt, ok := arr.Elem().Underlying().(*types.Basic); ok {
			switch {
			case bt.Info()&types.IsString != 0:
				zero = sv{k: svString}
			case bt.Info()&types.IsInteger != 0:
				zero = intV(0)
			case bt.Info()&types.IsFloat != 0:
				zero = sv{k: svFloat}
			case bt.Info()&types.IsBoolean != 0:
				zero = boolV(false)
			}
		}
		el := make([]sv, n)
		for i := range el {
			el[i] = zero
		}
		ev.bind[sl] = ev.newList(el)
	}
	for _, f := range c.afmWriterFuncs(m.fn) {
		eachInstr(f, bindMake)
	}
	// a cell allocated during the evaluation that has not been written holds the zero value
	ev.load = func(ld *ssa.UnOp, addr sv) (sv, bool) {
		if m.emptyState && addr.k == svAddr && !strings.HasPrefix(addr.s, "cell") {
			// state outside the evaluated function (caches, tables built earlier): nothing there yet
			switch ld.Type().Underlying().(type) {
			case *types.Map, *types.Slice:
				return sv{k: svNil}, true
			}
		}
		if addr.k != svAddr || !strings.HasPrefix(addr.s, "cell") {
			return sv{}, false
		}
		switch t := ld.Type().Underlying().(type) {
		case *types.Slice, *types.Map, *types.Pointer, *types.Interface, *types.Signature, *types.Chan:
			return sv{k: svNil}, true
		case *types.Struct:
			return sv{k: svStruct, s: "{}"}, true
		case *types.Basic:
			switch {
			case t.Info()&types.IsString != 0:
				return sv{k: svString}, true
			case t.Info()&types.IsInteger != 0:
				return intV(0), true
			case t.Info()&types.IsFloat != 0:
				return sv{k: svFloat}, true
			case t.Info()&types.IsBoolean != 0:
				return boolV(false), true
			}
		}
		return sv{}, false
	}
	fr := &frame{vals: map[ssa.Value]sv{}}
	for i, p := range m.fn.Params {
		fr.vals[p] = symV(fmt.Sprintf("param%d", i))
		if v, ok := m.params[i]; ok {
			fr.vals[p] = v
		}
	}
	m.lastEv = ev
	if m.whole {
		ev.makeLists = true // function values handed to helpers are called in place
		ev.runBlocks(fr, m.fn.Blocks[0], nil, nil)
		switch {
		case wholeBase < 0:
			res.why = "the line loop is not reached: " + ev.why
		case wholeEnd < 0:
			res.why = "the iteration cannot be followed to its end: " + ev.why
			m.lastBase = wholeBase
		case wholeWhy != "":
			res.why = "the iteration cannot be followed to its end: " + wholeWhy
			m.lastBase = wholeBase
		default:
			res.ok = true
			ev.effects = ev.effects[:wholeEnd]
			m.lastBase = wholeBase
		}
		if !res.ok && wholeBase < 0 {
			m.lastBase = len(ev.effects)
		}
		return res
	}
	at, from, _ := ev.runBlocks(fr, m.fn.Blocks[0], nil, func(next, from *ssa.BasicBlock) bool { return next == m.H })
	if at != m.H {
		res.why = "the line loop is not reached: " + ev.why
		return res
	}
	nalloc0 := ev.nalloc
	// constants in cells that exist when the loop is entered, other than the result's own fields
	memMode := func() map[string]sv {
		out := map[string]sv{}
		for k, v := range ev.mem {
			if !strings.HasPrefix(k, "cell") || !(v.k == svBool || v.k == svInt || v.k == svString) {
				continue
			}
			if (v.k == svBool && !v.b) || (v.k == svInt && v.i == 0) || (v.k == svString && v.s == "") {
				continue // the zero value is what a cell holds that was never written
			}
			var id int
			fmt.Sscanf(k, "cell%d", &id)
			if id == 0 || id > nalloc0 {
				continue
			}
			if i := strings.LastIndex(k, "."); i > 0 {
				isData := false
				for _, tn := range afmTypes {
					if m.cellTypes[k[:i]] == tn {
						isData = true
					}
				}
				if isData {
					continue
				}
			}
			out[k] = v
		}
		return out
	}
	phisAt := func(from *ssa.BasicBlock) map[*ssa.Phi]sv {
		out := map[*ssa.Phi]sv{}
		for _, ins := range m.H.Instrs {
			if phi, ok := ins.(*ssa.Phi); ok {
				for i, p := range m.H.Preds {
					if p == from {
						out[phi] = ev.val(fr, phi.Edges[i])
					}
				}
			}
		}
		return out
	}
	initialPhis := phisAt(from)
	for phi, v := range initialPhis {
		fr.vals[phi] = v
	}
	if mode != nil {
		for phi, v := range mode.phis {
			fr.vals[phi] = v
		}
	}
	// which cells hold which struct type
	cellType := map[string]string{}
	m.cellTypes = cellType
	noteTypes := func() {
		for _, ef := range ev.effects {
			st, ok := ef.ins.(*ssa.Store)
			if !ok {
				continue
			}
			if fa, ok := st.Addr.(*ssa.FieldAddr); ok {
				if pt, ok := fa.X.Type().Underlying().(*types.Pointer); ok {
					if nt, ok := pt.Elem().(*types.Named); ok {
						if i := strings.LastIndex(ef.addr, "."); i > 0 {
							cellType[ef.addr[:i]] = nt.Obj().Name()
						}
					}
				}
			}
		}
	}
	noteTypes()
	m.initial = &afmMode{phis: initialPhis, mem: memMode()}
	if mode != nil {
		for k, v := range mode.mem {
			ev.mem[k] = v
		}
	}
	base := len(ev.effects)
	m.lastBase = base
	ev.why = ""
	at, from, ret := ev.runBlocks(fr, m.H, nil, func(next, f *ssa.BasicBlock) bool { return next == m.H })
	noteTypes()
	if ret != nil {
		res.returned = ret
		res.why = "the reader returns " + fmt.Sprint(ret)
	} else if at != m.H || ev.why != "" {
		res.why = "the iteration cannot be followed to its end: " + ev.why
		return res
	} else {
		res.ok = true
		res.mode = &afmMode{phis: phisAt(from), mem: memMode()}
	}
	// what the iteration did to the result
	elemFields := func(cell string) map[string]sv {
		out := map[string]sv{}
		for k, v := range ev.mem {
			if strings.HasPrefix(k, cell+".") {
				f := k[len(cell)+1:]
				if v.k == svStruct {
					for _, kv := range strings.Split(strings.Trim(v.s, "{}"), ",") {
						if i := strings.Index(kv, ":"); i > 0 {
							out[f+"."+kv[:i]] = structFieldValue(kv[i+1:])
						}
					}
					continue
				}
				out[f] = v
			}
		}
		return out
	}
	for _, ef := range ev.effects[base:] {
		switch ef.what {
		case "store":
			i := strings.LastIndex(ef.addr, ".")
			if i > 0 && cellType[ef.addr[:i]] == "Metrics" && !strings.Contains(ef.addr[:i], ".") {
				res.fields[ef.addr[i+1:]] = ef.args[0]
			}
			if strings.HasPrefix(ef.addr, "list:") {
				parts := strings.Split(ef.addr, ":")
				var k int64
				fmt.Sscan(parts[2], &k)
				// only the encoding vector is a list of strings held by the result
				if ef.args[0].k == svString {
					res.encoding[k] = ef.args[0].s
				}
			}
		case "mapupdate":
			if ef.args[0].k == svString && ef.args[1].k == svAddr && cellType[ef.args[1].s] == "GlyphInfo" {
				g := afmGlyph{fields: elemFields(ef.args[1].s)}
				if l, ok := g.fields["Ligatures"]; ok && l.k == svSym {
					g.lig = map[string]string{}
					for k, v := range mapEntries(l.s) {
						g.lig[k] = v.s
					}
				}
				delete(g.fields, "Ligatures")
				res.glyphs[ef.args[0].s] = g
			}
		case "append":
			if el, ok := ev.elems(ef.args[1]); ok {
				for _, x := range el {
					if x.k == svAddr && cellType[x.s] == "KernPair" {
						res.kern = append(res.kern, elemFields(x.s))
					}
				}
			}
		}
	}
	return res
}

func structFieldValue(s string) sv {
	if f, err := strconv.ParseFloat(s, 64); err == nil {
		return sv{k: svFloat, f: f}
	}
	return symV(s)
}

// pureLibCall: functions of strings, strconv and math on known arguments, computed with the
// library's own semantics.
func pureLibCall(e *ssaEval, name string, args []sv) (sv, bool) {
	str := func(i int) (string, bool) {
		if i < len(args) && args[i].k == svString {
			return args[i].s, true
		}
		return "", false
	}
	strList := func(l []string) sv {
		var el []sv
		for _, p := range l {
			el = append(el, sv{k: svString, s: p})
		}
		return e.newList(el)
	}
	errV := func(what string) sv { return symV("Err:" + what) }
	switch name {
	case "strings.Fields":
		if a, ok := str(0); ok {
			return strList(strings.Fields(a)), true
		}
	case "strings.TrimSpace":
		if a, ok := str(0); ok {
			return sv{k: svString, s: strings.TrimSpace(a)}, true
		}
	case "strings.TrimRight", "strings.TrimLeft", "strings.Trim", "strings.TrimPrefix", "strings.TrimSuffix":
		a, ok1 := str(0)
		b, ok2 := str(1)
		if ok1 && ok2 {
			var r string
			switch name {
			case "strings.TrimRight":
				r = strings.TrimRight(a, b)
			case "strings.TrimLeft":
				r = strings.TrimLeft(a, b)
			case "strings.Trim":
				r = strings.Trim(a, b)
			case "strings.TrimPrefix":
				r = strings.TrimPrefix(a, b)
			case "strings.TrimSuffix":
				r = strings.TrimSuffix(a, b)
			}
			return sv{k: svString, s: r}, true
		}
	case "strings.Contains":
		a, ok1 := str(0)
		b, ok2 := str(1)
		if ok1 && ok2 {
			return boolV(strings.Contains(a, b)), true
		}
	case "strings.Index":
		a, ok1 := str(0)
		b, ok2 := str(1)
		if ok1 && ok2 {
			return intV(int64(strings.Index(a, b))), true
		}
	case "strings.Cut":
		a, ok1 := str(0)
		b, ok2 := str(1)
		if ok1 && ok2 {
			x, y, f := strings.Cut(a, b)
			return sv{k: svTuple, tup: []sv{{k: svString, s: x}, {k: svString, s: y}, boolV(f)}}, true
		}
	case "strings.SplitN":
		a, ok1 := str(0)
		b, ok2 := str(1)
		if ok1 && ok2 && len(args) == 3 && args[2].k == svInt {
			return strList(strings.SplitN(a, b, int(args[2].i))), true
		}
	case "strings.Join":
		if len(args) == 2 {
			if el, ok := e.elems(args[0]); ok {
				if sep, ok := str(1); ok {
					var l []string
					for _, x := range el {
						if x.k != svString {
							return sv{}, false
						}
						l = append(l, x.s)
					}
					return sv{k: svString, s: strings.Join(l, sep)}, true
				}
			}
		}
	case "strconv.Atoi":
		if a, ok := str(0); ok {
			v, err := strconv.Atoi(a)
			if err != nil {
				return sv{k: svTuple, tup: []sv{intV(0), errV("Atoi")}}, true
			}
			return sv{k: svTuple, tup: []sv{intV(int64(v)), {k: svNil}}}, true
		}
	case "strconv.ParseInt":
		if a, ok := str(0); ok && len(args) == 3 && args[1].k == svInt && args[2].k == svInt {
			v, err := strconv.ParseInt(a, int(args[1].i), int(args[2].i))
			if err != nil {
				return sv{k: svTuple, tup: []sv{intV(0), errV("ParseInt")}}, true
			}
			return sv{k: svTuple, tup: []sv{intV(v), {k: svNil}}}, true
		}
	case "strconv.ParseFloat":
		if a, ok := str(0); ok && len(args) == 2 && args[1].k == svInt {
			v, err := strconv.ParseFloat(a, int(args[1].i))
			if err != nil {
				return sv{k: svTuple, tup: []sv{{k: svFloat}, errV("ParseFloat")}}, true
			}
			return sv{k: svTuple, tup: []sv{{k: svFloat, f: v}, {k: svNil}}}, true
		}
	case "strconv.ParseBool":
		if a, ok := str(0); ok {
			v, err := strconv.ParseBool(a)
			if err != nil {
				return sv{k: svTuple, tup: []sv{boolV(false), errV("ParseBool")}}, true
			}
			return sv{k: svTuple, tup: []sv{boolV(v), {k: svNil}}}, true
		}
	}
	return sv{}, false
}

func sortedSvKeys(m map[string]sv) []string {
	var out []string
	for k := range m {
		out = append(out, k)
	}
	sort.Strings(out)
	return out
}

// ---- the writer: formatted output events, found on the SSA form

// afmArg: one operand of a formatted write, traced back to where it comes from.
type afmArg struct {
	v     ssa.Value
	typ   types.Type
	field string         // "Metrics.CapHeight", "GlyphInfo.BBox.LLx", "KernPair.Left"; "" if not a field
	via   []string       // functions and operations the field value passes through, outermost first
	call  *ssa.Call      // the outermost library call it passes through (FormatFloat …)
	param *ssa.Parameter // the operand is (computed from) this parameter of the enclosing function
}

type afmEvent struct {
	format string
	args   []afmArg
	known  bool // the operands could be enumerated
	call   ssa.CallInstruction
	fn     *ssa.Function
	site   ssa.CallInstruction // the call of the helper this event was specialised for
}

// isFormatSink: the callee takes (…, format string, args ...any).
func isFormatSink(call ssa.CallInstruction) bool {
	sig := call.Common().Signature()
	if sig == nil || !sig.Variadic() || sig.Params().Len() < 2 {
		return false
	}
	n := sig.Params().Len()
	b, ok := sig.Params().At(n - 2).Type().Underlying().(*types.Basic)
	if !ok || b.Kind() != types.String {
		return false
	}
	sl, ok := sig.Params().At(n - 1).Type().Underlying().(*types.Slice)
	if !ok {
		return false
	}
	it, ok := sl.Elem().Underlying().(*types.Interface)
	return ok && it.Empty()
}

// constStringValue: a string constant, or a concatenation of string constants.
func constStringValue(v ssa.Value) (string, bool) {
	if s, ok := constString(v); ok {
		return s, true
	}
	if b, ok := v.(*ssa.BinOp); ok && b.Op == token.ADD {
		x, ok1 := constStringValue(b.X)
		y, ok2 := constStringValue(b.Y)
		if ok1 && ok2 {
			return x + y, true
		}
	}
	return "", false
}

// afmWriterFuncs: the module functions the writer consists of (static callees, closures).
func (c *Ctx) afmWriterFuncs(root *ssa.Function) []*ssa.Function {
	seen := map[*ssa.Function]bool{}
	var out []*ssa.Function
	var walk func(f *ssa.Function)
	walk = func(f *ssa.Function) {
		if f == nil || seen[f] || !c.inModule(f) || len(f.Blocks) == 0 {
			return
		}
		seen[f] = true
		out = append(out, f)
		eachInstr(f, func(ins ssa.Instruction) {
			switch x := ins.(type) {
			case ssa.CallInstruction:
				walk(x.Common().StaticCallee())
				for _, cl := range closuresOf(x.Common().Value) {
					walk(cl)
				}
				for _, g := range c.funcsOfGlobalG(x.Common().Value) {
					walk(g)
				}
			case *ssa.MakeClosure:
				walk(x.Fn.(*ssa.Function))
			}
		})
	}
	walk(root)
	return out
}

// afmWriterEvents enumerates the formatted writes of the writer: every call of a function of
// the shape (…, format string, args ...any) whose format is a constant.  A call that passes on
// the format parameter of its own function (the body of a formatting helper) is not an event;
// a format that is neither is reported in nonConst.
func (c *Ctx) afmWriterEvents(root *ssa.Function) (events []afmEvent, nonConst []string) {
	for _, f := range c.afmWriterFuncs(root) {
		eachInstr(f, func(ins ssa.Instruction) {
			call, ok := ins.(ssa.CallInstruction)
			if !ok || !isFormatSink(call) || callName(call) == "fmt.Errorf" {
				return
			}
			args := call.Common().Args
			fa, va := args[len(args)-2], args[len(args)-1]
			format, isConst := constStringValue(fa)
			if !isConst {
				// the format is put together from the current element of a literal table that is
				// ranged over: one event per element (ext_x9.go)
				if evs, ok := c.afmTableEventsX9(call, f, fa, va); ok {
					events = append(events, evs...)
					return
				}
				// the helper itself: its own format parameter, possibly with a constant added
				core := fa
				if b, ok := core.(*ssa.BinOp); ok && b.Op == token.ADD {
					if _, ok := constStringValue(b.Y); ok {
						core = b.X
					} else if _, ok := constStringValue(b.X); ok {
						core = b.Y
					}
				}
				switch o := origin(core).(type) {
				case *ssa.Parameter:
					if isFormatParam(o.Parent(), o) {
						return
					}
				}
				nonConst = append(nonConst, c.valShape(fa)+" at "+c.pos(call.Pos()))
				return
			}
			if evs, ok := c.afmTableEventsX9(call, f, fa, va); ok {
				// a constant format whose operands are read out of the current element of a literal
				// table that is ranged over: one event per element
				events = append(events, evs...)
				return
			}
			e := afmEvent{format: format, call: call, fn: f, known: true}
			switch x := va.(type) {
			case *ssa.Const:
			case *ssa.Slice:
				al, ok := x.X.(*ssa.Alloc)
				if !ok {
					e.known = false
					break
				}
				byIdx := map[int64]ssa.Value{}
				for _, r := range *al.Referrers() {
					ia, ok := r.(*ssa.IndexAddr)
					if !ok {
						continue
					}
					k, isC := constInt(ia.Index)
					if !isC {
						e.known = false
						continue
					}
					for _, rr := range *ia.Referrers() {
						if st, ok := rr.(*ssa.Store); ok && st.Addr == ia {
							byIdx[k] = st.Val
						}
					}
				}
				for k := int64(0); k < int64(len(byIdx)); k++ {
					v, ok := byIdx[k]
					if !ok {
						e.known = false
						break
					}
					e.args = append(e.args, c.afmOrigin(v))
				}
			default:
				e.known = false
			}
			events = append(events, e)
		})
	}
	// a formatted write inside a helper whose operands are the helper's parameters stands for
	// one write per call of the helper, with the actual operands
	funcs := c.afmWriterFuncs(root)
	var out []afmEvent
	for _, e := range events {
		out = append(out, c.afmSpecialise(e, funcs, 0)...)
	}
	events = out
	sort.SliceStable(events, func(i, j int) bool { return events[i].pos() < events[j].pos() })
	return events, nonConst
}

func (e afmEvent) pos() token.Pos {
	if e.site != nil {
		return e.site.Pos()
	}
	return e.call.Pos()
}

// afmSpecialise replaces operands that are parameters of the enclosing helper by the operands
// of each call of the helper; constant strings are put into the format.
func (c *Ctx) afmSpecialise(e afmEvent, funcs []*ssa.Function, depth int) []afmEvent {
	uses := false
	for _, a := range e.args {
		if a.param != nil && a.field == "" && a.param.Parent() == e.fn {
			uses = true
		}
	}
	if !uses || depth > 2 || !e.known {
		return []afmEvent{e}
	}
	var sites []ssa.CallInstruction
	for _, g := range funcs {
		eachInstr(g, func(ins ssa.Instruction) {
			if call, ok := ins.(ssa.CallInstruction); ok && call.Common().StaticCallee() == e.fn {
				sites = append(sites, call)
			}
		})
	}
	if len(sites) == 0 {
		return []afmEvent{e}
	}
	var out []afmEvent
	for _, site := range sites {
		e2 := e
		e2.fn = site.Parent()
		e2.site = site
		e2.args = nil
		verbs := afmVerbRe.FindAllStringIndex(e.format, -1)
		format := e.format
		shift := 0
		for i, a := range e.args {
			if a.param == nil || a.field != "" || a.param.Parent() != e.fn {
				e2.args = append(e2.args, a)
				continue
			}
			idx := -1
			for k, p := range e.fn.Params {
				if p == a.param {
					idx = k
				}
			}
			actuals := site.Common().Args
			if idx < 0 || idx >= len(actuals) {
				e2.args = append(e2.args, a)
				continue
			}
			if str, ok := constStringValue(actuals[idx]); ok && len(a.via) == 0 && i < len(verbs) && len(verbs) == len(e.args) {
				// a constant word: part of the format
				lit := strings.ReplaceAll(str, "%", "%%")
				format = format[:verbs[i][0]+shift] + lit + format[verbs[i][1]+shift:]
				shift += len(lit) - (verbs[i][1] - verbs[i][0])
				continue
			}
			a2 := c.afmOrigin(actuals[idx])
			a2.typ = a.typ
			a2.via = append(append([]string{}, a.via...), a2.via...)
			if a.call != nil {
				a2.call = a.call
			}
			e2.args = append(e2.args, a2)
		}
		e2.format = format
		out = append(out, c.afmSpecialise(e2, funcs, depth+1)...)
	}
	return out
}

// isFormatParam: p is the format parameter of a function of the formatting shape.
func isFormatParam(fn *ssa.Function, p *ssa.Parameter) bool {
	if fn == nil {
		return false
	}
	sig := fn.Signature
	if !sig.Variadic() || sig.Params().Len() < 2 {
		return false
	}
	idx := sig.Params().Len() - 2
	if fn.Signature.Recv() != nil {
		idx++
	}
	return idx < len(fn.Params) && fn.Params[idx] == p
}

var afmTypes = []string{"Metrics", "GlyphInfo", "KernPair"}

// afmOrigin traces an operand back to the field of Metrics, GlyphInfo or KernPair it is
// computed from.
func (c *Ctx) afmOrigin(v ssa.Value) afmArg {
	defer c.afmEnterX9()()
	a := afmArg{v: v}
	if mi, ok := v.(*ssa.MakeInterface); ok {
		v = mi.X
	}
	a.typ = v.Type()
	for i := 0; i < 30; i++ {
		v = origin(v)
		switch x := v.(type) {
		case *ssa.Parameter:
			if act, ok := c.afmActualX9(x); ok {
				// inside a helper that was entered from one particular call (ext_x9.go)
				v = act
				continue
			}
			a.param = x
			return a
		case *ssa.MakeInterface:
			v = x.X
			continue
		case *ssa.Convert:
			v = x.X
			continue
		case *ssa.ChangeInterface:
			v = x.X
			continue
		case *ssa.Extract:
			// one of several results of a helper of the module: what the helper returns in that
			// position, with its parameters standing for the operands of this call
			if r, ok := c.afmResultX9(x); ok {
				v = r
				continue
			}
			v = x.Tuple
			continue
		case *ssa.Next:
			a.via = append(a.via, "elem")
			v = x.Iter
			continue
		case *ssa.Range:
			v = x.X
			continue
		case *ssa.Lookup:
			a.via = append(a.via, "index")
			v = x.X
			continue
		case *ssa.Index:
			a.via = append(a.via, "index")
			v = x.X
			continue
		case *ssa.Field:
			// a field of a struct value: the path continues below the value's own origin
			name := x.X.Type().Underlying().(*types.Struct).Field(x.Field).Name()
			inner := c.afmOrigin(x.X)
			if inner.field != "" {
				a.field = inner.field + "." + name
				a.via = append(a.via, inner.via...)
			}
			return a
		case *ssa.Call:
			if b, ok := x.Call.Value.(*ssa.Builtin); ok {
				if len(x.Call.Args) >= 1 {
					a.via = append(a.via, b.Name())
					v = x.Call.Args[0]
					continue
				}
				return a
			}
			if len(x.Call.Args) == 0 {
				return a
			}
			if a.call == nil {
				a.call = x
			}
			a.via = append(a.via, callName(x))
			if x.Call.IsInvoke() {
				v = x.Call.Value
			} else {
				v = x.Call.Args[0]
			}
			continue
		case *ssa.UnOp:
			if x.Op != token.MUL {
				v = x.X
				continue
			}
			// a load: of a field (possibly nested), of a slice element, of a local copy
			path, base, ok := fieldPath(x.X)
			if ok {
				if al, isAl := base.(*ssa.Alloc); isAl {
					// a local struct variable: where its value comes from
					if sv := singleStore(al); sv != nil {
						inner := c.afmOrigin(sv)
						if inner.field != "" {
							a.field = inner.field + "." + path
							a.via = append(a.via, inner.via...)
						}
					}
					return a
				}
				if pt, ok := base.Type().Underlying().(*types.Pointer); ok {
					if nt, ok := pt.Elem().(*types.Named); ok {
						for _, tn := range afmTypes {
							if nt.Obj() == c.typeObj("afm", tn) {
								a.field = tn + "." + path
							}
						}
					}
				}
				return a
			}
			if ia, ok := x.X.(*ssa.IndexAddr); ok {
				a.via = append(a.via, "index")
				v = ia.X
				continue
			}
			return a
		}
		return a
	}
	return a
}

// fieldPath: addr is &base.f1.f2…; returns "f1.f2…" and base.
func fieldPath(addr ssa.Value) (string, ssa.Value, bool) {
	fa, ok := addr.(*ssa.FieldAddr)
	if !ok {
		return "", nil, false
	}
	name := fa.X.Type().Underlying().(*types.Pointer).Elem().Underlying().(*types.Struct).Field(fa.Field).Name()
	if p, base, ok := fieldPath(fa.X); ok {
		return p + "." + name, base, true
	}
	return name, origin(fa.X), true
}

// ---- representative text for a formatted write

var afmVerbRe = regexp.MustCompile(`%[-+# 0]*[0-9]*(\.[0-9]+)?[a-zA-Z]`)

// afmSampleValue: the value a field takes in a representative line, as Go value for fmt and as
// the value the reader has to end up with.
type afmSampleValue struct {
	goVal  any
	expect sv
}

// afmSamples instantiates the format of an event with representative operand values: numbers
// that the verb prints without loss (an integer for %.0f and %d, a fraction for verbs and
// conversions that print fractions), a word (variant 1: several words where the field is free
// text), true (variant 1: false); numbers are negative in variant 0, positive in variant 1 and
// zero in variant 2.  ok=false if an operand is of a kind the table has no
// representative for.
func afmSamples(e afmEvent, variant int) (line string, vals []afmSampleValue, ok bool) {
	verbs := afmVerbRe.FindAllString(e.format, -1)
	if !e.known || len(verbs) != len(e.args) {
		return "", nil, false
	}
	words := []string{"Abc", "Def", "Ghi", "Jkl"}
	var goArgs []any
	for i, a := range e.args {
		verb := verbs[i]
		// the sign of a number is a cell of the table: negative (variant 0), positive (1), zero (2)
		num, half := float64(-12-i), -0.5
		switch variant {
		case 1:
			num, half = float64(12+i), 0.5
		case 2:
			num, half = 0, 0
		}
		var sval afmSampleValue
		bt, _ := a.typ.Underlying().(*types.Basic)
		switch {
		case bt == nil:
			return "", nil, false
		case bt.Info()&types.IsFloat != 0:
			if !(strings.HasSuffix(verb, ".0f") || strings.HasSuffix(verb, ".0F")) {
				num += half
			}
			sval = afmSampleValue{num, sv{k: svFloat, f: num}}
		case bt.Info()&types.IsInteger != 0:
			n := int64(num)
			for _, v := range a.via {
				if v == "len" {
					n = 2
				}
			}
			sval = afmSampleValue{n, intV(n)}
		case bt.Info()&types.IsBoolean != 0:
			b := variant == 0
			sval = afmSampleValue{b, boolV(b)}
		case bt.Info()&types.IsString != 0:
			switch {
			case a.call != nil && callName(a.call) == "strconv.FormatFloat":
				f, prec, bits := byte('f'), -1, 64
				if len(a.call.Call.Args) == 4 {
					if k, ok := constInt(a.call.Call.Args[1]); ok {
						f = byte(k)
					}
					if k, ok := constInt(a.call.Call.Args[2]); ok {
						prec = int(k)
					}
					if k, ok := constInt(a.call.Call.Args[3]); ok {
						bits = int(k)
					}
				}
				num += half
				sval = afmSampleValue{strconv.FormatFloat(num, f, prec, bits), sv{k: svFloat, f: num}}
			case a.call != nil && (callName(a.call) == "strconv.Itoa" || callName(a.call) == "strconv.FormatInt"):
				sval = afmSampleValue{strconv.Itoa(int(num)), intV(int64(num))}
			case a.call != nil && len(a.call.Call.Args) > 0 && isNumeric(a.call.Call.Args[0].Type()):
				// a number turned into text by something the table does not know
				return "", nil, false
			default:
				w := words[i%len(words)]
				if variant >= 1 {
					switch a.field {
					case "Metrics.FullName", "Metrics.Version", "Metrics.Notice":
						w = w + " (c) " + w + " 1.5"
						if variant == 2 {
							// free text: white space inside it is part of the value
							w = w + "  two blanks,\ta tab"
						}
					}
				}
				sval = afmSampleValue{w, sv{k: svString, s: w}}
			}
		default:
			return "", nil, false
		}
		vals = append(vals, sval)
		goArgs = append(goArgs, sval.goVal)
	}
	return fmt.Sprintf(e.format, goArgs...), vals, true
}

// svEqual: the value the reader stored is the expected one (numbers compared as numbers; a
// cell that was never written holds zero).
func svEqual(got, want sv) bool {
	num := func(v sv) (float64, bool) {
		switch v.k {
		case svInt:
			return float64(v.i), true
		case svFloat:
			return v.f, true
		}
		return 0, false
	}
	if got.k == svUnknown || (got.k == svSym && strings.HasPrefix(got.s, "*cell")) || (got.k == svStruct && got.s == "{}") {
		switch want.k {
		case svInt:
			return want.i == 0
		case svFloat:
			return want.f == 0
		case svString:
			return want.s == ""
		case svBool:
			return !want.b
		}
		return false
	}
	if a, ok := num(got); ok {
		b, ok2 := num(want)
		return ok2 && a == b
	}
	if got.k == svString && want.k == svString {
		return got.s == want.s
	}
	if got.k == svBool && want.k == svBool {
		return got.b == want.b
	}
	return false
}

// afmGlyphSpec: what the AFM format says a character-metrics line means.
type afmGlyphSpec struct {
	name   string
	code   int64
	fields map[string]float64
	lig    map[string]string
}

func afmParseGlyphLine(line string) afmGlyphSpec {
	g := afmGlyphSpec{code: -1, fields: map[string]float64{}, lig: map[string]string{}}
	for _, grp := range strings.Split(line, ";") {
		ff := strings.Fields(grp)
		if len(ff) < 2 {
			continue
		}
		num := func(i int) float64 {
			if i < len(ff) {
				f, _ := strconv.ParseFloat(ff[i], 64)
				return f
			}
			return 0
		}
		switch ff[0] {
		case "C":
			g.code = int64(num(1))
		case "WX":
			g.fields["WidthX"] = num(1)
		case "N":
			g.name = ff[1]
		case "B":
			if len(ff) == 5 {
				g.fields["BBox.LLx"], g.fields["BBox.LLy"], g.fields["BBox.URx"], g.fields["BBox.URy"] = num(1), num(2), num(3), num(4)
			}
		case "L":
			if len(ff) >= 3 {
				g.lig[ff[1]] = ff[2]
			}
		}
	}
	return g
}

// afmGlyphMismatch compares the outcome of a character-metrics line with its meaning.
func afmGlyphMismatch(r afmLineResult, want afmGlyphSpec) string {
	if !r.ok {
		return r.why
	}
	g, ok := r.glyphs[want.name]
	if !ok || len(r.glyphs) != 1 {
		var names []string
		for n := range r.glyphs {
			names = append(names, n)
		}
		sort.Strings(names)
		return fmt.Sprintf("the glyph %q is not added to the glyph table (added: %v)", want.name, names)
	}
	for _, f := range []string{"WidthX", "BBox.LLx", "BBox.LLy", "BBox.URx", "BBox.URy"} {
		if !svEqual(g.fields[f], sv{k: svFloat, f: want.fields[f]}) {
			return fmt.Sprintf("glyph field %s is %s, expected %v", f, g.fields[f], want.fields[f])
		}
	}
	if len(g.lig) != len(want.lig) {
		return fmt.Sprintf("the glyph has ligatures %v, expected %v", g.lig, want.lig)
	}
	for k, v := range want.lig {
		if g.lig[k] != v {
			return fmt.Sprintf("the glyph has ligatures %v, expected %v", g.lig, want.lig)
		}
	}
	wantEnc := map[int64]string{}
	if want.code >= 0 && want.code < 256 {
		wantEnc[want.code] = want.name
	}
	if fmt.Sprint(r.encoding) != fmt.Sprint(wantEnc) {
		return fmt.Sprintf("the encoding vector receives %v, expected %v", r.encoding, wantEnc)
	}
	return ""
}

// sameMode: the two modes agree on every header phi that holds a constant and on the constants
// kept in memory.
func (m *afmReaderModel) sameMode(a, b *afmMode) bool {
	return m.modeString(a) == m.modeString(b)
}

// layoutVariants: the same line as an independent writer may lay it out.
func afmLayoutVariants(line string, glyph bool, freeText ...bool) []string {
	if len(freeText) > 0 && freeText[0] {
		// the value is free text to the end of the line: white space inside it is content; an
		// independent writer can only choose the separator after the keyword and what trails
		i := strings.IndexByte(line, ' ')
		if i < 0 {
			return []string{line + " ", line + "\t"}
		}
		kw, rest := line[:i], line[i+1:]
		return []string{line + " ", line + "\t", kw + "\t" + rest, kw + "  " + rest + "  ", "  " + kw + " \t " + rest}
	}
	out := []string{
		line + " ",
		line + "\t",
		strings.ReplaceAll(line, " ", "\t"),
		strings.ReplaceAll(line, " ", "  ") + "  ",
	}
	if glyph {
		var grp []string
		for _, g := range strings.Split(line, ";") {
			if strings.TrimSpace(g) != "" {
				grp = append(grp, strings.TrimSpace(g))
			}
		}
		out = append(out, strings.Join(grp, ";"))
		out = append(out, strings.Join(grp, " ; "))
		var rev []string
		for i := len(grp) - 1; i >= 0; i-- {
			rev = append(rev, grp[i])
		}
		out = append(out, strings.Join(rev, " ; ")+" ;")
	}
	return out
}

func isNumeric(t types.Type) bool {
	b, ok := t.Underlying().(*types.Basic)
	return ok && b.Info()&types.IsNumeric != 0
}

// afmNumberTokens: the white-space separated tokens of a line that are numbers (`;` is a
// separator too), except those that follow one of the given keys.
func afmNumberTokens(line string, notAfter ...string) map[string]bool {
	out := map[string]bool{}
	toks := strings.Fields(strings.ReplaceAll(line, ";", " ; "))
	for i, t := range toks {
		if _, err := strconv.ParseFloat(t, 64); err != nil {
			continue
		}
		skip := false
		for _, k := range notAfter {
			if i > 0 && toks[i-1] == k {
				skip = true
			}
		}
		if !skip {
			out[t] = true
		}
	}
	return out
}

var afmNumSymRe = regexp.MustCompile(`^(?:[iu](?:8|16|32)\()*num\(([^()]*)\)\)*$`)

// afmIsNumberOf: got is the number a token of the line denotes, as it stands (through
// conversions to the field's type at most), and that number is want.
func afmIsNumberOf(got, want sv) bool {
	if got.k != svSym {
		return false
	}
	mm := afmNumSymRe.FindStringSubmatch(got.s)
	if mm == nil {
		return false
	}
	f, err := strconv.ParseFloat(mm[1], 64)
	if err != nil {
		return false
	}
	switch want.k {
	case svInt:
		return f == float64(want.i)
	case svFloat:
		return f == want.f
	}
	return false
}
