package main

import (
	"math/big"
	"sort"
)

// Lin is a linear form: sum coef[a]*a + c
type Lin struct {
	coef map[string]*big.Rat
	c    *big.Rat
}

func konst(n int64) Lin { return Lin{coef: map[string]*big.Rat{}, c: new(big.Rat).SetInt64(n)} }
func konstBig(n *big.Int) Lin {
	return Lin{coef: map[string]*big.Rat{}, c: new(big.Rat).SetInt(n)}
}
func atom(a string) Lin {
	return Lin{coef: map[string]*big.Rat{a: big.NewRat(1, 1)}, c: new(big.Rat)}
}
func (l Lin) clone() Lin {
	m := make(map[string]*big.Rat, len(l.coef))
	for k, v := range l.coef {
		m[k] = new(big.Rat).Set(v)
	}
	return Lin{coef: m, c: new(big.Rat).Set(l.c)}
}
func (l Lin) add(o Lin) Lin    { return l.addScaled(o, big.NewRat(1, 1)) }
func (l Lin) sub(o Lin) Lin    { return l.addScaled(o, big.NewRat(-1, 1)) }
func (l Lin) addK(n int64) Lin { return l.add(konst(n)) }
func (l Lin) addScaled(o Lin, k *big.Rat) Lin {
	r := l.clone()
	for a, v := range o.coef {
		t := new(big.Rat).Mul(v, k)
		if cur, ok := r.coef[a]; ok {
			cur.Add(cur, t)
			if cur.Sign() == 0 {
				delete(r.coef, a)
			}
		} else if t.Sign() != 0 {
			r.coef[a] = t
		}
	}
	r.c.Add(r.c, new(big.Rat).Mul(o.c, k))
	return r
}
func (l Lin) scale(k *big.Rat) Lin { return konst(0).addScaled(l, k) }
func (l Lin) neg() Lin             { return l.scale(big.NewRat(-1, 1)) }
func (l Lin) isConst() bool        { return len(l.coef) == 0 }
func (l Lin) String() string {
	var ks []string
	for k := range l.coef {
		ks = append(ks, k)
	}
	sort.Strings(ks)
	s := ""
	for _, k := range ks {
		s += l.coef[k].RatString() + "*" + k + " + "
	}
	return s + l.c.RatString()
}

// entails reports whether facts (each >= 0) entail goal >= 0 over the integers
// (sound, incomplete): rational infeasibility of facts ∧ goal <= -1.
func entails(facts []Lin, goal Lin) bool {
	cs := make([]Lin, 0, len(facts)+1)
	for _, f := range facts {
		cs = append(cs, f)
	}
	cs = append(cs, goal.neg().addK(-1)) // -goal - 1 >= 0
	return infeasible(cs)
}

func infeasible(cs []Lin) bool {
	for iter := 0; iter < 64; iter++ {
		// constant contradictions
		var rest []Lin
		for _, c := range cs {
			if c.isConst() {
				if c.c.Sign() < 0 {
					return true
				}
				continue
			}
			rest = append(rest, c)
		}
		cs = rest
		if len(cs) == 0 {
			return false
		}
		// choose atom minimizing pos*neg
		cnt := map[string][2]int{}
		for _, c := range cs {
			for a, v := range c.coef {
				x := cnt[a]
				if v.Sign() > 0 {
					x[0]++
				} else {
					x[1]++
				}
				cnt[a] = x
			}
		}
		best := ""
		bestCost := -1
		var names []string
		for a := range cnt {
			names = append(names, a)
		}
		sort.Strings(names)
		for _, a := range names {
			x := cnt[a]
			cost := x[0]*x[1] - x[0] - x[1]
			if bestCost == -1 || cost < bestCost {
				best, bestCost = a, cost
			}
		}
		var pos, negs, others []Lin
		for _, c := range cs {
			v, ok := c.coef[best]
			switch {
			case !ok:
				others = append(others, c)
			case v.Sign() > 0:
				pos = append(pos, c)
			default:
				negs = append(negs, c)
			}
		}
		for _, p := range pos {
			for _, n := range negs {
				// p: a*x + P >= 0 (a>0) ; n: -b*x + N >= 0 (b>0)  => b*P + a*N >= 0
				a := p.coef[best]
				b := new(big.Rat).Neg(n.coef[best])
				comb := p.scale(b).add(n.scale(a))
				delete(comb.coef, best)
				others = append(others, comb)
			}
		}
		if len(others) > 4000 {
			return false
		}
		cs = others
	}
	return false
}
