package main

import (
	"go/ast"
	"go/types"
	"sort"

	"golang.org/x/tools/go/ssa"
)

// The operator registry is filled from the repository itself: every keyed
// element of a composite literal of type Dict whose value is a conversion to
// type `builtin`.

type regEntry struct {
	table string // "systemdict" | "cidInit"
	key   string
	fn    *ssa.Function // nil for data entries
	expr  ast.Expr
	typ   types.Type // static type of the value expression
}

type registry struct {
	entries []regEntry
	byKey   map[string]*regEntry // table/key
	byFn    map[*ssa.Function]*regEntry
}

func (c *Ctx) registry() *registry {
	if c.reg != nil {
		return c.reg
	}
	r := &registry{byKey: map[string]*regEntry{}, byFn: map[*ssa.Function]*regEntry{}}
	p := c.pkg("postscript")
	info := p.TypesInfo
	dictT := c.typeObj("postscript", "Dict")
	builtinT := c.typeObj("postscript", "builtin")

	anonByPos := map[ast.Node]*ssa.Function{}
	for _, fn := range c.modFuncs {
		if fn.Parent() != nil && fn.Syntax() != nil {
			anonByPos[fn.Syntax()] = fn
		}
	}

	collect := func(table string, lit *ast.CompositeLit) {
		for _, el := range lit.Elts {
			kv, ok := el.(*ast.KeyValueExpr)
			if !ok {
				continue
			}
			key, ok := constStrOf(info, kv.Key)
			if !ok {
				continue
			}
			e := regEntry{table: table, key: key, expr: kv.Value, typ: info.TypeOf(kv.Value)}
			if call, ok := unparen(kv.Value).(*ast.CallExpr); ok && len(call.Args) == 1 {
				if tv, ok := info.Types[call.Fun]; ok && tv.IsType() {
					if n, ok := tv.Type.(*types.Named); ok && n.Obj() == builtinT {
						switch a := unparen(call.Args[0]).(type) {
						case *ast.Ident:
							if f, ok := info.ObjectOf(a).(*types.Func); ok {
								e.fn = c.prog.FuncValue(f)
							}
						case *ast.FuncLit:
							e.fn = anonByPos[a]
							if e.fn != nil {
								anonNames[e.fn] = "postscript." + table + "$" + key
							}
						}
					}
				}
			}
			r.entries = append(r.entries, e)
		}
	}

	// systemdict: the Dict literal in makeSystemDict with the most entries
	fd := c.funcDecl("postscript", "", "makeSystemDict")
	var best *ast.CompositeLit
	ast.Inspect(fd.Body, func(n ast.Node) bool {
		if cl, ok := n.(*ast.CompositeLit); ok {
			if nt, ok := info.TypeOf(cl).(*types.Named); ok && nt.Obj() == dictT {
				if best == nil || len(cl.Elts) > len(best.Elts) {
					best = cl
				}
			}
		}
		return true
	})
	if best == nil {
		abort("anchor: system dictionary literal not found in makeSystemDict")
	}
	collect("systemdict", best)
	// later additions of the form systemDict["key"] = builtin(...)
	ast.Inspect(fd.Body, func(n ast.Node) bool {
		as, ok := n.(*ast.AssignStmt)
		if !ok || len(as.Lhs) != 1 || len(as.Rhs) != 1 {
			return true
		}
		ix, ok := as.Lhs[0].(*ast.IndexExpr)
		if !ok {
			return true
		}
		if key, ok := constStrOf(info, ix.Index); ok {
			r.entries = append(r.entries, regEntry{table: "systemdict", key: key, expr: as.Rhs[0], typ: info.TypeOf(as.Rhs[0])})
		}
		return true
	})

	// cidInit: initialiser of the package-level variable
	for _, f := range p.Syntax {
		for _, d := range f.Decls {
			gd, ok := d.(*ast.GenDecl)
			if !ok {
				continue
			}
			for _, sp := range gd.Specs {
				vs, ok := sp.(*ast.ValueSpec)
				if !ok {
					continue
				}
				for i, n := range vs.Names {
					if n.Name == c.curVal("postscript", "cidInit") && i < len(vs.Values) {
						if cl, ok := vs.Values[i].(*ast.CompositeLit); ok {
							collect("cidInit", cl)
						}
					}
				}
			}
		}
	}
	sort.SliceStable(r.entries, func(i, j int) bool {
		if r.entries[i].table != r.entries[j].table {
			return r.entries[i].table > r.entries[j].table
		}
		return r.entries[i].key < r.entries[j].key
	})
	for i := range r.entries {
		e := &r.entries[i]
		r.byKey[e.table+"/"+e.key] = e
		if e.fn != nil {
			r.byFn[e.fn] = e
		}
	}
	c.reg = r
	return r
}

// op returns the function registered under the operator name.
func (r *registry) op(table, key string) *ssa.Function {
	e := r.byKey[table+"/"+key]
	if e == nil || e.fn == nil {
		abort("anchor: operator %s is not registered as a builtin in %s", key, table)
	}
	return e.fn
}

func (r *registry) builtins() []*regEntry {
	var out []*regEntry
	for i := range r.entries {
		if r.entries[i].fn != nil {
			out = append(out, &r.entries[i])
		}
	}
	return out
}
