package main

import (
	"go/token"
	"go/types"
	"sort"

	"golang.org/x/tools/go/ssa"
)

// The operator registry is filled from the repository itself.

type regEntry struct {
	table string // "systemdict" | "cidInit"
	key   string
	fn    *ssa.Function // nil for data entries
	typ   types.Type    // type of the value bound to the key (before it is boxed)
	val   ssa.Value     // the value bound to the key (unboxed)
	pos   token.Pos     // where the key is bound
	at    ssa.Instruction
	binds []ssa.Value // fn is a closure made by a factory: the values of its free variables for this key (nil: unknown)
	fresh bool        // the value expression is evaluated for this key alone
}

type registry struct {
	entries []regEntry
	byKey   map[string]*regEntry // table/key
	byFn    map[*ssa.Function]*regEntry
	open    map[string]int // table → number of updates whose key or extent could not be resolved
}

// The registry is the set of bindings the dictionaries hold when the code that builds them is done
// (ext_x5.go: builtMap): the map makeSystemDict returns, and the map the package initialiser stores
// in the package-level CIDInit table.  An entry is an operator when its value is of type `builtin`
// and stands for a function of the module (named, literal, closure, or closure from a factory).
func (c *Ctx) registry() *registry {
	if c.reg != nil {
		return c.reg
	}
	r := &registry{byKey: map[string]*regEntry{}, byFn: map[*ssa.Function]*regEntry{}, open: map[string]int{}}
	builtinT := c.typeObj("postscript", "builtin")

	collect := func(table string, mc *mapContents) {
		r.open[table] = len(mc.open)
		for _, k := range mc.order {
			b := mc.by[k]
			e := regEntry{table: table, key: k, val: b.val, pos: b.pos, at: b.at, fresh: b.fresh}
			if b.val != nil {
				e.typ = b.val.Type()
				if typeIsNamed(e.typ, builtinT) {
					e.fn, e.binds = c.operatorOf(b.val)
					if e.fn != nil && e.fn.Parent() != nil {
						if _, named := anonNames[e.fn]; !named {
							anonNames[e.fn] = "postscript." + table + "$" + k
						}
					}
				}
			}
			r.entries = append(r.entries, e)
		}
	}

	// systemdict: the map makeSystemDict returns
	mk := c.fn("postscript", "makeSystemDict")
	var root ssa.Value
	nret := 0
	eachInstr(mk, func(ins ssa.Instruction) {
		if ret, ok := ins.(*ssa.Return); ok && len(ret.Results) == 1 {
			nret++
			root = origin(ret.Results[0])
		}
	})
	if nret != 1 || root == nil {
		abort("anchor: the dictionary returned by makeSystemDict was not found (%d return statements)", nret)
	}
	collect("systemdict", c.builtMap(mk, root, 2))

	// cidInit: contents of the package-level table
	if g, ok := c.spkg("postscript").Members[c.curVal("postscript", "cidInit")].(*ssa.Global); ok {
		if mc := c.globalMapContents(g); mc != nil {
			collect("cidInit", mc)
		}
	}
	sort.SliceStable(r.entries, func(i, j int) bool {
		if r.entries[i].table != r.entries[j].table {
			return r.entries[i].table > r.entries[j].table
		}
		return r.entries[i].key < r.entries[j].key
	})
	for i := range r.entries {
		e := &r.entries[i]
		r.byKey[e.table+"/"+e.key] = e
		if e.fn != nil {
			if _, dup := r.byFn[e.fn]; !dup {
				r.byFn[e.fn] = e
			}
		}
	}
	c.reg = r
	return r
}

// op returns the function registered under the operator name.
func (r *registry) op(table, key string) *ssa.Function {
	e := r.byKey[table+"/"+key]
	if e == nil || e.fn == nil {
		abort("anchor: operator %s is not registered as a builtin in %s", key, table)
	}
	return e.fn
}

func (r *registry) builtins() []*regEntry {
	var out []*regEntry
	for i := range r.entries {
		if r.entries[i].fn != nil {
			out = append(out, &r.entries[i])
		}
	}
	return out
}
