package main

import (
	"fmt"
	"go/token"
	"go/types"
	"sort"
	"strings"

	"golang.org/x/tools/go/ssa"
)

// C19 — bounding boxes and widths, decided by decision tables over one symbolic loop iteration
// (ssaeval.go).  The form of the code (switch or if chain, helpers, named results or locals)
// does not matter.

// loopHeader returns the header of the (outermost, first) loop of fn: a block with a predecessor
// it dominates.
func loopHeader(fn *ssa.Function) *ssa.BasicBlock {
	for _, b := range fn.Blocks {
		for _, p := range b.Preds {
			if b.Dominates(p) {
				return b
			}
		}
	}
	return nil
}

// loopFunc returns the function that holds the loop of a query method: fn itself, or — when the
// loop was moved into a helper — the one module function with a loop that fn reaches through
// static calls (at most three levels down).
func (c *Ctx) loopFunc(fn *ssa.Function) (*ssa.Function, *ssa.BasicBlock) {
	if H := loopHeader(fn); H != nil {
		return fn, H
	}
	var found []*ssa.Function
	seen := map[*ssa.Function]bool{fn: true}
	var visit func(f *ssa.Function, depth int)
	visit = func(f *ssa.Function, depth int) {
		for _, b := range f.Blocks {
			for _, ins := range b.Instrs {
				call, ok := ins.(ssa.CallInstruction)
				if !ok {
					continue
				}
				g := call.Common().StaticCallee()
				if g == nil || seen[g] || g.Blocks == nil || !c.inModule(g) {
					continue
				}
				seen[g] = true
				if loopHeader(g) != nil {
					found = append(found, g)
				} else if depth < 3 {
					visit(g, depth+1)
				}
			}
		}
	}
	visit(fn, 1)
	if len(found) == 1 {
		return found[0], loopHeader(found[0])
	}
	return nil, nil
}

// enterLoop evaluates fn from its entry up to the header H of the loop in lf.  If lf is a helper
// of fn, fn is evaluated until it calls lf and the evaluation continues in lf with the argument
// values of that call — the same thing as the loop standing in fn itself.
func (c *Ctx) enterLoop(ev *ssaEval, fn, lf *ssa.Function, H *ssa.BasicBlock, args []sv) (*frame, bool) {
	fr := &frame{vals: map[ssa.Value]sv{}}
	for i, p := range fn.Params {
		if i < len(args) {
			fr.vals[p] = args[i]
		}
	}
	if lf != fn {
		var captured []sv
		entered := false
		orig := ev.call
		ev.call = func(call ssa.CallInstruction, a []sv) (sv, bool) {
			if call != nil && !entered && call.Common().StaticCallee() == lf {
				captured, entered = a, true
				ev.why = "entered the function with the loop"
				return sv{}, true
			}
			if orig != nil {
				return orig(call, a)
			}
			return sv{}, false
		}
		ev.runBlocks(fr, fn.Blocks[0], nil, nil)
		ev.call = orig
		if !entered {
			return fr, false
		}
		ev.why = ""
		fr = &frame{vals: map[ssa.Value]sv{}}
		for i, p := range lf.Params {
			if i < len(captured) {
				fr.vals[p] = captured[i]
			}
		}
	}
	at, _, _ := ev.runBlocks(fr, lf.Blocks[0], nil, func(next, from *ssa.BasicBlock) bool { return next == H })
	return fr, at == H
}

type iterResult struct {
	ok      bool
	why     string
	phis    map[*ssa.Phi]sv // value each header phi receives on the back edge
	mem     map[string]sv
	effects []ssaEffect
	exited  bool // the iteration left the loop instead of coming back
}

// bboxTable evaluates the per-command loop of a glyph bounding box function for all cells of
// (first, command kind, relation of the candidate to the accumulators).
func (c *Ctx) bboxRulesSSA(pkg, typ, method string, pdf bool) {
	fn := c.method(pkg, typ, method)
	name := pkg + ".(*" + typ + ")." + method
	lf, H := c.loopFunc(fn)
	if H == nil {
		c.undecided("Q-BBOX", name, "loop over the path commands", fn.Pos(), "no loop found")
		return
	}
	opConst := map[string]int64{}
	for _, n := range []string{"OpMoveTo", "OpLineTo", "OpCurveTo", "OpClosePath"} {
		opConst[n] = c.constInt("type1", n)
	}
	type cell struct {
		first bool
		op    string
		rel   int // candidate ? accumulator: -1, 0, +1
	}
	var problems []string
	cells := 0
	matrixOK := !pdf
	for _, first := range []bool{true, false} {
		for _, op := range []string{"OpMoveTo", "OpLineTo", "OpCurveTo", "OpClosePath", "other"} {
			for _, rel := range []int{-1, 0, 1} {
				cells++
				ev := &ssaEval{c: c, bind: map[ssa.Value]sv{}, mem: map[string]sv{}}
				opv := int64(99)
				if v, ok := opConst[op]; ok {
					opv = v
				}
				inLoop := true
				isAcc := func(v sv) bool { return v.k == svSym && strings.HasPrefix(v.s, "acc:") }
				ev.oracle = func(o token.Token, x, y sv) (bool, bool) {
					// loop condition
					if strings.Contains(x.String(), "idx") || strings.Contains(y.String(), "idx") {
						return inLoop, true
					}
					// candidate against accumulator
					r := rel
					if isAcc(x) && !isAcc(y) {
						r = -r
					} else if !(isAcc(y) && !isAcc(x)) {
						return false, false
					}
					switch o {
					case token.LSS:
						return r < 0, true
					case token.GTR:
						return r > 0, true
					case token.LEQ:
						return r <= 0, true
					case token.GEQ:
						return r >= 0, true
					case token.EQL:
						return r == 0, true
					case token.NEQ:
						return r != 0, true
					}
					return false, false
				}
				ev.load = func(ld *ssa.UnOp, addr sv) (sv, bool) {
					a := addr.s
					switch {
					case strings.HasSuffix(a, ".Op"):
						return intV(opv), true
					case strings.Contains(a, ".Args["):
						i := strings.LastIndex(a, "[")
						return symV("A" + strings.TrimSuffix(a[i+1:], "]")), true
					case strings.HasSuffix(a, ".Args"):
						return sv{k: svAddr, s: "cmd.Args"}, true
					case strings.HasSuffix(a, ".Cmds"):
						return symV("cmds"), true
					case strings.HasSuffix(a, ".FontMatrix"):
						return symV("FontMatrix"), true
					case strings.HasSuffix(a, ".Glyphs"):
						return symV("glyphs"), true
					}
					if _, isStruct := ld.Type().Underlying().(*types.Struct); isStruct {
						return symV("struct:" + a), true
					}
					return sv{}, false
				}
				ev.call = func(call ssa.CallInstruction, args []sv) (sv, bool) {
					if call == nil && len(args) > 0 && args[0].s == "lookup" {
						return sv{k: svTuple, tup: []sv{sv{k: svAddr, s: "glyph"}, boolV(true)}}, true
					}
					if n := callName(call); strings.HasSuffix(n, "matrix.Matrix).Apply") && len(args) == 3 {
						return sv{k: svTuple, tup: []sv{symV("Mx(" + args[1].s + "," + args[2].s + ")"), symV("My(" + args[1].s + "," + args[2].s + ")")}}, true
					}
					return sv{}, false
				}
				var pargs []sv
				for i := range fn.Params {
					pargs = append(pargs, sv{k: svAddr, s: fmt.Sprintf("param%d", i)})
				}
				// prefix: up to the loop header
				fr, reached := c.enterLoop(ev, fn, lf, H, pargs)
				if !reached {
					problems = append(problems, "the loop is not reached on the path of an existing glyph: "+ev.why)
					continue
				}
				if pdf {
					for _, ef := range ev.effects {
						if ef.what == "call" && strings.HasSuffix(callName(ef.ins.(ssa.CallInstruction)), "matrix.Matrix).Mul") && len(ef.args) == 2 {
							if ef.args[0].s == "FontMatrix" && strings.Contains(ef.args[1].s, "matrix.Scale(1000,1000)") {
								matrixOK = true
							}
						}
					}
				}
				// result cell: the struct the function returns
				retCell := ""
				for _, r := range returns(lf) {
					if len(r.Results) == 1 {
						if ld, ok := r.Results[0].(*ssa.UnOp); ok && ld.Op == token.MUL {
							if v := ev.val(fr, ld.X); v.k == svAddr {
								retCell = v.s
							}
						}
					}
				}
				// presets: header phis and memory accumulators
				var hphis []*ssa.Phi
				for _, ins := range H.Instrs {
					if phi, ok := ins.(*ssa.Phi); ok {
						hphis = append(hphis, phi)
					}
				}
				for i, phi := range hphis {
					switch bt := phi.Type().Underlying().(type) {
					case *types.Basic:
						switch {
						case bt.Info()&types.IsBoolean != 0:
							fr.vals[phi] = boolV(first)
						case bt.Info()&types.IsInteger != 0:
							fr.vals[phi] = symV("idx")
						default:
							fr.vals[phi] = symV(fmt.Sprintf("acc:%d", i))
						}
					default:
						fr.vals[phi] = symV(fmt.Sprintf("obj:%d", i))
					}
				}
				fields := []string{"LLx", "LLy", "URx", "URy"}
				if retCell != "" {
					for _, f := range fields {
						if _, ok := ev.mem[retCell+"."+f]; !ok || true {
							ev.mem[retCell+"."+f] = symV("acc:" + f)
						}
					}
				}
				ev.effects = nil
				ev.why = ""
				back := false
				stopBack := func(next, from *ssa.BasicBlock) bool {
					if next == H {
						back = true
						return true
					}
					return false
				}
				_, from, _ := ev.runBlocks(fr, H, nil, stopBack)
				if !back {
					problems = append(problems, fmt.Sprintf("cell %+v: the iteration does not return to the loop header (%s)", cell{first, op, rel}, ev.why))
					continue
				}
				// new accumulator values
				newPhi := map[*ssa.Phi]sv{}
				for _, phi := range hphis {
					for i, p := range H.Preds {
						if p == from {
							newPhi[phi] = ev.val(fr, phi.Edges[i])
						}
					}
				}
				// exit path: map accumulators to rectangle fields
				acc := map[string]sv{} // field → new value; old value symbol
				old := map[string]string{}
				if retCell != "" && len(ev.mem) > 0 {
					named := false
					for _, f := range fields {
						if v, ok := ev.mem[retCell+"."+f]; ok {
							acc[f] = v
							old[f] = "acc:" + f
							named = true
						}
					}
					_ = named
				}
				// locals form: evaluate the exit with the loop condition false and read the stores
				{
					ev2 := &ssaEval{c: c, bind: map[ssa.Value]sv{}, mem: map[string]sv{}, oracle: func(o token.Token, x, y sv) (bool, bool) { return false, true }, load: ev.load, call: ev.call}
					fr2 := &frame{vals: map[ssa.Value]sv{}}
					for k, v := range fr.vals {
						fr2.vals[k] = v
					}
					for i, phi := range hphis {
						if bt, ok := phi.Type().Underlying().(*types.Basic); ok && bt.Info()&types.IsFloat != 0 {
							fr2.vals[phi] = symV(fmt.Sprintf("acc:%d", i))
						}
					}
					ev2.runBlocks(fr2, H, nil, nil)
					for _, ef := range ev2.effects {
						if ef.what == "store" && len(ef.args) == 1 && ef.args[0].k == svSym && strings.HasPrefix(ef.args[0].s, "acc:") {
							for _, f := range fields {
								if strings.HasSuffix(ef.addr, "."+f) {
									for i, phi := range hphis {
										if fmt.Sprintf("acc:%d", i) == ef.args[0].s {
											acc[f] = newPhi[phi]
											old[f] = ef.args[0].s
										}
									}
								}
							}
						}
					}
				}
				if len(acc) != 4 {
					problems = append(problems, "the four sides of the rectangle could not be related to the loop's accumulators")
					continue
				}
				// expected
				var X, Y string
				switch op {
				case "OpMoveTo", "OpLineTo":
					X, Y = "A0", "A1"
				case "OpCurveTo":
					X, Y = "A4", "A5"
				}
				if pdf && X != "" {
					X, Y = "Mx("+X+","+Y+")", "My("+X+","+Y+")"
				}
				want := map[string]string{}
				for _, f := range fields {
					want[f] = old[f]
				}
				if X != "" {
					if first || rel < 0 {
						want["LLx"], want["LLy"] = X, Y
					}
					if first || rel > 0 {
						want["URx"], want["URy"] = X, Y
					}
				}
				for _, f := range fields {
					if acc[f].String() != want[f] {
						problems = append(problems, fmt.Sprintf("first point: %v, command %s, end point %s the current side: %s becomes %s, expected %s", first, op, map[int]string{-1: "below", 0: "equal to", 1: "above"}[rel], f, acc[f], want[f]))
					}
				}
				// the first flag
				for _, phi := range hphis {
					if bt, ok := phi.Type().Underlying().(*types.Basic); ok && bt.Info()&types.IsBoolean != 0 {
						wantFirst := first && X == ""
						if v := newPhi[phi]; v.k != svBool || v.b != wantFirst {
							problems = append(problems, fmt.Sprintf("first point: %v, command %s: the first-point flag becomes %s, expected %v", first, op, v, wantFirst))
						}
					}
				}
			}
		}
	}
	problems = dedup(problems)
	sort.Strings(problems)
	c.check(len(problems) == 0, "Q-BBOX", name, "each side is the minimum/maximum over the end points (Args[0],Args[1] of moves and lines, Args[4],Args[5] of curves), initialised by the first", fn.Pos(), fmt.Sprintf("decision table over %d cells (first × command × order)", cells), "bounding box: "+joinMax(problems, 3))
	if pdf {
		c.check(matrixOK, "Q-BBOX", name, "every end point is mapped through FontMatrix·Scale(1000,1000) before it is compared", fn.Pos(), "Mul(Scale(1000,1000)) and Apply per point", "the PDF bounding box does not transform each end point with FontMatrix × 1000 before taking minima and maxima")
		// unknown glyph → zero rectangle: no store to the result before the return
		// The font is taken from two worlds: one where the glyph map answers no lookup at all, and
		// one where the asked name alone is missing and every other key (".notdef", say) is a glyph
		// with an outline: what other glyphs the font holds must not matter for a missing name.
		var args []sv
		for i := range fn.Params {
			args = append(args, sv{k: svAddr, s: fmt.Sprintf("param%d", i)})
		}
		var missing []string
		for _, othersPresent := range []bool{false, true} {
			ev := &ssaEval{c: c, bind: map[ssa.Value]sv{}, mem: map[string]sv{}}
			ev.call = func(call ssa.CallInstruction, args []sv) (sv, bool) {
				if call == nil && len(args) > 0 && args[0].s == "lookup" {
					if othersPresent && len(args) == 3 && args[2].known() && !isParamName(args[2], fn) {
						return sv{k: svTuple, tup: []sv{sv{k: svAddr, s: "otherglyph"}, boolV(true)}}, true
					}
					return sv{k: svTuple, tup: []sv{sv{k: svNil}, boolV(false)}}, true
				}
				return sv{}, false
			}
			ev.load = func(ld *ssa.UnOp, addr sv) (sv, bool) { return symV("v:" + addr.s), true }
			ret := ev.runFunc(fn, args)
			stores := 0
			for _, ef := range ev.effects {
				if ef.what == "store" && ef.args[0].k != svNil && !strings.Contains(ef.args[0].String(), "0") {
					stores++
				}
			}
			if ret == nil || stores != 0 {
				if othersPresent {
					missing = append(missing, "a missing glyph does not yield the zero rectangle when the font holds other glyphs: the result depends on a glyph looked up under another key than the name asked for")
				} else {
					missing = append(missing, "a missing glyph does not yield the zero rectangle")
				}
			}
		}
		c.check(len(missing) == 0, "Q-BBOX", name, "unknown glyph → zero rectangle", fn.Pos(), "returns before anything is stored into the result, whatever other glyphs the font holds", strings.Join(missing, "; "))
	}
}

// fontBBoxRulesSSA: the font box is the union of the non-empty glyph boxes.
//
// One iteration of the loop over the glyphs is evaluated for the four cells (the accumulator is
// still empty | holds a box) × (the glyph's box is the zero rectangle | is not); what counts is
// the value of the accumulator afterwards: unchanged for a zero box, the glyph's box for the
// first real box, the union of both otherwise.  How this comes about is free: a flag and an
// explicit test, or an Extend method that itself ignores zero arguments and replaces an empty
// receiver — what the Extend that is called does in these cells is decided on its own body
// (extendContract).  The boxes must be those of the method's own variant (Glyph.BBox for
// FontBBox, Font.GlyphBBoxPDF for FontBBoxPDF) and the union is returned as it is.
func (c *Ctx) fontBBoxRulesSSA() {
	for _, m := range []string{"FontBBox", "FontBBoxPDF"} {
		fn := c.method("type1", "Font", m)
		name := "type1.(*Font)." + m
		H := loopHeader(fn)
		if H == nil {
			c.undecided("Q-FONTBBOX", name, "loop over the glyphs", fn.Pos(), "no loop found")
			continue
		}
		wantSrc := c.method("type1", "Glyph", "BBox")
		if m == "FontBBoxPDF" {
			wantSrc = c.method("type1", "Font", "GlyphBBoxPDF")
		}
		var problems []string
		union := term("union", symV("acc"), symV("box")).String()
		for _, accEmpty := range []bool{true, false} {
			for _, zero := range []bool{true, false} {
				for _, atExit := range []bool{false, true} {
					if atExit && !zero {
						continue
					}
					cell := fmt.Sprintf("accumulator empty: %v, empty glyph box: %v", accEmpty, zero)
					ev := &ssaEval{c: c, bind: map[ssa.Value]sv{}, mem: map[string]sv{}}
					// helpers of the module (the method of an accumulator type, say) are evaluated in place
					ev.noInline = func(f *ssa.Function) bool { return !c.inModule(f) }
					// a boolean cell of a local variable is a flag like a boolean loop variable: it has a
					// constant value on entry (the zero value if nothing was stored) and stands in the
					// loop for "no box yet" or its negation, whichever the entry value says
					inLoop := false
					flagEntry := map[string]bool{}
					flagSeen := map[string]bool{}
					flagVal := func(entry bool) bool { return entry == accEmpty }
					ev.load = func(ld *ssa.UnOp, addr sv) (sv, bool) {
						if v, ok := ev.mem[addr.s]; ok {
							return v, true
						}
						if bt, ok := ld.Type().Underlying().(*types.Basic); ok && bt.Info()&types.IsBoolean != 0 && addr.k == svAddr && strings.HasPrefix(addr.s, "cell") {
							if !inLoop {
								return boolV(false), true
							}
							flagSeen[addr.s] = true
							return boolV(flagVal(flagEntry[addr.s])), true
						}
						return symV("v:" + addr.s), true
					}
					retCell := ""
					var notes []string
					// the glyphs may also be visited through a list of their names (sorted, so that the
					// order is fixed): the comparison of the list's index — a loop variable — with the
					// length of the list is the loop's condition: taken as "one more glyph" in the
					// iteration cells, as "no more glyphs" after the last one
					ev.oracle = func(op token.Token, x, y sv) (bool, bool) {
						if !inLoop || !(strings.Contains(x.String(), "v:") || strings.Contains(y.String(), "v:")) {
							return false, false
						}
						more := false
						switch op {
						case token.LSS, token.LEQ, token.NEQ:
							more = true
						case token.GTR, token.GEQ, token.EQL:
						default:
							return false, false
						}
						if atExit {
							more = !more
						}
						return more, true
					}
					ev.call = func(call ssa.CallInstruction, args []sv) (sv, bool) {
						if call == nil && len(args) > 0 && args[0].s == "next" {
							if atExit {
								return sv{k: svTuple, tup: []sv{boolV(false), sv{k: svNil}, sv{k: svNil}}}, true
							}
							return sv{k: svTuple, tup: []sv{boolV(true), symV("name"), sv{k: svAddr, s: "glyph"}}}, true
						}
						if call == nil {
							return sv{}, false
						}
						n := callName(call)
						callee := call.Common().StaticCallee()
						switch {
						case strings.HasSuffix(n, ").IsZero") && len(args) == 1:
							switch args[0].s {
							case "box":
								return boolV(zero), true
							case "acc":
								return boolV(accEmpty), true
							case union:
								return boolV(false), true
							}
							return sv{}, true
						case callee != nil && callee == wantSrc:
							return symV("box"), true
						case strings.HasSuffix(n, ".BBox") || strings.HasSuffix(n, ".GlyphBBoxPDF"):
							notes = append(notes, "the boxes that are united come from "+n+", not from "+c.fname(wantSrc))
							return symV("otherbox"), true
						case strings.HasSuffix(n, ").Extend") && len(args) == 2 && callee != nil:
							if args[0].k != svAddr || args[0].s != retCell || args[1].s != "box" {
								notes = append(notes, "Extend is applied to something else than the accumulator and the glyph's box")
								return sv{k: svNil}, true
							}
							skips, replaces := c.extendContract(callee)
							cur := ev.mem[retCell]
							curEmpty := cur.s == "acc" && accEmpty
							switch {
							case zero && skips:
							case curEmpty && replaces && !zero:
								ev.mem[retCell] = symV("box")
							case curEmpty:
								ev.mem[retCell] = term("union", symV("zero rectangle"), symV("box"))
							default:
								ev.mem[retCell] = term("union", cur, symV("box"))
							}
							return sv{k: svNil}, true
						}
						return sv{}, false
					}
					fr := &frame{vals: map[ssa.Value]sv{}}
					for i, p := range fn.Params {
						fr.vals[p] = sv{k: svAddr, s: fmt.Sprintf("param%d", i)}
					}
					at, _, _ := ev.runBlocks(fr, fn.Blocks[0], nil, func(next, from *ssa.BasicBlock) bool { return next == H })
					if at != H {
						problems = append(problems, "loop not reached: "+ev.why)
						continue
					}
					for _, r := range returns(fn) {
						if len(r.Results) == 1 {
							if ld, ok := r.Results[0].(*ssa.UnOp); ok && ld.Op == token.MUL {
								// the variable that is returned, or a field of it (an accumulator struct)
								suffix := ""
								x := ld.X
								for {
									fa, isField := x.(*ssa.FieldAddr)
									if !isField || ev.val(fr, x).k == svAddr {
										break
									}
									suffix = "." + fa.X.Type().Underlying().(*types.Pointer).Elem().Underlying().(*types.Struct).Field(fa.Field).Name() + suffix
									x = fa.X
								}
								if v := ev.val(fr, x); v.k == svAddr {
									retCell = v.s + suffix
								}
							}
						}
					}
					if retCell == "" {
						problems = append(problems, "the result is not an accumulator variable the loop updates")
						continue
					}
					var flag *ssa.Phi
					phiEntry := true
					for k, v := range ev.mem {
						if v.k == svBool && strings.HasPrefix(k, "cell") {
							flagEntry[k] = v.b
							delete(ev.mem, k)
						}
					}
					inLoop = true
					for _, ins := range H.Instrs {
						if phi, ok := ins.(*ssa.Phi); ok {
							if bt, ok := phi.Type().Underlying().(*types.Basic); ok && bt.Info()&types.IsBoolean != 0 {
								// "no box yet": true on entry, and (below) afterwards exactly when the accumulator is still empty
								entry := true
								for i, p := range H.Preds {
									if !H.Dominates(p) {
										if v := ev.val(fr, phi.Edges[i]); v.k != svBool {
											problems = append(problems, "the flag of the loop has no constant value on entry")
										} else {
											entry = v.b
										}
									}
								}
								phiEntry = entry
								fr.vals[phi] = boolV(flagVal(entry))
								flag = phi
							} else {
								fr.vals[phi] = symV("v:" + phi.Name())
							}
						}
					}
					ev.mem[retCell] = symV("acc")
					ev.effects, ev.why = nil, ""
					if atExit {
						// after the last glyph: the accumulator is returned as it is
						_, _, ret := ev.runBlocks(fr, H, nil, nil)
						if len(ret) != 1 || ret[0].s != "acc" || ev.mem[retCell].s != "acc" {
							got := "?"
							if len(ret) == 1 {
								got = ret[0].String()
							}
							problems = append(problems, fmt.Sprintf("after the loop (%s) the union of the glyph boxes is not returned as it is (returned: %s, %s)", cell, got, ev.why))
						}
						for _, ef := range ev.effects {
							if ef.what == "store" && strings.HasPrefix(ef.addr, retCell+".") {
								problems = append(problems, "after the loop a coordinate of the union is overwritten at "+c.pos(ef.ins.Pos()))
							}
						}
						problems = append(problems, notes...)
						continue
					}
					back := false
					_, from, _ := ev.runBlocks(fr, H, nil, func(next, f *ssa.BasicBlock) bool {
						if next == H {
							back = true
						}
						return next == H
					})
					if !back {
						problems = append(problems, fmt.Sprintf("%s: the iteration does not come back to the loop (%s)", cell, ev.why))
						continue
					}
					problems = append(problems, notes...)
					for _, ef := range ev.effects {
						if ef.what == "store" && strings.HasPrefix(ef.addr, retCell+".") {
							problems = append(problems, "a coordinate of the accumulator is written directly at "+c.pos(ef.ins.Pos()))
						}
					}
					want := union
					switch {
					case zero:
						want = "acc"
					case accEmpty:
						want = "box"
					}
					if got := ev.mem[retCell].String(); got != want {
						problems = append(problems, fmt.Sprintf("%s: the accumulator becomes %s, expected %s", cell, got, want))
					}
					// afterwards every flag says again whether the accumulator is (still) empty
					wantFlag := func(entry bool) bool { return entry == (accEmpty && zero) }
					if flag != nil {
						for i, p := range H.Preds {
							if p == from {
								if v := ev.val(fr, flag.Edges[i]); v.k != svBool || v.b != wantFlag(phiEntry) {
									problems = append(problems, fmt.Sprintf("%s: the flag becomes %s, but the accumulator is empty afterwards: %v", cell, v.String(), accEmpty && zero))
								}
							}
						}
					}
					for k := range flagSeen {
						v, written := ev.mem[k]
						if !written {
							v = boolV(flagVal(flagEntry[k]))
						}
						if v.k != svBool || v.b != wantFlag(flagEntry[k]) {
							problems = append(problems, fmt.Sprintf("%s: the flag %s becomes %s, but the accumulator is empty afterwards: %v", cell, k, v.String(), accEmpty && zero))
						}
					}
				}
			}
		}
		c.check(len(problems) == 0, "Q-FONTBBOX", name, "zero glyph boxes are skipped, the first box is taken, the rest is united", fn.Pos(), "decision table over (accumulator empty, glyph box empty), Extend by its own body", "font bounding box: "+joinMax(dedup(problems), 3))
	}
}

// extendContract decides on the body of an Extend method (receiver *R, argument R, R a rectangle
// with fields LLx, LLy, URx, URy and an IsZero method) what it does with zero rectangles:
// skips = a zero argument leaves the receiver untouched; replaces = a zero receiver becomes the
// argument.  For two non-zero rectangles it must take the minimum of the lower and the maximum
// of the upper coordinates, otherwise neither is granted.
func (c *Ctx) extendContract(fn *ssa.Function) (skips, replaces bool) {
	if r, ok := extendContracts[fn]; ok {
		return r[0], r[1]
	}
	res := [2]bool{}
	defer func() { extendContracts[fn] = res }()
	if len(fn.Blocks) == 0 || len(fn.Params) != 2 {
		return
	}
	type run struct {
		stores map[string]string
		cmps   []string
		ok     bool
	}
	eval := func(argZero, recvZero, cmp bool) run {
		r := run{stores: map[string]string{}}
		ev := &ssaEval{c: c, bind: map[ssa.Value]sv{}, mem: map[string]sv{"R": symV("r")}}
		ev.noInline = func(f *ssa.Function) bool { return true }
		ev.load = func(ld *ssa.UnOp, addr sv) (sv, bool) {
			// a field of a struct value that is a symbol
			if i := strings.LastIndex(addr.s, "."); i > 0 {
				if base, ok := ev.mem[addr.s[:i]]; ok && base.k == svSym {
					return symV(base.s + addr.s[i:]), true
				}
			}
			return sv{}, false
		}
		ev.call = func(call ssa.CallInstruction, args []sv) (sv, bool) {
			if call != nil && strings.HasSuffix(callName(call), ").IsZero") && len(args) == 1 {
				switch args[0].s {
				case "o":
					return boolV(argZero), true
				case "r":
					return boolV(recvZero), true
				}
				return sv{}, true
			}
			return sv{}, false
		}
		ev.oracle = func(op token.Token, x, y sv) (bool, bool) {
			r.cmps = append(r.cmps, x.String()+" "+op.String()+" "+y.String())
			return cmp, true
		}
		ev.runFunc(fn, []sv{sv{k: svAddr, s: "R"}, symV("o")})
		returned := false
		for _, ef := range ev.effects {
			switch ef.what {
			case "store":
				if ef.addr == "R" || strings.HasPrefix(ef.addr, "R.") {
					r.stores[ef.addr] = ef.args[0].String()
				}
			case "return":
				returned = true
			default:
				if ef.what != "call" {
					returned = false
				}
			}
		}
		r.ok = ev.why == "" && returned
		return r
	}
	// two non-zero rectangles: componentwise minimum / maximum
	all, none := eval(false, false, true), eval(false, false, false)
	isUnion := all.ok && none.ok && len(none.stores) == 0 && len(all.stores) == 4 && len(all.cmps) == 4
	for _, f := range []string{"LLx", "LLy", "URx", "URy"} {
		if all.stores["R."+f] != "o."+f {
			isUnion = false
		}
		op := "<"
		if strings.HasPrefix(f, "UR") {
			op = ">"
		}
		found := false
		for _, cm := range all.cmps {
			if cm == "o."+f+" "+op+" r."+f || cm == "r."+f+" "+swapOp(tokenOf(op)).String()+" o."+f {
				found = true
			}
		}
		if !found {
			isUnion = false
		}
	}
	if !isUnion {
		return
	}
	z := eval(true, false, true)
	z2 := eval(true, true, true)
	res[0] = z.ok && z2.ok && len(z.stores) == 0 && len(z2.stores) == 0
	e := eval(false, true, true)
	whole := len(e.stores) == 1 && e.stores["R"] == "o"
	fields := len(e.stores) == 4
	for _, f := range []string{"LLx", "LLy", "URx", "URy"} {
		if e.stores["R."+f] != "o."+f {
			fields = false
		}
	}
	res[1] = e.ok && (whole || fields && len(e.cmps) == 0)
	return res[0], res[1]
}

var extendContracts = map[*ssa.Function][2]bool{}

func tokenOf(op string) token.Token {
	if op == "<" {
		return token.LSS
	}
	return token.GTR
}

// widthRulesSSA: per-glyph width and the width map agree, fall-backs.
func (c *Ctx) widthRulesSSA() {
	// symbolic result of a width function for one cell (d = |FontMatrix[3]| > 1e-6)
	run := func(fn *ssa.Function, d bool, present, notdef bool) (res sv, stored sv, why string) {
		ev := &ssaEval{c: c, bind: map[ssa.Value]sv{}, mem: map[string]sv{}}
		nlookup := 0
		ev.oracle = func(o token.Token, x, y sv) (bool, bool) {
			if strings.Contains(x.String(), "math.Abs") || strings.Contains(y.String(), "math.Abs") {
				switch o {
				case token.GTR, token.GEQ:
					return d, true
				case token.LSS, token.LEQ:
					return !d, true
				}
			}
			// pointer against nil
			if y.k == svNil || x.k == svNil {
				other := x
				if x.k == svNil {
					other = y
				}
				isNil := other.s == "nilglyph"
				return isNil == (o == token.EQL), true
			}
			return false, false
		}
		ev.load = func(ld *ssa.UnOp, addr sv) (sv, bool) {
			a := addr.s
			if i := strings.Index(a, ".FontMatrix"); i >= 0 {
				return symV("M" + a[i+len(".FontMatrix"):]), true
			}
			if strings.HasSuffix(a, ".WidthX") {
				return symV("W"), true
			}
			if strings.HasSuffix(a, ".Glyphs") {
				return symV("glyphs"), true
			}
			// an element or a field of a value that was copied as a whole into a local variable
			// (`m := f.FontMatrix; m[0]`) is that element of the value
			for i := len(a) - 1; i > 0; i-- {
				if a[i] == '[' || a[i] == '.' {
					if base, ok := ev.mem[a[:i]]; ok && base.k == svSym {
						return symV(base.s + a[i:]), true
					}
				}
			}
			return sv{}, false
		}
		ev.call = func(call ssa.CallInstruction, args []sv) (sv, bool) {
			if call == nil && len(args) > 0 && args[0].s == "lookup" {
				nlookup++
				ok := present
				if len(args) == 3 && args[2].k == svString && args[2].s == ".notdef" {
					ok = notdef
				}
				g := sv{k: svAddr, s: "glyph"}
				if !ok {
					g = symV("nilglyph")
				}
				return sv{k: svTuple, tup: []sv{g, boolV(ok)}}, true
			}
			if call == nil && len(args) > 0 && args[0].s == "next" {
				return sv{k: svTuple, tup: []sv{boolV(true), symV("name"), sv{k: svAddr, s: "glyph"}}}, true
			}
			return sv{}, false
		}
		fr := &frame{vals: map[ssa.Value]sv{}}
		for i, p := range fn.Params {
			fr.vals[p] = sv{k: svAddr, s: fmt.Sprintf("param%d", i)}
		}
		H := loopHeader(fn)
		_, _, ret := ev.runBlocks(fr, fn.Blocks[0], nil, func(next, from *ssa.BasicBlock) bool {
			// one iteration of the map loop is enough
			return H != nil && next == H && from != nil && H.Dominates(from)
		})
		for _, ef := range ev.effects {
			if ef.what == "mapupdate" {
				stored = ef.args[1]
			}
		}
		if len(ret) == 1 {
			res = ret[0]
		}
		return res, stored, ev.why
	}
	g := c.method("type1", "Font", "GlyphWidthPDF")
	w := c.method("type1", "Font", "WidthsMapPDF")
	var problems []string
	var sample string
	for _, d := range []bool{true, false} {
		r1, _, why1 := run(g, d, true, true)
		_, r2, why2 := run(w, d, true, true)
		if !r1.known() || !r2.known() {
			problems = append(problems, fmt.Sprintf("width not evaluable (%s %s)", why1, why2))
			continue
		}
		sample = r1.String()
		if r1.String() != r2.String() {
			problems = append(problems, fmt.Sprintf("the per-glyph width is %s, the width map stores %s", r1, r2))
		}
		wantQ := symV("M[0]")
		if d {
			wantQ = term("-", symV("M[0]"), term("/", term("*", symV("M[1]"), symV("M[2]")), symV("M[3]")))
		}
		want := term("*", symV("W"), term("*", wantQ, sv{k: svFloat, f: 1000}))
		if r1.String() != want.String() {
			problems = append(problems, fmt.Sprintf("the width is %s, expected advance width × (horizontal scale × 1000) = %s", r1, want))
		}
	}
	c.check(len(problems) == 0, "Q-WIDTH", "type1.(*Font).GlyphWidthPDF / WidthsMapPDF", "both compute advance width × horizontal scale × 1000 by the same arithmetic", g.Pos(), sample, "PDF widths: "+joinMax(dedup(problems), 3))
	// fall-backs
	rA, _, _ := run(g, true, false, true)
	rB, _, _ := run(g, true, false, false)
	okFB := strings.Contains(rA.String(), "W") && rB.k == svFloat && rB.f == 0 || rB.k == svInt && rB.i == 0 && strings.Contains(rA.String(), "W")
	c.check(okFB, "Q-WIDTH", "type1.(*Font).GlyphWidthPDF", "unknown names fall back to .notdef, then 0", g.Pos(), fmt.Sprintf("missing → %s; missing and no .notdef → %s", rA, rB), fmt.Sprintf("GlyphWidthPDF does not fall back to the width of .notdef and then to 0 (missing glyph gives %s, without .notdef %s)", rA, rB))
	a := c.method("afm", "Metrics", "GlyphWidthPDF")
	a1, _, _ := run(a, true, true, true)
	a2, _, _ := run(a, true, false, true)
	a3, _, _ := run(a, true, false, false)
	okA := a1.String() == "W" && a2.String() == "W" && (a3.k == svFloat && a3.f == 0 || a3.k == svInt && a3.i == 0)
	c.check(okA, "Q-WIDTH", "afm.(*Metrics).GlyphWidthPDF", "glyph width, else .notdef, else 0", a.Pos(), fmt.Sprintf("%s, %s, %s", a1, a2, a3), fmt.Sprintf("afm GlyphWidthPDF gives %s for a present glyph, %s for a missing one and %s without .notdef", a1, a2, a3))
}
