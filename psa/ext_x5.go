package main

import (
	"fmt"
	"go/token"
	"go/types"
	"strings"

	"golang.org/x/tools/go/ssa"
)

// Round 5, worker D1: anchors of the interpreter that are found by what the code does, not by how it
// is written.
//
// (1) The contents of a dictionary that a function builds (the system dictionary returned by
//     makeSystemDict, the package-level CIDInit table) are read from the SSA form: the set of
//     bindings key → value the map holds when the function that builds it is done.  It makes no
//     difference whether an entry is an element of the composite literal, an assignment after it,
//     an assignment in a loop over a literal list of keys, a copy of all entries of a package-level
//     table that is only read, or an update made by a helper the map is handed to; nor whether the
//     operator is a named function, a function literal or a closure returned by a factory.

// mapBinding: one key of a map under construction and the value bound to it last.
type mapBinding struct {
	key   string
	val   ssa.Value       // the value, unboxed (the operand of MakeInterface)
	pos   token.Pos       // where it is bound
	at    ssa.Instruction // the map update (in the function where it stands)
	fresh bool            // the value expression is evaluated anew for every key (not one value for several keys)
}

type mapContents struct {
	order []string
	by    map[string]*mapBinding
	// open: updates whose key or extent could not be resolved (the contents are a lower bound only)
	open []ssa.Instruction
}

func (m *mapContents) bind(b mapBinding) {
	if _, ok := m.by[b.key]; !ok {
		m.order = append(m.order, b.key)
	}
	bb := b
	m.by[b.key] = &bb
}

func (m *mapContents) unbind(key string) {
	if _, ok := m.by[key]; !ok {
		return
	}
	delete(m.by, key)
	for i, k := range m.order {
		if k == key {
			m.order = append(m.order[:i:i], m.order[i+1:]...)
			break
		}
	}
}

// builtMap: the contents of the map value `root` when fn is done with it, collected from the
// updates of fn (and of module functions fn hands the map to) that are executed on every run:
// an update counts when its block dominates the exits of fn, or is the body entry of a range loop
// over a list whose elements are all known and whose header dominates the exits.
func (c *Ctx) builtMap(fn *ssa.Function, root ssa.Value, depth int, done ...*ssa.BasicBlock) *mapContents {
	m := &mapContents{by: map[string]*mapBinding{}}
	c.builtMapInto(m, fn, root, depth, done)
	return m
}

// done: the blocks in which the map is handed on (default: the returns of fn).
func (c *Ctx) builtMapInto(m *mapContents, fn *ssa.Function, root ssa.Value, depth int, exits []*ssa.BasicBlock) {
	if fn == nil || len(fn.Blocks) == 0 || depth < 0 {
		return
	}
	if len(exits) == 0 {
		for _, b := range fn.Blocks {
			if len(b.Instrs) > 0 {
				if _, ok := b.Instrs[len(b.Instrs)-1].(*ssa.Return); ok {
					exits = append(exits, b)
				}
			}
		}
	}
	always := func(b *ssa.BasicBlock) bool {
		for _, e := range exits {
			if b != e && !b.Dominates(e) {
				return false
			}
		}
		return true
	}
	isRoot := func(v ssa.Value) bool { return origin(v) == root }
	for _, b := range fn.Blocks {
		for _, ins := range b.Instrs {
			switch x := ins.(type) {
			case *ssa.MapUpdate:
				if !isRoot(x.Map) {
					continue
				}
				val := x.Value
				if mi, ok := val.(*ssa.MakeInterface); ok {
					val = mi.X
				}
				// a constant key
				if k, ok := constString(stripConv(x.Key)); ok {
					if always(b) {
						m.bind(mapBinding{key: k, val: val, pos: x.Pos(), at: x, fresh: true})
					} else {
						m.open = append(m.open, x)
					}
					continue
				}
				// the key runs over a list
				keys, src, header, ok := c.rangedKeys(x.Key)
				if !ok || header == nil || !always(header) || len(header.Succs) == 0 || header.Succs[0] != b {
					m.open = append(m.open, x)
					continue
				}
				if src != nil {
					// for k, v := range table { m[k] = v }: every entry of the table, if the value is
					// the element belonging to the key
					if !rangedValueOf(val, x.Key) {
						m.open = append(m.open, x)
						continue
					}
					for _, k := range src.order {
						e := *src.by[k]
						e.at = x
						m.bind(e)
					}
					if len(src.open) > 0 {
						m.open = append(m.open, x)
					}
					continue
				}
				perKey := valueMadeIn(val, b)
				for _, k := range keys {
					m.bind(mapBinding{key: k, val: val, pos: x.Pos(), at: x, fresh: perKey})
				}
			case ssa.CallInstruction:
				cc := x.Common()
				if bi, ok := cc.Value.(*ssa.Builtin); ok && bi.Name() == "delete" && len(cc.Args) == 2 && isRoot(cc.Args[0]) {
					if k, ok := constString(stripConv(cc.Args[1])); ok {
						m.unbind(k)
					} else {
						m.open = append(m.open, x)
					}
					continue
				}
				callee := cc.StaticCallee()
				if callee == nil || !c.inModule(callee) || cc.IsInvoke() {
					continue
				}
				for i, a := range cc.Args {
					if isRoot(a) && i < len(callee.Params) {
						if always(b) {
							c.builtMapInto(m, callee, callee.Params[i], depth-1, nil)
						} else {
							m.open = append(m.open, x)
						}
					}
				}
			}
		}
	}
}

// valueMadeIn: the value is produced by an instruction of block b (so a loop whose body is b makes
// a new one in every round).
func valueMadeIn(v ssa.Value, b *ssa.BasicBlock) bool {
	if ins, ok := v.(ssa.Instruction); ok {
		return ins.Block() == b
	}
	return false
}

// rangedKeys: key is the loop variable of a range loop.  Either over a slice/array whose elements
// are all constant strings (keys), or over a package-level map that is written only by the package
// initialiser (src: its contents).  header is the block that decides whether the loop goes on.
func (c *Ctx) rangedKeys(key ssa.Value) (keys []string, src *mapContents, header *ssa.BasicBlock, ok bool) {
	key = stripConv(key)
	switch x := key.(type) {
	case *ssa.Extract: // map range: next(range(M)) #1
		nx, isNx := x.Tuple.(*ssa.Next)
		if !isNx || x.Index != 1 {
			return
		}
		rg, isRg := nx.Iter.(*ssa.Range)
		if !isRg {
			return
		}
		g := globalLoad(rg.X)
		if g == nil {
			return
		}
		mc := c.globalMapContents(g)
		if mc == nil {
			return
		}
		return nil, mc, nx.Block(), true
	case *ssa.UnOp: // slice range: *(&list[i]) with i the range index
		if x.Op != token.MUL {
			return
		}
		ixa, isIx := x.X.(*ssa.IndexAddr)
		if !isIx {
			return
		}
		hdr := rangeIndexHeader(ixa.Index)
		if hdr == nil {
			return
		}
		elems, okE := c.listElements(ixa.X)
		if !okE {
			return
		}
		for _, e := range elems {
			s := c.nameConst(e)
			if e == nil || s == "" {
				return nil, nil, nil, false
			}
			keys = append(keys, s)
		}
		return keys, nil, hdr, true
	}
	return
}

// rangedValueOf: val is the element the map range delivers together with key.
func rangedValueOf(val, key ssa.Value) bool {
	kx, ok := stripConv(key).(*ssa.Extract)
	if !ok {
		return false
	}
	vx, ok := stripConv(val).(*ssa.Extract)
	return ok && vx.Tuple == kx.Tuple && vx.Index == 2
}

// rangeIndexHeader: idx is the index of a loop that visits 0, 1, 2, … up to a length: the
// incremented φ of go/ssa's range loop (φ(-1, idx) + 1) or the φ of a counting loop (φ(0, φ+1)).
// Returns the block holding the loop condition.
func rangeIndexHeader(idx ssa.Value) *ssa.BasicBlock {
	switch x := idx.(type) {
	case *ssa.BinOp:
		if x.Op != token.ADD {
			return nil
		}
		ph, ok := x.X.(*ssa.Phi)
		if k, isC := constInt(x.Y); !ok || !isC || k != 1 {
			return nil
		}
		start, back := false, false
		for _, e := range ph.Edges {
			if k, isC := constInt(e); isC && k == -1 {
				start = true
			} else if e == ssa.Value(x) {
				back = true
			} else {
				return nil
			}
		}
		if start && back && x.Block() == ph.Block() {
			return ph.Block()
		}
	case *ssa.Phi:
		start, back := false, false
		for _, e := range x.Edges {
			if k, isC := constInt(e); isC && k == 0 {
				start = true
			} else if bo, ok := e.(*ssa.BinOp); ok && bo.Op == token.ADD && bo.X == ssa.Value(x) {
				if k, isC := constInt(bo.Y); isC && k == 1 {
					back = true
				} else {
					return nil
				}
			} else {
				return nil
			}
		}
		if start && back {
			return x.Block()
		}
	}
	return nil
}

// listElements: the elements of a slice or array that is a literal in the function (slice of a new
// array all of whose elements are stored once at constant indices) or a package-level variable
// initialised with such a literal.
func (c *Ctx) listElements(v ssa.Value) ([]ssa.Value, bool) {
	v = origin(v)
	if g := globalLoad(v); g != nil {
		return globalSliceInit(g)
	}
	var al *ssa.Alloc
	switch x := v.(type) {
	case *ssa.Slice:
		if x.Low != nil || x.High != nil {
			return nil, false
		}
		al, _ = x.X.(*ssa.Alloc)
	case *ssa.Alloc:
		al = x
	}
	if al == nil {
		return nil, false
	}
	at, ok := al.Type().(*types.Pointer).Elem().Underlying().(*types.Array)
	if !ok {
		return nil, false
	}
	elems := make([]ssa.Value, at.Len())
	for _, r := range *al.Referrers() {
		switch r := r.(type) {
		case *ssa.IndexAddr:
			i, isC := constInt(r.Index)
			if !isC || i < 0 || i >= at.Len() {
				// a read at a variable index is what the loop does; a write would make the list unknown
				for _, rr := range *r.Referrers() {
					if st, isSt := rr.(*ssa.Store); isSt && st.Addr == ssa.Value(r) {
						return nil, false
					}
				}
				continue
			}
			for _, rr := range *r.Referrers() {
				if st, isSt := rr.(*ssa.Store); isSt && st.Addr == ssa.Value(r) {
					if elems[i] != nil {
						return nil, false
					}
					elems[i] = st.Val
				}
			}
		case *ssa.Slice, *ssa.DebugRef:
		default:
			return nil, false
		}
	}
	for _, e := range elems {
		if e == nil {
			return nil, false
		}
	}
	return elems, true
}

// globalMapContents: the contents the package initialiser gives a package-level map, provided no
// other function of the module updates the map, deletes from it or assigns the variable.
func (c *Ctx) globalMapContents(g *ssa.Global) *mapContents {
	if c.globalMaps == nil {
		c.globalMaps = map[*ssa.Global]*mapContents{}
	}
	if mc, ok := c.globalMaps[g]; ok {
		return mc
	}
	c.globalMaps[g] = nil
	if _, ok := g.Type().(*types.Pointer).Elem().Underlying().(*types.Map); !ok {
		return nil
	}
	init := g.Pkg.Func("init")
	if init == nil {
		return nil
	}
	var root ssa.Value
	var stored *ssa.BasicBlock
	n := 0
	for _, fn := range c.modFuncs {
		if fn.Pkg != g.Pkg {
			// an unexported variable is out of reach elsewhere; an exported one is not a table
			continue
		}
		fn := fn
		eachInstr(fn, func(ins ssa.Instruction) {
			switch x := ins.(type) {
			case *ssa.Store:
				if x.Addr == ssa.Value(g) {
					n++
					if fn == init {
						root = origin(x.Val)
						stored = x.Block()
					} else {
						n += 2
					}
				}
			case *ssa.MapUpdate:
				if fn != init && globalLoad(x.Map) == g {
					n += 2
				}
			case ssa.CallInstruction:
				cc := x.Common()
				if bi, ok := cc.Value.(*ssa.Builtin); ok && fn != init && len(cc.Args) > 0 && globalLoad(cc.Args[0]) == g {
					if bi.Name() == "delete" || bi.Name() == "clear" {
						n += 2
					}
				}
			}
		})
	}
	if n != 1 || root == nil || g.Object() == nil || g.Object().Exported() {
		return nil
	}
	// the initialiser runs once; the table is complete where it is stored in the variable
	mc := c.builtMap(init, root, 1, stored)
	c.globalMaps[g] = mc
	return mc
}

// operatorOf: the function a registry value stands for: a function, a function literal, a closure,
// or the closure a factory function of the module returns (then binds gives, per free variable of
// the closure, the value it has for this call of the factory, nil where unknown).
func (c *Ctx) operatorOf(v ssa.Value) (fn *ssa.Function, binds []ssa.Value) {
	v = stripConv(v)
	switch x := v.(type) {
	case *ssa.Function:
		return x, nil
	case *ssa.MakeClosure:
		f, _ := x.Fn.(*ssa.Function)
		if f == nil {
			return nil, nil
		}
		for _, b := range x.Bindings {
			binds = append(binds, cellValue(b))
		}
		return f, binds
	case *ssa.Call:
		callee := x.Call.StaticCallee()
		if callee == nil || !c.inModule(callee) || len(callee.Blocks) == 0 {
			return nil, nil
		}
		// every return of the factory yields a closure over the same function literal
		var mcl *ssa.MakeClosure
		var plain *ssa.Function
		okAll := true
		eachInstr(callee, func(ins ssa.Instruction) {
			ret, ok := ins.(*ssa.Return)
			if !ok {
				return
			}
			if len(ret.Results) != 1 {
				okAll = false
				return
			}
			switch r := stripConv(ret.Results[0]).(type) {
			case *ssa.MakeClosure:
				if mcl != nil && mcl.Fn != r.Fn || plain != nil {
					okAll = false
				}
				mcl = r
			case *ssa.Function:
				if plain != nil && plain != r || mcl != nil {
					okAll = false
				}
				plain = r
			default:
				okAll = false
			}
		})
		if !okAll {
			return nil, nil
		}
		if plain != nil {
			return plain, nil
		}
		if mcl == nil {
			return nil, nil
		}
		f, _ := mcl.Fn.(*ssa.Function)
		if f == nil {
			return nil, nil
		}
		for _, b := range mcl.Bindings {
			bv := cellValue(b)
			if p, ok := bv.(*ssa.Parameter); ok {
				bv = nil
				for i, q := range callee.Params {
					if q == p && i < len(x.Call.Args) {
						bv = x.Call.Args[i]
					}
				}
			} else if _, isC := bv.(*ssa.Const); !isC {
				bv = nil
			}
			binds = append(binds, bv)
		}
		return f, binds
	}
	return nil, nil
}

// cellValue: what a closure binding holds: the value itself, or the only value ever stored into
// the captured cell.
func cellValue(b ssa.Value) ssa.Value {
	if al, ok := b.(*ssa.Alloc); ok {
		if s := singleStore(al); s != nil {
			return origin(s)
		}
		return nil
	}
	return origin(b)
}

// (2) A function value gives no access to memory that can be modified when it is a top-level
//
//	function, or a closure all of whose captured variables hold values without references
//	(numbers, strings), are assigned once before the closure is made and are only read by it,
//	or the result of a module function every return of which yields such a value (a factory).
func immutableFuncValue(v ssa.Value, depth int) bool {
	if depth > 3 {
		return false
	}
	switch x := v.(type) {
	case *ssa.Function:
		return x.Parent() == nil || len(x.FreeVars) == 0
	case *ssa.ChangeType:
		return immutableFuncValue(x.X, depth)
	case *ssa.MakeClosure:
		for _, b := range x.Bindings {
			al, ok := b.(*ssa.Alloc)
			if !ok {
				return false
			}
			et := al.Type().(*types.Pointer).Elem()
			if isPointerLike(et) || isAggregateWithRefs(et) || singleStore(al) == nil {
				return false
			}
		}
		return true
	case *ssa.Call:
		if _, isFunc := x.Type().Underlying().(*types.Signature); !isFunc {
			return false
		}
		callee := x.Call.StaticCallee()
		if callee == nil || len(callee.Blocks) == 0 || callee.Signature.Results().Len() != 1 {
			return false
		}
		n := 0
		for _, r := range returns(callee) {
			if len(r.Results) != 1 || !immutableFuncValue(r.Results[0], depth+1) {
				return false
			}
			n++
		}
		return n > 0
	}
	return false
}

// freshPartOf: v is the address of a struct that an object allocated in this function holds by
// value (&new(T).part, possibly nested).
func freshPartOf(v ssa.Value) bool {
	for i := 0; i < 3; i++ {
		fa, ok := v.(*ssa.FieldAddr)
		if !ok {
			return false
		}
		if _, isStruct := fa.Type().(*types.Pointer).Elem().Underlying().(*types.Struct); !isStruct {
			return false
		}
		switch x := origin(fa.X).(type) {
		case *ssa.Alloc:
			return true
		default:
			v = x
		}
	}
	return false
}

// consumingFn: sc is one of the scanner's byte-consuming methods (consumingCalls) under the name and
// receiver it has in the analysed tree (rename.go: renamed, or moved to a part of the scanner).
func (c *Ctx) consumingFn(sc *ssa.Function) bool {
	if c.consumers == nil {
		c.consumers = map[*ssa.Function]bool{}
		const pre = "(*" + modPath + ".scanner)."
		for n := range consumingCalls {
			if strings.HasPrefix(n, pre) {
				if f := c.methodOpt("postscript", "scanner", strings.TrimPrefix(n, pre)); f != nil {
					c.consumers[f] = true
				}
			}
		}
	}
	if o := sc.Origin(); o != nil {
		sc = o
	}
	return c.consumers[sc]
}

// (3) A field whose type is a named type of the package with methods (`openBraces braceStack` for
//     `procStart []int`) is read and written through those methods.  The helpers below let the
//     rules that ask "is this the length of the field", "does this instruction write the field",
//     "does it make the field longer" see through such a method: the method is a function of the
//     module that is handed the field (its value, or its address) and does the operation on its
//     parameter.

// lenAccessorOfField: call hands the field typ.name (loaded, or its address) to a function of the
// analysed program whose every return yields the length of that parameter.
func lenAccessorOfField(call *ssa.Call, typ *types.TypeName, name string) bool {
	g := call.Call.StaticCallee()
	if g == nil || len(g.Blocks) == 0 || g.Signature.Results().Len() != 1 || call.Call.IsInvoke() {
		return false
	}
	idx := -1
	for i, a := range call.Call.Args {
		if isFieldLoad(a, typ, name) || isFieldAddr(origin(a), typ, name) {
			idx = i
		}
	}
	if idx < 0 || idx >= len(g.Params) {
		return false
	}
	p := g.Params[idx]
	n := 0
	for _, r := range returns(g) {
		if len(r.Results) != 1 {
			return false
		}
		lc, ok := origin(r.Results[0]).(*ssa.Call)
		if !ok {
			return false
		}
		if b, isB := lc.Call.Value.(*ssa.Builtin); !isB || b.Name() != "len" {
			return false
		}
		x := origin(lc.Call.Args[0])
		if u, isLoad := x.(*ssa.UnOp); isLoad && u.Op == token.MUL {
			x = origin(u.X)
		}
		if x != ssa.Value(p) {
			return false
		}
		n++
	}
	return n > 0
}

// fieldWriteVia: ins is a call that hands the address of field typ.name to a function of the
// analysed program which stores through that parameter (a method with pointer receiver of the
// field's type).  Returns the stores.
func fieldWriteVia(ins ssa.Instruction, typ *types.TypeName, name string) []*ssa.Store {
	call, ok := ins.(ssa.CallInstruction)
	if !ok {
		return nil
	}
	cc := call.Common()
	g := cc.StaticCallee()
	if g == nil || len(g.Blocks) == 0 || cc.IsInvoke() {
		return nil
	}
	var out []*ssa.Store
	for i, a := range cc.Args {
		if i >= len(g.Params) || !isFieldAddr(origin(a), typ, name) {
			continue
		}
		p := g.Params[i]
		eachInstr(g, func(x ssa.Instruction) {
			if st, ok := x.(*ssa.Store); ok && origin(st.Addr) == ssa.Value(p) {
				out = append(out, st)
			}
		})
	}
	return out
}

// writesField: ins stores to field typ.name, directly or through a method of the field's type.
func writesField(ins ssa.Instruction, typ *types.TypeName, name string) bool {
	if st, ok := ins.(*ssa.Store); ok && isFieldAddr(st.Addr, typ, name) {
		return true
	}
	return len(fieldWriteVia(ins, typ, name)) > 0
}

// growsField: ins stores the result of a call (append) to field typ.name, directly or through a
// method of the field's type.
func growsField(ins ssa.Instruction, typ *types.TypeName, name string) bool {
	if st, ok := ins.(*ssa.Store); ok && isFieldAddr(st.Addr, typ, name) {
		_, isCall := st.Val.(*ssa.Call)
		return isCall
	}
	for _, st := range fieldWriteVia(ins, typ, name) {
		if _, isCall := st.Val.(*ssa.Call); isCall {
			return true
		}
	}
	return false
}

// stackGrowthVia: rule L5-GROWTH for a stack field that grows inside a method of its own named
// type (`intp.openBraces.push(x)` with `*b = append(*b, x)` in push): the call that hands the
// field's address to that method is the place of growth and must be dominated by a constant bound
// on the field's length, like a direct `field = append(field, x)`.
func (c *Ctx) stackGrowthVia(ia *interpAnchors, skip *ssa.Function) {
	fields := []string{"DictStack", "errors"}
	if n, ok := c.fldOpt("intp.procStart"); ok {
		fields = append(fields, n)
	}
	for _, f := range c.modFuncs {
		if f == skip {
			continue
		}
		f := f
		eachInstr(f, func(ins ssa.Instruction) {
			if _, isStore := ins.(*ssa.Store); isStore {
				return
			}
			for _, field := range fields {
				field := field
				for _, st := range fieldWriteVia(ins, ia.T, field) {
					call, isCall := st.Val.(*ssa.Call)
					if !isCall {
						continue // re-slice: shrinking or restoring
					}
					if b, ok := call.Common().Value.(*ssa.Builtin); !ok || b.Name() != "append" {
						c.fail("L5-GROWTH", c.fname(f), "store to "+field, ins.Pos(), "Interpreter."+field+" is assigned the result of a call")
						continue
					}
					k, bounded := upperBoundConst(domConds(ins.Block()), func(v ssa.Value) bool { return lenOfField(v, ia.T, field) })
					if bounded && k <= 10000 {
						c.ok("L5-GROWTH", c.fname(f), "append to "+field, ins.Pos(), fmt.Sprintf("dominated by len(%s) <= %d", field, k), "")
						continue
					}
					c.fail("L5-GROWTH", c.fname(f), "append to "+field, ins.Pos(), "Interpreter."+field+" grows here (in "+c.fname(st.Parent())+") without a dominating constant bound on its length: runaway growth is not cut off")
				}
			}
		})
	}
}
