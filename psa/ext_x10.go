package main

import (
	"go/ast"
	"go/token"
	"go/types"
	"sort"
	"strings"

	"golang.org/x/tools/go/packages"
	"golang.org/x/tools/go/ssa"
	"golang.org/x/tools/go/types/typeutil"
)

// Round 5 (worker H): queries, determinism, names, lexer, CMap sort, shared storage.

// ---- C17 DET-COLLECT: element types that are type parameters

// orderedTypeSetX10: every type in the type set of the constraint has an ordered basic underlying
// type.  A constraint interface is the intersection of its embedded elements, so one embedded
// element all of whose terms are ordered suffices (cmp.Ordered, constraints.Ordered, ~int | ~string).
func orderedTypeSetX10(t types.Type, depth int) bool {
	if depth > 4 {
		return false
	}
	switch u := t.(type) {
	case *types.Union:
		if u.Len() == 0 {
			return false
		}
		for i := 0; i < u.Len(); i++ {
			if !orderedTypeSetX10(u.Term(i).Type(), depth+1) {
				return false
			}
		}
		return true
	case *types.TypeParam:
		return orderedTypeSetX10(u.Constraint(), depth+1)
	}
	switch u := t.Underlying().(type) {
	case *types.Basic:
		return u.Info()&types.IsOrdered != 0
	case *types.Interface:
		for i := 0; i < u.NumEmbeddeds(); i++ {
			if orderedTypeSetX10(u.EmbeddedType(i), depth+1) {
				return true
			}
		}
	}
	return false
}

// ---- C17 DET-COLLECT: the unordered slice handed to a declared function

// declOf finds the declaration (with body) of a declared function or method of a loaded package.
func (d *detAnalyzer) declOf(f *types.Func) (*ast.FuncDecl, *packages.Package) {
	if f == nil || f.Pkg() == nil {
		return nil, nil
	}
	f = f.Origin()
	var cands []*packages.Package
	if f.Pkg().Path() == d.pkg.PkgPath {
		cands = append(cands, d.pkg)
	} else if p := d.c.pkgs[f.Pkg().Path()]; p != nil && !d.control {
		cands = append(cands, p)
	}
	for _, p := range cands {
		for _, file := range p.Syntax {
			for _, decl := range file.Decls {
				if fd, ok := decl.(*ast.FuncDecl); ok && fd.Body != nil && p.TypesInfo.Defs[fd.Name] == f {
					return fd, p
				}
			}
		}
	}
	return nil, nil
}

// paramOrderFree: whatever the declared function does with its k-th parameter (a slice) does not
// depend on the order of the elements: every statement of the body that mentions the parameter is
// an order-free use by the standard of the caller's statement list (length, a loop whose body
// commutes, being handed on to a function of the same kind), and no slice is filled from it.
func (d *detAnalyzer) paramOrderFree(fd *ast.FuncDecl, p *packages.Package, k int, depth int) (bool, string) {
	var param types.Object
	n := 0
	found := false
	for _, field := range fd.Type.Params.List {
		if len(field.Names) == 0 {
			if n == k {
				return true, "" // unnamed: never used
			}
			n++
			continue
		}
		for _, name := range field.Names {
			if n == k {
				param, found = p.TypesInfo.Defs[name], true
				if _, variadic := field.Type.(*ast.Ellipsis); variadic {
					return false, "the slice becomes a variadic argument"
				}
			}
			n++
		}
	}
	if !found {
		return false, "the parameter that receives the slice was not found"
	}
	if param == nil || param.Name() == "_" {
		return true, ""
	}
	d2 := &detAnalyzer{c: d.c, pkg: p, info: p.TypesInfo, control: d.control, ssa: d.ssa, labelOf: map[ast.Stmt]string{},
		emit: func(rule, fn, construct string, pos token.Pos, ok bool, tactic, detail string) {}}
	d2.inCall = depth
	for _, st := range fd.Body.List {
		if !d2.mentions(st, param) {
			continue
		}
		d2.derived = nil
		if ok, why := d2.orderFreeUse(st, param); !ok {
			return false, "in " + fd.Name.Name + ": " + why
		}
		for _, t := range d2.derived {
			if t != param {
				return false, "in " + fd.Name.Name + ": the slice `" + t.Name() + "` is filled in the order of the elements"
			}
		}
	}
	return true, ""
}

// onlyOrderFreeArgs: every mention of obj inside n is the argument of len/cap or is handed, as it
// is, to a declared function that uses the parameter in an order-free way (paramOrderFree).
func (d *detAnalyzer) onlyOrderFreeArgs(n ast.Node, obj types.Object) (bool, string) {
	if d.inCall >= 3 {
		return false, "call depth"
	}
	okAll, why := true, ""
	allowed := map[*ast.Ident]bool{}
	ast.Inspect(n, func(m ast.Node) bool {
		if !okAll {
			return false
		}
		switch m := m.(type) {
		case *ast.CallExpr:
			if (d.isBuiltin(m, "len") || d.isBuiltin(m, "cap")) && len(m.Args) == 1 {
				if id, ok := unparen(m.Args[0]).(*ast.Ident); ok && d.info.ObjectOf(id) == obj {
					allowed[id] = true
				}
				return true
			}
			for k, a := range m.Args {
				id, ok := unparen(a).(*ast.Ident)
				if !ok || d.info.ObjectOf(id) != obj {
					continue
				}
				f, _ := typeutil.Callee(d.info, m).(*types.Func)
				if d.symmetricLibCallY2(f, m, k) {
					allowed[id] = true // a library function of the multiset of the elements (ext_y2.go)
					continue
				}
				fd, p := d.declOf(f)
				if fd == nil || m.Ellipsis.IsValid() {
					okAll, why = false, "the slice is passed on or inspected"
					return false
				}
				if ok, w := d.paramOrderFree(fd, p, k, d.inCall+1); !ok {
					okAll, why = false, "the slice is passed to "+f.Name()+", which depends on its order ("+w+")"
					return false
				}
				allowed[id] = true
			}
		case *ast.Ident:
			if d.info.ObjectOf(m) == obj && !allowed[m] {
				okAll, why = false, "the slice is used"
			}
		}
		return true
	})
	return okAll, why
}

// ---- C17 DET-MAPRANGE: an accumulator with a method instead of a flag, an if/else and Extend

// orderFreeReducerX10 decides on the SSA form of fn (ssaeval.go) whether repeated calls
// fn(…, &A, …, x, …) with the same accumulator A (parameter p) commute.  fn is evaluated once per
// cell of the table (value of a boolean cell of A) × (outcomes of the effect-free predicates it
// applies to the other arguments).  In every cell it must do one of three things and nothing else:
//
//	skip    nothing is written
//	init    one cell D of A receives the argument x, one boolean cell F of A receives a constant
//	reduce  one whitelisted min/max reducer is applied to D and x
//
// and for every outcome of the predicates the pair (F as on entry, F as set by init) must be
// (skip, skip) or (init, reduce), without F: skip or reduce.  Then A holds the union of the
// arguments that are not skipped, whatever their order: the first one is taken, the others are
// united with it, and the union of two rectangles is symmetric.
func (c *Ctx) orderFreeReducerX10(fn *ssa.Function, p int) (bool, string) {
	if fn == nil || len(fn.Blocks) == 0 || p >= len(fn.Params) || len(fn.Params) > 9 {
		return false, "no body"
	}
	type outcome struct {
		kind    string // skip | init | reduce | other
		d, x, f string
		fval    bool
		why     string
	}
	inA := func(s string) bool { return s == "A" || strings.HasPrefix(s, "A.") || strings.HasPrefix(s, "A[") }
	isArg := func(v sv) bool {
		return v.k == svSym && len(v.s) == 2 && v.s[0] == 'x' && v.s[1] >= '0' && v.s[1] <= '9'
	}
	var keys []string
	run := func(assign map[string]bool) (outcome, bool) {
		grew := false
		decide := func(key string) (bool, bool) {
			if v, ok := assign[key]; ok {
				return v, true
			}
			for _, k := range keys {
				if k == key {
					return false, false
				}
			}
			keys = append(keys, key)
			grew = true
			return false, false
		}
		ev := &ssaEval{c: c, bind: map[ssa.Value]sv{}, mem: map[string]sv{}}
		ev.noInline = func(f *ssa.Function) bool { return !c.inModule(f) }
		var reduces [][2]string
		bad := ""
		ev.load = func(ld *ssa.UnOp, addr sv) (sv, bool) {
			if addr.k != svAddr || !inA(addr.s) {
				return sv{}, false
			}
			if bt, ok := ld.Type().Underlying().(*types.Basic); ok && bt.Info()&types.IsBoolean != 0 {
				if v, ok := decide("flag " + addr.s); ok {
					return boolV(v), true
				}
				return sv{}, true
			}
			return symV("v:" + addr.s), true
		}
		ev.call = func(call ssa.CallInstruction, args []sv) (sv, bool) {
			if call == nil {
				return sv{}, false
			}
			callee := call.Common().StaticCallee()
			if callee == nil {
				return sv{}, false
			}
			if o, ok := callee.Object().(*types.Func); ok && reducers[o.FullName()] && len(args) == 2 {
				if args[0].k == svAddr && inA(args[0].s) && isArg(args[1]) {
					reduces = append(reduces, [2]string{args[0].s, args[1].s})
				} else {
					bad = "the reducer " + o.Name() + " is applied to something else than the accumulator and an argument"
				}
				return sv{k: svNil}, true
			}
			if c.inModule(callee) && len(callee.Blocks) > 0 {
				return sv{}, false // evaluated in place
			}
			// an effect-free predicate of the other arguments
			if bt, ok := call.Value().Type().Underlying().(*types.Basic); ok && bt.Info()&types.IsBoolean != 0 && c.effects().of(callee).pure() {
				t := term(callName(call), args...)
				for _, a := range args {
					if a.k == svAddr || strings.Contains(a.String(), "v:A") {
						return sv{}, false
					}
				}
				if t.known() {
					if v, ok := decide("pred " + t.s); ok {
						return boolV(v), true
					}
					return sv{}, true
				}
			}
			return sv{}, false
		}
		args := make([]sv, len(fn.Params))
		for i := range args {
			args[i] = symV("x" + string(rune('0'+i)))
		}
		args[p] = sv{k: svAddr, s: "A"}
		ev.runFunc(fn, args)
		if grew {
			return outcome{}, true
		}
		o := outcome{kind: "other"}
		if bad != "" {
			o.why = bad
			return o, false
		}
		returned := false
		var stores [][2]sv
		for _, ef := range ev.effects {
			switch ef.what {
			case "return":
				returned = true
			case "store":
				switch {
				case inA(ef.addr):
					stores = append(stores, [2]sv{{k: svAddr, s: ef.addr}, ef.args[0]})
				case strings.HasPrefix(ef.addr, "cell"):
					// a local variable of the evaluated functions
				default:
					o.why = "it writes " + ef.addr
					return o, false
				}
			default:
				o.why = "it has the effect `" + ef.what + "` at " + c.pos(ef.ins.Pos())
				return o, false
			}
		}
		if ev.why != "" || !returned {
			o.why = "not evaluable: " + ev.why
			return o, false
		}
		switch {
		case len(stores) == 0 && len(reduces) == 0:
			o.kind = "skip"
		case len(stores) == 0 && len(reduces) == 1:
			o.kind, o.d, o.x = "reduce", reduces[0][0], reduces[0][1]
		case len(stores) == 2 && len(reduces) == 0:
			for _, st := range stores {
				switch {
				case st[1].k == svBool && o.f == "":
					o.f, o.fval = st[0].s, st[1].b
				case isArg(st[1]) && o.d == "":
					o.d, o.x = st[0].s, st[1].s
				}
			}
			if o.f != "" && o.d != "" {
				o.kind = "init"
			} else {
				o.why = "it stores something else than an argument and a constant flag into the accumulator"
			}
		default:
			o.why = "it updates the accumulator in a way that is neither `take the first` nor a min/max reducer"
		}
		return o, false
	}
	var table map[string]outcome
	for round := 0; ; round++ {
		if len(keys) > 5 || round > 12 {
			return false, "too many conditions to tabulate"
		}
		table = map[string]outcome{}
		again := false
		for bits := 0; bits < 1<<len(keys) && !again; bits++ {
			assign := map[string]bool{}
			id := ""
			for i, k := range keys {
				assign[k] = bits&(1<<i) != 0
				if assign[k] {
					id += "1"
				} else {
					id += "0"
				}
			}
			o, grew := run(assign)
			if grew {
				again = true
				break
			}
			if o.kind == "other" {
				return false, o.why
			}
			table[id] = o
		}
		if !again {
			break
		}
	}
	// the flag: at most one boolean cell of the accumulator is read
	flagIdx, flagCell := -1, ""
	for i, k := range keys {
		if strings.HasPrefix(k, "flag ") {
			if flagIdx >= 0 {
				return false, "two boolean cells of the accumulator decide"
			}
			flagIdx, flagCell = i, strings.TrimPrefix(k, "flag ")
		}
	}
	d, x, nReduce := "", "", 0
	same := func(o outcome) bool {
		if d == "" {
			d, x = o.d, o.x
		}
		return d == o.d && x == o.x
	}
	for id, o := range table {
		if flagIdx < 0 {
			if o.kind == "init" || (o.kind == "reduce" && !same(o)) {
				return false, "the accumulator is overwritten"
			}
			if o.kind == "reduce" {
				nReduce++
			}
			continue
		}
		if id[flagIdx] == '1' {
			continue // visited from its partner
		}
		other := table[id[:flagIdx]+"1"+id[flagIdx+1:]]
		o0, o1 := o, other // flag false, flag true
		switch {
		case o0.kind == "skip" && o1.kind == "skip":
		case o0.kind == "init" && o1.kind == "reduce" && o0.f == flagCell && o0.fval && same(o0) && same(o1):
			nReduce++
		case o1.kind == "init" && o0.kind == "reduce" && o1.f == flagCell && !o1.fval && same(o0) && same(o1):
			nReduce++
		default:
			return false, "with the flag unset it does `" + o0.kind + "`, with the flag set `" + o1.kind + "`: not `take the first, unite the rest`"
		}
	}
	if nReduce == 0 {
		return false, "no reducer is applied"
	}
	sort.Strings(keys)
	return true, "take the first / min-max reducer on " + strings.TrimPrefix(d, "A") + ", decided on the body of " + fn.Name() + " over " + strings.Join(keys, ", ")
}

// ---- evaluator: slices of slices of an array cell; package-level tables of constants

// composeSliceX10: x slices the value a, itself a slice of an array cell with known bounds.
func (e *ssaEval) composeSliceX10(fr *frame, x *ssa.Slice, a sv) (sv, bool) {
	if a.op != "slice" || len(a.args) != 3 || a.args[0].k != svAddr || x.Max != nil {
		return sv{}, false
	}
	free := func(v sv) bool { return v.k == svSym && v.s == "_" }
	lo1, hi1 := a.args[1], a.args[2]
	off := int64(0)
	switch {
	case lo1.k == svInt:
		off = lo1.i
	case !free(lo1):
		return sv{}, false
	}
	lo, hi := lo1, hi1
	if x.Low != nil {
		l := e.val(fr, x.Low)
		if l.k != svInt {
			return sv{}, false
		}
		lo = intV(off + l.i)
	}
	if x.High != nil {
		h := e.val(fr, x.High)
		if h.k != svInt {
			return sv{}, false
		}
		hi = intV(off + h.i)
	}
	return term("slice", a.args[0], lo, hi), true
}

var constGlobalsCacheX10 = map[*ssa.Package]map[string]sv{}

// constGlobalsX10: the memory cells of the package-level variables of pkg that are tables of
// constants: of a basic type or an array of a basic type, every store lies in the package
// initialiser and stores a constant (at a constant index), and everywhere else the variable is
// only read — loaded, indexed for a load, sliced into values that are themselves only indexed for
// loads, measured or sliced again.  Such a variable holds its initial value at all times.
func (c *Ctx) constGlobalsX10(pkg *ssa.Package) map[string]sv {
	if pkg == nil {
		return nil
	}
	if m, ok := constGlobalsCacheX10[pkg]; ok {
		return m
	}
	basic := func(t types.Type) bool { _, ok := t.Underlying().(*types.Basic); return ok }
	cand := map[*ssa.Global]map[string]sv{}
	for _, m := range pkg.Members {
		g, ok := m.(*ssa.Global)
		if !ok {
			continue
		}
		t := g.Type().(*types.Pointer).Elem()
		if at, isArr := t.Underlying().(*types.Array); isArr && basic(at.Elem()) && at.Len() <= 256 || basic(t) {
			cand[g] = map[string]sv{}
		}
	}
	ev := &ssaEval{c: c, bind: map[ssa.Value]sv{}, mem: map[string]sv{}}
	fr := &frame{vals: map[ssa.Value]sv{}}
	var readOnlyAddr func(v ssa.Value) bool
	readOnlyAddr = func(v ssa.Value) bool {
		for _, r := range *v.Referrers() {
			switch r := r.(type) {
			case *ssa.DebugRef:
			case *ssa.UnOp:
				if r.Op != token.MUL {
					return false
				}
			default:
				return false
			}
		}
		return true
	}
	var readOnlySlice func(v ssa.Value, seen map[ssa.Value]bool) bool
	readOnlySlice = func(v ssa.Value, seen map[ssa.Value]bool) bool {
		if seen[v] {
			return true
		}
		seen[v] = true
		for _, r := range *v.Referrers() {
			switch r := r.(type) {
			case *ssa.DebugRef:
			case *ssa.IndexAddr:
				if r.X != v || !readOnlyAddr(r) {
					return false
				}
			case *ssa.Slice:
				if r.X != v || !readOnlySlice(r, seen) {
					return false
				}
			case *ssa.Phi:
				if !readOnlySlice(r, seen) {
					return false
				}
			case *ssa.Call:
				b, isB := r.Call.Value.(*ssa.Builtin)
				if !isB || (b.Name() != "len" && b.Name() != "cap") {
					return false
				}
			default:
				return false
			}
		}
		return true
	}
	for _, fn := range c.modFuncs {
		inInit := isInitFunc(fn) && fn.Pkg == pkg
		for _, b := range fn.Blocks {
			for _, ins := range b.Instrs {
				for _, op := range ins.Operands(nil) {
					g, ok := (*op).(*ssa.Global)
					if !ok {
						continue
					}
					cells, isCand := cand[g]
					if !isCand {
						continue
					}
					okUse := false
					switch x := ins.(type) {
					case *ssa.DebugRef:
						okUse = true
					case *ssa.UnOp:
						okUse = x.Op == token.MUL
					case *ssa.Store:
						if k, isConst := x.Val.(*ssa.Const); inInit && x.Addr == g && isConst {
							if v := ev.val(fr, k); v.isConst() && v.k != svNil {
								cells["global:"+g.String()] = v
								okUse = true
							}
						}
					case *ssa.IndexAddr:
						if inInit {
							idx, isConst := x.Index.(*ssa.Const)
							okUse = isConst && x.X == g
							for _, r := range *x.Referrers() {
								st, isStore := r.(*ssa.Store)
								if _, isDbg := r.(*ssa.DebugRef); isDbg {
									continue
								}
								if !okUse || !isStore || st.Addr != x {
									okUse = false
									break
								}
								k, isK := st.Val.(*ssa.Const)
								if !isK {
									okUse = false
									break
								}
								v, i := ev.val(fr, k), ev.val(fr, idx)
								if !v.isConst() || v.k == svNil || i.k != svInt {
									okUse = false
									break
								}
								key := "global:" + g.String() + "[" + i.String() + "]"
								if _, dup := cells[key]; dup {
									okUse = false
									break
								}
								cells[key] = v
							}
						} else {
							okUse = x.X == g && readOnlyAddr(x)
						}
					case *ssa.Slice:
						okUse = !inInit && x.X == g && readOnlySlice(x, map[ssa.Value]bool{})
					}
					if !okUse {
						delete(cand, g)
					}
				}
			}
		}
	}
	out := map[string]sv{}
	for g, cells := range cand {
		t := g.Type().(*types.Pointer).Elem()
		if at, isArr := t.Underlying().(*types.Array); isArr {
			// elements the initialiser did not store hold the zero value
			z, ok := aZeroSV(at.Elem())
			if !ok {
				continue
			}
			for i := int64(0); i < at.Len(); i++ {
				key := "global:" + g.String() + "[" + intV(i).String() + "]"
				if _, have := cells[key]; !have {
					cells[key] = z
				}
			}
		} else if _, have := cells["global:"+g.String()]; !have {
			continue
		}
		for k, v := range cells {
			out[k] = v
		}
	}
	constGlobalsCacheX10[pkg] = out
	return out
}

// storeZeroStructX10 (concrete mode): `v = T{}` for a struct type T stores the zero value into
// every field cell of v — what the fields held before is gone (the evaluator kept the old field
// values, so a group counter that is reset by assigning the zero struct kept counting).
func (e *ssaEval) storeZeroStructX10(st *ssa.Store, a sv) bool {
	k, isConst := st.Val.(*ssa.Const)
	if !isConst || k.Value != nil {
		return false
	}
	stt, isStruct := k.Type().Underlying().(*types.Struct)
	if !isStruct || strings.HasPrefix(a.s, "list:") {
		return false
	}
	var zero func(addr string, t *types.Struct, depth int) bool
	var cells []string
	zero = func(addr string, t *types.Struct, depth int) bool {
		if depth > 4 {
			return false
		}
		for i := 0; i < t.NumFields(); i++ {
			f := t.Field(i)
			key := addr + "." + f.Name()
			switch u := f.Type().Underlying().(type) {
			case *types.Struct:
				if !zero(key, u, depth+1) {
					return false
				}
			case *types.Array:
				z, ok := aZeroSV(u.Elem())
				if !ok || u.Len() > 64 {
					return false
				}
				for j := int64(0); j < u.Len(); j++ {
					cells = append(cells, key+"["+intV(j).String()+"]")
					e.mem[cells[len(cells)-1]] = z
				}
			default:
				z, ok := aZeroSV(f.Type())
				if !ok {
					z = sv{k: svNil}
				}
				cells = append(cells, key)
				e.mem[key] = z
			}
		}
		return true
	}
	if e.mem == nil {
		e.mem = map[string]sv{}
	}
	if !zero(a.s, stt, 0) {
		return false
	}
	delete(e.mem, a.s)
	e.effects = append(e.effects, ssaEffect{ins: st, what: "store", args: []sv{{k: svNil}}, addr: a.s})
	return true
}

// ---- C18 ISO-SHARED: function values made by a factory

// frozenFuncValueX10: the function value x gives no access to memory that can be modified.  A
// top-level function does not; a closure does not either if every variable it captures (a) holds
// a value without references (string, number) or again such a function value, (b) is assigned
// exactly once, before the closure is made, and (c) is only read by every closure that captures
// it.  The result of a call of a function whose every return value is such a function value
// (`beginChars("begincidchar")` returning a closure over the operator name) is one as well.
func frozenFuncValueX10(x ssa.Value, depth int) bool {
	if depth > 4 {
		return false
	}
	if _, isFunc := x.Type().Underlying().(*types.Signature); !isFunc {
		return false
	}
	switch x := x.(type) {
	case *ssa.Function:
		return true
	case *ssa.ChangeType:
		return frozenFuncValueX10(x.X, depth)
	case *ssa.Phi:
		for _, e := range x.Edges {
			if !frozenFuncValueX10(e, depth+1) {
				return false
			}
		}
		return true
	case *ssa.Call:
		callee := x.Common().StaticCallee()
		if callee == nil || len(callee.Blocks) == 0 || callee.Signature.Results().Len() != 1 {
			return false
		}
		// a function the factory is given (`wrap("name", func…)`) is, for this call, the argument
		// of this call (ext_y5.go)
		pop := pushFactoryArgsY5(callee, x.Common().Args)
		defer pop()
		n := 0
		for _, r := range returns(callee) {
			if len(r.Results) != 1 || !frozenFuncValueX10(r.Results[0], depth+1) {
				return false
			}
			n++
		}
		return n > 0
	case *ssa.Parameter:
		if arg, outer, ok := factoryArgY5(x); ok {
			defer outer()()
			return frozenFuncValueX10(arg, depth+1)
		}
		return false
	case *ssa.MakeClosure:
		fn, ok := x.Fn.(*ssa.Function)
		if !ok {
			return false
		}
		for i, b := range x.Bindings {
			if i >= len(fn.FreeVars) || !frozenCaptureX10(b, x, depth) {
				return false
			}
		}
		return true
	}
	return false
}

// frozenCaptureX10: the captured variable (its cell b) is written once before the closure mc is
// made, holds a value without references, and is only read afterwards, here and in every closure
// that captures it.
func frozenCaptureX10(b ssa.Value, mc *ssa.MakeClosure, depth int) bool {
	cell, ok := b.(*ssa.Alloc)
	if !ok {
		return false
	}
	elem := cell.Type().Underlying().(*types.Pointer).Elem()
	_, holdsFunc := elem.Underlying().(*types.Signature)
	if !holdsFunc && (isPointerLike(elem) || isAggregateWithRefs(elem)) {
		return false
	}
	stores := 0
	for _, r := range *cell.Referrers() {
		switch r := r.(type) {
		case *ssa.DebugRef:
		case *ssa.UnOp:
			if r.Op != token.MUL {
				return false
			}
		case *ssa.Store:
			if r.Addr != cell || r.Val == ssa.Value(cell) {
				return false
			}
			stores++
			// the one assignment comes first: in the block that makes the closure, before it, or in a
			// block that dominates it
			if r.Block() == mc.Block() {
				before := false
				for _, ins := range r.Block().Instrs {
					if ins == ssa.Instruction(r) {
						before = true
						break
					}
					if ins == ssa.Instruction(mc) {
						break
					}
				}
				if !before {
					return false
				}
			} else if !r.Block().Dominates(mc.Block()) {
				return false
			}
			if holdsFunc && !frozenFuncValueX10(r.Val, depth+1) {
				return false
			}
		case *ssa.MakeClosure:
			g, ok := r.Fn.(*ssa.Function)
			if !ok {
				return false
			}
			for i, bb := range r.Bindings {
				if bb == ssa.Value(cell) && (i >= len(g.FreeVars) || !freeVarReadOnlyX10(g.FreeVars[i], 0)) {
					return false
				}
			}
		default:
			return false
		}
	}
	return stores == 1
}

// freeVarReadOnlyX10: the closure body only loads the captured variable (or hands it to a nested
// closure that only loads it).
func freeVarReadOnlyX10(fv *ssa.FreeVar, depth int) bool {
	if depth > 3 {
		return false
	}
	for _, r := range *fv.Referrers() {
		switch r := r.(type) {
		case *ssa.DebugRef:
		case *ssa.UnOp:
			if r.Op != token.MUL {
				return false
			}
		case *ssa.MakeClosure:
			g, ok := r.Fn.(*ssa.Function)
			if !ok {
				return false
			}
			for i, bb := range r.Bindings {
				if bb == ssa.Value(fv) && (i >= len(g.FreeVars) || !freeVarReadOnlyX10(g.FreeVars[i], depth+1)) {
					return false
				}
			}
		default:
			return false
		}
	}
	return true
}
