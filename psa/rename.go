package main

import (
	"encoding/json"
	"fmt"
	"go/ast"
	"go/types"
	"os"
	"path/filepath"
	"regexp"
	"sort"
	"strings"

	"golang.org/x/tools/go/ssa"
)

// Renamed anchors.  The rules name the unexported functions, types, constants and variables they
// are anchored in.  When such a name is no longer declared, the rule has not necessarily lost its
// anchor: the identifier may have been renamed, or a method turned into a function.  This file
// resolves a lost name to its successor by shape: /verif/anchors.json (written by `psa anchors`
// from the reference tree) records for every unexported declaration of the module a fingerprint —
// signature with the receiver folded in as first parameter, callers, callees; kind, field types
// and methods of a type; value of a constant — and a lost name is matched against the
// declarations of the same package whose names are not in that file.  A match must be unique.
// The resolution only says where to look: every rule still decides its obligations on the code
// it finds there, so a wrong match can make a rule fail, never pass.

type fnPrint struct {
	Pkg, Recv, Name string
	Sig             string
	Callees         []string
	Callers         []string
}

type typePrint struct {
	Pkg, Name string
	Kind      string
	Fields    []string
	Methods   []string
}

type valPrint struct {
	Pkg, Name string
	Kind      string // const | var
	Type      string
	Val       string
}

type anchorsFile struct {
	Funcs []fnPrint
	Types []typePrint
	Vals  []valPrint
}

var shortOf = map[string]string{} // package path -> short name

func (c *Ctx) shortPkgOf(p *types.Package) string {
	if p == nil {
		return ""
	}
	if len(shortOf) == 0 {
		for s, path := range shortPkg {
			shortOf[path] = s
		}
	}
	return shortOf[p.Path()]
}

func recvTypeName(f *types.Func) string {
	sig := f.Type().(*types.Signature)
	if sig.Recv() == nil {
		return ""
	}
	t := sig.Recv().Type()
	if p, ok := t.(*types.Pointer); ok {
		t = p.Elem()
	}
	if n, ok := t.(*types.Named); ok {
		return n.Obj().Name()
	}
	return ""
}

func sigPrint(f *types.Func) string {
	sig := f.Type().(*types.Signature)
	var ps []string
	if r := sig.Recv(); r != nil {
		ps = append(ps, types.TypeString(r.Type(), relQual))
	}
	for i := 0; i < sig.Params().Len(); i++ {
		t := types.TypeString(sig.Params().At(i).Type(), relQual)
		if sig.Variadic() && i == sig.Params().Len()-1 {
			t = "..." + t
		}
		ps = append(ps, t)
	}
	var rs []string
	for i := 0; i < sig.Results().Len(); i++ {
		rs = append(rs, types.TypeString(sig.Results().At(i).Type(), relQual))
	}
	return "(" + strings.Join(ps, ", ") + ") (" + strings.Join(rs, ", ") + ")"
}

func fnLabel(f *ssa.Function) string {
	if f == nil {
		return ""
	}
	for f.Parent() != nil {
		f = f.Parent()
	}
	if o, ok := f.Object().(*types.Func); ok && o != nil {
		if o.Pkg() != nil {
			if r := recvTypeName(o); r != "" {
				return o.Pkg().Name() + "." + r + "." + o.Name()
			}
			return o.Pkg().Name() + "." + o.Name()
		}
	}
	return f.String()
}

// currentPrints computes the fingerprints of the tree that is loaded.
func (c *Ctx) currentPrints() *anchorsFile {
	out := &anchorsFile{}
	callees := map[*ssa.Function]map[string]bool{}
	callers := map[*ssa.Function]map[string]bool{}
	top := func(f *ssa.Function) *ssa.Function {
		for f.Parent() != nil {
			f = f.Parent()
		}
		return f
	}
	for _, fn := range c.modFuncs {
		t := top(fn)
		for _, b := range fn.Blocks {
			for _, ins := range b.Instrs {
				call, ok := ins.(ssa.CallInstruction)
				if !ok {
					continue
				}
				sc := call.Common().StaticCallee()
				if sc == nil {
					continue
				}
				st := top(sc)
				if st == t {
					continue
				}
				if callees[t] == nil {
					callees[t] = map[string]bool{}
				}
				callees[t][fnLabel(st)] = true
				if c.inModule(st) {
					if callers[st] == nil {
						callers[st] = map[string]bool{}
					}
					callers[st][fnLabel(t)] = true
				}
			}
		}
	}
	keys := func(m map[string]bool) []string {
		var ks []string
		for k := range m {
			ks = append(ks, k)
		}
		sort.Strings(ks)
		return ks
	}
	for short := range shortPkg {
		p := c.pkgs[shortPkg[short]]
		if p == nil {
			continue
		}
		scope := p.Types.Scope()
		for _, name := range scope.Names() {
			switch o := scope.Lookup(name).(type) {
			case *types.TypeName:
				tp := typePrint{Pkg: short, Name: name}
				switch u := o.Type().Underlying().(type) {
				case *types.Struct:
					tp.Kind = "struct"
					for i := 0; i < u.NumFields(); i++ {
						tp.Fields = append(tp.Fields, types.TypeString(u.Field(i).Type(), relQual))
					}
					sort.Strings(tp.Fields)
				default:
					tp.Kind = types.TypeString(u, relQual)
				}
				if n, ok := o.Type().(*types.Named); ok {
					for i := 0; i < n.NumMethods(); i++ {
						tp.Methods = append(tp.Methods, n.Method(i).Name())
					}
					sort.Strings(tp.Methods)
				}
				out.Types = append(out.Types, tp)
			case *types.Const:
				out.Vals = append(out.Vals, valPrint{Pkg: short, Name: name, Kind: "const", Type: types.TypeString(o.Type(), relQual), Val: o.Val().ExactString()})
			case *types.Var:
				out.Vals = append(out.Vals, valPrint{Pkg: short, Name: name, Kind: "var", Type: types.TypeString(o.Type(), relQual)})
			}
		}
	}
	for _, fn := range c.modFuncs {
		if fn.Parent() != nil || fn.Synthetic != "" {
			continue
		}
		o, ok := fn.Object().(*types.Func)
		if !ok || o == nil || o.Pkg() == nil {
			continue
		}
		short := c.shortPkgOf(o.Pkg())
		if short == "" {
			continue
		}
		out.Funcs = append(out.Funcs, fnPrint{Pkg: short, Recv: recvTypeName(o), Name: o.Name(), Sig: sigPrint(o),
			Callees: keys(callees[fn]), Callers: keys(callers[fn])})
	}
	sort.Slice(out.Funcs, func(i, j int) bool {
		a, b := out.Funcs[i], out.Funcs[j]
		return a.Pkg+"."+a.Recv+"."+a.Name < b.Pkg+"."+b.Recv+"."+b.Name
	})
	sort.Slice(out.Types, func(i, j int) bool {
		return out.Types[i].Pkg+"."+out.Types[i].Name < out.Types[j].Pkg+"."+out.Types[j].Name
	})
	sort.Slice(out.Vals, func(i, j int) bool {
		return out.Vals[i].Pkg+"."+out.Vals[i].Name < out.Vals[j].Pkg+"."+out.Vals[j].Name
	})
	return out
}

func writeAnchors() {
	c := &Ctx{rep: newReport("anchors", "quick"), tier: "quick", prop: "anchors"}
	c.load()
	data, _ := json.MarshalIndent(c.currentPrints(), "", " ")
	if err := os.WriteFile(filepath.Join(verifDir, "anchors.json"), append(data, '\n'), 0o644); err != nil {
		abort("anchors.json: %v", err)
	}
	fmt.Println("anchors.json written")
}

type renameMap struct {
	types map[string]string    // "pkg.Old" -> New
	vals  map[string]string    // "pkg.old" -> new
	funcs map[string][2]string // "pkg.Recv.old" -> {Recv', new}
	notes []string
}

func jaccard(a, b []string) float64 {
	if len(a) == 0 && len(b) == 0 {
		return 0
	}
	m := map[string]bool{}
	for _, x := range a {
		m[x] = true
	}
	n := 0
	for _, x := range b {
		if m[x] {
			n++
		}
	}
	return float64(n) / float64(len(a)+len(b)-n)
}

// renames computes (once) the successors of the reference declarations that are no longer there.
func (c *Ctx) renames() *renameMap {
	if c.ren != nil {
		return c.ren
	}
	rm := &renameMap{types: map[string]string{}, vals: map[string]string{}, funcs: map[string][2]string{}}
	c.ren = rm
	data, err := os.ReadFile(filepath.Join(verifDir, "anchors.json"))
	if err != nil {
		return rm
	}
	var ref anchorsFile
	if json.Unmarshal(data, &ref) != nil {
		return rm
	}
	cur := c.currentPrints()
	// ---- types
	refT, curT := map[string]typePrint{}, map[string]typePrint{}
	for _, t := range ref.Types {
		refT[t.Pkg+"."+t.Name] = t
	}
	for _, t := range cur.Types {
		curT[t.Pkg+"."+t.Name] = t
	}
	var lostT, newT []typePrint
	for k, t := range refT {
		if _, ok := curT[k]; !ok {
			lostT = append(lostT, t)
		}
	}
	for k, t := range curT {
		if _, ok := refT[k]; !ok {
			newT = append(newT, t)
		}
	}
	sort.Slice(lostT, func(i, j int) bool { return lostT[i].Name < lostT[j].Name })
	sort.Slice(newT, func(i, j int) bool { return newT[i].Name < newT[j].Name })
	for _, lt := range lostT {
		best, bestScore, ties := "", -1.0, 0
		for _, nt := range newT {
			if nt.Pkg != lt.Pkg || (nt.Kind == "struct") != (lt.Kind == "struct") {
				continue
			}
			score := jaccard(lt.Methods, nt.Methods)
			if lt.Kind == "struct" {
				score += jaccard(lt.Fields, nt.Fields)
			} else if lt.Kind == nt.Kind {
				score += 1
			}
			if score > bestScore {
				best, bestScore, ties = nt.Name, score, 1
			} else if score == bestScore {
				ties++
			}
		}
		if best != "" && ties == 1 && bestScore > 0 {
			rm.types[lt.Pkg+"."+lt.Name] = best
			rm.notes = append(rm.notes, fmt.Sprintf("type %s.%s is now %s", lt.Pkg, lt.Name, best))
		}
	}
	// names of renamed types inside signature strings: new -> old
	normSig := func(pkg, s string) string {
		for k, nw := range rm.types {
			if !strings.HasPrefix(k, pkg+".") {
				continue
			}
			old := strings.TrimPrefix(k, pkg+".")
			s = regexp.MustCompile(`\b`+regexp.QuoteMeta(nw)+`\b`).ReplaceAllString(s, old)
		}
		return s
	}
	// a new unexported struct type that an existing struct type of the package holds by value is a
	// part of that type (fields and the methods working on them were grouped): a method of the part
	// matches the lost method of the host.  part name -> host name, where the host is unique.
	partOf := map[string]string{}
	for _, nt := range newT {
		if nt.Kind != "struct" || ast.IsExported(nt.Name) {
			continue
		}
		renamed := false
		for _, nw := range rm.types {
			renamed = renamed || nw == nt.Name
		}
		if renamed {
			continue
		}
		host, n := "", 0
		for _, ht := range cur.Types {
			if ht.Pkg != nt.Pkg || ht.Kind != "struct" || ht.Name == nt.Name {
				continue
			}
			for _, f := range ht.Fields {
				if f == nt.Name {
					host = ht.Name
					n++
					break
				}
			}
		}
		if n == 1 {
			partOf[nt.Pkg+"."+nt.Name] = host
		}
	}
	hostSig := func(pkg, s string) string {
		for k, host := range partOf {
			if strings.HasPrefix(k, pkg+".") {
				s = regexp.MustCompile(`\b`+regexp.QuoteMeta(strings.TrimPrefix(k, pkg+"."))+`\b`).ReplaceAllString(s, host)
			}
		}
		return s
	}
	// ---- constants and variables
	refV, curV := map[string]valPrint{}, map[string]valPrint{}
	for _, v := range ref.Vals {
		refV[v.Pkg+"."+v.Name] = v
	}
	for _, v := range cur.Vals {
		curV[v.Pkg+"."+v.Name] = v
	}
	for k, lv := range refV {
		if _, ok := curV[k]; ok {
			continue
		}
		var cands []string
		for k2, nv := range curV {
			if _, ok := refV[k2]; ok || nv.Pkg != lv.Pkg || nv.Kind != lv.Kind {
				continue
			}
			if lv.Kind == "const" && nv.Val == lv.Val {
				cands = append(cands, nv.Name)
			}
			if lv.Kind == "var" && normSig(lv.Pkg, nv.Type) == lv.Type {
				cands = append(cands, nv.Name)
			}
		}
		if len(cands) == 1 {
			rm.vals[k] = cands[0]
			rm.notes = append(rm.notes, fmt.Sprintf("%s %s is now %s", lv.Kind, k, cands[0]))
		}
	}
	// ---- functions
	key := func(f fnPrint) string { return f.Pkg + "." + f.Recv + "." + f.Name }
	refF, curF := map[string]fnPrint{}, map[string]fnPrint{}
	for _, f := range ref.Funcs {
		refF[key(f)] = f
	}
	for _, f := range cur.Funcs {
		g := f
		if old := c.oldTypeName(rm, f.Pkg, f.Recv); old != "" {
			g.Recv = old
		}
		curF[key(g)] = f
	}
	var lostF []fnPrint
	for k, f := range refF {
		if _, ok := curF[k]; !ok {
			lostF = append(lostF, f)
		}
	}
	sort.Slice(lostF, func(i, j int) bool { return key(lostF[i]) < key(lostF[j]) })
	var newF []fnPrint
	for k, f := range curF {
		if _, ok := refF[k]; !ok {
			newF = append(newF, f)
		}
	}
	sort.Slice(newF, func(i, j int) bool { return key(newF[i]) < key(newF[j]) })
	used := map[string]bool{}
	for _, lf := range lostF {
		best, bestScore, ties := -1, -1.0, 0
		for i, nf := range newF {
			if nf.Pkg != lf.Pkg || used[key(nf)] {
				continue
			}
			if normSig(nf.Pkg, nf.Sig) != lf.Sig && (len(partOf) == 0 || normSig(nf.Pkg, hostSig(nf.Pkg, nf.Sig)) != lf.Sig) {
				continue
			}
			score := jaccard(lf.Callees, nf.Callees) + jaccard(lf.Callers, nf.Callers)
			if nf.Name == lf.Name {
				score += 1 // method <-> function of the same name
			}
			if score > bestScore {
				best, bestScore, ties = i, score, 1
			} else if score == bestScore {
				ties++
			}
		}
		if best >= 0 && ties == 1 {
			nf := newF[best]
			used[key(nf)] = true
			rm.funcs[key(lf)] = [2]string{nf.Recv, nf.Name}
			rm.notes = append(rm.notes, fmt.Sprintf("function %s is now %s", key(lf), key(nf)))
		}
	}
	sort.Strings(rm.notes)
	return rm
}

func (c *Ctx) oldTypeName(rm *renameMap, pkg, cur string) string {
	for k, nw := range rm.types {
		if nw == cur && strings.HasPrefix(k, pkg+".") {
			return strings.TrimPrefix(k, pkg+".")
		}
	}
	return ""
}

// curType: the current name of a type the rules know as pkg.name.
func (c *Ctx) curType(pkg, name string) string {
	if c.pkg(pkg).Types.Scope().Lookup(name) != nil {
		return name
	}
	if n, ok := c.renames().types[pkg+"."+name]; ok {
		return n
	}
	return name
}

// curVal: the current name of a package-level constant or variable.
func (c *Ctx) curVal(pkg, name string) string {
	if c.pkg(pkg).Types.Scope().Lookup(name) != nil {
		return name
	}
	if n, ok := c.renames().vals[pkg+"."+name]; ok {
		return n
	}
	return name
}

// curFunc: the current receiver type and name of a function the rules know as pkg.recv.name,
// when it is no longer declared under that name.
func (c *Ctx) curFunc(pkg, recv, name string) (string, string, bool) {
	r, ok := c.renames().funcs[pkg+"."+recv+"."+name]
	if !ok {
		return "", "", false
	}
	return r[0], r[1], true
}

// isFn: fn is the function the rules know as pkg.recv.name (under its current name).
func (c *Ctx) isFn(fn *ssa.Function, pkg, recv, name string) bool {
	if fn == nil {
		return false
	}
	var want *ssa.Function
	if recv == "" {
		want = c.fnOpt(pkg, name)
	} else {
		want = c.methodOpt(pkg, recv, name)
	}
	return want != nil && want == fn
}

// declOfFunc: the syntax of a function object.
func (c *Ctx) declOfFunc(pkg string, obj types.Object) *ast.FuncDecl {
	if obj == nil {
		return nil
	}
	for _, f := range c.pkg(pkg).Syntax {
		for _, d := range f.Decls {
			if fd, ok := d.(*ast.FuncDecl); ok && c.pkg(pkg).TypesInfo.Defs[fd.Name] == obj {
				return fd
			}
		}
	}
	return nil
}

// curFnName: the current name of a package-level function.
func (c *Ctx) curFnName(pkg, name string) string {
	if c.pkg(pkg).Types.Scope().Lookup(name) != nil {
		return name
	}
	if recv, nm, ok := c.curFunc(pkg, "", name); ok && recv == "" {
		return nm
	}
	return name
}
