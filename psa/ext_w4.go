package main

import (
	"fmt"
	"go/ast"
	"go/token"
	"go/types"

	"golang.org/x/tools/go/ssa"
)

// Helpers of round 3 (worker W4): C17 DET-COLLECT / DET-MAPRANGE and C19 Q-BBOX.

// isParamName: v is the value the evaluator gave to one of fn's string parameters (runFunc is
// called with the cells "param0", "param1", … as arguments).
func isParamName(v sv, fn *ssa.Function) bool {
	if v.k != svAddr {
		return false
	}
	for i, p := range fn.Params {
		if b, ok := p.Type().Underlying().(*types.Basic); ok && b.Info()&types.IsString != 0 && v.s == fmt.Sprintf("param%d", i) {
			return true
		}
	}
	return false
}

// enclosingSSA returns the innermost function (declared or literal) whose syntax contains pos.
func (ix *ssaIndex) enclosingSSA(pos token.Pos) *ssa.Function {
	var best *ssa.Function
	var bestNode ast.Node
	for n, fn := range ix.lits {
		if n.Pos() <= pos && pos < n.End() {
			if bestNode == nil || (bestNode.Pos() <= n.Pos() && n.End() <= bestNode.End()) {
				best, bestNode = fn, n
			}
		}
	}
	return best
}

// funcArgSSA: the function that argument k of the call denotes at the moment of the call, read
// off the SSA form: a closure or function bound to a local name before (`less := func…;
// sort.Slice(s, less)`) is that function if the name is assigned exactly once.  nil if the value
// is not one determined function.
func (d *detAnalyzer) funcArgSSA(call *ast.CallExpr, k int) *ssa.Function {
	if d.ssa == nil {
		return nil
	}
	encl := d.ssa.enclosingSSA(call.Pos())
	if encl == nil {
		return nil
	}
	var found *ssa.Function
	n := 0
	eachInstr(encl, func(ins ssa.Instruction) {
		ci, ok := ins.(ssa.CallInstruction)
		if !ok || ins.Pos() != call.Lparen {
			return
		}
		cc := ci.Common()
		if cc.IsInvoke() || len(cc.Args) != len(call.Args) || k >= len(cc.Args) {
			return
		}
		n++
		switch v := origin(cc.Args[k]).(type) {
		case *ssa.MakeClosure:
			found, _ = v.Fn.(*ssa.Function)
		case *ssa.Function:
			found = v
		}
	})
	if n != 1 {
		return nil
	}
	return found
}

// closureBinding: the statement only binds function literals to local names
// (`f := func(…) {…}`, `f = func(…) {…}` or `var f = func(…) {…}`).  Making a closure reads nothing: what the
// literal does with the variables it captures happens where the name is used.  Returns the names.
func (d *detAnalyzer) closureBinding(st ast.Stmt) ([]types.Object, bool) {
	var names []types.Object
	local := func(id *ast.Ident) bool {
		v, ok := d.info.ObjectOf(id).(*types.Var)
		if !ok || v.IsField() || v.Pkg() == nil || v.Parent() == v.Pkg().Scope() {
			return false
		}
		names = append(names, v)
		return true
	}
	switch st := st.(type) {
	case *ast.AssignStmt:
		if (st.Tok != token.DEFINE && st.Tok != token.ASSIGN) || len(st.Lhs) != len(st.Rhs) {
			return nil, false
		}
		for i, l := range st.Lhs {
			id, ok := l.(*ast.Ident)
			if !ok || id.Name == "_" || !local(id) {
				return nil, false
			}
			if _, isLit := unparen(st.Rhs[i]).(*ast.FuncLit); !isLit {
				return nil, false
			}
		}
		return names, len(names) > 0
	case *ast.DeclStmt:
		gd, ok := st.Decl.(*ast.GenDecl)
		if !ok || gd.Tok != token.VAR {
			return nil, false
		}
		for _, sp := range gd.Specs {
			vs, ok := sp.(*ast.ValueSpec)
			if !ok || len(vs.Names) != len(vs.Values) {
				return nil, false
			}
			for i, id := range vs.Names {
				if id.Name == "_" || !local(id) {
					return nil, false
				}
				if _, isLit := unparen(vs.Values[i]).(*ast.FuncLit); !isLit {
					return nil, false
				}
			}
		}
		return names, len(names) > 0
	}
	return nil, false
}

// guardAsIfElse: in the statement list of a loop body itself (not of a statement nested in it),
//
//	if c { A…; continue }
//	B…
//
// is the same program as `if c { A… } else { B… }` at the end of the body: `continue` there only
// skips the rest of the list.  Returns the list with every such guard rewritten (the rest of the
// list, now the else branch, is treated alike), or nil if there is none.
func guardAsIfElse(list []ast.Stmt, ownLabel string) []ast.Stmt {
	for k, s := range list {
		ifs, ok := s.(*ast.IfStmt)
		if !ok || ifs.Else != nil || len(ifs.Body.List) == 0 || k == len(list)-1 {
			continue
		}
		br, ok := ifs.Body.List[len(ifs.Body.List)-1].(*ast.BranchStmt)
		if !ok || br.Tok != token.CONTINUE || (br.Label != nil && br.Label.Name != ownLabel) || (br.Label != nil && ownLabel == "") {
			continue
		}
		rest := list[k+1:]
		if r := guardAsIfElse(rest, ownLabel); r != nil {
			rest = r // the rest is still the tail of the loop body
		}
		out := append([]ast.Stmt{}, list[:k]...)
		out = append(out, &ast.IfStmt{
			If:   ifs.If,
			Init: ifs.Init,
			Cond: ifs.Cond,
			Body: &ast.BlockStmt{Lbrace: ifs.Body.Lbrace, List: ifs.Body.List[:len(ifs.Body.List)-1], Rbrace: ifs.Body.Rbrace},
			Else: &ast.BlockStmt{Lbrace: rest[0].Pos(), List: rest, Rbrace: rest[len(rest)-1].End()},
		})
		return out
	}
	return nil
}
