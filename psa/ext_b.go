package main

import (
	"fmt"
	"go/constant"
	"go/token"
	"go/types"
	"math/bits"
	"sort"
	"strings"

	"golang.org/x/tools/go/ssa"
)

// Extensions of worker B.
//
//   1. evaluator: function values and closures passed as arguments are called in place; the pure
//      search helpers of package slices are evaluated in place (so a hand-written search loop and
//      slices.ContainsFunc with an extracted predicate are the same thing);
//   2. ringNF: normal form of integer terms (polynomials over Z/2^w, narrowing distributed over
//      ring and bit operations) and exhaustive comparison of two terms over byte/word symbols;
//   3. the cipher step rules (CIPHER-SHAPE of C05/C08/C06) decided on the evaluator;
//   4. the eexec operator as a decision table (EEXEC-OP of C05, CTL-DICTSTACK of C03);
//   5. value sources (T1-LENIV of C06).

// ---------------------------------------------------------------------------------------------
// 1. function values

type evalExtB struct {
	funcs    map[string]*ssa.Function
	closures map[string]closureB
}

type closureB struct {
	fn   *ssa.Function
	free []sv
}

func (e *ssaEval) ext() *evalExtB {
	if e.xb == nil {
		e.xb = &evalExtB{funcs: map[string]*ssa.Function{}, closures: map[string]closureB{}}
	}
	return e.xb
}

func (e *ssaEval) noteFunc(fn *ssa.Function) { e.ext().funcs["func:"+fn.String()] = fn }

func (e *ssaEval) noteClosure(fr *frame, ins ssa.Instruction, name string) {
	mc, ok := ins.(*ssa.MakeClosure)
	if !ok {
		return
	}
	fn, ok := mc.Fn.(*ssa.Function)
	if !ok {
		return
	}
	cl := closureB{fn: fn}
	for _, b := range mc.Bindings {
		cl.free = append(cl.free, e.val(fr, b))
	}
	e.ext().closures[name] = cl
}

// calleeOf: the function a call runs — the static callee, or the function / closure value that the
// evaluation has bound to the called operand (a predicate handed to a helper).
func (e *ssaEval) calleeOf(fr *frame, x *ssa.Call) (*ssa.Function, []sv) {
	if fn := x.Call.StaticCallee(); fn != nil {
		return fn, nil
	}
	if x.Call.IsInvoke() {
		return nil, nil
	}
	v := e.val(fr, x.Call.Value)
	if v.k != svSym || e.xb == nil {
		return nil, nil
	}
	if fn, ok := e.xb.funcs[v.s]; ok {
		return fn, nil
	}
	if cl, ok := e.xb.closures[v.s]; ok {
		return cl.fn, cl.free
	}
	return nil, nil
}

// pureStdHelper: library functions that only search / compare their arguments and call the
// predicate they are given; evaluating their bodies in place has no effect to record.
func pureStdHelper(fn *ssa.Function) bool {
	if o := fn.Origin(); o != nil {
		fn = o
	}
	if fn.Pkg == nil || fn.Object() == nil {
		return false
	}
	switch fn.Pkg.Pkg.Path() {
	case "slices":
		switch fn.Object().Name() {
		case "Contains", "ContainsFunc", "Index", "IndexFunc", "Equal":
			return true
		}
	}
	return false
}

// privateHelpersB: the module functions that exist for fn alone — reached from fn through static
// calls and called from nowhere else (from fn and from each other only).  A piece of fn extracted
// into a function or method of its own is such a helper; a rule that evaluates fn evaluates them in
// place, whatever their signature, and models only the functions fn shares with the rest of the module.
func (c *Ctx) privateHelpersB(fn *ssa.Function) map[*ssa.Function]bool {
	cand := map[*ssa.Function]bool{}
	var reach func(f *ssa.Function, depth int)
	reach = func(f *ssa.Function, depth int) {
		if depth > 6 {
			return
		}
		eachInstr(f, func(ins ssa.Instruction) {
			if call, ok := ins.(ssa.CallInstruction); ok {
				if g := call.Common().StaticCallee(); g != nil && g != fn && !cand[g] && c.inModule(g) && len(g.Blocks) > 0 {
					cand[g] = true
					reach(g, depth+1)
				}
			}
		})
	}
	reach(fn, 0)
	for changed := true; changed; {
		changed = false
		for g := range cand {
			for _, h := range c.modFuncs {
				if h == fn || cand[h] {
					continue
				}
				used := len(staticCalls(h, g)) > 0
				if !used {
					// taken as a value (method value, callback) outside fn
					eachInstr(h, func(ins ssa.Instruction) {
						for _, op := range ins.Operands(nil) {
							if *op == ssa.Value(g) {
								used = true
							}
						}
					})
				}
				if used {
					delete(cand, g)
					changed = true
					break
				}
			}
		}
	}
	return cand
}

// ---------------------------------------------------------------------------------------------
// 2. normal form of integer terms; exhaustive comparison

// ringB normalises the integer terms of the evaluator.  A term is read as a polynomial over
// Z/2^w in its *atoms* (symbols and sub-terms that are not ring operations); + - * neg and
// shifts to the left are expanded, narrowing conversions are distributed over ring and bit
// operations (the low w bits of a sum / product / xor depend only on the low w bits of the
// operands) and dropped where the operand is known to fit.  Two terms with the same normal form
// at width w agree modulo 2^w for all values of the symbols.
type ringB struct {
	width map[string]uint // significant bits of a symbol (64 if absent)
	memo  map[string]string
}

type polyB map[string]uint64 // monomial (atoms joined by NUL, sorted; "" = constant) → coefficient

var opTagsB = []struct {
	tag    string
	w      uint
	signed bool
}{{"u8", 8, false}, {"i8", 8, true}, {"u16", 16, false}, {"i16", 16, true}, {"u32", 32, false}, {"i32", 32, true}}

// splitOpB: "+u16" → ("+", 16, false); "u8" → ("", 8, false) (a narrowing conversion); "^" → ("^", 64, false).
func splitOpB(op string) (base string, w uint, signed bool) {
	for _, t := range opTagsB {
		if strings.HasSuffix(op, t.tag) {
			return strings.TrimSuffix(op, t.tag), t.w, t.signed
		}
	}
	return op, 64, false
}

func maskB(w uint) uint64 {
	if w >= 64 {
		return ^uint64(0)
	}
	return uint64(1)<<w - 1
}

func isTermB(v sv) bool { return v.k == svSym && v.op != "" }

// bitsB: an upper bound of the number of significant bits of v read as a non-negative integer
// (64: unknown, or possibly negative).
func (n *ringB) bitsB(v sv) uint {
	switch {
	case v.k == svInt:
		if v.i < 0 {
			return 64
		}
		return uint(bits.Len64(uint64(v.i)))
	case v.k == svBool:
		return 1
	case v.k == svSym && v.op == "":
		if w, ok := n.width[v.s]; ok {
			return w
		}
		return 64
	case !isTermB(v):
		return 64
	}
	base, ow, signed := splitOpB(v.op)
	if signed {
		return 64
	}
	arg := func(i int) uint {
		if i < len(v.args) {
			return min(n.bitsB(v.args[i]), 64)
		}
		return 64
	}
	res := uint(64)
	switch base {
	case "":
		res = arg(0)
	case "^", "|":
		res = 0
		for i := range v.args {
			res = max(res, arg(i))
		}
	case "&":
		for i := range v.args {
			res = min(res, arg(i))
		}
	case ">>":
		if len(v.args) == 2 && v.args[1].k == svInt && v.args[1].i >= 0 && arg(0) < 64 {
			a := min(arg(0), ow)
			if k := uint(v.args[1].i); k >= a {
				res = 0
			} else {
				res = a - k
			}
		}
	case "+":
		res = 0
		for i := range v.args {
			res = max(res, arg(i))
		}
		res = min(64, res+uint(len(v.args))-1)
	case "*":
		res = 0
		for i := range v.args {
			res += arg(i)
		}
		res = min(64, res)
	}
	return min(res, ow)
}

func (p polyB) add(q polyB, sign uint64, w uint) {
	for m, c := range q {
		p[m] = (p[m] + sign*c) & maskB(w)
		if p[m] == 0 {
			delete(p, m)
		}
	}
}

func mulPolyB(p, q polyB, w uint) polyB {
	out := polyB{}
	for m1, c1 := range p {
		for m2, c2 := range q {
			var atoms []string
			if m1 != "" {
				atoms = append(atoms, strings.Split(m1, "\x00")...)
			}
			if m2 != "" {
				atoms = append(atoms, strings.Split(m2, "\x00")...)
			}
			sort.Strings(atoms)
			m := strings.Join(atoms, "\x00")
			out[m] = (out[m] + c1*c2) & maskB(w)
			if out[m] == 0 {
				delete(out, m)
			}
		}
	}
	return out
}

func (p polyB) String() string {
	if len(p) == 0 {
		return "0"
	}
	var ms []string
	for m := range p {
		ms = append(ms, m)
	}
	sort.Strings(ms)
	var out []string
	for _, m := range ms {
		switch {
		case m == "":
			out = append(out, fmt.Sprint(p[m]))
		case p[m] == 1:
			out = append(out, strings.ReplaceAll(m, "\x00", "·"))
		default:
			out = append(out, fmt.Sprintf("%d·%s", p[m], strings.ReplaceAll(m, "\x00", "·")))
		}
	}
	return strings.Join(out, " + ")
}

// atomB: the polynomial consisting of one atom whose natural value has at most nb bits, read
// modulo 2^w.
func atomB(name string, nb, w uint) polyB {
	if nb > w {
		name = fmt.Sprintf("lo%d(%s)", w, name)
	}
	return polyB{name: 1}
}

// bitArgsB collects the operands of a (nested, possibly narrowed) bit operation, each modulo
// 2^eff.
func (n *ringB) bitArgsB(base string, v sv, eff uint) []polyB {
	if isTermB(v) {
		b, ow, _ := splitOpB(v.op)
		if b == "" && ow >= eff && len(v.args) == 1 {
			return n.bitArgsB(base, v.args[0], eff)
		}
		if b == base && ow >= eff {
			var out []polyB
			for _, a := range v.args {
				out = append(out, n.bitArgsB(base, a, eff)...)
			}
			return out
		}
	}
	return []polyB{n.poly(v, eff)}
}

// poly: v modulo 2^w as a polynomial in its atoms.
func (n *ringB) poly(v sv, w uint) polyB {
	if w > 64 {
		w = 64
	}
	switch {
	case v.k == svInt:
		if c := uint64(v.i) & maskB(w); c != 0 {
			return polyB{"": c}
		}
		return polyB{}
	case v.k == svSym && v.op == "":
		return atomB(v.s, n.bitsB(v), w)
	case !isTermB(v):
		return atomB(v.String(), 64, w)
	}
	base, ow, signed := splitOpB(v.op)
	if base == "/" && len(v.args) == 2 && v.args[1].k == svInt && v.args[1].i > 0 && v.args[1].i&(v.args[1].i-1) == 0 && !signed && (ow < 64 || n.bitsB(v.args[0]) < 64) {
		// division of a non-negative value by a power of two is a shift
		return n.poly(term(">>"+strings.TrimPrefix(v.op, "/"), v.args[0], intV(int64(bits.TrailingZeros64(uint64(v.args[1].i))))), w)
	}
	// the value of a sub-term computed in a narrower type than the context: an atom of its own,
	// unless it is known to fit (then the wrap-around of the narrow type cannot have happened
	// … only for operations that cannot carry)
	wrapped := func(p polyB) polyB {
		tag := "u"
		if signed {
			tag = "i"
		}
		return polyB{fmt.Sprintf("[%s%d: %s]", tag, ow, p.String()): 1}
	}
	switch base {
	case "":
		if len(v.args) != 1 {
			break
		}
		if w <= ow {
			return n.poly(v.args[0], w)
		}
		if !signed && n.bitsB(v.args[0]) <= ow {
			return n.poly(v.args[0], w)
		}
		return wrapped(n.poly(v.args[0], ow))
	case "+", "-", "*", "neg", "<<":
		eff := min(w, ow)
		var p polyB
		switch base {
		case "+":
			p = polyB{}
			for _, a := range v.args {
				p.add(n.poly(a, eff), 1, eff)
			}
		case "-":
			if len(v.args) != 2 {
				return atomB(v.String(), 64, w)
			}
			p = polyB{}
			p.add(n.poly(v.args[0], eff), 1, eff)
			p.add(n.poly(v.args[1], eff), ^uint64(0), eff)
		case "neg":
			p = polyB{}
			p.add(n.poly(v.args[0], eff), ^uint64(0), eff)
		case "*":
			p = polyB{"": 1}
			for _, a := range v.args {
				p = mulPolyB(p, n.poly(a, eff), eff)
			}
		case "<<":
			if len(v.args) != 2 || v.args[1].k != svInt || v.args[1].i < 0 {
				return atomB(v.String(), 64, w)
			}
			p = polyB{}
			if k := uint(v.args[1].i); k < 64 {
				p = mulPolyB(n.poly(v.args[0], eff), polyB{"": uint64(1) << k}, eff)
			}
		}
		if w <= ow {
			return p
		}
		return wrapped(p)
	case "^", "&", "|":
		eff := min(w, ow)
		args := n.bitArgsB(base, v, eff)
		sort.SliceStable(args, func(i, j int) bool { return args[i].String() < args[j].String() })
		var kept []polyB
		for i := 0; i < len(args); i++ {
			if i+1 < len(args) && args[i].String() == args[i+1].String() {
				if base == "^" { // x ^ x = 0
					i++
				}
				continue // x & x = x | x = x
			}
			kept = append(kept, args[i])
		}
		if len(kept) == 0 {
			return polyB{}
		}
		var p polyB
		if len(kept) == 1 {
			p = kept[0]
		} else {
			var as []string
			for _, a := range kept {
				as = append(as, a.String())
			}
			p = polyB{fmt.Sprintf("%s%d(%s)", base, eff, strings.Join(as, ", ")): 1}
		}
		if w > ow && signed {
			return wrapped(p)
		}
		return p
	case ">>":
		if len(v.args) == 2 && v.args[1].k == svInt && v.args[1].i >= 0 && !signed {
			// floor(a / 2^k) of the operand read in the operator's width
			aw := ow
			if ow == 64 && n.bitsB(v.args[0]) == 64 {
				break // possibly an arithmetic shift of a negative value
			}
			name := fmt.Sprintf(">>%d[%d](%s)", v.args[1].i, aw, n.poly(v.args[0], aw).String())
			return atomB(name, n.bitsB(v), w)
		}
	}
	// any other operation: an atom in its normalised operands
	var as []string
	for _, a := range v.args {
		as = append(as, n.poly(a, 64).String())
	}
	return atomB(v.op+"("+strings.Join(as, ", ")+")", n.bitsB(v), w)
}

// nf: the normal form of v modulo 2^w.
func (n *ringB) nf(v sv, w uint) string { return n.poly(v, w).String() }

// compileB turns a term into a function of the symbol values (env indexed by idx).  ok is false
// when the term contains an operation whose value is not determined here (signed shifts,
// division by a symbol, calls).
func (n *ringB) compileB(v sv, idx map[string]int) (f func(env []uint64) uint64, ok bool) {
	switch {
	case v.k == svInt:
		c := uint64(v.i)
		return func([]uint64) uint64 { return c }, true
	case v.k == svSym && v.op == "":
		i, has := idx[v.s]
		if !has {
			return nil, false
		}
		return func(env []uint64) uint64 { return env[i] }, true
	case !isTermB(v):
		return nil, false
	}
	base, ow, signed := splitOpB(v.op)
	fit := func(x uint64) uint64 { // a value of the operator's type, as a 64-bit pattern
		if ow >= 64 {
			return x
		}
		x &= maskB(ow)
		if signed && x>>(ow-1) != 0 {
			x |= ^maskB(ow)
		}
		return x
	}
	var fs []func([]uint64) uint64
	for _, a := range v.args {
		g, ok := n.compileB(a, idx)
		if !ok {
			return nil, false
		}
		fs = append(fs, g)
	}
	nonneg := func(i int) bool { return !signed && (ow < 64 || n.bitsB(v.args[i]) < 64) }
	fold := func(op func(a, b uint64) uint64) (func([]uint64) uint64, bool) {
		if len(fs) == 0 {
			return nil, false
		}
		return func(env []uint64) uint64 {
			acc := fit(fs[0](env))
			for _, g := range fs[1:] {
				acc = op(acc, fit(g(env)))
			}
			return fit(acc)
		}, true
	}
	switch base {
	case "":
		if len(fs) == 1 {
			return func(env []uint64) uint64 { return fit(fs[0](env)) }, true
		}
	case "+":
		return fold(func(a, b uint64) uint64 { return a + b })
	case "*":
		return fold(func(a, b uint64) uint64 { return a * b })
	case "^":
		return fold(func(a, b uint64) uint64 { return a ^ b })
	case "&":
		return fold(func(a, b uint64) uint64 { return a & b })
	case "|":
		return fold(func(a, b uint64) uint64 { return a | b })
	case "-":
		if len(fs) == 2 {
			return fold(func(a, b uint64) uint64 { return a - b })
		}
	case "&^":
		if len(fs) == 2 {
			return fold(func(a, b uint64) uint64 { return a &^ b })
		}
	case "neg":
		if len(fs) == 1 {
			return func(env []uint64) uint64 { return fit(-fit(fs[0](env))) }, true
		}
	case "<<":
		if len(fs) == 2 && nonnegCount(v.args[1]) {
			return fold(func(a, b uint64) uint64 {
				if b >= 64 {
					return 0
				}
				return a << b
			})
		}
	case ">>":
		if len(fs) == 2 && nonneg(0) && nonnegCount(v.args[1]) {
			return fold(func(a, b uint64) uint64 {
				if b >= 64 {
					return 0
				}
				return a >> b
			})
		}
	case "/", "%":
		if len(fs) == 2 && nonneg(0) && v.args[1].k == svInt && v.args[1].i > 0 {
			if base == "/" {
				return fold(func(a, b uint64) uint64 { return a / b })
			}
			return fold(func(a, b uint64) uint64 { return a % b })
		}
	}
	return nil, false
}

func nonnegCount(v sv) bool { return v.k == svInt && v.i >= 0 }

// symbolsB lists the symbols of the terms.
func symbolsB(vs ...sv) []string {
	seen := map[string]bool{}
	var walk func(v sv)
	walk = func(v sv) {
		if v.k == svSym && v.op == "" {
			seen[v.s] = true
		}
		for _, a := range v.args {
			walk(a)
		}
	}
	for _, v := range vs {
		walk(v)
	}
	var out []string
	for s := range seen {
		out = append(out, s)
	}
	sort.Strings(out)
	return out
}

// agree decides whether got ≡ want (mod 2^w) for all values of the symbols: equal normal forms,
// or — when the forms differ — comparison of the two terms for every assignment of the symbols
// (at most 2^24 assignments; beyond that, and for terms with operations that cannot be
// evaluated, the answer is "no").  how tells which argument decided; cex is a counterexample.
func (n *ringB) agree(got, want sv, w uint) (ok bool, how string) {
	if !got.known() {
		return false, "no value"
	}
	key := fmt.Sprintf("%d|%s|%s", w, got.String(), want.String())
	if r, hit := n.memo[key]; hit {
		return r[0] == '+', r[1:]
	}
	defer func() {
		if n.memo == nil {
			n.memo = map[string]string{}
		}
		n.memo[key] = map[bool]string{true: "+", false: "-"}[ok] + how
	}()
	g, x := n.nf(got, w), n.nf(want, w)
	if g == x {
		return true, "equal normal forms"
	}
	syms := symbolsB(got, want)
	idx := map[string]int{}
	total := uint(0)
	for i, s := range syms {
		idx[s] = i
		sw, has := n.width[s]
		if !has {
			return false, "normal form " + g + ", expected " + x
		}
		total += sw
	}
	fg, ok1 := n.compileB(got, idx)
	fx, ok2 := n.compileB(want, idx)
	if total > 24 || !ok1 || !ok2 {
		return false, "normal form " + g + ", expected " + x
	}
	env := make([]uint64, len(syms))
	m := maskB(w)
	for a := uint64(0); a < uint64(1)<<total; a++ {
		rest := a
		for i, s := range syms {
			sw := n.width[s]
			env[i] = rest & maskB(sw)
			rest >>= sw
		}
		if (fg(env)^fx(env))&m != 0 {
			var as []string
			for i, s := range syms {
				as = append(as, fmt.Sprintf("%s=%d", s, env[i]))
			}
			if len(syms) == 0 {
				return false, "differs"
			}
			return false, fmt.Sprintf("normal form %s, expected %s; for %s the code gives %d, the specification %d", g, x, strings.Join(as, ", "), fg(env)&m, fx(env)&m)
		}
	}
	return true, fmt.Sprintf("all %d assignments of the symbols compared", uint64(1)<<total)
}

// ---------------------------------------------------------------------------------------------
// 3. the cipher step

const (
	adobeC1 = 52845
	adobeC2 = 22719
)

// cipherRefB is the specification of the Type 1 cipher on a sequence of bytes (symbols or
// constants) from state r: out_j = in_j ^ (r >> 8), r = (cipher_j + r)*c1 + c2 in 16 bits, where the
// cipher byte is in_j when decrypting and out_j when encrypting.
func cipherRefB(in []sv, r sv, decrypt bool) (out []sv, state sv) {
	for _, b := range in {
		var o sv
		if r.k == svInt && b.k == svInt {
			o = intV(int64(uint8(b.i) ^ uint8(uint16(r.i)>>8)))
		} else if r.k == svInt {
			o = term("^u8", b, intV(int64(uint8(uint16(r.i)>>8))))
		} else {
			o = term("^u8", b, term("u8", term(">>u16", r, intV(8))))
		}
		fb := o
		if decrypt {
			fb = b
		}
		if r.k == svInt && fb.k == svInt {
			r = intV(int64((uint16(fb.i)+uint16(r.i))*adobeC1 + adobeC2))
		} else {
			r = term("+u16", term("*u16", term("+u16", fb, r), intV(adobeC1)), intV(adobeC2))
		}
		out = append(out, o)
	}
	return out, r
}

// cipherEvalB: an evaluator with the hooks the cipher rules share: copy between modelled
// slices is performed, nil comparisons are decided.
func (c *Ctx) cipherEvalB(extra func(call ssa.CallInstruction, args []sv) (sv, bool)) *ssaEval {
	ev := &ssaEval{c: c, bind: map[ssa.Value]sv{}, mem: map[string]sv{}, flatEmbedded: true}
	ev.call = func(call ssa.CallInstruction, args []sv) (sv, bool) {
		if call != nil && callName(call) == "builtin copy" && len(args) == 2 && args[0].k == svList {
			src, ok := ev.elems(args[1])
			if !ok {
				return sv{}, false
			}
			dst, _ := ev.elems(args[0])
			k := copy(dst, append([]sv{}, src...))
			return intV(int64(k)), true
		}
		if extra != nil {
			return extra(call, args)
		}
		return sv{}, false
	}
	ev.oracle = func(op token.Token, x, y sv) (bool, bool) {
		if x.k == svNil && y.k == svNil {
			return op == token.EQL, true
		}
		if (x.k == svNil) != (y.k == svNil) {
			return op == token.NEQ, true
		}
		return false, false
	}
	return ev
}

func symListB(prefix string, n int) []sv {
	var l []sv
	for i := 0; i < n; i++ {
		l = append(l, symV(fmt.Sprintf("%s%d", prefix, i)))
	}
	return l
}

func intListB(bs ...int64) []sv {
	var l []sv
	for _, b := range bs {
		l = append(l, intV(b))
	}
	return l
}

func renderListB(l []sv) string {
	var p []string
	for _, v := range l {
		p = append(p, v.String())
	}
	return "[" + strings.Join(p, " ") + "]"
}

// bytesAgreeB compares two byte sequences element by element (mod 2^8).
func (n *ringB) bytesAgreeB(got, want []sv, what string) (bad string) {
	if len(got) != len(want) {
		return fmt.Sprintf("%s: %d bytes %s, expected %d", what, len(got), renderListB(got), len(want))
	}
	for i := range got {
		if ok, how := n.agree(got[i], want[i], 8); !ok {
			return fmt.Sprintf("%s: byte %d is %s, expected %s (%s)", what, i, got[i], want[i], how)
		}
	}
	return ""
}

// stateWritersB: the functions that update field fld of struct type T (store a value computed
// from its previous value), and the functions from which such a store is reached through
// static calls.
func (c *Ctx) stateWritersB(T *types.TypeName, fld string) (direct []*ssa.Function, reach map[*ssa.Function]bool) {
	reach = map[*ssa.Function]bool{}
	for _, f := range c.modFuncs {
		has := false
		eachInstr(f, func(ins ssa.Instruction) {
			if st, ok := ins.(*ssa.Store); ok && isFieldAddr(st.Addr, T, fld) && dependsOnFieldB(st.Val, T, fld) {
				has = true
			}
		})
		if has {
			direct = append(direct, f)
			reach[f] = true
		}
	}
	for changed := true; changed; {
		changed = false
		for _, f := range c.modFuncs {
			if reach[f] {
				continue
			}
			eachInstr(f, func(ins ssa.Instruction) {
				if call, ok := ins.(ssa.CallInstruction); ok {
					if g := call.Common().StaticCallee(); g != nil && reach[g] && !reach[f] {
						reach[f] = true
						changed = true
					}
				}
			})
		}
	}
	return
}

// dependsOnFieldB: v is computed from a load of field fld of T (through arithmetic, conversions,
// phis, and calls that take the loaded value as an argument): an update of the field, as opposed
// to an initialisation.
func dependsOnFieldB(v ssa.Value, T *types.TypeName, fld string) bool {
	seen := map[ssa.Value]bool{}
	var walk func(v ssa.Value, depth int) bool
	walk = func(v ssa.Value, depth int) bool {
		if v == nil || seen[v] || depth > 12 {
			return false
		}
		seen[v] = true
		if ld, ok := v.(*ssa.UnOp); ok && ld.Op == token.MUL && isFieldAddr(ld.X, T, fld) {
			return true
		}
		ins, ok := v.(ssa.Instruction)
		if !ok {
			return false
		}
		for _, op := range ins.Operands(nil) {
			if *op != nil && walk(*op, depth+1) {
				return true
			}
		}
		return false
	}
	return walk(v, 0)
}

func isByteB(t types.Type) bool {
	b, ok := t.Underlying().(*types.Basic)
	return ok && b.Kind() == types.Uint8
}

// cipherDecryptStepB decides the decryption step of the scanner: the function that advances the
// 16-bit cipher state (found by the role of the state field) is evaluated with the state r and
// the cipher byte c as symbols — the byte is a parameter or comes from the scanner's byte reader —
// and the byte it delivers and the state it stores are compared with the specification for all
// values of r and c.  A step extracted into a pure function, written with temporaries, or with
// its operands reordered or expanded evaluates to the same thing.
func (c *Ctx) cipherDecryptStepB() {
	scT := c.typeObj("postscript", "scanner")
	rF, modeF := c.fld("scanner.r"), c.fld("scanner.eexec")
	direct, reach := c.stateWritersB(scT, rF)
	if len(direct) == 0 {
		c.fail("CIPHER-SHAPE", "postscript.scanner", "cipher state update", token.NoPos, "no function advances the 16-bit cipher state of the scanner")
		return
	}
	nring := &ringB{width: map[string]uint{"c": 8, "r": 16}}
	for _, site := range direct {
		fn := site
		// the function that delivers the decrypted byte: the updating function itself or, when
		// that one only advances the state, its caller
		byteResult := func(f *ssa.Function) int {
			res := f.Signature.Results()
			for i := 0; i < res.Len(); i++ {
				if isByteB(res.At(i).Type()) {
					return i
				}
			}
			return -1
		}
		for hop := 0; hop < 3 && byteResult(fn) < 0; hop++ {
			var callers []*ssa.Function
			for _, g := range c.modFuncs {
				if len(staticCalls(g, fn)) > 0 {
					callers = append(callers, g)
				}
			}
			if len(callers) != 1 {
				break
			}
			fn = callers[0]
		}
		fname := c.fname(fn)
		idx := byteResult(fn)
		if idx < 0 {
			c.fail("CIPHER-SHAPE", fname, "plain = cipher ^ (r >> 8)", fn.Pos(), "the function that advances the cipher state delivers no byte")
			continue
		}
		ev := c.cipherEvalB(func(call ssa.CallInstruction, args []sv) (sv, bool) {
			if call == nil {
				return sv{}, false
			}
			sc := call.Common().StaticCallee()
			if sc == nil || reach[sc] || sc.Signature.Recv() == nil || !pointsTo(sc.Signature.Recv().Type(), scT) {
				return sv{}, false
			}
			// the scanner's byte reader delivers the cipher byte
			res := sc.Signature.Results()
			switch {
			case res.Len() == 2 && isByteB(res.At(0).Type()):
				return sv{k: svTuple, tup: []sv{symV("c"), {k: svNil}}}, true
			case res.Len() == 1 && isByteB(res.At(0).Type()):
				return symV("c"), true
			}
			return sv{}, false
		})
		ev.noInline = func(f *ssa.Function) bool {
			return !reach[f] && f.Signature.Recv() != nil && pointsTo(f.Signature.Recv().Type(), scT)
		}
		ev.load = func(ld *ssa.UnOp, addr sv) (sv, bool) {
			if strings.HasSuffix(addr.s, "."+modeF) {
				return intV(1), true
			}
			return symV("v:" + addr.s), true
		}
		var args []sv
		for i, p := range fn.Params {
			switch {
			case pointsTo(p.Type(), scT):
				args = append(args, sv{k: svAddr, s: "s"})
			case isByteB(p.Type()):
				args = append(args, symV("c"))
			default:
				args = append(args, symV(fmt.Sprintf("p%d", i)))
			}
		}
		ev.mem["s."+rF] = symV("r")
		ret := ev.runFunc(fn, args)
		if ev.why != "" || idx >= len(ret) {
			c.fail("CIPHER-SHAPE", fname, "plain = cipher ^ (r >> 8)", fn.Pos(), "the decryption step could not be evaluated: "+ev.why)
			continue
		}
		want, wantR := cipherRefB([]sv{symV("c")}, symV("r"), true)
		ok, how := nring.agree(ret[idx], want[0], 8)
		c.check(ok, "CIPHER-SHAPE", fname, "plain = cipher ^ (r >> 8)", fn.Pos(), how, "the decrypted byte is computed as "+ret[idx].String()+", the specification says "+want[0].String()+": "+how)
		got := ev.mem["s."+rF]
		ok, how = nring.agree(got, wantR, 16)
		c.check(ok, "CIPHER-SHAPE", fname, "r = (cipher + r)*c1 + c2 (cipher byte fed back)", fn.Pos(), how, "the cipher state update is "+got.String()+", the specification says "+wantR.String()+" (the ciphertext byte, not the plaintext, is fed back): "+how)
	}
	c.floor("CIPHER-SHAPE", 2)
}

// cipherWriterB decides the eexec stream writer through its io.WriteCloser methods: bytes are
// written (in one piece and across a full buffer), the writer is closed, and what reached the
// underlying writer and the state left behind are compared with the specification — one byte
// with symbolic state and plaintext for all values, and a concrete sequence that crosses a buffer
// boundary for the chaining.
func (c *Ctx) cipherWriterB() {
	wT := c.typeObj("type1", "eexecWriter")
	RF, bufF, posF, wF := c.fld("eexecWriter.R"), c.fld("eexecWriter.buf"), c.fld("eexecWriter.pos"), c.fld("eexecWriter.w")
	write, closeFn := c.method("type1", "eexecWriter", "Write"), c.method("type1", "eexecWriter", "Close")
	site := write
	if direct, _ := c.stateWritersB(wT, RF); len(direct) > 0 {
		site = direct[0]
	}
	fname := c.fname(site)
	run := func(r sv, data []sv, bufLen int) (written []sv, state sv, why string) {
		var ev *ssaEval
		ev = c.cipherEvalB(func(call ssa.CallInstruction, args []sv) (sv, bool) {
			if call != nil && call.Common().IsInvoke() && call.Common().Method.Name() == "Write" && len(args) == 2 {
				el, ok := ev.elems(args[1])
				if !ok {
					return sv{}, false
				}
				written = append(written, append([]sv{}, el...)...)
				return sv{k: svTuple, tup: []sv{intV(int64(len(el))), {k: svNil}}}, true
			}
			return sv{}, false
		})
		ev.load = func(ld *ssa.UnOp, addr sv) (sv, bool) { return symV("v:" + addr.s), true }
		ev.mem["ew."+RF] = r
		ev.mem["ew."+bufF] = ev.newList(intListB(make([]int64, bufLen)...))
		ev.mem["ew."+posF] = intV(0)
		ev.mem["ew."+wF] = symV("W")
		ret := ev.runFunc(write, []sv{{k: svAddr, s: "ew"}, ev.newList(data)})
		if ev.why != "" || len(ret) != 2 || ret[1].k != svNil || ret[0].k != svInt || ret[0].i != int64(len(data)) {
			return nil, sv{}, fmt.Sprintf("Write of %d bytes returns %v %s", len(data), ret, ev.why)
		}
		ret = ev.runFunc(closeFn, []sv{{k: svAddr, s: "ew"}})
		if ev.why != "" || len(ret) != 1 || ret[0].k != svNil {
			return nil, sv{}, fmt.Sprintf("Close returns %v %s", ret, ev.why)
		}
		return written, ev.mem["ew."+RF], ""
	}
	nring := &ringB{width: map[string]uint{"p0": 8, "r": 16}}
	// the size of the buffer: the rule's choice (four) where the writer allocates it, the declared
	// length where the buffer is a fixed-size array
	bufN := 4
	if st, ok := wT.Type().Underlying().(*types.Struct); ok {
		for i := 0; i < st.NumFields(); i++ {
			if at, ok := st.Field(i).Type().Underlying().(*types.Array); ok && st.Field(i).Name() == bufF && at.Len() > 0 && at.Len() <= 4096 {
				bufN = int(at.Len())
			}
		}
	}
	// one byte, for all values of the plaintext byte and the state
	{
		got, state, why := run(symV("r"), symListB("p", 1), bufN)
		want, wantR := cipherRefB(symListB("p", 1), symV("r"), false)
		bad := why
		if bad == "" {
			bad = nring.bytesAgreeB(got, want, "one byte written and the writer closed")
		}
		c.check(bad == "", "CIPHER-SHAPE", fname, "cipher = plain ^ (r >> 8)", site.Pos(), "Write + Close evaluated for symbolic state and byte", "the eexec writer: "+bad)
		ok, how := false, why
		if why == "" {
			ok, how = nring.agree(state, wantR, 16)
		}
		c.check(ok, "CIPHER-SHAPE", fname, "r = (cipher + r)*c1 + c2 (cipher byte fed back)", site.Pos(), how, "the eexec writer updates its state as "+state.String()+", the specification says "+wantR.String()+" (the ciphertext byte must be fed back): "+how)
	}
	// a sequence that fills the buffer once: every byte encrypted once, in order, state carried over
	{
		data := intListB(0x25, 0x21, 0, 0xff, 0x80, 0x41)
		for i := len(data); i < bufN+2; i++ {
			data = append(data, intV(int64((i*37+11)&0xff)))
		}
		got, state, why := run(intV(55665), data, bufN)
		want, wantR := cipherRefB(data, intV(55665), false)
		bad := why
		what := fmt.Sprintf("%d bytes through a buffer of %d", len(data), bufN)
		if bad == "" {
			bad = nring.bytesAgreeB(got, want, what)
		}
		if bad == "" && (state.k != svInt || state.i != wantR.i) {
			bad = "state after " + what + " is " + state.String() + ", expected " + wantR.String()
		}
		c.check(bad == "", "CIPHER-SHAPE", fname, "every buffered byte is encrypted once, in order, with the state carried across flushes", site.Pos(), "concrete bytes: "+what, "the eexec writer: "+bad)
	}
}

// cipherObfuscateB decides the charstring obfuscation: the function is evaluated on one lead
// byte and two plaintext bytes as symbols (all 2^24 values decided) and on a concrete sequence
// with four lead bytes.
func (c *Ctx) cipherObfuscateB() {
	fn := c.fn("type1", "obfuscateCharstring")
	fname := c.fname(fn)
	run := func(plain, iv []sv) ([]sv, string) {
		ev := c.cipherEvalB(nil)
		ev.load = func(ld *ssa.UnOp, addr sv) (sv, bool) { return symV("v:" + addr.s), true }
		ret := ev.runFunc(fn, []sv{ev.newList(plain), ev.newList(iv)})
		if ev.why != "" || len(ret) != 1 {
			return nil, "not evaluable: " + ev.why
		}
		el, ok := ev.elems(ret[0])
		if !ok {
			return nil, "the result is " + ev.render(ret[0])
		}
		return el, ""
	}
	nring := &ringB{width: map[string]uint{"i0": 8, "p0": 8, "p1": 8}}
	// the key: zeros in, the key stream out
	{
		zeros := intListB(0, 0, 0)
		got, why := run(zeros[:2], zeros[:1])
		want, _ := cipherRefB(zeros, intV(4330), false)
		if why == "" {
			why = nring.bytesAgreeB(got, want, "three zero bytes")
		}
		c.check(why == "", "CIPHER-CONST", fname, "charstring key = 4330", fn.Pos(), "key stream for zero input evaluated", "the charstring cipher does not start from the key 4330: "+why)
	}
	{
		in := append(symListB("i", 1), symListB("p", 2)...)
		got, why := run(in[1:], in[:1])
		want, _ := cipherRefB(in, intV(4330), false)
		if why == "" {
			why = nring.bytesAgreeB(got, want, "lead byte i0, plaintext p0 p1")
		}
		c.check(why == "", "CIPHER-SHAPE", fname, "cipher = plain ^ (r >> 8), r = (cipher + r)*c1 + c2 (cipher byte fed back), lead bytes first", fn.Pos(), "one lead byte and two plaintext bytes as symbols", "charstring obfuscation: "+why)
	}
	{
		iv := intListB(0x58, 0, 0, 0)
		plain := intListB(0x8b, 0xf7, 0x20, 0x0d, 0x0e)
		got, why := run(plain, iv)
		want, _ := cipherRefB(append(append([]sv{}, iv...), plain...), intV(4330), false)
		if why == "" {
			why = nring.bytesAgreeB(got, want, "four lead bytes and five plaintext bytes")
		}
		c.check(why == "", "CIPHER-SHAPE", fname, "every byte is encrypted once, in order, lead bytes included", fn.Pos(), "nine concrete bytes", "charstring obfuscation: "+why)
	}
}

// ---------------------------------------------------------------------------------------------
// 4. the eexec operator as a decision table

type eexecOutcomeB struct {
	ret       sv
	begun     int
	begunOn   string // the scanner on which decryption was started
	begunWith sv     // the argument of that call (the number of lead bytes asked for)
	ran       int
	runOn     string // the scanner handed to the nested run
	dictAtRun string
	dictAfter string
	modeAfter sv
	why       string
}

// eexecCellB evaluates the registered eexec operator for one cell of its table: starting
// decryption succeeds or fails, the nested run of the section returns nil (input exhausted),
// io.EOF (closefile), or another error, and the section leaves the dictionary stack one entry
// higher (an open `begin`), unchanged, or one entry lower (an extra `end`).  The operator, and
// whatever helpers it uses for the push, the clean-up and the mapping of the result, are
// evaluated in place; the operand stack holds the file operand, the dictionary stack two
// dictionaries, the scanner stack two scanners.
func (c *Ctx) eexecCellB(beginOK bool, result string, delta int) eexecOutcomeB {
	ia := c.interp()
	f := c.registry().op("systemdict", "eexec")
	scT := c.typeObj("postscript", "scanner")
	modeF := c.fld("scanner.eexec")
	var o eexecOutcomeB
	// a method of the scanner that switches decryption on (stores something other than the constant
	// zero to the mode field — a mode constant or a choice between mode constants —, itself or in a
	// scanner method it calls)
	var begins func(g *ssa.Function, depth int) bool
	begins = func(g *ssa.Function, depth int) bool {
		if g == nil || len(g.Blocks) == 0 || g.Signature.Recv() == nil || !pointsTo(g.Signature.Recv().Type(), scT) || depth > 3 {
			return false
		}
		found := false
		eachInstr(g, func(ins ssa.Instruction) {
			if st, ok := ins.(*ssa.Store); ok && isFieldAddr(st.Addr, scT, modeF) {
				if k, isC := constInt(st.Val); !isC || k != 0 {
					found = true
				}
			}
			if call, ok := ins.(ssa.CallInstruction); ok && !found {
				if begins(call.Common().StaticCallee(), depth+1) {
					found = true
				}
			}
		})
		return found
	}
	var ev *ssaEval
	dictKey := "intp.DictStack"
	ev = c.cipherEvalB(func(call ssa.CallInstruction, args []sv) (sv, bool) {
		if call == nil {
			return sv{}, false
		}
		sc := call.Common().StaticCallee()
		switch {
		case sc == ia.execScanner:
			o.ran++
			if len(args) == 2 {
				o.runOn = args[1].s
			}
			cur, _ := ev.elems(ev.mem[dictKey])
			o.dictAtRun = renderListB(cur)
			next := append([]sv{}, cur...)
			switch {
			case delta > 0:
				next = append(next, symV("Dict:opened"))
			case delta < 0 && len(next) > 0:
				next = next[:len(next)-1]
			}
			ev.mem[dictKey] = ev.newList(next)
			switch result {
			case "nil":
				return sv{k: svNil}, true
			case "EOF":
				return symV("EOF"), true
			}
			if strings.HasPrefix(result, "named:") {
				return symV(result[len("named:"):]), true
			}
			return symV("otherErr"), true
		case sc != nil && begins(sc, 0):
			o.begun++
			if len(args) > 0 {
				o.begunOn = args[0].s
			}
			if len(args) > 1 {
				o.begunWith = args[1]
			}
			if !beginOK {
				return symV("beginErr"), true
			}
			if len(args) > 0 {
				ev.mem[args[0].s+"."+modeF] = intV(1)
			}
			return sv{k: svNil}, true
		}
		return sv{}, false
	})
	ev.oracle = func(op token.Token, x, y sv) (bool, bool) {
		if x.k == svAddr || y.k == svAddr || x.k == svSym || y.k == svSym || x.k == svNil || y.k == svNil {
			eq := x.k == y.k && x.String() == y.String()
			switch op {
			case token.EQL:
				return eq, true
			case token.NEQ:
				return !eq, true
			}
		}
		return false, false
	}
	ev.load = func(ld *ssa.UnOp, addr sv) (sv, bool) {
		if addr.s == "global:io.EOF" {
			return symV("EOF"), true
		}
		if strings.HasPrefix(addr.s, "global:") {
			return symV(addr.s[strings.LastIndex(addr.s, ".")+1:]), true
		}
		return sv{}, false
	}
	ev.mem["intp.Stack"] = ev.newList([]sv{symV("Integer:keep"), {k: svNil}})
	ev.mem[dictKey] = ev.newList([]sv{symV("Dict:d0"), symV("Dict:d1")})
	ev.mem["intp.SystemDict"] = symV("Dict:systemdict")
	ev.mem["intp."+c.fld("intp.scanners")] = ev.newList([]sv{{k: svAddr, s: "scanner0"}, {k: svAddr, s: "scanner1"}})
	ev.mem["scanner0."+modeF] = intV(0)
	ev.mem["scanner1."+modeF] = intV(0)
	ret := ev.runFunc(f, []sv{{k: svAddr, s: "intp"}})
	o.why = ev.why
	if len(ret) == 1 {
		o.ret = ret[0]
	} else if o.why == "" {
		o.why = "no result"
	}
	cur, _ := ev.elems(ev.mem[dictKey])
	o.dictAfter = renderListB(cur)
	o.modeAfter = ev.mem["scanner1."+modeF]
	return o
}

// eexecOperatorTableB decides the eexec operator on the table of eexecCellB.  With c03 only the
// clause of C03 is reported (rule CTL-DICTSTACK): the dictionary stack that name lookup sees after
// the operator is the one from before it.
func (c *Ctx) eexecOperatorTableB(rule string, c03 bool) {
	f := c.registry().op("systemdict", "eexec")
	fname := c.fname(f)
	const before = "[Dict:d0 Dict:d1]"
	var badStack, badEnd, badRun []string
	for _, result := range []string{"nil", "EOF"} {
		for _, delta := range []int{0, 1, -1} {
			o := c.eexecCellB(true, result, delta)
			cell := fmt.Sprintf("section ended by %s, dictionary stack left %+d by the section", map[string]string{"nil": "the end of the input", "EOF": "closefile"}[result], delta)
			switch {
			case o.why != "":
				badStack = append(badStack, cell+": not evaluable ("+o.why+")")
			case o.ran != 1:
				badRun = append(badRun, fmt.Sprintf("%s: the section is run %d times", cell, o.ran))
			case o.ret.k != svNil:
				badRun = append(badRun, cell+": eexec returns "+o.ret.String()+", expected normal completion")
			default:
				if o.dictAfter != before {
					badStack = append(badStack, fmt.Sprintf("%s: the dictionary stack is %s afterwards, it was %s before eexec", cell, o.dictAfter, before))
				}
				if o.modeAfter.k != svInt || o.modeAfter.i != 0 {
					badEnd = append(badEnd, cell+": decryption is still switched on when eexec completes")
				}
			}
		}
	}
	if c03 {
		bad := append(badStack, badRun...)
		c.check(len(bad) == 0, rule, fname, "after eexec the dictionary stack is the one from before it, however the section ends", f.Pos(), "2 ways to end the section × 3 dictionary stack heights evaluated",
			"names are looked up through a changed dictionary stack after an eexec section: "+joinMax(bad, 2))
		return
	}
	bad := append(append(badStack, badEnd...), badRun...)
	c.check(len(bad) == 0, rule, fname, "on normal completion: decryption ended, dictionary stack restored to the captured length", f.Pos(), "2 ways to end the section × 3 dictionary stack heights evaluated", joinMax(bad, 2))
	// what the section runs with
	o := c.eexecCellB(true, "nil", 0)
	c.check(o.why == "" && o.dictAtRun == "[Dict:d0 Dict:d1 Dict:systemdict]", rule, fname, "systemdict pushed on the dictionary stack", f.Pos(), "dictionary stack during the section: "+o.dictAtRun, "eexec runs the section with the dictionary stack "+o.dictAtRun+", expected systemdict on top of the previous stack "+o.why)
	c.check(o.why == "" && o.begun == 1 && o.begunOn == "scanner1" && o.runOn == "scanner1", rule, fname, "the section is read from the decrypting scanner on top of the scanner stack", f.Pos(), "scanner handed to the nested run", fmt.Sprintf("decryption is started %d time(s) on %q and the section is run on %q, expected the scanner on top of the scanner stack %s", o.begun, o.begunOn, o.runOn, o.why))
	// errors are errors
	oe := c.eexecCellB(true, "other", 1)
	badErr := ""
	if !(oe.why == "" && oe.ret.known() && oe.ret.k != svNil) {
		badErr = "an error of the section gives " + oe.ret.String() + " " + oe.why
	}
	// every error value the operator (or a helper of it) knows by name, io.EOF excepted
	named := map[string]bool{}
	var scan func(g *ssa.Function, depth int)
	scan = func(g *ssa.Function, depth int) {
		if g == nil || len(g.Blocks) == 0 || !c.inModule(g) || depth > 2 || g == c.interp().execScanner {
			return
		}
		eachInstr(g, func(ins ssa.Instruction) {
			if ld, ok := ins.(*ssa.UnOp); ok && ld.Op == token.MUL {
				if gl, ok := ld.X.(*ssa.Global); ok && ld.Type().String() == "error" && gl.String() != "io.EOF" {
					named[gl.String()[strings.LastIndex(gl.String(), ".")+1:]] = true
				}
			}
			if call, ok := ins.(ssa.CallInstruction); ok {
				scan(call.Common().StaticCallee(), depth+1)
			}
		})
	}
	scan(f, 0)
	var names []string
	for nm := range named {
		names = append(names, nm)
	}
	sort.Strings(names)
	for _, nm := range names {
		if on := c.eexecCellB(true, "named:"+nm, 0); !(on.why == "" && on.ret.known() && on.ret.k != svNil) {
			badErr = "the error " + nm + " of the section gives " + on.ret.String() + " " + on.why
		}
	}
	c.check(badErr == "", rule, fname, "only io.EOF is treated as the end of the section", f.Pos(), fmt.Sprintf("an error of the section is passed on (%d named error values tried)", len(names)), "eexec treats an error other than io.EOF as normal completion: "+badErr)
	ob := c.eexecCellB(false, "nil", 0)
	c.check(ob.why == "" && ob.ret.known() && ob.ret.k != svNil && ob.ran == 0, rule, fname, "a section whose decryption cannot be started is not run", f.Pos(), "error of the start passed on", fmt.Sprintf("when starting decryption fails eexec returns %s and runs the section %d time(s) %s", ob.ret, ob.ran, ob.why))
}

// dictStackDisciplineB (C03): name lookup goes through Interpreter.DictStack, so what the
// program built with begin / end must be what every later lookup sees.  (a) The dictionary
// stack is written only by the operators begin, end (cleardictstack, setdictstack if they
// exist), by eexec for the duration of the section, and by helpers reached from these only;
// (b) eexec leaves it as it found it, however the section ends (table of eexecCellB).
func (c *Ctx) dictStackDisciplineB() {
	ia := c.interp()
	reg := c.registry()
	allowed := map[*ssa.Function]bool{}
	for _, e := range reg.builtins() {
		switch e.key {
		case "begin", "end", "cleardictstack", "setdictstack", "eexec":
			allowed[e.fn] = true
		}
	}
	freshBase := func(a ssa.Value) bool {
		base, _, ok := fieldAddrOf(a)
		if !ok {
			return false
		}
		_, isAlloc := base.(*ssa.Alloc)
		return isAlloc
	}
	var writers []*ssa.Function
	for _, f := range c.modFuncs {
		has := false
		eachInstr(f, func(ins ssa.Instruction) {
			if st, ok := ins.(*ssa.Store); ok && isFieldAddr(st.Addr, ia.T, "DictStack") && !freshBase(st.Addr) {
				has = true
			}
		})
		if has {
			writers = append(writers, f)
		}
	}
	cgr := c.callgraph()
	var ok func(f *ssa.Function, depth int) bool
	ok = func(f *ssa.Function, depth int) bool {
		if allowed[f] {
			return true
		}
		n := cgr.Nodes[f]
		if n == nil || len(n.In) == 0 || depth > 4 {
			return false
		}
		for _, e := range n.In {
			if !ok(e.Caller.Func, depth+1) {
				return false
			}
		}
		return true
	}
	n := 0
	for _, f := range writers {
		n++
		c.check(ok(f, 0), "CTL-DICTSTACK", c.fname(f), "the dictionary stack is changed by begin, end and (temporarily) eexec only", f.Pos(), "writer of Interpreter.DictStack reached from these operators only",
			c.fname(f)+" changes the dictionary stack but is neither begin, end nor eexec (nor a helper of these): names are resolved through a stack the program did not build")
	}
	c.eexecOperatorTableB("CTL-DICTSTACK", true)
	c.floor("CTL-DICTSTACK", 2)
}

// ---------------------------------------------------------------------------------------------
// 5. value sources

// valueSourcesB: the values from which v can be computed — followed through phis, conversions,
// type assertions, arithmetic, local cells (also cells captured by closures), struct fields (the
// stores into the same field anywhere in the module), parameters and results of module functions.
// Calls are followed with their context: a result is traced into the callee, and a parameter
// reached there is the argument of that very call (a generic `get(dict, key, default)` helper yields
// the look-up of the key given at the call, not of every key it is ever called with); a parameter
// reached without a context is any argument at any static call site.  The leaves are constants,
// map look-ups (with the key as far as it is a constant in the context), and whatever is not
// followed.
type leafB struct {
	v   ssa.Value
	key string // for a map look-up: the constant key, "" if it is not a constant
}

type ctxB struct {
	call   ssa.CallInstruction
	parent *ctxB
	depth  int
}

func paramIndexB(p *ssa.Parameter) int {
	for i, q := range p.Parent().Params {
		if q == p {
			return i
		}
	}
	return -1
}

// cellStoresB: the values stored into a local cell, by the function that owns it and by the
// closures that capture it.
func cellStoresB(cell ssa.Value, depth int) []ssa.Value {
	var out []ssa.Value
	refs := cell.Referrers()
	if refs == nil || depth > 3 {
		return nil
	}
	for _, r := range *refs {
		switch x := r.(type) {
		case *ssa.Store:
			if x.Addr == cell {
				out = append(out, x.Val)
			}
		case *ssa.MakeClosure:
			if fn, ok := x.Fn.(*ssa.Function); ok {
				for i, b := range x.Bindings {
					if b == cell && i < len(fn.FreeVars) {
						out = append(out, cellStoresB(fn.FreeVars[i], depth+1)...)
					}
				}
			}
		}
	}
	return out
}

// bindingsOfB: the values bound to a free variable where its closure is made.
func bindingsOfB(fv *ssa.FreeVar) []ssa.Value {
	fn := fv.Parent()
	idx := -1
	for i, q := range fn.FreeVars {
		if q == fv {
			idx = i
		}
	}
	var out []ssa.Value
	if fn.Parent() == nil || idx < 0 {
		return nil
	}
	eachInstr(fn.Parent(), func(ins ssa.Instruction) {
		if mc, ok := ins.(*ssa.MakeClosure); ok && mc.Fn == ssa.Value(fn) && idx < len(mc.Bindings) {
			out = append(out, mc.Bindings[idx])
		}
	})
	return out
}

func (c *Ctx) valueSourcesB(v ssa.Value) []leafB {
	type key struct {
		v   ssa.Value
		ctx *ctxB
	}
	seen := map[key]bool{}
	ctxs := map[key]*ctxB{} // (call, parent) → node, so that equal contexts are the same node
	push := func(call ssa.CallInstruction, parent *ctxB) *ctxB {
		k := key{call.Value(), parent}
		if n, ok := ctxs[k]; ok {
			return n
		}
		d := 1
		if parent != nil {
			d = parent.depth + 1
		}
		n := &ctxB{call: call, parent: parent, depth: d}
		ctxs[k] = n
		return n
	}
	var leaves []leafB
	leaf := func(v ssa.Value) { leaves = append(leaves, leafB{v: v}) }
	// constant string in the context (the key of a look-up)
	var constStr func(v ssa.Value, ctx *ctxB, depth int) string
	constStr = func(v ssa.Value, ctx *ctxB, depth int) string {
		if depth > 8 {
			return ""
		}
		switch x := v.(type) {
		case *ssa.Const:
			if x.Value != nil && x.Value.Kind() == constant.String {
				return constant.StringVal(x.Value)
			}
		case *ssa.Convert:
			return constStr(x.X, ctx, depth+1)
		case *ssa.ChangeType:
			return constStr(x.X, ctx, depth+1)
		case *ssa.Parameter:
			if idx := paramIndexB(x); ctx != nil && ctx.call.Common().StaticCallee() == x.Parent() && idx >= 0 && idx < len(ctx.call.Common().Args) {
				return constStr(ctx.call.Common().Args[idx], ctx.parent, depth+1)
			}
		}
		return ""
	}
	var walk func(v ssa.Value, ctx *ctxB, depth int)
	intoCallee := func(call *ssa.Call, resIdx int, ctx *ctxB, depth int) bool {
		g := call.Call.StaticCallee()
		if g == nil || !c.inModule(g) || len(g.Blocks) == 0 || (ctx != nil && ctx.depth > 6) {
			return false
		}
		sub := push(call, ctx)
		for _, r := range returns(g) {
			if resIdx < len(r.Results) {
				walk(r.Results[resIdx], sub, depth+1)
			}
		}
		return true
	}
	walk = func(v ssa.Value, ctx *ctxB, depth int) {
		if v == nil || seen[key{v, ctx}] {
			return
		}
		seen[key{v, ctx}] = true
		if depth > 24 {
			leaf(v)
			return
		}
		switch x := v.(type) {
		case *ssa.Phi:
			for _, e := range x.Edges {
				walk(e, ctx, depth+1)
			}
		case *ssa.Convert:
			walk(x.X, ctx, depth+1)
		case *ssa.ChangeType:
			walk(x.X, ctx, depth+1)
		case *ssa.MakeInterface:
			walk(x.X, ctx, depth+1)
		case *ssa.ChangeInterface:
			walk(x.X, ctx, depth+1)
		case *ssa.TypeAssert:
			walk(x.X, ctx, depth+1)
		case *ssa.Extract:
			switch t := x.Tuple.(type) {
			case *ssa.TypeAssert:
				if x.Index == 0 {
					walk(t.X, ctx, depth+1)
					return
				}
			case *ssa.Lookup:
				if x.Index == 0 {
					walk(t, ctx, depth+1)
					return
				}
			case *ssa.Call:
				if intoCallee(t, x.Index, ctx, depth) {
					return
				}
			}
			leaf(v)
		case *ssa.BinOp:
			walk(x.X, ctx, depth+1)
			walk(x.Y, ctx, depth+1)
		case *ssa.UnOp:
			if x.Op != token.MUL {
				walk(x.X, ctx, depth+1)
				return
			}
			// a load: the cell (local, or a local of the enclosing function captured by reference)
			cells := []ssa.Value{x.X}
			if fv, ok := x.X.(*ssa.FreeVar); ok {
				cells = bindingsOfB(fv)
				if len(cells) == 0 {
					leaf(v)
					return
				}
			}
			for _, cell := range cells {
				switch a := cell.(type) {
				case *ssa.Alloc:
					for _, sv := range cellStoresB(a, 0) {
						// the stores of the enclosing function are not made in the callee's context
						sctx := ctx
						if cell != x.X {
							sctx = nil
						}
						walk(sv, sctx, depth+1)
					}
				case *ssa.FieldAddr:
					_, fld, ok := fieldAddrOf(a)
					if !ok {
						leaf(v)
						continue
					}
					n := 0
					for _, f := range c.modFuncs {
						eachInstr(f, func(ins ssa.Instruction) {
							if st, ok := ins.(*ssa.Store); ok {
								if _, f2, ok := fieldAddrOf(st.Addr); ok && f2 == fld {
									n++
									walk(st.Val, nil, depth+1)
								}
							}
						})
					}
					if n == 0 {
						leaf(v)
					}
				default:
					leaf(v)
				}
			}
		case *ssa.FreeVar:
			bs := bindingsOfB(x)
			for _, b := range bs {
				walk(b, nil, depth+1)
			}
			if len(bs) == 0 {
				leaf(v)
			}
		case *ssa.Parameter:
			fn := x.Parent()
			idx := paramIndexB(x)
			if ctx != nil && ctx.call.Common().StaticCallee() == fn && idx >= 0 && idx < len(ctx.call.Common().Args) {
				walk(ctx.call.Common().Args[idx], ctx.parent, depth+1)
				return
			}
			n := 0
			for _, g := range c.modFuncs {
				for _, call := range staticCalls(g, fn) {
					if idx >= 0 && idx < len(call.Common().Args) {
						n++
						walk(call.Common().Args[idx], nil, depth+1)
					}
				}
			}
			if n == 0 {
				leaf(v)
			}
		case *ssa.Call:
			if b, ok := x.Call.Value.(*ssa.Builtin); ok && (b.Name() == "min" || b.Name() == "max") {
				for _, a := range x.Call.Args {
					walk(a, ctx, depth+1)
				}
				return
			}
			if intoCallee(x, 0, ctx, depth) {
				return
			}
			leaf(v)
		case *ssa.Lookup:
			leaves = append(leaves, leafB{v: x, key: constStr(x.Index, ctx, 0)})
		default:
			leaf(v)
		}
	}
	walk(v, nil, 0)
	return leaves
}

// constSourcesB: the numeric constants among the value sources of v (valueSourcesB), sorted and
// without duplicates — a context-sensitive drop-in for constSources of rules_c06.go: a default that
// is handed to a generic `get(dict, key, default)` helper is found, and only the default of that
// very call.
func (c *Ctx) constSourcesB(v ssa.Value) []float64 {
	set := map[float64]bool{}
	for _, l := range c.valueSourcesB(v) {
		if k, ok := l.v.(*ssa.Const); ok && k.Value != nil && (k.Value.Kind() == constant.Int || k.Value.Kind() == constant.Float) {
			f, _ := constant.Float64Val(constant.ToFloat(k.Value))
			set[f] = true
		}
	}
	var out []float64
	for f := range set {
		out = append(out, f)
	}
	sort.Float64s(out)
	return out
}

// fromDictEntryB: the entry `key` of a dictionary is among the value sources of v.
func (c *Ctx) fromDictEntryB(v ssa.Value, key string) (found bool, consts []string) {
	for _, l := range c.valueSourcesB(v) {
		switch x := l.v.(type) {
		case *ssa.Lookup:
			if l.key == key {
				found = true
			}
		case *ssa.Const:
			if x.Value != nil {
				consts = append(consts, x.Value.String())
			}
		}
	}
	sort.Strings(consts)
	return
}

// lenIVFlowB (C06): every charstring decryption — glyph procedures and subroutines alike — takes
// its number of lead bytes from the font: the entry lenIV of the Private dictionary where there
// is one, 4 otherwise.  Decided per call of the decryption function on the value sources of the
// lead-byte argument.
func (c *Ctx) lenIVFlowB() {
	deob := c.fn("type1", "deobfuscateCharstring")
	n := 0
	for _, f := range c.modFuncs {
		for _, call := range staticCalls(f, deob) {
			if len(call.Common().Args) < 2 {
				continue
			}
			n++
			fromFont, consts := c.fromDictEntryB(call.Common().Args[1], "lenIV")
			c.check(fromFont, "T1-LENIV", c.fname(f), "the number of lead bytes of this decryption is the font's lenIV where it has one", call.Pos(), "entry lenIV of a dictionary among the sources of the argument",
				fmt.Sprintf("the lenIV entry of the font cannot reach the number of lead bytes used here (sources: constants %v): charstrings or subroutines of a font with lenIV other than the default are decrypted with the wrong number of lead bytes", consts))
		}
	}
	c.floor("T1-LENIV", 2)
}

// ---------------------------------------------------------------------------------------------
// 6. the subroutines of a font (T1-SUBRS of C06)

// flowsToSubrListB follows the result of a call forward — through conversions, the argument cell
// of a variadic append, phis, parameters of module functions it is handed to, and returns to the
// callers — to the instruction that makes it an element of a [][]byte (an append, or a store into
// an element of one).
func (c *Ctx) flowsToSubrListB(v ssa.Value, consumer *ssa.Function) ssa.Instruction {
	seen := map[ssa.Value]bool{}
	var found ssa.Instruction
	var fwd func(v ssa.Value, depth int)
	fwd = func(v ssa.Value, depth int) {
		if v == nil || seen[v] || depth > 12 || found != nil {
			return
		}
		seen[v] = true
		refs := v.Referrers()
		if refs == nil {
			return
		}
		for _, r := range *refs {
			if found != nil {
				return
			}
			switch x := r.(type) {
			case *ssa.Store:
				if x.Val == v {
					switch a := x.Addr.(type) {
					case *ssa.IndexAddr:
						if isByteSliceSlice(a.X.Type()) {
							found = x
							return
						}
						fwd(a.X, depth+1)
					case *ssa.Alloc:
						fwd(a, depth+1)
					}
				}
			case *ssa.UnOp:
				if x.Op == token.MUL {
					fwd(x, depth+1)
				}
			case *ssa.Slice, *ssa.ChangeType, *ssa.Convert, *ssa.Phi, *ssa.MakeInterface, *ssa.Extract:
				fwd(r.(ssa.Value), depth+1)
			case *ssa.Return:
				fn := x.Parent()
				for _, g := range c.modFuncs {
					for _, call := range staticCalls(g, fn) {
						if cv := call.Value(); cv != nil {
							fwd(cv, depth+1)
						}
					}
				}
			case *ssa.Call:
				if b, ok := x.Call.Value.(*ssa.Builtin); ok {
					if b.Name() == "append" && isByteSliceSlice(x.Type()) {
						found = x
						return
					}
					continue
				}
				// (the decoder consumes charstrings; its [][]byte is the list of return frames)
				if g := x.Call.StaticCallee(); g != nil && c.inModule(g) && len(g.Blocks) > 0 && g != consumer && g.Parent() != consumer {
					for i, a := range x.Call.Args {
						if a == v && i < len(g.Params) {
							fwd(g.Params[i], depth+1)
						}
					}
				}
			}
		}
	}
	fwd(v, 0)
	return found
}

// innermostLoopB: the header of the innermost loop of its function that contains block b.
func innermostLoopB(b *ssa.BasicBlock) *ssa.BasicBlock {
	var H *ssa.BasicBlock
	for _, h := range b.Parent().Blocks {
		isHeader := false
		for _, p := range h.Preds {
			if h.Dominates(p) {
				isHeader = true
			}
		}
		if !isHeader || !h.Dominates(b) || !reachesBlock(b, h) {
			continue
		}
		// b is in the loop of h if it reaches h without leaving the blocks h dominates
		in := false
		seen := map[*ssa.BasicBlock]bool{}
		st := []*ssa.BasicBlock{b}
		for len(st) > 0 && !in {
			q := st[len(st)-1]
			st = st[:len(st)-1]
			if seen[q] || !h.Dominates(q) {
				continue
			}
			seen[q] = true
			for _, s := range q.Succs {
				if s == h {
					in = true
				}
				st = append(st, s)
			}
		}
		if in && (H == nil || H.Dominates(h)) {
			H = h
		}
	}
	return H
}

func isNamedB(t types.Type, pkgSuffix, name string) bool {
	n, ok := t.(*types.Named)
	return ok && n.Obj().Name() == name && n.Obj().Pkg() != nil && strings.HasSuffix(n.Obj().Pkg().Path(), pkgSuffix)
}

// subrsTableB (C06): the subroutines of the font are the entries of the Subrs array, one for one:
// entry i, a string of any length, becomes subroutine i = its decryption with the font's lenIV (a
// subroutine may be as short as the single command `return`, so with lenIV 0 one byte is a
// complete entry); an entry that is not a string leaves an empty subroutine in its place.  Decided
// on the evaluator: the code that handles one entry — one pass of the loop that puts the result of
// the decryption into the list of subroutines, or the function doing so — is evaluated for
// entries of 0 … 7 concrete bytes × lenIV 0, 1, 4 and for an entry that is not a string; the
// decryption itself is evaluated in place, so a length guard that agrees with it is the same thing.
func (c *Ctx) subrsTableB() {
	const rule = "T1-SUBRS"
	deob := c.fn("type1", "deobfuscateCharstring")
	dec := c.method("type1", "decodeInfo", "decodeCharString")
	type regionB struct {
		at ssa.Instruction // where the decrypted entry joins the subroutines
		H  *ssa.BasicBlock // loop header, nil: the whole function
		fn *ssa.Function
	}
	var regions []regionB
	for _, f := range c.modFuncs {
		if f == dec || f.Parent() == dec {
			continue
		}
		for _, call := range staticCalls(f, deob) {
			cv := call.Value()
			if cv == nil {
				continue
			}
			at := c.flowsToSubrListB(cv, dec)
			if at == nil {
				continue
			}
			r := regionB{at: at, fn: at.Parent(), H: innermostLoopB(at.Block())}
			dup := false
			for _, q := range regions {
				if q.fn == r.fn && q.H == r.H {
					dup = true
				}
			}
			if !dup {
				regions = append(regions, r)
			}
		}
	}
	if len(regions) == 0 {
		c.fail(rule, c.fname(deob), "the decrypted entries of Subrs become the subroutines of the font", deob.Pos(), "no result of the charstring decryption is put into a list of subroutines")
	}
	for _, r := range regions {
		r := r
		fname := c.fname(r.fn)
		inRegion := func(b *ssa.BasicBlock) bool {
			if b.Parent() != r.fn {
				return true
			}
			if r.H == nil {
				return true
			}
			return r.H.Dominates(b) && reachesBlock(b, r.H)
		}
		// indexedStyle: a string entry was stored into the element of its own index (then an entry
		// of another type may leave its element as it is)
		indexed := false
		// one entry: bytes (a string entry) or nil (an entry of another type), with the font's lenIV n
		cell := func(entry []int64, isString bool, n int64) (got []sv, why string) {
			var ev *ssaEval
			var E sv
			ev = c.cipherEvalB(func(call ssa.CallInstruction, args []sv) (sv, bool) {
				if call == nil && len(args) == 2 && strings.HasPrefix(args[0].s, "typeassert:") {
					if strings.HasSuffix(args[0].s, "postscript.String") && args[1].k == svList {
						return sv{k: svTuple, tup: []sv{args[1], boolV(true)}}, true
					}
					return sv{k: svTuple, tup: []sv{{k: svNil}, boolV(false)}}, true
				}
				return sv{}, false
			})
			if isString {
				E = ev.newList(intListB(entry...))
			} else {
				E = symV("Integer:entry")
			}
			lenIVCache := map[ssa.Value]bool{}
			isLenIV := func(v ssa.Value) bool {
				if r, ok := lenIVCache[v]; ok {
					return r
				}
				ok, _ := c.fromDictEntryB(v, "lenIV")
				lenIVCache[v] = ok
				return ok
			}
			byType := func(v ssa.Value) (sv, bool) {
				t := v.Type()
				switch {
				case isNamedB(t, "go/postscript", "Object"):
					return E, true
				case isNamedB(t, "go/postscript", "String") && isString:
					return E, true
				case isByteSliceSlice(t):
					return ev.newList([]sv{symV("prev")}), true
				case isNamedB(t, "go/postscript", "Integer") || isIntTypeB(t):
					if isLenIV(v) {
						return intV(n), true
					}
				}
				return sv{}, false
			}
			ev.load = func(ld *ssa.UnOp, addr sv) (sv, bool) {
				if strings.HasPrefix(addr.s, "global:") {
					return symV(addr.s[strings.LastIndex(addr.s, ".")+1:]), true
				}
				return byType(ld)
			}
			fr := &frame{vals: map[ssa.Value]sv{}}
			// what the code of the entry takes from outside: by type, and the font's lenIV by its source
			for _, b := range r.fn.Blocks {
				if !inRegion(b) {
					continue
				}
				for _, ins := range b.Instrs {
					for _, op := range ins.Operands(nil) {
						v := *op
						if v == nil {
							continue
						}
						if p, ok := v.(*ssa.Parameter); ok && r.H != nil && p.Parent() == r.fn {
							// the loop lives in a helper: what it takes from outside arrives as a parameter
							if _, done := ev.bind[v]; !done {
								if x, ok := byType(v); ok {
									ev.bind[v] = x
								}
							}
						}
						if oi, ok := v.(ssa.Instruction); ok && r.H != nil && oi.Parent() == r.fn && !inRegion(oi.Block()) {
							if _, done := ev.bind[v]; !done {
								if x, ok := byType(v); ok {
									ev.bind[v] = x
								}
							}
						}
					}
				}
			}
			var ret []sv
			back := false
			if r.H != nil {
				for _, ins := range r.H.Instrs {
					if phi, ok := ins.(*ssa.Phi); ok {
						if x, ok := byType(phi); ok {
							fr.vals[phi] = x
						} else {
							fr.vals[phi] = symV("v:" + phi.Name())
						}
					}
				}
				if ifi, ok := r.H.Instrs[len(r.H.Instrs)-1].(*ssa.If); ok {
					ev.bind[ifi.Cond] = boolV(reachesBlock(r.H.Succs[0], r.H) && r.H.Dominates(r.H.Succs[0]) && inRegion(r.H.Succs[0]))
				}
				_, _, ret = ev.runBlocks(fr, r.H, nil, func(next, from *ssa.BasicBlock) bool {
					if next == r.H {
						back = true
					}
					return next == r.H
				})
			} else {
				var args []sv
				for _, p := range r.fn.Params {
					if x, ok := byType(p); ok {
						args = append(args, x)
					} else if _, isPtr := p.Type().Underlying().(*types.Pointer); isPtr {
						args = append(args, sv{k: svAddr, s: "arg:" + p.Name()})
					} else {
						args = append(args, symV("arg:"+p.Name()))
					}
				}
				for _, fv := range r.fn.FreeVars {
					fr.vals[fv] = sv{k: svAddr, s: "free:" + fv.Name()}
				}
				for i, p := range r.fn.Params {
					fr.vals[p] = args[i]
				}
				_, _, ret = ev.runBlocks(fr, r.fn.Blocks[0], nil, nil)
				for _, ef := range ev.effects {
					if ef.what == "return" {
						// the entry is dealt with when the function returns without an error
						back = len(ret) == 0 || !isErrorTypeB(r.fn.Signature.Results().At(len(ret)-1).Type()) || ret[len(ret)-1].k == svNil
					}
				}
			}
			if ev.why != "" {
				return nil, "not evaluable: " + ev.why
			}
			if !back {
				return nil, fmt.Sprintf("the entry ends the reading of the subroutines (result %v)", ret)
			}
			var added [][]sv
			for _, ef := range ev.effects {
				switch {
				case ef.what == "append" && len(ef.args) == 3:
					if call, ok := ef.ins.(*ssa.Call); ok && isByteSliceSlice(call.Type()) {
						el, _ := ev.elems(ef.args[1])
						for _, x := range el {
							xe, ok := ev.elems(x)
							if !ok {
								return nil, "a subroutine is " + ev.render(x)
							}
							added = append(added, append([]sv{}, xe...))
						}
					}
				case ef.what == "store":
					// subrs[i] = …: the element of the entry's own index
					if st, ok := ef.ins.(*ssa.Store); ok {
						if ia, ok := st.Addr.(*ssa.IndexAddr); ok && isByteSliceSlice(ia.X.Type()) {
							if !entryIndexB(r.fn, ia.Index) {
								return nil, "a subroutine is stored at an index that is not the index of its entry"
							}
							indexed = true
							xe, ok := ev.elems(ef.args[0])
							if !ok {
								return nil, "a subroutine is " + ev.render(ef.args[0])
							}
							added = append(added, append([]sv{}, xe...))
						}
					}
				case ef.what == "panic":
					return nil, "the entry makes the reader panic"
				}
			}
			if len(added) == 0 {
				// (stored by index, nothing stored leaves an empty subroutine: decided by the caller)
				return nil, "nothing"
			}
			if len(added) != 1 {
				return nil, fmt.Sprintf("%d subroutines are added for one entry", len(added))
			}
			return added[0], ""
		}
		nring := &ringB{width: map[string]uint{}}
		type cellResB struct {
			what string
			got  []sv
			want []sv
			why  string
		}
		var cells []cellResB
		for _, n := range []int64{0, 1, 4} {
			for L := 0; L <= 7; L++ {
				entry := []int64{0x10, 0xbf, 0x31, 0x70, 0x4f, 0xab, 0x5b}[:L]
				got, why := cell(entry, true, n)
				var want []sv
				if int64(L) >= n {
					ref, _ := cipherRefB(intListB(entry...), intV(4330), true)
					want = ref[n:]
				}
				cells = append(cells, cellResB{fmt.Sprintf("an entry of %d byte(s) in a font with lenIV %d", L, n), got, want, why})
			}
		}
		{
			got, why := cell(nil, false, 4)
			cells = append(cells, cellResB{"an entry that is not a string", got, nil, why})
		}
		var bad []string
		ncell := len(cells)
		for _, cl := range cells {
			why := cl.why
			if why == "nothing" {
				// where subroutines are stored by the index of their entry, storing nothing leaves
				// an empty subroutine in the entry's place
				why = ""
				if !indexed {
					why = "no subroutine is added for the entry"
				}
			}
			if why == "" {
				why = nring.bytesAgreeB(cl.got, cl.want, "the subroutine")
			}
			if why != "" {
				bad = append(bad, cl.what+": "+why)
			}
		}
		c.check(len(bad) == 0, rule, fname, "entry i of Subrs, whatever its length, becomes subroutine i: its decryption with the font's lenIV", r.at.Pos(), fmt.Sprintf("%d cells evaluated: entries of 0..7 bytes × lenIV 0, 1, 4; an entry of another type", ncell),
			"the subroutines of the font are not the decrypted entries of its Subrs array: "+joinMax(bad, 3)+": a glyph that calls such a subroutine loses the path segment it holds")
	}
	c.floor(rule, 1)
}

func isErrorTypeB(t types.Type) bool { return types.TypeString(t, nil) == "error" }

// entryIndexB: idx is the index with which fn takes an entry out of an array of objects.
func entryIndexB(fn *ssa.Function, idx ssa.Value) bool {
	hit := false
	isObjs := func(t types.Type) bool {
		sl, ok := t.Underlying().(*types.Slice)
		return ok && isNamedB(sl.Elem(), "go/postscript", "Object")
	}
	eachInstr(fn, func(ins ssa.Instruction) {
		switch x := ins.(type) {
		case *ssa.IndexAddr:
			if isObjs(x.X.Type()) && origin(x.Index) == origin(idx) {
				hit = true
			}
		case *ssa.Index:
			if isObjs(x.X.Type()) && origin(x.Index) == origin(idx) {
				hit = true
			}
		}
	})
	return hit
}

func isIntTypeB(t types.Type) bool {
	b, ok := t.Underlying().(*types.Basic)
	return ok && b.Info()&types.IsInteger != 0
}
