package main

import (
	"fmt"
	"go/constant"
	"go/token"
	"go/types"
	"math/bits"
	"sort"
	"strings"

	"golang.org/x/tools/go/ssa"
)

// Extensions of worker B.
//
//   1. evaluator: function values and closures passed as arguments are called in place; the pure
//      search helpers of package slices are evaluated in place (so a hand-written search loop and
//      slices.ContainsFunc with an extracted predicate are the same thing);
//   2. ringNF: normal form of integer terms (polynomials over Z/2^w, narrowing distributed over
//      ring and bit operations) and exhaustive comparison of two terms over byte/word symbols;
//   3. the cipher step rules (CIPHER-SHAPE of C05/C08/C06) decided on the evaluator;
//   4. the eexec operator as a decision table (EEXEC-OP of C05, CTL-DICTSTACK of C03);
//   5. value sources (T1-LENIV of C06).

// ---------------------------------------------------------------------------------------------
// 1. function values

type evalExtB struct {
	funcs    map[string]*ssa.Function
	closures map[string]closureB
}

type closureB struct {
	fn   *ssa.Function
	free []sv
}

func (e *ssaEval) ext() *evalExtB {
	if e.xb == nil {
		e.xb = &evalExtB{funcs: map[string]*ssa.Function{}, closures: map[string]closureB{}}
	}
	return e.xb
}

func (e *ssaEval) noteFunc(fn *ssa.Function) { e.ext().funcs["func:"+fn.String()] = fn }

func (e *ssaEval) noteClosure(fr *frame, ins ssa.Instruction, name string) {
	mc, ok := ins.(*ssa.MakeClosure)
	if !ok {
		return
	}
	fn, ok := mc.Fn.(*ssa.Function)
	if !ok {
		return
	}
	cl := closureB{fn: fn}
	for _, b := range mc.Bindings {
		cl.free = append(cl.free, e.val(fr, b))
	}
	e.ext().closures[name] = cl
}

// calleeOf: the function a call runs — the static callee, or the function / closure value that the
// evaluation has bound to the called operand (a predicate handed to a helper).
func (e *ssaEval) calleeOf(fr *frame, x *ssa.Call) (*ssa.Function, []sv) {
	if fn := x.Call.StaticCallee(); fn != nil {
		return fn, nil
	}
	if x.Call.IsInvoke() {
		return nil, nil
	}
	v := e.val(fr, x.Call.Value)
	if v.k != svSym || e.xb == nil {
		return nil, nil
	}
	if fn, ok := e.xb.funcs[v.s]; ok {
		return fn, nil
	}
	if cl, ok := e.xb.closures[v.s]; ok {
		return cl.fn, cl.free
	}
	return nil, nil
}

// pureStdHelper: library functions that only search / compare their arguments and call the
// predicate they are given; evaluating their bodies in place has no effect to record.
func pureStdHelper(fn *ssa.Function) bool {
	if o := fn.Origin(); o != nil {
		fn = o
	}
	if fn.Pkg == nil || fn.Object() == nil {
		return false
	}
	switch fn.Pkg.Pkg.Path() {
	case "slices":
		switch fn.Object().Name() {
		case "Contains", "ContainsFunc", "Index", "IndexFunc", "Equal":
			return true
		}
	}
	return false
}

// ---------------------------------------------------------------------------------------------
// 2. normal form of integer terms; exhaustive comparison

// ringB normalises the integer terms of the evaluator.  A term is read as a polynomial over
// Z/2^w in its *atoms* (symbols and sub-terms that are not ring operations); + - * neg and
// shifts to the left are expanded, narrowing conversions are distributed over ring and bit
// operations (the low w bits of a sum / product / xor depend only on the low w bits of the
// operands) and dropped where the operand is known to fit.  Two terms with the same normal form
// at width w agree modulo 2^w for all values of the symbols.
type ringB struct {
	width map[string]uint // significant bits of a symbol (64 if absent)
	memo  map[string]string
}

type polyB map[string]uint64 // monomial (atoms joined by NUL, sorted; "" = constant) → coefficient

var opTagsB = []struct {
	tag    string
	w      uint
	signed bool
}{{"u8", 8, false}, {"i8", 8, true}, {"u16", 16, false}, {"i16", 16, true}, {"u32", 32, false}, {"i32", 32, true}}

// splitOpB: "+u16" → ("+", 16, false); "u8" → ("", 8, false) (a narrowing conversion); "^" → ("^", 64, false).
func splitOpB(op string) (base string, w uint, signed bool) {
	for _, t := range opTagsB {
		if strings.HasSuffix(op, t.tag) {
			return strings.TrimSuffix(op, t.tag), t.w, t.signed
		}
	}
	return op, 64, false
}

func maskB(w uint) uint64 {
	if w >= 64 {
		return ^uint64(0)
	}
	return uint64(1)<<w - 1
}

func isTermB(v sv) bool { return v.k == svSym && v.op != "" }

// bitsB: an upper bound of the number of significant bits of v read as a non-negative integer
// (64: unknown, or possibly negative).
func (n *ringB) bitsB(v sv) uint {
	switch {
	case v.k == svInt:
		if v.i < 0 {
			return 64
		}
		return uint(bits.Len64(uint64(v.i)))
	case v.k == svBool:
		return 1
	case v.k == svSym && v.op == "":
		if w, ok := n.width[v.s]; ok {
			return w
		}
		return 64
	case !isTermB(v):
		return 64
	}
	base, ow, signed := splitOpB(v.op)
	if signed {
		return 64
	}
	arg := func(i int) uint {
		if i < len(v.args) {
			return min(n.bitsB(v.args[i]), 64)
		}
		return 64
	}
	res := uint(64)
	switch base {
	case "":
		res = arg(0)
	case "^", "|":
		res = 0
		for i := range v.args {
			res = max(res, arg(i))
		}
	case "&":
		for i := range v.args {
			res = min(res, arg(i))
		}
	case ">>":
		if len(v.args) == 2 && v.args[1].k == svInt && v.args[1].i >= 0 && arg(0) < 64 {
			a := min(arg(0), ow)
			if k := uint(v.args[1].i); k >= a {
				res = 0
			} else {
				res = a - k
			}
		}
	case "+":
		res = 0
		for i := range v.args {
			res = max(res, arg(i))
		}
		res = min(64, res+uint(len(v.args))-1)
	case "*":
		res = 0
		for i := range v.args {
			res += arg(i)
		}
		res = min(64, res)
	}
	return min(res, ow)
}

func (p polyB) add(q polyB, sign uint64, w uint) {
	for m, c := range q {
		p[m] = (p[m] + sign*c) & maskB(w)
		if p[m] == 0 {
			delete(p, m)
		}
	}
}

func mulPolyB(p, q polyB, w uint) polyB {
	out := polyB{}
	for m1, c1 := range p {
		for m2, c2 := range q {
			var atoms []string
			if m1 != "" {
				atoms = append(atoms, strings.Split(m1, "\x00")...)
			}
			if m2 != "" {
				atoms = append(atoms, strings.Split(m2, "\x00")...)
			}
			sort.Strings(atoms)
			m := strings.Join(atoms, "\x00")
			out[m] = (out[m] + c1*c2) & maskB(w)
			if out[m] == 0 {
				delete(out, m)
			}
		}
	}
	return out
}

func (p polyB) String() string {
	if len(p) == 0 {
		return "0"
	}
	var ms []string
	for m := range p {
		ms = append(ms, m)
	}
	sort.Strings(ms)
	var out []string
	for _, m := range ms {
		switch {
		case m == "":
			out = append(out, fmt.Sprint(p[m]))
		case p[m] == 1:
			out = append(out, strings.ReplaceAll(m, "\x00", "·"))
		default:
			out = append(out, fmt.Sprintf("%d·%s", p[m], strings.ReplaceAll(m, "\x00", "·")))
		}
	}
	return strings.Join(out, " + ")
}

// atomB: the polynomial consisting of one atom whose natural value has at most nb bits, read
// modulo 2^w.
func atomB(name string, nb, w uint) polyB {
	if nb > w {
		name = fmt.Sprintf("lo%d(%s)", w, name)
	}
	return polyB{name: 1}
}

// bitArgsB collects the operands of a (nested, possibly narrowed) bit operation, each modulo
// 2^eff.
func (n *ringB) bitArgsB(base string, v sv, eff uint) []polyB {
	if isTermB(v) {
		b, ow, _ := splitOpB(v.op)
		if b == "" && ow >= eff && len(v.args) == 1 {
			return n.bitArgsB(base, v.args[0], eff)
		}
		if b == base && ow >= eff {
			var out []polyB
			for _, a := range v.args {
				out = append(out, n.bitArgsB(base, a, eff)...)
			}
			return out
		}
	}
	return []polyB{n.poly(v, eff)}
}

// poly: v modulo 2^w as a polynomial in its atoms.
func (n *ringB) poly(v sv, w uint) polyB {
	if w > 64 {
		w = 64
	}
	switch {
	case v.k == svInt:
		if c := uint64(v.i) & maskB(w); c != 0 {
			return polyB{"": c}
		}
		return polyB{}
	case v.k == svSym && v.op == "":
		return atomB(v.s, n.bitsB(v), w)
	case !isTermB(v):
		return atomB(v.String(), 64, w)
	}
	base, ow, signed := splitOpB(v.op)
	if base == "/" && len(v.args) == 2 && v.args[1].k == svInt && v.args[1].i > 0 && v.args[1].i&(v.args[1].i-1) == 0 && !signed && (ow < 64 || n.bitsB(v.args[0]) < 64) {
		// division of a non-negative value by a power of two is a shift
		return n.poly(term(">>"+strings.TrimPrefix(v.op, "/"), v.args[0], intV(int64(bits.TrailingZeros64(uint64(v.args[1].i))))), w)
	}
	// the value of a sub-term computed in a narrower type than the context: an atom of its own,
	// unless it is known to fit (then the wrap-around of the narrow type cannot have happened
	// … only for operations that cannot carry)
	wrapped := func(p polyB) polyB {
		tag := "u"
		if signed {
			tag = "i"
		}
		return polyB{fmt.Sprintf("[%s%d: %s]", tag, ow, p.String()): 1}
	}
	switch base {
	case "":
		if len(v.args) != 1 {
			break
		}
		if w <= ow {
			return n.poly(v.args[0], w)
		}
		if !signed && n.bitsB(v.args[0]) <= ow {
			return n.poly(v.args[0], w)
		}
		return wrapped(n.poly(v.args[0], ow))
	case "+", "-", "*", "neg", "<<":
		eff := min(w, ow)
		var p polyB
		switch base {
		case "+":
			p = polyB{}
			for _, a := range v.args {
				p.add(n.poly(a, eff), 1, eff)
			}
		case "-":
			if len(v.args) != 2 {
				return atomB(v.String(), 64, w)
			}
			p = polyB{}
			p.add(n.poly(v.args[0], eff), 1, eff)
			p.add(n.poly(v.args[1], eff), ^uint64(0), eff)
		case "neg":
			p = polyB{}
			p.add(n.poly(v.args[0], eff), ^uint64(0), eff)
		case "*":
			p = polyB{"": 1}
			for _, a := range v.args {
				p = mulPolyB(p, n.poly(a, eff), eff)
			}
		case "<<":
			if len(v.args) != 2 || v.args[1].k != svInt || v.args[1].i < 0 {
				return atomB(v.String(), 64, w)
			}
			p = polyB{}
			if k := uint(v.args[1].i); k < 64 {
				p = mulPolyB(n.poly(v.args[0], eff), polyB{"": uint64(1) << k}, eff)
			}
		}
		if w <= ow {
			return p
		}
		return wrapped(p)
	case "^", "&", "|":
		eff := min(w, ow)
		args := n.bitArgsB(base, v, eff)
		sort.SliceStable(args, func(i, j int) bool { return args[i].String() < args[j].String() })
		var kept []polyB
		for i := 0; i < len(args); i++ {
			if i+1 < len(args) && args[i].String() == args[i+1].String() {
				if base == "^" { // x ^ x = 0
					i++
				}
				continue // x & x = x | x = x
			}
			kept = append(kept, args[i])
		}
		if len(kept) == 0 {
			return polyB{}
		}
		var p polyB
		if len(kept) == 1 {
			p = kept[0]
		} else {
			var as []string
			for _, a := range kept {
				as = append(as, a.String())
			}
			p = polyB{fmt.Sprintf("%s%d(%s)", base, eff, strings.Join(as, ", ")): 1}
		}
		if w > ow && signed {
			return wrapped(p)
		}
		return p
	case ">>":
		if len(v.args) == 2 && v.args[1].k == svInt && v.args[1].i >= 0 && !signed {
			// floor(a / 2^k) of the operand read in the operator's width
			aw := ow
			if ow == 64 && n.bitsB(v.args[0]) == 64 {
				break // possibly an arithmetic shift of a negative value
			}
			name := fmt.Sprintf(">>%d[%d](%s)", v.args[1].i, aw, n.poly(v.args[0], aw).String())
			return atomB(name, n.bitsB(v), w)
		}
	}
	// any other operation: an atom in its normalised operands
	var as []string
	for _, a := range v.args {
		as = append(as, n.poly(a, 64).String())
	}
	return atomB(v.op+"("+strings.Join(as, ", ")+")", n.bitsB(v), w)
}

// nf: the normal form of v modulo 2^w.
func (n *ringB) nf(v sv, w uint) string { return n.poly(v, w).String() }

// compileB turns a term into a function of the symbol values (env indexed by idx).  ok is false
// when the term contains an operation whose value is not determined here (signed shifts,
// division by a symbol, calls).
func (n *ringB) compileB(v sv, idx map[string]int) (f func(env []uint64) uint64, ok bool) {
	switch {
	case v.k == svInt:
		c := uint64(v.i)
		return func([]uint64) uint64 { return c }, true
	case v.k == svSym && v.op == "":
		i, has := idx[v.s]
		if !has {
			return nil, false
		}
		return func(env []uint64) uint64 { return env[i] }, true
	case !isTermB(v):
		return nil, false
	}
	base, ow, signed := splitOpB(v.op)
	fit := func(x uint64) uint64 { // a value of the operator's type, as a 64-bit pattern
		if ow >= 64 {
			return x
		}
		x &= maskB(ow)
		if signed && x>>(ow-1) != 0 {
			x |= ^maskB(ow)
		}
		return x
	}
	var fs []func([]uint64) uint64
	for _, a := range v.args {
		g, ok := n.compileB(a, idx)
		if !ok {
			return nil, false
		}
		fs = append(fs, g)
	}
	nonneg := func(i int) bool { return !signed && (ow < 64 || n.bitsB(v.args[i]) < 64) }
	fold := func(op func(a, b uint64) uint64) (func([]uint64) uint64, bool) {
		if len(fs) == 0 {
			return nil, false
		}
		return func(env []uint64) uint64 {
			acc := fit(fs[0](env))
			for _, g := range fs[1:] {
				acc = op(acc, fit(g(env)))
			}
			return fit(acc)
		}, true
	}
	switch base {
	case "":
		if len(fs) == 1 {
			return func(env []uint64) uint64 { return fit(fs[0](env)) }, true
		}
	case "+":
		return fold(func(a, b uint64) uint64 { return a + b })
	case "*":
		return fold(func(a, b uint64) uint64 { return a * b })
	case "^":
		return fold(func(a, b uint64) uint64 { return a ^ b })
	case "&":
		return fold(func(a, b uint64) uint64 { return a & b })
	case "|":
		return fold(func(a, b uint64) uint64 { return a | b })
	case "-":
		if len(fs) == 2 {
			return fold(func(a, b uint64) uint64 { return a - b })
		}
	case "&^":
		if len(fs) == 2 {
			return fold(func(a, b uint64) uint64 { return a &^ b })
		}
	case "neg":
		if len(fs) == 1 {
			return func(env []uint64) uint64 { return fit(-fit(fs[0](env))) }, true
		}
	case "<<":
		if len(fs) == 2 && nonnegCount(v.args[1]) {
			return fold(func(a, b uint64) uint64 {
				if b >= 64 {
					return 0
				}
				return a << b
			})
		}
	case ">>":
		if len(fs) == 2 && nonneg(0) && nonnegCount(v.args[1]) {
			return fold(func(a, b uint64) uint64 {
				if b >= 64 {
					return 0
				}
				return a >> b
			})
		}
	case "/", "%":
		if len(fs) == 2 && nonneg(0) && v.args[1].k == svInt && v.args[1].i > 0 {
			if base == "/" {
				return fold(func(a, b uint64) uint64 { return a / b })
			}
			return fold(func(a, b uint64) uint64 { return a % b })
		}
	}
	return nil, false
}

func nonnegCount(v sv) bool { return v.k == svInt && v.i >= 0 }

// symbolsB lists the symbols of the terms.
func symbolsB(vs ...sv) []string {
	seen := map[string]bool{}
	var walk func(v sv)
	walk = func(v sv) {
		if v.k == svSym && v.op == "" {
			seen[v.s] = true
		}
		for _, a := range v.args {
			walk(a)
		}
	}
	for _, v := range vs {
		walk(v)
	}
	var out []string
	for s := range seen {
		out = append(out, s)
	}
	sort.Strings(out)
	return out
}

// agree decides whether got ≡ want (mod 2^w) for all values of the symbols: equal normal forms,
// or — when the forms differ — comparison of the two terms for every assignment of the symbols
// (at most 2^24 assignments; beyond that, and for terms with operations that cannot be
// evaluated, the answer is "no").  how tells which argument decided; cex is a counterexample.
func (n *ringB) agree(got, want sv, w uint) (ok bool, how string) {
	if !got.known() {
		return false, "no value"
	}
	key := fmt.Sprintf("%d|%s|%s", w, got.String(), want.String())
	if r, hit := n.memo[key]; hit {
		return r[0] == '+', r[1:]
	}
	defer func() {
		if n.memo == nil {
			n.memo = map[string]string{}
		}
		n.memo[key] = map[bool]string{true: "+", false: "-"}[ok] + how
	}()
	g, x := n.nf(got, w), n.nf(want, w)
	if g == x {
		return true, "equal normal forms"
	}
	syms := symbolsB(got, want)
	idx := map[string]int{}
	total := uint(0)
	for i, s := range syms {
		idx[s] = i
		sw, has := n.width[s]
		if !has {
			return false, "normal form " + g + ", expected " + x
		}
		total += sw
	}
	fg, ok1 := n.compileB(got, idx)
	fx, ok2 := n.compileB(want, idx)
	if total > 24 || !ok1 || !ok2 {
		return false, "normal form " + g + ", expected " + x
	}
	env := make([]uint64, len(syms))
	m := maskB(w)
	for a := uint64(0); a < uint64(1)<<total; a++ {
		rest := a
		for i, s := range syms {
			sw := n.width[s]
			env[i] = rest & maskB(sw)
			rest >>= sw
		}
		if (fg(env)^fx(env))&m != 0 {
			var as []string
			for i, s := range syms {
				as = append(as, fmt.Sprintf("%s=%d", s, env[i]))
			}
			if len(syms) == 0 {
				return false, "differs"
			}
			return false, fmt.Sprintf("normal form %s, expected %s; for %s the code gives %d, the specification %d", g, x, strings.Join(as, ", "), fg(env)&m, fx(env)&m)
		}
	}
	return true, fmt.Sprintf("all %d assignments of the symbols compared", uint64(1)<<total)
}

// ---------------------------------------------------------------------------------------------
// 3. the cipher step

const (
	adobeC1 = 52845
	adobeC2 = 22719
)

// cipherRefB is the specification of the Type 1 cipher on a sequence of bytes (symbols or
// constants) from state r: out_j = in_j ^ (r >> 8), r = (cipher_j + r)*c1 + c2 in 16 bits, where the
// cipher byte is in_j when decrypting and out_j when encrypting.
func cipherRefB(in []sv, r sv, decrypt bool) (out []sv, state sv) {
	for _, b := range in {
		var o sv
		if r.k == svInt && b.k == svInt {
			o = intV(int64(uint8(b.i) ^ uint8(uint16(r.i)>>8)))
		} else if r.k == svInt {
			o = term("^u8", b, intV(int64(uint8(uint16(r.i)>>8))))
		} else {
			o = term("^u8", b, term("u8", term(">>u16", r, intV(8))))
		}
		fb := o
		if decrypt {
			fb = b
		}
		if r.k == svInt && fb.k == svInt {
			r = intV(int64((uint16(fb.i)+uint16(r.i))*adobeC1 + adobeC2))
		} else {
			r = term("+u16", term("*u16", term("+u16", fb, r), intV(adobeC1)), intV(adobeC2))
		}
		out = append(out, o)
	}
	return out, r
}

// cipherEvalB: an evaluator with the hooks the cipher rules share: copy between modelled
// slices is performed, nil comparisons are decided.
func (c *Ctx) cipherEvalB(extra func(call ssa.CallInstruction, args []sv) (sv, bool)) *ssaEval {
	ev := &ssaEval{c: c, bind: map[ssa.Value]sv{}, mem: map[string]sv{}}
	ev.call = func(call ssa.CallInstruction, args []sv) (sv, bool) {
		if call != nil && callName(call) == "builtin copy" && len(args) == 2 && args[0].k == svList {
			src, ok := ev.elems(args[1])
			if !ok {
				return sv{}, false
			}
			dst, _ := ev.elems(args[0])
			k := copy(dst, append([]sv{}, src...))
			return intV(int64(k)), true
		}
		if extra != nil {
			return extra(call, args)
		}
		return sv{}, false
	}
	ev.oracle = func(op token.Token, x, y sv) (bool, bool) {
		if x.k == svNil && y.k == svNil {
			return op == token.EQL, true
		}
		if (x.k == svNil) != (y.k == svNil) {
			return op == token.NEQ, true
		}
		return false, false
	}
	return ev
}

func symListB(prefix string, n int) []sv {
	var l []sv
	for i := 0; i < n; i++ {
		l = append(l, symV(fmt.Sprintf("%s%d", prefix, i)))
	}
	return l
}

func intListB(bs ...int64) []sv {
	var l []sv
	for _, b := range bs {
		l = append(l, intV(b))
	}
	return l
}

func renderListB(l []sv) string {
	var p []string
	for _, v := range l {
		p = append(p, v.String())
	}
	return "[" + strings.Join(p, " ") + "]"
}

// bytesAgreeB compares two byte sequences element by element (mod 2^8).
func (n *ringB) bytesAgreeB(got, want []sv, what string) (bad string) {
	if len(got) != len(want) {
		return fmt.Sprintf("%s: %d bytes %s, expected %d", what, len(got), renderListB(got), len(want))
	}
	for i := range got {
		if ok, how := n.agree(got[i], want[i], 8); !ok {
			return fmt.Sprintf("%s: byte %d is %s, expected %s (%s)", what, i, got[i], want[i], how)
		}
	}
	return ""
}

// stateWritersB: the functions that update field fld of struct type T (store a value computed
// from its previous value), and the functions from which such a store is reached through
// static calls.
func (c *Ctx) stateWritersB(T *types.TypeName, fld string) (direct []*ssa.Function, reach map[*ssa.Function]bool) {
	reach = map[*ssa.Function]bool{}
	for _, f := range c.modFuncs {
		has := false
		eachInstr(f, func(ins ssa.Instruction) {
			if st, ok := ins.(*ssa.Store); ok && isFieldAddr(st.Addr, T, fld) && dependsOnFieldB(st.Val, T, fld) {
				has = true
			}
		})
		if has {
			direct = append(direct, f)
			reach[f] = true
		}
	}
	for changed := true; changed; {
		changed = false
		for _, f := range c.modFuncs {
			if reach[f] {
				continue
			}
			eachInstr(f, func(ins ssa.Instruction) {
				if call, ok := ins.(ssa.CallInstruction); ok {
					if g := call.Common().StaticCallee(); g != nil && reach[g] && !reach[f] {
						reach[f] = true
						changed = true
					}
				}
			})
		}
	}
	return
}

// dependsOnFieldB: v is computed from a load of field fld of T (through arithmetic, conversions,
// phis, and calls that take the loaded value as an argument): an update of the field, as opposed
// to an initialisation.
func dependsOnFieldB(v ssa.Value, T *types.TypeName, fld string) bool {
	seen := map[ssa.Value]bool{}
	var walk func(v ssa.Value, depth int) bool
	walk = func(v ssa.Value, depth int) bool {
		if v == nil || seen[v] || depth > 12 {
			return false
		}
		seen[v] = true
		if ld, ok := v.(*ssa.UnOp); ok && ld.Op == token.MUL && isFieldAddr(ld.X, T, fld) {
			return true
		}
		ins, ok := v.(ssa.Instruction)
		if !ok {
			return false
		}
		for _, op := range ins.Operands(nil) {
			if *op != nil && walk(*op, depth+1) {
				return true
			}
		}
		return false
	}
	return walk(v, 0)
}

func isByteB(t types.Type) bool {
	b, ok := t.Underlying().(*types.Basic)
	return ok && b.Kind() == types.Uint8
}

// cipherDecryptStepB decides the decryption step of the scanner: the function that advances the
// 16-bit cipher state (found by the role of the state field) is evaluated with the state r and
// the cipher byte c as symbols — the byte is a parameter or comes from the scanner's byte reader —
// and the byte it delivers and the state it stores are compared with the specification for all
// values of r and c.  A step extracted into a pure function, written with temporaries, or with
// its operands reordered or expanded evaluates to the same thing.
func (c *Ctx) cipherDecryptStepB() {
	scT := c.typeObj("postscript", "scanner")
	rF, modeF := c.fld("scanner.r"), c.fld("scanner.eexec")
	direct, reach := c.stateWritersB(scT, rF)
	if len(direct) == 0 {
		c.fail("CIPHER-SHAPE", "postscript.scanner", "cipher state update", token.NoPos, "no function advances the 16-bit cipher state of the scanner")
		return
	}
	nring := &ringB{width: map[string]uint{"c": 8, "r": 16}}
	for _, site := range direct {
		fn := site
		// the function that delivers the decrypted byte: the updating function itself or, when
		// that one only advances the state, its caller
		byteResult := func(f *ssa.Function) int {
			res := f.Signature.Results()
			for i := 0; i < res.Len(); i++ {
				if isByteB(res.At(i).Type()) {
					return i
				}
			}
			return -1
		}
		for hop := 0; hop < 3 && byteResult(fn) < 0; hop++ {
			var callers []*ssa.Function
			for _, g := range c.modFuncs {
				if len(staticCalls(g, fn)) > 0 {
					callers = append(callers, g)
				}
			}
			if len(callers) != 1 {
				break
			}
			fn = callers[0]
		}
		fname := c.fname(fn)
		idx := byteResult(fn)
		if idx < 0 {
			c.fail("CIPHER-SHAPE", fname, "plain = cipher ^ (r >> 8)", fn.Pos(), "the function that advances the cipher state delivers no byte")
			continue
		}
		ev := c.cipherEvalB(func(call ssa.CallInstruction, args []sv) (sv, bool) {
			if call == nil {
				return sv{}, false
			}
			sc := call.Common().StaticCallee()
			if sc == nil || reach[sc] || sc.Signature.Recv() == nil || !pointsTo(sc.Signature.Recv().Type(), scT) {
				return sv{}, false
			}
			// the scanner's byte reader delivers the cipher byte
			res := sc.Signature.Results()
			switch {
			case res.Len() == 2 && isByteB(res.At(0).Type()):
				return sv{k: svTuple, tup: []sv{symV("c"), {k: svNil}}}, true
			case res.Len() == 1 && isByteB(res.At(0).Type()):
				return symV("c"), true
			}
			return sv{}, false
		})
		ev.noInline = func(f *ssa.Function) bool {
			return !reach[f] && f.Signature.Recv() != nil && pointsTo(f.Signature.Recv().Type(), scT)
		}
		ev.load = func(ld *ssa.UnOp, addr sv) (sv, bool) {
			if strings.HasSuffix(addr.s, "."+modeF) {
				return intV(1), true
			}
			return symV("v:" + addr.s), true
		}
		var args []sv
		for i, p := range fn.Params {
			switch {
			case pointsTo(p.Type(), scT):
				args = append(args, sv{k: svAddr, s: "s"})
			case isByteB(p.Type()):
				args = append(args, symV("c"))
			default:
				args = append(args, symV(fmt.Sprintf("p%d", i)))
			}
		}
		ev.mem["s."+rF] = symV("r")
		ret := ev.runFunc(fn, args)
		if ev.why != "" || idx >= len(ret) {
			c.fail("CIPHER-SHAPE", fname, "plain = cipher ^ (r >> 8)", fn.Pos(), "the decryption step could not be evaluated: "+ev.why)
			continue
		}
		want, wantR := cipherRefB([]sv{symV("c")}, symV("r"), true)
		ok, how := nring.agree(ret[idx], want[0], 8)
		c.check(ok, "CIPHER-SHAPE", fname, "plain = cipher ^ (r >> 8)", fn.Pos(), how, "the decrypted byte is computed as "+ret[idx].String()+", the specification says "+want[0].String()+": "+how)
		got := ev.mem["s."+rF]
		ok, how = nring.agree(got, wantR, 16)
		c.check(ok, "CIPHER-SHAPE", fname, "r = (cipher + r)*c1 + c2 (cipher byte fed back)", fn.Pos(), how, "the cipher state update is "+got.String()+", the specification says "+wantR.String()+" (the ciphertext byte, not the plaintext, is fed back): "+how)
	}
	c.floor("CIPHER-SHAPE", 2)
}

// cipherWriterB decides the eexec stream writer through its io.WriteCloser methods: bytes are
// written (in one piece and across a full buffer), the writer is closed, and what reached the
// underlying writer and the state left behind are compared with the specification — one byte
// with symbolic state and plaintext for all values, and a concrete sequence that crosses a buffer
// boundary for the chaining.
func (c *Ctx) cipherWriterB() {
	wT := c.typeObj("type1", "eexecWriter")
	RF, bufF, posF, wF := c.fld("eexecWriter.R"), c.fld("eexecWriter.buf"), c.fld("eexecWriter.pos"), c.fld("eexecWriter.w")
	write, closeFn := c.method("type1", "eexecWriter", "Write"), c.method("type1", "eexecWriter", "Close")
	site := write
	if direct, _ := c.stateWritersB(wT, RF); len(direct) > 0 {
		site = direct[0]
	}
	fname := c.fname(site)
	run := func(r sv, data []sv, bufLen int) (written []sv, state sv, why string) {
		var ev *ssaEval
		ev = c.cipherEvalB(func(call ssa.CallInstruction, args []sv) (sv, bool) {
			if call != nil && call.Common().IsInvoke() && call.Common().Method.Name() == "Write" && len(args) == 2 {
				el, ok := ev.elems(args[1])
				if !ok {
					return sv{}, false
				}
				written = append(written, append([]sv{}, el...)...)
				return sv{k: svTuple, tup: []sv{intV(int64(len(el))), {k: svNil}}}, true
			}
			return sv{}, false
		})
		ev.load = func(ld *ssa.UnOp, addr sv) (sv, bool) { return symV("v:" + addr.s), true }
		ev.mem["ew."+RF] = r
		ev.mem["ew."+bufF] = ev.newList(intListB(make([]int64, bufLen)...))
		ev.mem["ew."+posF] = intV(0)
		ev.mem["ew."+wF] = symV("W")
		ret := ev.runFunc(write, []sv{{k: svAddr, s: "ew"}, ev.newList(data)})
		if ev.why != "" || len(ret) != 2 || ret[1].k != svNil || ret[0].k != svInt || ret[0].i != int64(len(data)) {
			return nil, sv{}, fmt.Sprintf("Write of %d bytes returns %v %s", len(data), ret, ev.why)
		}
		ret = ev.runFunc(closeFn, []sv{{k: svAddr, s: "ew"}})
		if ev.why != "" || len(ret) != 1 || ret[0].k != svNil {
			return nil, sv{}, fmt.Sprintf("Close returns %v %s", ret, ev.why)
		}
		return written, ev.mem["ew."+RF], ""
	}
	nring := &ringB{width: map[string]uint{"p0": 8, "r": 16}}
	// one byte, for all values of the plaintext byte and the state
	{
		got, state, why := run(symV("r"), symListB("p", 1), 4)
		want, wantR := cipherRefB(symListB("p", 1), symV("r"), false)
		bad := why
		if bad == "" {
			bad = nring.bytesAgreeB(got, want, "one byte written and the writer closed")
		}
		c.check(bad == "", "CIPHER-SHAPE", fname, "cipher = plain ^ (r >> 8)", site.Pos(), "Write + Close evaluated for symbolic state and byte", "the eexec writer: "+bad)
		ok, how := false, why
		if why == "" {
			ok, how = nring.agree(state, wantR, 16)
		}
		c.check(ok, "CIPHER-SHAPE", fname, "r = (cipher + r)*c1 + c2 (cipher byte fed back)", site.Pos(), how, "the eexec writer updates its state as "+state.String()+", the specification says "+wantR.String()+" (the ciphertext byte must be fed back): "+how)
	}
	// a sequence that fills the buffer once: every byte encrypted once, in order, state carried over
	{
		data := intListB(0x25, 0x21, 0, 0xff, 0x80, 0x41)
		got, state, why := run(intV(55665), data, 4)
		want, wantR := cipherRefB(data, intV(55665), false)
		bad := why
		if bad == "" {
			bad = nring.bytesAgreeB(got, want, "six bytes through a buffer of four")
		}
		if bad == "" && (state.k != svInt || state.i != wantR.i) {
			bad = "state after six bytes is " + state.String() + ", expected " + wantR.String()
		}
		c.check(bad == "", "CIPHER-SHAPE", fname, "every buffered byte is encrypted once, in order, with the state carried across flushes", site.Pos(), "six concrete bytes through a buffer of four", "the eexec writer: "+bad)
	}
}

// cipherObfuscateB decides the charstring obfuscation: the function is evaluated on one lead
// byte and two plaintext bytes as symbols (all 2^24 values decided) and on a concrete sequence
// with four lead bytes.
func (c *Ctx) cipherObfuscateB() {
	fn := c.fn("type1", "obfuscateCharstring")
	fname := c.fname(fn)
	run := func(plain, iv []sv) ([]sv, string) {
		ev := c.cipherEvalB(nil)
		ev.load = func(ld *ssa.UnOp, addr sv) (sv, bool) { return symV("v:" + addr.s), true }
		ret := ev.runFunc(fn, []sv{ev.newList(plain), ev.newList(iv)})
		if ev.why != "" || len(ret) != 1 {
			return nil, "not evaluable: " + ev.why
		}
		el, ok := ev.elems(ret[0])
		if !ok {
			return nil, "the result is " + ev.render(ret[0])
		}
		return el, ""
	}
	nring := &ringB{width: map[string]uint{"i0": 8, "p0": 8, "p1": 8}}
	// the key: zeros in, the key stream out
	{
		zeros := intListB(0, 0, 0)
		got, why := run(zeros[:2], zeros[:1])
		want, _ := cipherRefB(zeros, intV(4330), false)
		if why == "" {
			why = nring.bytesAgreeB(got, want, "three zero bytes")
		}
		c.check(why == "", "CIPHER-CONST", fname, "charstring key = 4330", fn.Pos(), "key stream for zero input evaluated", "the charstring cipher does not start from the key 4330: "+why)
	}
	{
		in := append(symListB("i", 1), symListB("p", 2)...)
		got, why := run(in[1:], in[:1])
		want, _ := cipherRefB(in, intV(4330), false)
		if why == "" {
			why = nring.bytesAgreeB(got, want, "lead byte i0, plaintext p0 p1")
		}
		c.check(why == "", "CIPHER-SHAPE", fname, "cipher = plain ^ (r >> 8), r = (cipher + r)*c1 + c2 (cipher byte fed back), lead bytes first", fn.Pos(), "one lead byte and two plaintext bytes as symbols", "charstring obfuscation: "+why)
	}
	{
		iv := intListB(0x58, 0, 0, 0)
		plain := intListB(0x8b, 0xf7, 0x20, 0x0d, 0x0e)
		got, why := run(plain, iv)
		want, _ := cipherRefB(append(append([]sv{}, iv...), plain...), intV(4330), false)
		if why == "" {
			why = nring.bytesAgreeB(got, want, "four lead bytes and five plaintext bytes")
		}
		c.check(why == "", "CIPHER-SHAPE", fname, "every byte is encrypted once, in order, lead bytes included", fn.Pos(), "nine concrete bytes", "charstring obfuscation: "+why)
	}
}

// ---------------------------------------------------------------------------------------------
// 4. the eexec operator as a decision table

type eexecOutcomeB struct {
	ret       sv
	begun     int
	ran       int
	runOn     string // the scanner handed to the nested run
	dictAtRun string
	dictAfter string
	modeAfter sv
	why       string
}

// eexecCellB evaluates the registered eexec operator for one cell of its table: starting
// decryption succeeds or fails, the nested run of the section returns nil (input exhausted),
// io.EOF (closefile), or another error, and the section leaves the dictionary stack one entry
// higher (an open `begin`), unchanged, or one entry lower (an extra `end`).  The operator, and
// whatever helpers it uses for the push, the clean-up and the mapping of the result, are
// evaluated in place; the operand stack holds the file operand, the dictionary stack two
// dictionaries, the scanner stack two scanners.
func (c *Ctx) eexecCellB(beginOK bool, result string, delta int) eexecOutcomeB {
	ia := c.interp()
	f := c.registry().op("systemdict", "eexec")
	scT := c.typeObj("postscript", "scanner")
	modeF := c.fld("scanner.eexec")
	var o eexecOutcomeB
	// a method of the scanner that switches decryption on (stores a non-zero constant to the mode
	// field, itself or in a scanner method it calls)
	var begins func(g *ssa.Function, depth int) bool
	begins = func(g *ssa.Function, depth int) bool {
		if g == nil || len(g.Blocks) == 0 || g.Signature.Recv() == nil || !pointsTo(g.Signature.Recv().Type(), scT) || depth > 3 {
			return false
		}
		found := false
		eachInstr(g, func(ins ssa.Instruction) {
			if st, ok := ins.(*ssa.Store); ok && isFieldAddr(st.Addr, scT, modeF) {
				if k, isC := constInt(st.Val); isC && k != 0 {
					found = true
				}
			}
			if call, ok := ins.(ssa.CallInstruction); ok && !found {
				if begins(call.Common().StaticCallee(), depth+1) {
					found = true
				}
			}
		})
		return found
	}
	var ev *ssaEval
	dictKey := "intp.DictStack"
	ev = c.cipherEvalB(func(call ssa.CallInstruction, args []sv) (sv, bool) {
		if call == nil {
			return sv{}, false
		}
		sc := call.Common().StaticCallee()
		switch {
		case sc == ia.execScanner:
			o.ran++
			if len(args) == 2 {
				o.runOn = args[1].s
			}
			cur, _ := ev.elems(ev.mem[dictKey])
			o.dictAtRun = renderListB(cur)
			next := append([]sv{}, cur...)
			switch {
			case delta > 0:
				next = append(next, symV("Dict:opened"))
			case delta < 0 && len(next) > 0:
				next = next[:len(next)-1]
			}
			ev.mem[dictKey] = ev.newList(next)
			switch result {
			case "nil":
				return sv{k: svNil}, true
			case "EOF":
				return symV("EOF"), true
			}
			if strings.HasPrefix(result, "named:") {
				return symV(result[len("named:"):]), true
			}
			return symV("otherErr"), true
		case sc != nil && begins(sc, 0):
			o.begun++
			if !beginOK {
				return symV("beginErr"), true
			}
			if len(args) > 0 {
				ev.mem[args[0].s+"."+modeF] = intV(1)
			}
			return sv{k: svNil}, true
		}
		return sv{}, false
	})
	ev.oracle = func(op token.Token, x, y sv) (bool, bool) {
		if x.k == svAddr || y.k == svAddr || x.k == svSym || y.k == svSym || x.k == svNil || y.k == svNil {
			eq := x.k == y.k && x.String() == y.String()
			switch op {
			case token.EQL:
				return eq, true
			case token.NEQ:
				return !eq, true
			}
		}
		return false, false
	}
	ev.load = func(ld *ssa.UnOp, addr sv) (sv, bool) {
		if addr.s == "global:io.EOF" {
			return symV("EOF"), true
		}
		if strings.HasPrefix(addr.s, "global:") {
			return symV(addr.s[strings.LastIndex(addr.s, ".")+1:]), true
		}
		return sv{}, false
	}
	ev.mem["intp.Stack"] = ev.newList([]sv{symV("Integer:keep"), {k: svNil}})
	ev.mem[dictKey] = ev.newList([]sv{symV("Dict:d0"), symV("Dict:d1")})
	ev.mem["intp.SystemDict"] = symV("Dict:systemdict")
	ev.mem["intp."+c.fld("intp.scanners")] = ev.newList([]sv{{k: svAddr, s: "scanner0"}, {k: svAddr, s: "scanner1"}})
	ev.mem["scanner0."+modeF] = intV(0)
	ev.mem["scanner1."+modeF] = intV(0)
	ret := ev.runFunc(f, []sv{{k: svAddr, s: "intp"}})
	o.why = ev.why
	if len(ret) == 1 {
		o.ret = ret[0]
	} else if o.why == "" {
		o.why = "no result"
	}
	cur, _ := ev.elems(ev.mem[dictKey])
	o.dictAfter = renderListB(cur)
	o.modeAfter = ev.mem["scanner1."+modeF]
	return o
}

// eexecOperatorTableB decides the eexec operator on the table of eexecCellB.  With c03 only the
// clause of C03 is reported (rule CTL-DICTSTACK): the dictionary stack that name lookup sees after
// the operator is the one from before it.
func (c *Ctx) eexecOperatorTableB(rule string, c03 bool) {
	f := c.registry().op("systemdict", "eexec")
	fname := c.fname(f)
	const before = "[Dict:d0 Dict:d1]"
	var badStack, badEnd, badRun []string
	for _, result := range []string{"nil", "EOF"} {
		for _, delta := range []int{0, 1, -1} {
			o := c.eexecCellB(true, result, delta)
			cell := fmt.Sprintf("section ended by %s, dictionary stack left %+d by the section", map[string]string{"nil": "the end of the input", "EOF": "closefile"}[result], delta)
			switch {
			case o.why != "":
				badStack = append(badStack, cell+": not evaluable ("+o.why+")")
			case o.ran != 1:
				badRun = append(badRun, fmt.Sprintf("%s: the section is run %d times", cell, o.ran))
			case o.ret.k != svNil:
				badRun = append(badRun, cell+": eexec returns "+o.ret.String()+", expected normal completion")
			default:
				if o.dictAfter != before {
					badStack = append(badStack, fmt.Sprintf("%s: the dictionary stack is %s afterwards, it was %s before eexec", cell, o.dictAfter, before))
				}
				if o.modeAfter.k != svInt || o.modeAfter.i != 0 {
					badEnd = append(badEnd, cell+": decryption is still switched on when eexec completes")
				}
			}
		}
	}
	if c03 {
		bad := append(badStack, badRun...)
		c.check(len(bad) == 0, rule, fname, "after eexec the dictionary stack is the one from before it, however the section ends", f.Pos(), "2 ways to end the section × 3 dictionary stack heights evaluated",
			"names are looked up through a changed dictionary stack after an eexec section: "+joinMax(bad, 2))
		return
	}
	bad := append(append(badStack, badEnd...), badRun...)
	c.check(len(bad) == 0, rule, fname, "on normal completion: decryption ended, dictionary stack restored to the captured length", f.Pos(), "2 ways to end the section × 3 dictionary stack heights evaluated", joinMax(bad, 2))
	// what the section runs with
	o := c.eexecCellB(true, "nil", 0)
	c.check(o.why == "" && o.dictAtRun == "[Dict:d0 Dict:d1 Dict:systemdict]", rule, fname, "systemdict pushed on the dictionary stack", f.Pos(), "dictionary stack during the section: "+o.dictAtRun, "eexec runs the section with the dictionary stack "+o.dictAtRun+", expected systemdict on top of the previous stack "+o.why)
	c.check(o.why == "" && o.begun == 1 && o.runOn == "scanner1", rule, fname, "the section is read from the decrypting scanner on top of the scanner stack", f.Pos(), "scanner handed to the nested run", fmt.Sprintf("decryption is started %d time(s) and the section is run on %q, expected the scanner on top of the scanner stack %s", o.begun, o.runOn, o.why))
	// errors are errors
	oe := c.eexecCellB(true, "other", 1)
	badErr := ""
	if !(oe.why == "" && oe.ret.known() && oe.ret.k != svNil) {
		badErr = "an error of the section gives " + oe.ret.String() + " " + oe.why
	}
	// every error value the operator (or a helper of it) knows by name, io.EOF excepted
	named := map[string]bool{}
	var scan func(g *ssa.Function, depth int)
	scan = func(g *ssa.Function, depth int) {
		if g == nil || len(g.Blocks) == 0 || !c.inModule(g) || depth > 2 || g == c.interp().execScanner {
			return
		}
		eachInstr(g, func(ins ssa.Instruction) {
			if ld, ok := ins.(*ssa.UnOp); ok && ld.Op == token.MUL {
				if gl, ok := ld.X.(*ssa.Global); ok && ld.Type().String() == "error" && gl.String() != "io.EOF" {
					named[gl.String()[strings.LastIndex(gl.String(), ".")+1:]] = true
				}
			}
			if call, ok := ins.(ssa.CallInstruction); ok {
				scan(call.Common().StaticCallee(), depth+1)
			}
		})
	}
	scan(f, 0)
	var names []string
	for nm := range named {
		names = append(names, nm)
	}
	sort.Strings(names)
	for _, nm := range names {
		if on := c.eexecCellB(true, "named:"+nm, 0); !(on.why == "" && on.ret.known() && on.ret.k != svNil) {
			badErr = "the error " + nm + " of the section gives " + on.ret.String() + " " + on.why
		}
	}
	c.check(badErr == "", rule, fname, "only io.EOF is treated as the end of the section", f.Pos(), fmt.Sprintf("an error of the section is passed on (%d named error values tried)", len(names)), "eexec treats an error other than io.EOF as normal completion: "+badErr)
	ob := c.eexecCellB(false, "nil", 0)
	c.check(ob.why == "" && ob.ret.known() && ob.ret.k != svNil && ob.ran == 0, rule, fname, "a section whose decryption cannot be started is not run", f.Pos(), "error of the start passed on", fmt.Sprintf("when starting decryption fails eexec returns %s and runs the section %d time(s) %s", ob.ret, ob.ran, ob.why))
}

// dictStackDisciplineB (C03): name lookup goes through Interpreter.DictStack, so what the
// program built with begin / end must be what every later lookup sees.  (a) The dictionary
// stack is written only by the operators begin, end (cleardictstack, setdictstack if they
// exist), by eexec for the duration of the section, and by helpers reached from these only;
// (b) eexec leaves it as it found it, however the section ends (table of eexecCellB).
func (c *Ctx) dictStackDisciplineB() {
	ia := c.interp()
	reg := c.registry()
	allowed := map[*ssa.Function]bool{}
	for _, e := range reg.builtins() {
		switch e.key {
		case "begin", "end", "cleardictstack", "setdictstack", "eexec":
			allowed[e.fn] = true
		}
	}
	freshBase := func(a ssa.Value) bool {
		base, _, ok := fieldAddrOf(a)
		if !ok {
			return false
		}
		_, isAlloc := base.(*ssa.Alloc)
		return isAlloc
	}
	var writers []*ssa.Function
	for _, f := range c.modFuncs {
		has := false
		eachInstr(f, func(ins ssa.Instruction) {
			if st, ok := ins.(*ssa.Store); ok && isFieldAddr(st.Addr, ia.T, "DictStack") && !freshBase(st.Addr) {
				has = true
			}
		})
		if has {
			writers = append(writers, f)
		}
	}
	cgr := c.callgraph()
	var ok func(f *ssa.Function, depth int) bool
	ok = func(f *ssa.Function, depth int) bool {
		if allowed[f] {
			return true
		}
		n := cgr.Nodes[f]
		if n == nil || len(n.In) == 0 || depth > 4 {
			return false
		}
		for _, e := range n.In {
			if !ok(e.Caller.Func, depth+1) {
				return false
			}
		}
		return true
	}
	n := 0
	for _, f := range writers {
		n++
		c.check(ok(f, 0), "CTL-DICTSTACK", c.fname(f), "the dictionary stack is changed by begin, end and (temporarily) eexec only", f.Pos(), "writer of Interpreter.DictStack reached from these operators only",
			c.fname(f)+" changes the dictionary stack but is neither begin, end nor eexec (nor a helper of these): names are resolved through a stack the program did not build")
	}
	c.eexecOperatorTableB("CTL-DICTSTACK", true)
	c.floor("CTL-DICTSTACK", 2)
}

// ---------------------------------------------------------------------------------------------
// 5. value sources

// valueSourcesB: the values from which v can be computed — followed through phis, conversions,
// type assertions, arithmetic, local cells, struct fields (the stores into the same field
// anywhere in the module), parameters (the arguments at the static call sites) and results of
// module functions.  The leaves are constants, map look-ups, and whatever is not followed.
func (c *Ctx) valueSourcesB(v ssa.Value) []ssa.Value {
	seen := map[ssa.Value]bool{}
	var leaves []ssa.Value
	var walk func(v ssa.Value, depth int)
	walk = func(v ssa.Value, depth int) {
		if v == nil || seen[v] {
			return
		}
		seen[v] = true
		if depth > 16 {
			leaves = append(leaves, v)
			return
		}
		switch x := v.(type) {
		case *ssa.Phi:
			for _, e := range x.Edges {
				walk(e, depth+1)
			}
		case *ssa.Convert:
			walk(x.X, depth+1)
		case *ssa.ChangeType:
			walk(x.X, depth+1)
		case *ssa.MakeInterface:
			walk(x.X, depth+1)
		case *ssa.ChangeInterface:
			walk(x.X, depth+1)
		case *ssa.TypeAssert:
			walk(x.X, depth+1)
		case *ssa.Extract:
			switch t := x.Tuple.(type) {
			case *ssa.TypeAssert:
				if x.Index == 0 {
					walk(t.X, depth+1)
					return
				}
			case *ssa.Lookup:
				if x.Index == 0 {
					leaves = append(leaves, t)
					return
				}
			case *ssa.Call:
				if g := t.Call.StaticCallee(); g != nil && c.inModule(g) && len(g.Blocks) > 0 {
					for _, r := range returns(g) {
						if x.Index < len(r.Results) {
							walk(r.Results[x.Index], depth+1)
						}
					}
					return
				}
			}
			leaves = append(leaves, v)
		case *ssa.BinOp:
			walk(x.X, depth+1)
			walk(x.Y, depth+1)
		case *ssa.UnOp:
			if x.Op != token.MUL {
				walk(x.X, depth+1)
				return
			}
			switch a := x.X.(type) {
			case *ssa.Alloc:
				for _, r := range *a.Referrers() {
					if st, ok := r.(*ssa.Store); ok && st.Addr == ssa.Value(a) {
						walk(st.Val, depth+1)
					}
				}
			case *ssa.FieldAddr:
				base, fld, ok := fieldAddrOf(a)
				if !ok {
					leaves = append(leaves, v)
					return
				}
				_ = base
				n := 0
				for _, f := range c.modFuncs {
					eachInstr(f, func(ins ssa.Instruction) {
						if st, ok := ins.(*ssa.Store); ok {
							if _, f2, ok := fieldAddrOf(st.Addr); ok && f2 == fld {
								n++
								walk(st.Val, depth+1)
							}
						}
					})
				}
				if n == 0 {
					leaves = append(leaves, v)
				}
			default:
				leaves = append(leaves, v)
			}
		case *ssa.Parameter:
			fn := x.Parent()
			idx := -1
			for i, p := range fn.Params {
				if p == x {
					idx = i
				}
			}
			n := 0
			for _, g := range c.modFuncs {
				for _, call := range staticCalls(g, fn) {
					if idx >= 0 && idx < len(call.Common().Args) {
						n++
						walk(call.Common().Args[idx], depth+1)
					}
				}
			}
			if n == 0 {
				leaves = append(leaves, v)
			}
		case *ssa.Call:
			if b, ok := x.Call.Value.(*ssa.Builtin); ok && (b.Name() == "min" || b.Name() == "max") {
				for _, a := range x.Call.Args {
					walk(a, depth+1)
				}
				return
			}
			if g := x.Call.StaticCallee(); g != nil && c.inModule(g) && len(g.Blocks) > 0 {
				for _, r := range returns(g) {
					if len(r.Results) > 0 {
						walk(r.Results[0], depth+1)
					}
				}
				return
			}
			leaves = append(leaves, v)
		case *ssa.Lookup:
			leaves = append(leaves, v)
		default:
			leaves = append(leaves, v)
		}
	}
	walk(v, 0)
	return leaves
}

// lenIVFlowB (C06): every charstring decryption — glyph procedures and subroutines alike — takes
// its number of lead bytes from the font: the entry lenIV of the Private dictionary where there
// is one, 4 otherwise.  Decided per call of the decryption function on the value sources of the
// lead-byte argument.
func (c *Ctx) lenIVFlowB() {
	deob := c.fn("type1", "deobfuscateCharstring")
	n := 0
	for _, f := range c.modFuncs {
		for _, call := range staticCalls(f, deob) {
			if len(call.Common().Args) < 2 {
				continue
			}
			n++
			fromFont := false
			var consts []string
			for _, l := range c.valueSourcesB(call.Common().Args[1]) {
				switch x := l.(type) {
				case *ssa.Lookup:
					if k, ok := x.Index.(*ssa.Const); ok && k.Value != nil && k.Value.Kind() == constant.String && constant.StringVal(k.Value) == "lenIV" {
						fromFont = true
					}
				case *ssa.Const:
					consts = append(consts, x.Value.String())
				}
			}
			sort.Strings(consts)
			c.check(fromFont, "T1-LENIV", c.fname(f), "the number of lead bytes of this decryption is the font's lenIV where it has one", call.Pos(), "entry lenIV of a dictionary among the sources of the argument",
				fmt.Sprintf("the lenIV entry of the font cannot reach the number of lead bytes used here (sources: constants %v): charstrings or subroutines of a font with lenIV other than the default are decrypted with the wrong number of lead bytes", consts))
		}
	}
	c.floor("T1-LENIV", 2)
}
