package main

import (
	"fmt"
	"go/token"
	"go/types"
	"sort"
	"strings"

	"golang.org/x/tools/go/ssa"
	"golang.org/x/tools/go/ssa/ssautil"
)

// C02 — data operators compute what the PLRM prescribes.  Rule family A4 OPTABLE.

func init() {
	register(&propCheck{
		id:    "C02",
		title: "Data operators compute what the PostScript reference prescribes",
		explanation: "Decides the table clauses of C02 for every operator registered in the system dictionary: (1) registry completeness — each of the 63 supported operators is bound to a function, the data entries have their prescribed types and every composite one is allocated per interpreter (not a package-level object shared by all interpreters), the error list is the PLRM's 28 names; (2) operand count — each operator, evaluated with fewer operands than the PLRM count, reports stackunderflow, and with that many it does not (helpers evaluated in place); (3) error-name discipline — every error exit is classified by its controlling condition (stack depth → stackunderflow, failed type test → typecheck, operand compared with 0 or a length → rangecheck, with a size limit → limitcheck, failed look-up → undefined / undefinedresource / invalidfont, dictionary-stack depth → dictstackoverflow/underflow, exhausted mark scan → unmatchedmark) and must carry the name of its class, with a frozen list of exceptions; " +
			"(4) accepted-operand region — for get, put, getinterval, putinterval, index, copy, array, string, dict, repeat the guards on the success path are equivalent (mutual Fourier–Motzkin entailment) to the PLRM region over (operands, lengths), so a guard that is too strict is reported as well as one that is too lax, and narrowing conversions are range-checked; (5) overflow promotion — add, sub, mul and abs are evaluated on the SSA form over all pairs of boundary operands (min, min+1, −2…2, max−1, max) in wrapped arithmetic of the analysed word size: where the exact result is representable that integer must be pushed, where it is not a real close to it (never the wrapped integer); " +
			"(6) net stack effect — on every normal return the operand-stack height differs from the height at entry by the PLRM figure (for control operators: up to the first execution of a procedure). " +
			"(7) sharing — the value that dup, def, begin, definefont, defineresource, findfont, currentdict, get, put, index, exch, load, cvx push or store is the operand (or stored object) itself, getinterval pushes a sub-slice of its operand, put/putinterval write through the operand's storage, and no operator pushes or stores a library copy (maps.Clone, slices.Clone, …) of an existing composite; (8) identity — eq/ne hand two dictionaries to the identity test, whose probe protocol (probe key absent from both, insert, look up in the other, delete) is checked step by step, and ne negates while eq does not. " +
			"It does NOT decide that a computed value pushed is the right one (the sum itself, numeric equality normalisation, dictionary contents, string contents).",
		trusted:     []string{"PLRM operator table carried in the checker", "fact engine (facts*.go)", "abstract evaluation of comparison-only predicates"},
		assumptions: nil,
		run:         runC02,
	})
}

type opSpec struct {
	args   int    // operands demanded by the first guard (-1: none / variable)
	effect string // net stack effect on normal return: integer, "var", or "a|b"
}

var plrmOps = map[string]opSpec{
	"[": {0, "+1"}, "]": {-1, "var"}, "<<": {0, "+1"}, ">>": {-1, "var"},
	"abs": {1, "0"}, "add": {2, "-1"}, "and": {2, "-1"}, "array": {1, "0"}, "begin": {1, "-1"}, "bind": {1, "0"},
	"cleartomark": {-1, "var"}, "closefile": {1, "-1"}, "copy": {1, "var"}, "count": {0, "+1"}, "currentdict": {0, "+1"}, "currentfile": {0, "+1"},
	"cvx": {1, "0"}, "def": {2, "-2"}, "definefont": {2, "-1"}, "defineresource": {3, "-2"}, "dict": {1, "0"}, "dup": {1, "+1"},
	"exec": {1, "-1"}, "eexec": {1, "-1"}, "end": {0, "0"}, "eq": {2, "-1"}, "exch": {2, "0"}, "executeonly": {1, "0"}, "exit": {0, "none"},
	"findfont": {1, "0"}, "findresource": {2, "-1"}, "for": {4, "-4"}, "forall": {2, "-2"}, "get": {2, "-1"}, "getinterval": {3, "-2"},
	"if": {2, "-2"}, "ifelse": {3, "-3"}, "index": {2, "0"}, "internaldict": {1, "0"}, "known": {2, "-1"}, "length": {1, "0"}, "load": {1, "0"},
	"loop": {1, "-1"}, "mark": {0, "+1"}, "matrix": {0, "+1"}, "maxlength": {1, "0"}, "mul": {2, "-1"}, "ne": {2, "-1"}, "noaccess": {1, "0"},
	"not": {1, "0"}, "or": {2, "-1"}, "pop": {1, "-1"}, "put": {3, "-3"}, "putinterval": {3, "-3"}, "readonly": {1, "0"}, "readstring": {2, "0"},
	"repeat": {2, "-2"}, "roll": {2, "-2"}, "stop": {0, "none"}, "string": {1, "0"}, "sub": {2, "-1"}, "type": {1, "0"}, "where": {1, "0|+1"},
}

var plrmErrors = []string{"configurationerror", "dictfull", "dictstackoverflow", "dictstackunderflow", "execstackoverflow", "handleerror", "interrupt", "invalidaccess", "invalidexit", "invalidfileaccess", "invalidfont", "invalidrestore", "ioerror", "limitcheck", "nocurrentpoint", "rangecheck", "stackoverflow", "stackunderflow", "syntaxerror", "timeout", "typecheck", "undefined", "undefinedfilename", "undefinedresource", "undefinedresult", "unmatchedmark", "unregistered", "VMerror"}

func runC02(c *Ctx) {
	feCtx = c
	paramNonNegCache = map[*ssa.Parameter]int{}
	prog = c.prog
	cg = c.callgraph()
	modSet = map[*ssa.Function]map[string]bool{}
	valueByName = map[string]ssa.Value{}
	fiByFn = map[*ssa.Function]*funcInfo{}
	computeModSets(ssautil.AllFunctions(c.prog))

	reg := c.registry()
	ia := c.interp()

	// ---------------- (1) registry
	var missing []string
	var names []string
	for n := range plrmOps {
		names = append(names, n)
	}
	sort.Strings(names)
	for _, n := range names {
		if e := reg.byKey["systemdict/"+n]; e == nil || e.fn == nil {
			missing = append(missing, n)
		}
	}
	c.check(len(missing) == 0, "OP-REGISTRY", "postscript.makeSystemDict", "the 63 supported operators are bound to functions", token.NoPos, fmt.Sprintf("%d operators", len(names)), "operators missing from the system dictionary (or not bound to a builtin): "+strings.Join(missing, ", "))
	c.check(reg.open["systemdict"] == 0, "OP-REGISTRY", "postscript.makeSystemDict", "the contents of the system dictionary are determined where it is built", token.NoPos, "every update has a constant key (or runs over a list of constant keys / a read-only table) and is made unconditionally",
		fmt.Sprintf("%d update(s) of the system dictionary have a key that is not known statically or are made conditionally: what a name is bound to in a fresh interpreter cannot be decided", reg.open["systemdict"]))
	dataTypes := map[string]string{"true": "Boolean", "false": "Boolean", "userdict": "Dict", "errordict": "Dict", "FontDirectory": "Dict", "StandardEncoding": "Array", "systemdict": "Dict"}
	for k, want := range dataTypes {
		e := reg.byKey["systemdict/"+k]
		got := ""
		if e != nil && e.typ != nil {
			if nt, ok := e.typ.(*types.Named); ok {
				got = nt.Obj().Name()
			}
		}
		c.check(got == want, "OP-REGISTRY", "postscript.makeSystemDict", k+" is a "+want, token.NoPos, got, "system dictionary entry "+k+" has type "+got+", expected "+want)
	}
	c.systemDictIsolation()
	// true/false values
	for k, want := range map[string]string{"true": "true", "false": "false"} {
		if e := reg.byKey["systemdict/"+k]; e != nil {
			v := ""
			if b, ok := constBool(stripConv(e.val)); ok {
				v = fmt.Sprint(b)
			}
			c.check(v == want, "OP-REGISTRY", "postscript.makeSystemDict", k+" = Boolean("+want+")", token.NoPos, v, "the name "+k+" is bound to Boolean("+v+")")
		}
	}
	// error names: the list from which NewInterpreter fills the error dictionary (ext_f.go)
	{
		got, found := c.errorDictNames()
		sort.Strings(got)
		want := append([]string{}, plrmErrors...)
		sort.Strings(want)
		detail := fmt.Sprintf("allErrors is %v, expected %v", got, want)
		if !found {
			detail = "the list of names from which NewInterpreter fills the error dictionary was not found"
		}
		c.check(found && fmt.Sprint(got) == fmt.Sprint(want), "OP-REGISTRY", "postscript.allErrors", "the error dictionary lists exactly the 28 PLRM error names", token.NoPos, fmt.Sprintf("%d names", len(got)), detail)
	}

	// ---------------- per operator
	for _, n := range names {
		e := reg.byKey["systemdict/"+n]
		if e == nil || e.fn == nil {
			continue
		}
		c.operandCount(ia, n, e.fn)
		c.stackEffect(ia, n, e.fn)
	}
	c.errorNames(ia, reg)
	c.operandRegions(ia, reg)
	c.overflowPromotion(reg)
	c.intArith(reg)
	c.sharingRules(ia, reg)
	c.copyExtentRule(ia, reg)
	c.identityRule(ia)
}

// (2) operand count: the first guard on the stack depth.
func (c *Ctx) operandCount(ia *interpAnchors, op string, f *ssa.Function) {
	spec := plrmOps[op]
	fname := c.fname(f)
	// first If of the entry block chain comparing len(Stack)
	var k int64 = -1
	errName := ""
	b := f.Blocks[0]
	for steps := 0; steps < 3 && b != nil; steps++ {
		ifi, ok := b.Instrs[len(b.Instrs)-1].(*ssa.If)
		if !ok {
			break
		}
		if kk, succ, ok := underflowGuard(ifi, func(v ssa.Value) bool { return lenOfField(v, ia.T, "Stack") }); ok {
			k = kk
			errName = c.blockReturnsErr(b.Succs[succ])
		}
		break
	}
	construct := op + ": operands demanded"
	if spec.args <= 0 {
		if spec.args == 0 {
			okZero := k <= 0
			if okZero {
				// no guard in the operator itself; a helper must not demand operands either
				if ret, why := c.operatorWithDepth(f, 0); why == "" && ret == "stackunderflow" {
					okZero, k = false, 1
				}
			}
			c.check(okZero, "OP-ARITY", fname, construct, f.Pos(), "none", fmt.Sprintf("%s takes no operands but demands %d", op, k))
		}
		return
	}
	// decided semantically (evaluation with 0..k operands; helpers are evaluated in place); the
	// location of "the first guard" decides only where the evaluation stops before a return
	okEval, decided, detail := c.arityByEvaluation(f, spec.args)
	if decided {
		c.check(okEval, "OP-ARITY", fname, construct, f.Pos(), detail,
			fmt.Sprintf("%s: the PLRM gives it %d operand(s); %s", op, spec.args, detail))
		return
	}
	c.check(k == int64(spec.args) && errName == "stackunderflow", "OP-ARITY", fname, construct, f.Pos(), fmt.Sprintf("len(Stack) < %d → stackunderflow", k),
		fmt.Sprintf("%s: the PLRM gives it %d operand(s); the first stack-depth guard demands %d and reports `%s` (%s)", op, spec.args, k, errName, detail))
}

// (6) net stack effect on normal returns.
func (c *Ctx) stackEffect(ia *interpAnchors, op string, f *ssa.Function) {
	spec := plrmOps[op]
	if spec.effect == "var" || spec.effect == "none" {
		return
	}
	fname := c.fname(f)
	sx := c.newStackFx(f, f.Params[0], map[*ssa.Function]bool{f: true})
	fi, stackField, base := sx.fi, sx.field, sx.base
	entry := atom(fmt.Sprintf("len(%s.%s@entry)", base, stackField))
	// effect at the end of a block: length of Stack in the block's out-epoch minus the entry length
	// (epoch relations of the fact engine, composed through helper calls: ext_f.go)
	effAt := func(b *ssa.BasicBlock, depth int) ([]string, bool) {
		es, ok := sx.atBlockEnd(b, depth)
		if !ok {
			return nil, false
		}
		var out []string
		for _, e := range es {
			out = append(out, fmt.Sprint(e))
		}
		return out, true
	}
	// normal returns; for control operators: the state at the first call of executeOne
	var points []*ssa.BasicBlock
	control := len(c.runCalls(ia, f)) > 0 || op == "exec"
	if control {
		c.controlEffect(ia, op, f, fi, stackField, base, entry, sx)
		return
	}
	if op == "where" {
		// the operand stack after `where` is decided as a value on the evaluator, over every
		// dictionary stack of 1..4 dictionaries × which of them define the key (ext_f.go): it must be
		// [… dict true] with the topmost dictionary that defines the key (+1), or [… false] (0).
		// The walk may be an index loop or an iterator whose body is a closure; the epoch
		// relations below are consulted only if the evaluation stops.
		if bad, cells, decided := c.lookupByEvaluation(ia, f, true); decided {
			c.check(len(bad) == 0, "OP-STACKEFFECT", fname, op+": net effect on the operand stack", f.Pos(), fmt.Sprintf("0|+1: %d cells evaluated", cells),
				"where does not leave the operand stack the PLRM prescribes: "+joinMax(bad, 3))
			return
		}
	}
	for _, r := range returns(f) {
		ok := true
		for _, v := range retValuesAt(r, 0) {
			// nil, or the end-of-file marker that closefile uses to end the run
			if !isNilConst(v) && !isGlobalLoad(v, "io", "EOF") {
				ok = false
			}
		}
		if !ok {
			// `return helper(intp)`: the operator returns normally exactly when the helper does; the
			// effect is that of the helper's normal returns, composed with what came before
			if vs := retValuesAt(r, 0); len(vs) == 1 && !c.definitelyNonNil(vs[0], 0) {
				if call, i, isTail := tailCallOf(vs[0], r); isTail {
					if g := call.Call.StaticCallee(); g != nil && c.inModule(g) && len(g.Blocks) > 0 {
						if sx.nilResult == nil {
							sx.nilResult = map[*ssa.Call]int{}
						}
						sx.nilResult[call] = i
						ok = true
					}
				}
			}
		}
		if ok {
			points = append(points, r.Block())
		}
	}
	set := map[string]bool{}
	undecided := false
	for _, b := range points {
		es, ok := effAt(b, 0)
		if !ok {
			undecided = true
			continue
		}
		for _, e := range es {
			set[e] = true
		}
	}
	var got []string
	for e := range set {
		if !strings.HasPrefix(e, "-") && e != "0" {
			e = "+" + e
		}
		got = append(got, e)
	}
	sort.Strings(got)
	want := strings.Split(spec.effect, "|")
	sort.Strings(want)
	construct := op + ": net effect on the operand stack"
	if undecided {
		c.undecided("OP-STACKEFFECT", fname, construct, f.Pos(), "the stack height on a normal return of "+op+" could not be related to the height at entry")
		return
	}
	c.check(fmt.Sprint(got) == fmt.Sprint(want), "OP-STACKEFFECT", fname, construct, f.Pos(), strings.Join(got, "|"),
		fmt.Sprintf("%s leaves the operand stack %v element(s) different from its height at entry; the PLRM prescribes %v", op, got, want))
}

// runCalls lists the calls by which an operator runs PostScript code.
func (c *Ctx) runCalls(ia *interpAnchors, f *ssa.Function) []ssa.CallInstruction {
	out := staticCalls(f, ia.executeOne)
	if es := c.method("postscript", "Interpreter", "executeScanner"); es != nil {
		out = append(out, staticCalls(f, es)...)
	}
	// calls of helpers that run a procedure, on every path or on some (a loop over the elements of
	// an operand runs it zero or more times): the operands are gone before such a helper is entered
	eachInstr(f, func(ins ssa.Instruction) {
		if call, ok := ins.(ssa.CallInstruction); ok {
			if g := call.Common().StaticCallee(); g != nil && g != ia.executeOne && c.inModule(g) && (mustCall(g, ia.executeOne, 2) || mayCall(g, ia.executeOne, 2)) {
				out = append(out, call)
			}
		}
	})
	return out
}

func isGlobalLoad(v ssa.Value, pkg, name string) bool {
	u, ok := v.(*ssa.UnOp)
	if !ok || u.Op != token.MUL {
		return false
	}
	g, ok := u.X.(*ssa.Global)
	return ok && g.Name() == name && g.Pkg.Pkg.Name() == pkg
}

// controlEffect: operators that run procedures: operands are popped before the first execution.
func (c *Ctx) controlEffect(ia *interpAnchors, op string, f *ssa.Function, fi *funcInfo, stackField, base string, entry Lin, sx *stackFx) {
	spec := plrmOps[op]
	fname := c.fname(f)
	construct := op + ": operands removed before the procedure runs"
	// the pop store(s) dominating every executeOne call: Stack = Stack[:len-K]
	want := spec.effect
	okAll := true
	n := 0
	var calls []ssa.CallInstruction
	calls = append(calls, c.runCalls(ia, f)...)
	if op == "exec" {
		eachInstr(f, func(ins ssa.Instruction) {
			if call, ok := ins.(ssa.CallInstruction); ok && call.Common().StaticCallee() == nil && !call.Common().IsInvoke() {
				if _, isB := call.Common().Value.(*ssa.Builtin); !isB {
					calls = append(calls, call)
				}
			}
		})
	}
	for _, call := range calls {
		n++
		// last store to Stack that dominates the call and is a pure pop (prefix re-slice); pushes of loop values come after it
		var pop *ssa.Store
		var popCall *ssa.Call // the pop is made by a helper that receives &intp.Stack (ext_y3.go)
		var popK int64
		eachInstr(f, func(ins ssa.Instruction) {
			if pop != nil || popCall != nil {
				return
			}
			if pc, ok := ins.(*ssa.Call); ok && ins != ssa.Instruction(call) && dominatesInstr(pc, call) {
				for i, a := range pc.Call.Args {
					if isFieldAddr(a, ia.T, "Stack") && !pc.Call.IsInvoke() {
						if k, ok := popThroughPointer(pc.Call.StaticCallee(), i); ok {
							popCall, popK = pc, k
						}
					}
				}
				return
			}
			st, ok := ins.(*ssa.Store)
			if !ok || !isFieldAddr(st.Addr, ia.T, "Stack") || !dominatesInstr(st, call) {
				return
			}
			if sl, ok := st.Val.(*ssa.Slice); ok && sl.Low == nil && sl.High != nil {
				if pop == nil {
					pop = st
				}
			}
		})
		if popCall != nil {
			// height before the helper is entered, relative to the entry, minus what it removes
			pre, ok := sx.ofEpoch(fi.callEpoch[popCall][stackField], popCall.Block(), 0)
			if !ok || len(pre) != 1 || fmt.Sprint(pre[0]-popK) != want {
				okAll = false
			}
			continue
		}
		if pop == nil {
			okAll = false
			continue
		}
		l := fi.lenOf(pop.Val).sub(entry)
		if !l.isConst() || l.c.RatString() != want {
			okAll = false
		}
	}
	c.check(okAll && n > 0, "OP-STACKEFFECT", fname, construct, f.Pos(), want, fmt.Sprintf("%s does not remove exactly its %s operand(s) before it runs a procedure", op, strings.TrimPrefix(want, "-")))
}

// (3) error names.
func (c *Ctx) errorNames(ia *interpAnchors, reg *registry) {
	exceptions := map[string]string{
		"internaldict|invalidaccess": "wrong password (PLRM: invalidaccess)",
		"eexec|typecheck":            "operand is not the current file",
		"closefile|typecheck":        "operand is not the current file",
		"end|dictstackunderflow":     "cannot pop the permanent dictionaries",
		"begin|dictstackoverflow":    "dictionary stack limit",
		">>|rangecheck":              "odd number of key/value operands",
	}
	n := 0
	defer func() { c.note("OP-ERRNAME: %d error exits inspected", n) }()
	for _, e := range reg.builtins() {
		if e.table != "systemdict" {
			continue
		}
		f := e.fn
		fname := c.fname(f)
		for _, b := range f.Blocks {
			name := c.errExitName(b)
			if name == "" {
				continue
			}
			n++
			// an error exit shared by several conditions (`a || b`, two guards that jump to one
			// block) is one exit per condition: each of them must carry the name of its own class
			for _, cw := range c.errClasses(ia, e.key, f, b) {
				class, why := cw[0], cw[1]
				if class == "" {
					continue
				}
				construct := fmt.Sprintf("%s: %s exit", e.key, why)
				if ex, ok := exceptions[e.key+"|"+name]; ok {
					c.ok("OP-ERRNAME", fname, construct, firstPos(b), "frozen exception: "+ex, "")
					continue
				}
				okName := false
				for _, alt := range strings.Split(class, "|") {
					if alt == name {
						okName = true
					}
				}
				c.check(okName, "OP-ERRNAME", fname, construct, firstPos(b), name, fmt.Sprintf("%s: the exit taken when %s reports `%s`; the PLRM error for this condition is `%s`", e.key, why, name, class))
			}
		}
	}
	// the two look-ups of findresource have an error name each (decided by evaluation: ext_w1.go)
	c.findresourceRule(reg)
	c.floor("OP-ERRNAME", 120)
}

// errClass classifies the condition that leads into error block b.
func (c *Ctx) errClass(ia *interpAnchors, op string, f *ssa.Function, b *ssa.BasicBlock) (string, string) {
	if len(b.Preds) != 1 {
		// loop exhausted (mark not found) or shared error block
		if op == "]" || op == ">>" || op == "cleartomark" {
			return "unmatchedmark", "no mark is found"
		}
		return "", ""
	}
	return c.errClassEdge(ia, op, f, b.Preds[0], b)
}

// errClasses: the classes of the conditions that lead into error block b, one per incoming edge
// (distinct classes only).  A block entered from one place has one class; a block shared by
// several conditions has one per condition that can be classified.
func (c *Ctx) errClasses(ia *interpAnchors, op string, f *ssa.Function, b *ssa.BasicBlock) [][2]string {
	if len(b.Preds) <= 1 || op == "]" || op == ">>" || op == "cleartomark" {
		cl, why := c.errClass(ia, op, f, b)
		return [][2]string{{cl, why}}
	}
	var out [][2]string
	seen := map[string]bool{}
	for _, p := range b.Preds {
		if _, isIf := p.Instrs[len(p.Instrs)-1].(*ssa.If); !isIf || (p.Succs[0] == b && p.Succs[1] == b) {
			continue
		}
		cl, why := c.errClassEdge(ia, op, f, p, b)
		if cl != "" && !seen[cl+"|"+why] {
			seen[cl+"|"+why] = true
			out = append(out, [2]string{cl, why})
		}
	}
	return out
}

// errClassEdge classifies the condition tested at the end of p that leads into error block b.
func (c *Ctx) errClassEdge(ia *interpAnchors, op string, f *ssa.Function, p, b *ssa.BasicBlock) (string, string) {
	ifi, ok := p.Instrs[len(p.Instrs)-1].(*ssa.If)
	if !ok {
		// unconditional: e.g. after a loop
		if op == "]" || op == ">>" || op == "cleartomark" {
			return "unmatchedmark", "no mark is found"
		}
		return "", ""
	}
	truth := p.Succs[0] == b
	cd := cond{ifi.Cond, truth, p}
	// type tests
	if ex, ok := ifi.Cond.(*ssa.Extract); ok && ex.Index == 1 {
		switch t := ex.Tuple.(type) {
		case *ssa.TypeAssert:
			if !truth {
				if lk, ok := t.X.(*ssa.Lookup); ok && isFieldLoad(lk.X, ia.T, "Resources") {
					return "undefined", "the resource category does not exist"
				}
				return "typecheck", "an operand has the wrong type"
			}
		case *ssa.Lookup:
			if !truth {
				switch op {
				case "findfont":
					return "invalidfont", "the font is not in the font directory"
				case "findresource":
					if isFieldLoad(t.X, ia.T, "Resources") {
						return "undefined", "the resource category does not exist"
					}
					return "undefinedresource", "the resource instance does not exist"
				case "defineresource":
					return "undefined", "the resource category does not exist"
				}
				return "undefined", "a name is not found"
			}
		}
	}
	if m, ok := asCmp(cd); ok {
		markOp := op == "]" || op == ">>" || op == "cleartomark"
		switch {
		case markOp && !fromOperand(m.x, ia.T) && !fromOperand(m.y, ia.T):
			return "unmatchedmark", "no mark is found"
		case stackDepthExpr(m.x, ia.T) || stackDepthExpr(m.y, ia.T):
			// depth of the operand stack — unless the other side is an operand (copy n, index n, roll n)
			other := m.y
			if stackDepthExpr(m.y, ia.T) {
				other = m.x
			}
			if _, isC := constInt(origin(other)); isC {
				return "stackunderflow", "too few operands are on the stack"
			}
			if op == "copy" {
				return "stackunderflow", "the count exceeds the stack depth"
			}
			return "rangecheck", "an operand exceeds the stack depth"
		case lenOfField(m.x, ia.T, "DictStack"):
			return "dictstackoverflow|dictstackunderflow", "the dictionary stack limit is reached"
		case isNilConst(m.y) || isNilConst(m.x):
			return "typecheck", "an operand is not a file"
		}
		// integer operand compared with a constant or a length
		if _, _, isInt := isIntType(m.x.Type()); isInt {
			if k, isC := constInt(origin(m.y)); isC {
				if k >= 65535 {
					return "limitcheck", "a size exceeds the implementation limit"
				}
				if op == "internaldict" {
					return "invalidaccess", "the password is wrong"
				}
				return "rangecheck", "an integer operand is out of range"
			}
			return "rangecheck", "an index or count is out of range for the object"
		}
	}
	// typeswitch default: the last typeassert in the chain failed
	if ex, ok := ifi.Cond.(*ssa.Extract); ok && ex.Index == 1 {
		if _, isTA := ex.Tuple.(*ssa.TypeAssert); isTA && !truth {
			return "typecheck", "an operand has the wrong type"
		}
	}
	// boolean flags derived from type tests (aIsReal || aIsInt …)
	if strings.Contains(c.valShape(ifi.Cond), ".(") {
		return "typecheck", "an operand has the wrong type"
	}
	return "", ""
}

// stackDepthExpr: len(intp.Stack) plus or minus a constant, possibly converted.
func stackDepthExpr(v ssa.Value, T *types.TypeName) bool {
	for i := 0; i < 6; i++ {
		v = origin(v)
		if lenOfField(v, T, "Stack") {
			return true
		}
		switch x := v.(type) {
		case *ssa.Convert:
			v = x.X
		case *ssa.ChangeType:
			v = x.X
		case *ssa.BinOp:
			if _, isC := constInt(x.Y); isC && (x.Op == token.ADD || x.Op == token.SUB) {
				v = x.X
			} else {
				return false
			}
		default:
			return false
		}
	}
	return false
}

// fromOperand: v is computed from an element of the operand stack (not from a loop counter or a depth).
func fromOperand(v ssa.Value, T *types.TypeName) bool {
	seen := map[ssa.Value]bool{}
	var walk func(v ssa.Value) bool
	walk = func(v ssa.Value) bool {
		v = origin(v)
		if seen[v] {
			return false
		}
		seen[v] = true
		if _, ok := stackOperand(v, T); ok {
			return true
		}
		switch x := v.(type) {
		case *ssa.Convert:
			return walk(x.X)
		case *ssa.ChangeType:
			return walk(x.X)
		case *ssa.Extract:
			return walk(x.Tuple)
		case *ssa.TypeAssert:
			return walk(x.X)
		case *ssa.BinOp:
			return walk(x.X) || walk(x.Y)
		case *ssa.UnOp:
			return walk(x.X)
		case *ssa.Call:
			if b, ok := x.Call.Value.(*ssa.Builtin); ok && b.Name() == "len" {
				return walk(x.Call.Args[0])
			}
		}
		return false
	}
	return walk(v)
}

// (4) accepted-operand regions.

type regionCtx struct {
	c  *Ctx
	ia *interpAnchors
	f  *ssa.Function
	fi *funcInfo
}

// operand returns the SSA value of the integer operand at stack depth k (after its type assertion).
func (r *regionCtx) intOperand(k int64) ssa.Value {
	var res ssa.Value
	eachInstr(r.f, func(ins ssa.Instruction) {
		ex, ok := ins.(*ssa.Extract)
		if !ok || ex.Index != 0 {
			return
		}
		ta, ok := ex.Tuple.(*ssa.TypeAssert)
		if !ok || !typeIsNamed(ta.AssertedType, r.c.typeObj("postscript", "Integer")) {
			return
		}
		if d, ok := stackOperand(ta.X, r.ia.T); ok && d == k && res == nil {
			res = ex
		}
	})
	if res == nil {
		// in a helper the operand arrives as a parameter of type Integer
		for _, p := range r.f.Params {
			if typeIsNamed(p.Type(), r.c.typeObj("postscript", "Integer")) {
				return p
			}
		}
	}
	return res
}

func (c *Ctx) operandRegions(ia *interpAnchors, reg *registry) {
	type check struct {
		op      string
		desc    string
		anchors func(r *regionCtx) []ssa.Instruction
		region  func(r *regionCtx, at ssa.Instruction) ([]Lin, []string)
	}
	indexLike := func(op string, idxDepth int64) check {
		return check{
			op:   op,
			desc: "0 <= index < length",
			anchors: func(r *regionCtx) []ssa.Instruction {
				var out []ssa.Instruction
				eachInstr(r.f, func(ins ssa.Instruction) {
					if ix, ok := ins.(*ssa.IndexAddr); ok {
						if _, isOp := stackOperand(ix.X, r.ia.T); isOp {
							if _, _, isStack := fieldOf(origin(ix.X)); !isStack {
								out = append(out, ix)
							}
						}
					}
				})
				return out
			},
			region: func(r *regionCtx, at ssa.Instruction) ([]Lin, []string) {
				ix := at.(*ssa.IndexAddr)
				i := r.fi.term(ix.Index)
				n := r.fi.lenOf(ix.X)
				return []Lin{i, n.sub(i).addK(-1)}, atomsOf(i, n)
			},
		}
	}
	checks := []check{indexLike("get", 1), indexLike("put", 2),
		{
			op: "getinterval", desc: "0 <= index, 0 <= count, index + count <= length",
			anchors: func(r *regionCtx) []ssa.Instruction {
				var out []ssa.Instruction
				eachInstr(r.f, func(ins ssa.Instruction) {
					if sl, ok := ins.(*ssa.Slice); ok && sl.Low != nil && sl.High != nil {
						out = append(out, sl)
					}
				})
				if len(out) == 0 {
					// the slicing is done by closures made here: the calls of those closures
					eachInstr(r.f, func(ins ssa.Instruction) {
						if call, ok := ins.(*ssa.Call); ok && len(closureSlices(call)) > 0 {
							out = append(out, call)
						}
					})
				}
				return out
			},
			region: func(r *regionCtx, at ssa.Instruction) ([]Lin, []string) {
				if call, ok := at.(*ssa.Call); ok {
					// every closure that may be called slices a value captured here with bounds
					// taken from the arguments: the region is stated on the arguments of the call
					// and on the length of the captured value
					var region []Lin
					var atoms []string
					key := ""
					for _, cs := range closureSlices(call) {
						lo := r.fi.term(cs.lo)
						hi := r.fi.term(cs.hi)
						n := r.fi.lenOf(cs.x)
						reg := []Lin{lo, hi.sub(lo), n.sub(hi)}
						if key != "" && key != fmt.Sprint(reg) {
							return nil, nil
						}
						key, region, atoms = fmt.Sprint(reg), reg, atomsOf(lo, hi, n)
					}
					return region, atoms
				}
				sl := at.(*ssa.Slice)
				lo := r.fi.term(sl.Low)
				hi := r.fi.term(sl.High)
				n := r.fi.lenOf(sl.X)
				// operands: index = lo, count = hi - lo
				return []Lin{lo, hi.sub(lo), n.sub(hi)}, atomsOf(lo, hi, n)
			},
		},
		{
			op: "putinterval", desc: "0 <= index, index + length(source) <= length(destination)",
			anchors: func(r *regionCtx) []ssa.Instruction {
				var out []ssa.Instruction
				eachInstr(r.f, func(ins ssa.Instruction) {
					if sl, ok := ins.(*ssa.Slice); ok && sl.Low != nil && sl.High == nil {
						if _, isOp := stackOperand(sl.X, r.ia.T); isOp {
							out = append(out, sl)
						}
					}
				})
				return out
			},
			region: func(r *regionCtx, at ssa.Instruction) ([]Lin, []string) {
				sl := at.(*ssa.Slice)
				idx := r.fi.term(sl.Low)
				nd := r.fi.lenOf(sl.X)
				// the source: the second argument of the copy that uses this slice
				var ns Lin
				found := false
				for _, u := range *sl.Referrers() {
					if call, ok := u.(*ssa.Call); ok {
						if b, ok := call.Call.Value.(*ssa.Builtin); ok && b.Name() == "copy" {
							ns = r.fi.lenOf(call.Call.Args[1])
							found = true
						}
					}
				}
				if !found {
					return nil, nil
				}
				return []Lin{idx, nd.sub(idx).sub(ns)}, atomsOf(idx, nd, ns)
			},
		},
		{
			op: "copy", desc: "0 <= n <= number of operands below",
			anchors: func(r *regionCtx) []ssa.Instruction {
				var out []ssa.Instruction
				eachInstr(r.f, func(ins ssa.Instruction) {
					if sl, ok := ins.(*ssa.Slice); ok && sl.Low != nil && sl.High == nil && isFieldLoad(sl.X, r.ia.T, "Stack") {
						out = append(out, sl)
					}
				})
				return out
			},
			region: func(r *regionCtx, at ssa.Instruction) ([]Lin, []string) {
				sl := at.(*ssa.Slice)
				n := r.fi.term(r.intOperand(1))
				ln := r.fi.lenOf(sl.X) // after the count was popped
				return []Lin{n, ln.sub(n)}, atomsOf(n, ln)
			},
		},
		{
			op: "index", desc: "0 <= n < number of operands below",
			anchors: func(r *regionCtx) []ssa.Instruction {
				var out []ssa.Instruction
				eachInstr(r.f, func(ins ssa.Instruction) {
					if ix, ok := ins.(*ssa.IndexAddr); ok && isFieldLoad(ix.X, r.ia.T, "Stack") {
						if bo, ok := ix.Index.(*ssa.BinOp); ok {
							if k, isC := constInt(bo.Y); isC && k == 1 && bo.Op == token.SUB {
								if b2, ok := bo.X.(*ssa.BinOp); ok && b2.Op == token.SUB {
									out = append(out, ix)
								}
							}
						}
					}
				})
				return out
			},
			region: func(r *regionCtx, at ssa.Instruction) ([]Lin, []string) {
				ix := at.(*ssa.IndexAddr)
				n := r.fi.term(r.intOperand(1))
				ln := r.fi.lenOf(ix.X) // after the count was popped
				return []Lin{n, ln.sub(n).addK(-1)}, atomsOf(n, ln)
			},
		},
	}
	for _, ck := range checks {
		f := reg.op("systemdict", ck.op)
		fname := c.fname(f)
		if ck.op == "putinterval" {
			// decided on the evaluator (ext_x7.go): the operator is evaluated on every index around the
			// ends of the destination and of the integer range × source lengths 0..4, for arrays and
			// strings, helpers (generic ones included) evaluated in place; the entailment below only
			// if an evaluation stops
			stopped := ""
			for _, kind := range []string{"Array", "String"} {
				bad, _, cells, decided, why := c.putintervalByEvaluation(f, kind)
				if !decided {
					stopped = why
					break
				}
				c.check(len(bad) == 0, "OP-REGION", fname, ck.op+": accepted operands ≡ "+ck.desc+" ("+strings.ToLower(kind)+")", f.Pos(), fmt.Sprintf("%d cells evaluated: index × length of the source", cells),
					ck.op+": "+joinMax(bad, 3))
			}
			if stopped == "" {
				continue
			}
			c.note("OP-REGION: the evaluation of putinterval stops (%s); deciding on the guards that dominate the copy", stopped)
		}
		if ck.op == "getinterval" {
			// decided on the evaluator (ext_y3.go): index × count around the ends of the object and of
			// the integer range, for arrays and strings; the entailment below only if an evaluation stops
			stopped := ""
			type res struct {
				kind  string
				bad   []string
				cells int
			}
			var rs []res
			for _, kind := range []string{"Array", "String"} {
				bad, cells, decided, why := c.getintervalByEvaluation(f, kind)
				if !decided {
					stopped = why
					break
				}
				rs = append(rs, res{kind, bad, cells})
			}
			if stopped == "" {
				for _, r := range rs {
					c.check(len(r.bad) == 0, "OP-REGION", fname, ck.op+": accepted operands ≡ "+ck.desc+" ("+strings.ToLower(r.kind)+")", f.Pos(), fmt.Sprintf("%d cells evaluated: index × count", r.cells),
						ck.op+": "+joinMax(r.bad, 3))
				}
				continue
			}
			c.note("OP-REGION: the evaluation of getinterval stops (%s); deciding on the guards that dominate the slicing", stopped)
		}
		rc := &regionCtx{c: c, ia: ia, f: f, fi: newFuncInfo(f)}
		anchors := ck.anchors(rc)
		if len(anchors) == 0 {
			// the guarded access may have moved, together with its guards, into a helper
			eachInstr(f, func(ins ssa.Instruction) {
				if call, ok := ins.(ssa.CallInstruction); ok && len(anchors) == 0 {
					if g := call.Common().StaticCallee(); g != nil && c.inModule(g) && len(g.Blocks) > 0 && g != ia.e {
						rc2 := &regionCtx{c: c, ia: ia, f: g, fi: newFuncInfo(g)}
						if a2 := ck.anchors(rc2); len(a2) > 0 {
							rc, anchors = rc2, a2
						}
					}
				}
			})
		}
		if len(anchors) == 0 {
			c.undecided("OP-REGION", fname, ck.op+": accepted operands", f.Pos(), "the instruction that uses the accepted operands was not found")
			continue
		}
		for _, at := range anchors {
			region, atoms := ck.region(rc, at)
			if region == nil {
				c.undecided("OP-REGION", fname, ck.op+": accepted operands", at.Pos(), "the PLRM region could not be expressed for this access")
				continue
			}
			facts := rc.fi.factsAt(at.Block(), at)
			construct := ck.op + ": accepted operands ≡ " + ck.desc + " (" + c.valShape(at.(ssa.Value)) + ")"
			// not too lax: guards entail the region
			lax := ""
			for _, g := range region {
				if !rc.fi.prove([]Lin{g}, facts, 0) {
					lax = renderFact(g)
				}
			}
			// not too strict: the region (plus type ranges) entails every guard that speaks only about the operands
			strict := ""
			gf, _ := splitNEQ(facts)
			for _, fct := range gf {
				only := true
				for a := range fct.coef {
					found := false
					for _, x := range atoms {
						if x == a {
							found = true
						}
					}
					if !found {
						only = false
					}
				}
				if !only || len(fct.coef) == 0 {
					continue
				}
				if !rc.fi.prove([]Lin{fct}, region, 0) {
					strict = renderFact(fct)
				}
			}
			switch {
			case lax != "":
				c.fail("OP-REGION", fname, construct, at.Pos(), ck.op+" accepts operands outside the PLRM domain: the guards do not ensure "+lax)
			case strict != "":
				c.fail("OP-REGION", fname, construct, at.Pos(), ck.op+" rejects operands the PLRM allows: the guard "+strict+" does not follow from "+ck.desc)
			default:
				c.ok("OP-REGION", fname, construct, at.Pos(), "guards ⇔ PLRM region (mutual entailment)", "")
			}
		}
	}
	c.floor("OP-REGION", 8)
	// narrowing conversions of operands are range-checked (string put: 0..255)
	put := reg.op("systemdict", "put")
	fi := newFuncInfo(put)
	eachInstr(put, func(ins ssa.Instruction) {
		cv, ok := ins.(*ssa.Convert)
		if !ok {
			return
		}
		bt, _, okT := isIntType(cv.Type())
		bf, _, okF := isIntType(cv.X.Type())
		if !okT || !okF || bt >= bf {
			return
		}
		x := fi.term(cv.X)
		lo, hi := typeRange(cv.Type())
		facts := fi.factsAt(cv.Block(), cv)
		okR := fi.prove([]Lin{x.sub(konstBig(lo)), konstBig(hi).sub(x)}, facts, 0)
		c.check(okR, "OP-REGION", c.fname(put), "put: value stored into a string lies in 0..255", cv.Pos(), "narrowing conversion dominated by a range check", "put narrows an integer operand to a byte without checking 0 <= value <= 255 (PLRM: rangecheck); `(a) dup 0 300 put` silently stores 44")
	})
	// sizes of array/string/dict and the count of repeat: lower bound 0 (upper bounds are C11's L6)
	for _, op := range []string{"array", "string", "dict", "repeat"} {
		f := reg.op("systemdict", op)
		if op != "repeat" {
			// decided on the evaluator (ext_w1.go): the operator is evaluated on sizes -1, 0, 1, 7 and
			// the largest integer, helpers that hold the tests evaluated in place; the facts at the
			// normal exits are consulted only if the evaluation stops
			if bad, decided, why := c.sizeOperandByEvaluation(f, op); decided {
				c.check(len(bad) == 0, "OP-REGION", c.fname(f), op+": count/size operand accepted iff >= 0 (up to the limit)", f.Pos(), "evaluated on -1, 0, 1, 7, maxint",
					op+": "+joinMax(bad, 3))
				continue
			} else {
				c.note("OP-REGION: the evaluation of %s stops (%s); deciding on the facts at its normal exits", op, why)
			}
		}
		rc := &regionCtx{c: c, ia: ia, f: f, fi: newFuncInfo(f)}
		depth := int64(1)
		if op == "repeat" {
			depth = 2
		}
		v := rc.intOperand(depth)
		if v == nil {
			c.undecided("OP-REGION", c.fname(f), op+": integer operand", f.Pos(), "integer operand not found")
			continue
		}
		// at the normal exits the operand is >= 0; and 0 itself is accepted
		t := rc.fi.term(v)
		okLo := true
		acceptsZero := true
		n := 0
		for _, r := range returns(f) {
			if !isNilConst(retValues(r, 0)[0]) {
				continue
			}
			n++
			facts := rc.fi.factsAt(r.Block(), r)
			if !rc.fi.prove([]Lin{t}, facts, 0) {
				okLo = false
			}
			gf, _ := splitNEQ(facts)
			for _, fct := range gf {
				if len(fct.coef) == 1 && fct.mentions(atomName(t)) {
					// fact k*t + c >= 0 must hold at t = 0
					if fct.c.Sign() < 0 && fct.coef[atomName(t)].Sign() > 0 {
						acceptsZero = false
					}
				}
			}
		}
		c.check(okLo && acceptsZero && n > 0, "OP-REGION", c.fname(f), op+": count/size operand accepted iff >= 0 (up to the limit)", f.Pos(), "0 <= n on every normal exit; n = 0 accepted",
			fmt.Sprintf("%s: negative operand rejected: %v; zero accepted: %v", op, okLo, acceptsZero))
	}
}

func atomName(l Lin) string {
	for a := range l.coef {
		return a
	}
	return ""
}

func atomsOf(ls ...Lin) []string {
	var out []string
	for _, l := range ls {
		for a := range l.coef {
			out = append(out, a)
		}
	}
	return out
}

// (5) overflow promotion: decided by evaluation of the operators on the SSA form (ext_f.go).
func (c *Ctx) overflowPromotion(reg *registry) {
	c.overflowByEvaluation(reg)
}

// intArith (OP-INTARITH): every addition, subtraction, multiplication and negation of an integer
// that derives from an operand, in a registered operator, either cannot wrap (fact engine, with
// the guards that dominate it) or belongs to the arithmetic operators whose overflow predicate is
// decided by OP-OVERFLOW.
func (c *Ctx) intArith(reg *registry) {
	tested := map[string]bool{"add": true, "sub": true, "mul": true, "abs": true}
	n := 0
	for _, e := range reg.builtins() {
		if tested[e.key] {
			continue
		}
		f := e.fn
		fi := newFuncInfo(f)
		eachInstr(f, func(ins ssa.Instruction) {
			bo, ok := ins.(*ssa.BinOp)
			if !ok || (bo.Op != token.ADD && bo.Op != token.SUB && bo.Op != token.MUL) {
				return
			}
			if _, _, isInt := isIntType(bo.Type()); !isInt {
				return
			}
			// only values that come from the operand stack matter (not indices and lengths)
			ia := c.interp()
			if !fromOperand(bo.X, ia.T) && !fromOperand(bo.Y, ia.T) {
				return
			}
			n++
			a, b := fi.term(bo.X), fi.term(bo.Y)
			var r Lin
			switch bo.Op {
			case token.ADD:
				r = a.add(b)
			case token.SUB:
				r = a.sub(b)
			default:
				r = fi.term(bo)
			}
			okNo := fi.noOverflow(bo, r)
			if !okNo {
				if lo, hi := typeRange(bo.Type()); lo != nil {
					okNo = fi.proveWithJoins([]Lin{r.sub(konstBig(lo)), konstBig(hi).sub(r)}, bo.Block(), bo, 3)
				}
			}
			c.check(okNo, "OP-INTARITH", c.fname(f), e.key+": "+c.valShape(bo)+" cannot wrap", bo.Pos(), "entailed by the dominating guards", e.key+" computes "+c.valShape(bo)+" on operand values without a guard that keeps it inside the integer range: for operands near the ends of the range the result wraps around")
		})
	}
	c.note("OP-INTARITH: %d operand-derived integer operations inspected", n)
}
